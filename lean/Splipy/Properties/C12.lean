import Splipy.Lemmas.C12Compat
import Splipy.Lemmas.C12Merge
import Splipy.Lemmas.C12Union
import Splipy.Lemmas.C12Stages
import Splipy.Lemmas.C12Curve
import Splipy.Lemmas.C12Raise
import Splipy.Lemmas.C12Direction
import Splipy.Lemmas.C05RaisesTo
import Splipy.Lemmas.C12Periodic
import Splipy.Lemmas.C12All
import Splipy.Lemmas.C12Core
import Splipy.Lemmas.C12Entries
import Splipy.Lemmas.C12Common
import Splipy.Lemmas.C12PerPair
import Splipy.Lemmas.C12Examples
import Mathlib.Data.Rat.Floor
import Mathlib.Tactic.NormNum

/-!
# Property C12 — `make_splines_identical`: one common discretisation, both geometries unchanged

Model: `Model/Identical.lean` (`Obj.makeCompatible`, `Obj.makeIdentical` and its stages
`stageReparam`, `stagePeriodic`, `stageOrder`, `stageMerge`; the knot half of the two insertion
passes on bare bases is `Obj.mergeKnots`), composed from the models of the called methods
(`Model/Object.lean`, `Periodic.lean`, `Order.lean`, `BasisOps.lean`).

Vocabulary (helper files `Lemmas/C12*.lean`):
* `Obj.WF`, `Obj.npts`, `Obj.cp`, `Obj.cpPhys`, `Obj.cpWt`, `C09.evalPt` — control points of an object
  and the evaluated point for an arbitrary finite family of basis weights (property C09);
* `C12.cont p m` — what `continuity` returns at a knot of multiplicity `m` (`none = inf`, absent);
* `expand u m`, `clampedU x0 xl umid`, `clampedM p mmid`, `openBasis`, `Separated tol u` — a clamped knot
  vector written as distinct values with multiplicities and the separation hypothesis (C05);
* `C06.WF o m`, `C06.toTP o m comp`, `C06.TP.eval` — a well-formed object with `m` directions and the
  defining (wrapped) tensor-product sum of its homogeneous component `comp` (C06);
* `C12.ClampedCont b` (decidable) — `b` is non-periodic of order `≥ 2`, its knot vector is `order` copies of
  `start`, interior knots strictly inside the domain each at most `order - 1` times, `order` copies of `end`;
  `C12.PairSeparated δ l₁ l₂` (decidable) — any two knots of the two lists are equal or more than `δ` apart;
  `C12.commonEntries b₁ b₂` (computable) — the merged run-length encoding of the interior knots of the two
  NORMALISED knot vectors: one entry (value, multiplicity in `b₁`, multiplicity in `b₂`; `0` = absent) per
  distinct knot; `C12.unionBasis p₁ p₂ L` — the clamped basis of order `max p₁ p₂` on `[0,1]` over the entries
  `L` with multiplicities `max (m₁ + (p - p₁)) (m₂ + (p - p₂))` (absent stays absent);
* `C12.SameMap m o o'` — same number of components and every component's defining sum agrees at all
  parameters and sides; `C12.Rescaled m d a b o o'` — the same with `u_d ↦ (u_d - a)/(b - a)`.
-/

open Splipy Splipy.Obj Splipy.C12

set_option linter.unusedSectionVars false

variable {K : Type} [Field K] [LinearOrder K] [IsStrictOrderedRing K] [FloorRing K]

/-! ## make_splines_compatible -/

/-- **After `make_splines_compatible` both objects have the same physical dimension (`max d₁ d₂`)
and rationality (`r₁ ∨ r₂`)**; the bases and the number of control points are untouched; every
control point keeps its coordinates, the padded coordinates `d_j ≤ c < max d₁ d₂` are zero, the
weights are the old weights (`cpWt = 1` for a non-rational object) and are literally `1` when the
object was promoted to a rational one; hence for EVERY finite family of basis weights `w` over the
control points (B-spline products of any parametric dimension, any parameter) the evaluated point is
the old one, zero in the padded coordinates.  Running it a second time changes nothing. -/
theorem C12_compatible {o1 o2 : Obj K} (h1 : o1.WF) (h2 : o2.WF) :
    let r := makeCompatible o1 o2
    (r.1.dimension = max o1.dimension o2.dimension ∧ r.2.dimension = max o1.dimension o2.dimension)
    ∧ (r.1.rational = (o1.rational || o2.rational) ∧ r.2.rational = (o1.rational || o2.rational))
    ∧ (r.1.bases = o1.bases ∧ r.2.bases = o2.bases ∧ r.1.npts = o1.npts ∧ r.2.npts = o2.npts
        ∧ r.1.WF ∧ r.2.WF)
    ∧ (∀ o r' : Obj K, (o = o1 ∧ r' = r.1) ∨ (o = o2 ∧ r' = r.2) →
        (∀ pI < o.npts, ∀ c < r'.dimension, r'.cp pI c = if c < o.dimension then o.cp pI c else 0)
        ∧ (∀ pI < o.npts, r'.cpWt pI = o.cpWt pI)
        ∧ (o.rational = false → r'.rational = true → ∀ pI < o.npts, r'.cp pI r'.dimension = 1)
        ∧ (o.rational = true → ∀ pI < o.npts, r'.cp pI r'.dimension = o.cp pI o.dimension)
        ∧ (∀ (s : Finset ℕ), (∀ i ∈ s, i < o.npts) → ∀ w : ℕ → K,
            C09.evalPt s w r'.cpPhys r'.cpWt = C09.evalPt s w o.cpPhys o.cpWt
            ∧ ∀ c, o.dimension ≤ c → C09.evalPt s w r'.cpPhys r'.cpWt c = 0))
    ∧ makeCompatible r.1 r.2 = r := by
  intro r
  obtain ⟨e1, e2, d1, d2, r1, r2⟩ := makeCompatible_spec h1 h2
  refine ⟨⟨d1, d2⟩, ⟨r1, r2⟩, ⟨e1.bases, e2.bases, e1.npts, e2.npts, e1.wf, e2.wf⟩, ?_,
    makeCompatible_idem h1 h2⟩
  have key : ∀ o r' : Obj K, Embeds o r' → (o.rational = true → r'.rational = true) →
      (∀ pI < o.npts, ∀ c < r'.dimension, r'.cp pI c = if c < o.dimension then o.cp pI c else 0)
      ∧ (∀ pI < o.npts, r'.cpWt pI = o.cpWt pI)
      ∧ (o.rational = false → r'.rational = true → ∀ pI < o.npts, r'.cp pI r'.dimension = 1)
      ∧ (o.rational = true → ∀ pI < o.npts, r'.cp pI r'.dimension = o.cp pI o.dimension)
      ∧ (∀ (s : Finset ℕ), (∀ i ∈ s, i < o.npts) → ∀ w : ℕ → K,
          C09.evalPt s w r'.cpPhys r'.cpWt = C09.evalPt s w o.cpPhys o.cpWt
          ∧ ∀ c, o.dimension ≤ c → C09.evalPt s w r'.cpPhys r'.cpWt c = 0) := by
    intro o r' e hrat
    refine ⟨fun pI hp c hc => e.cp pI hp c hc, e.wt, fun hr hr' pI hp => e.weight_one hr hr' pI hp, ?_, ?_⟩
    · intro hr pI hp
      exact e.weight_kept hr (hrat hr) pI hp
    · intro s hs w
      have hev := e.evalPt s hs w
      refine ⟨hev, fun c hc => ?_⟩
      rw [hev, C09.evalPt_apply]
      have : ∀ i ∈ s, w i * o.cpPhys i c = 0 := by
        intro i _
        rw [o.cpPhys_support i c hc, mul_zero]
      rw [Finset.sum_eq_zero this, zero_div]
  rintro o r' (⟨rfl, rfl⟩ | ⟨rfl, rfl⟩)
  · exact key _ _ e1 (fun h => by rw [r1, h]; rfl)
  · exact key _ _ e2 (fun h => by rw [r2, h]; simp)

/-! ## The two mutual insertion passes -/

/-- **Insertion counts** (complete, pure arithmetic on `continuity = p - 1 - multiplicity`, `inf` for
an absent knot; valid for periodic and non-periodic bases alike since only the multiplicities
enter).  At a knot with multiplicity `m₁` in spline 1 and `m₂` in spline 2 (`0` = absent):
* the first pass (`if c2 > c1: m = min(c2-c1, p-1-c1)`) puts `max(m₁,m₂) - m₂` copies into spline 2,
  which then has `max(m₁,m₂)`;
* the second pass, which sees spline 2 AFTER the first pass (live alias `b2`), puts
  `max(m₁,m₂) - m₁` copies into spline 1, which then has `max(m₁,m₂)` as well;
* `max(m₁,m₂) ≤ p - 1` when both are: the merged objects are still continuous. -/
theorem C12_knot_merge_counts (p m1 m2 : ℕ) :
    mergeCount p (cont p m1) (cont p m2) = max m1 m2 - m2
    ∧ m2 + (max m1 m2 - m2) = max m1 m2
    ∧ mergeCount p (cont p (max m1 m2)) (cont p m1) = max m1 m2 - m1
    ∧ m1 + (max m1 m2 - m1) = max m1 m2
    ∧ (m1 ≤ p - 1 → m2 ≤ p - 1 → max m1 m2 ≤ p - 1) := by
  refine ⟨mergeCount_cont p m1 m2, (merge_totals m1 m2).1, ?_, ?_, merge_le p m1 m2⟩
  · rw [mergeCount_cont, max_comm (max m1 m2) m1, max_eq_right (le_max_left m1 m2)]
  · have := le_max_left m1 m2; omega

/-- **After the two passes both knot vectors are the union with multiplicity `max(m₁,m₂)`.**
Two clamped (open) bases of the same order `p ≥ 2` over the common end knots `x0`, `xl` (multiplicity
`p`) and the common list `L` of interior entries (value, multiplicity in basis 1, multiplicity in
basis 2; `0` = the value is absent from that basis), the distinct values being separated by more
than `tol` (knots of the two vectors are pairwise exactly equal or more than `tol` apart):
* both input bases and the result are valid;
* `continuity` sees `p - 1 - m` (`inf` when absent) at every entry, so the first pass
  (`b1.knot_spans()` → values for spline 2) collects exactly `max(m₁,m₂) - m₂` copies of every value
  and the second pass (`b2.knot_spans()` of the OLD `b2`, continuities of the live, already refined
  `b2`) exactly `max(m₁,m₂) - m₁` copies;
* inserting them gives, in both cases, the clamped basis with multiplicities `max(m₁,m₂)`:
  `mergeKnots = (b, b)` — identical order, periodicity and knot vector;
* the object-level stage `stageMerge` of `make_splines_identical`, run on any two objects that
  carry `b1`, `b2` in direction `i`, leaves both with basis `b` in that direction.

`_partial`: non-periodic clamped bases only.  For periodic bases (after `lower_periodic` both have
the same periodicity) the counts are the same arithmetic (`C12_knot_merge_counts`) but
`continuity`'s wrap-around, `knot_spans` without ghost knots and the ghost-knot repair of periodic
`insert_knot` (property C04, itself partial there) are not formalised; they are exercised by the
correspondence run.  Knot vectors whose values are closer than `tol` without being equal are outside
the hypothesis (the tolerance-based matching of the code has no clean statement there). -/
theorem C12_knot_merge_partial (tol : K) (htol : 0 < tol) (p : ℕ) (hp : 2 ≤ p) (x0 xl : K)
    (L : List (K × ℕ × ℕ)) (hsep : Separated tol (clampedU x0 xl (L.map (·.1)))) :
    let U := clampedU x0 xl (L.map (·.1))
    let b1 := openBasis p U (clampedM p (L.map (·.2.1)))
    let b2 := openBasis p U (clampedM p (L.map (·.2.2)))
    let b := openBasis p U (clampedM p (L.map (fun e => max e.2.1 e.2.2)))
    (b1.Valid ∧ b2.Valid ∧ b.Valid)
    ∧ mergeInserts tol p b1 b2 true (b1.knotSpans tol false).toList
        = .ok (expand (L.map (·.1)) (L.map (fun e => max e.2.1 e.2.2 - e.2.2)))
    ∧ insertAll b2 (expand (L.map (·.1)) (L.map (fun e => max e.2.1 e.2.2 - e.2.2))) = .ok b
    ∧ mergeInserts tol p b1 b false (b2.knotSpans tol false).toList
        = .ok (expand (L.map (·.1)) (L.map (fun e => max e.2.1 e.2.2 - e.2.1)))
    ∧ insertAll b1 (expand (L.map (·.1)) (L.map (fun e => max e.2.1 e.2.2 - e.2.1))) = .ok b
    ∧ mergeKnots tol p b1 b2 = .ok (b, b)
    ∧ (∀ e ∈ L, e.2.1 ≤ p - 1 → e.2.2 ≤ p - 1 → max e.2.1 e.2.2 ≤ p - 1)
    ∧ (∀ (c r : Obj K × Obj K) (i : ℕ), i < c.1.bases.size → i < c.2.bases.size →
        c.1.basis i = b1 → c.2.basis i = b2 → stageMerge tol p c i = .ok r →
        r.1.basis i = b ∧ r.2.basis i = b) := by
  intro U b1 b2 b
  have hp1 : 1 ≤ p := by omega
  have hlen : ∀ g : K × ℕ × ℕ → ℕ, (L.map (·.1)).length = (L.map g).length := fun g => by simp
  obtain ⟨h1, h2, h3, h4, h5⟩ := mergeKnots_clamped tol htol p hp x0 xl L hsep
  refine ⟨⟨clamped_valid tol htol p hp1 x0 xl _ _ (hlen _) hsep,
      clamped_valid tol htol p hp1 x0 xl _ _ (hlen _) hsep,
      clamped_valid tol htol p hp1 x0 xl _ _ (hlen _) hsep⟩, h1, h2, h3, h4, h5,
    fun e _ ha hb => max_le ha hb, ?_⟩
  intro c r i hi1 hi2 hb1 hb2 hrun
  have := stageMerge_bases hi1 hi2 hrun
  rw [hb1, hb2] at this
  have h5' : mergeKnots tol p b1 b2 = .ok (b, b) := h5
  rw [h5'] at this
  injection this with this
  injection this with e1 e2
  exact ⟨e1.symm, e2.symm⟩

/-! ## Geometry -/

/-- **Each object still evaluates, at the rescaled parameter, to the map it represented before**
(one requested direction `i`; objects after `make_splines_compatible`, see `C12_compatible` for
that step).  `s ↦ a ↦ b ↦ c ↦ r` are the states after `reparam`, `lower_periodic`, `raise_order`
and the two `insert_knot` passes.  Conclusion: the run of `identicalDir` is these four stages, and
for both objects every homogeneous component of the result at
`u_i ↦ (u_i - start_i)/(end_i - start_i)` (other parameters unchanged; every side) equals the
component of the input, for every parameter whose `i`-th entry lies in the domain of direction `i`
(`RescaledOn`) — for rational objects numerator and weight are rescaled by the same map, so the
quotient is unchanged too.  (The restriction to the domain is essential as soon as a periodic basis is
involved: outside `[start, end]` the finite defining sum of a periodic basis is not the periodic map,
and `lower_periodic` does change it there.  For non-periodic directions `C12_open_direction_partial`
has the statement for all parameters.)

Proved here: the `reparam` step (property C06, `C12.reparam_rescaled`), the composition, and that
the steps which have nothing to do really do nothing (`b = a` for equal periodicities, the object of
maximal order is not touched by `raise_order(0)`).

`_partial`: the three remaining steps enter as NAMED hypotheses, each quantified only over the call
that is actually made, each in the form `SameMapOn m i · ·` (same domain in direction `i`, same map on it):
* `H_lower₁/₂` — `lower_periodic` keeps the evaluated map (property C08: `C08_lower_periodic`, any valid
  periodic direction, lifted to the tensor-product sum in `C12.lowerPeriodic_sameMapOn` and discharged in
  `C12_periodic_direction_partial` and `C12_periodic_pair_partial`);
* `H_raise₁/₂` — `raise_order(amount > 0)` keeps the evaluated map (property C05; proved in full
  for clamped bases in ONE parametric direction and discharged for curves in `C12_open_curves_partial`
  (`C12.raise_to_common`); open for periodic bases and for pardim 2–3, where `raise_order`
  re-interpolates all directions at once and C05 has no composition theorem);
* `H_insert₁/₂` — `insert_knot(list)` keeps the evaluated map (property C04: `C04_object` proves it
  for every fibre of a non-periodic direction; the identification of the fibre splines with the
  tensor-product sum `C06.TP.eval` is `C12.toTP_eval_fibre`, so for a NON-periodic direction this
  hypothesis is discharged for any pardim — `C12.insertKnots_sameMap`, used in `C12_open_curves_partial` and
  `C12_open_direction_partial` —; periodic insertion (direct algorithm or cover branch, any number of
  functions: `C04.insertKnots_fibres_periodic_all`) is lifted in `C12.insertKnots_sameMapOn_periodic` and
  used in `C12_periodic_pair_partial`).
So the theorem is complete exactly when periodicities and orders already agree and nothing has to be
inserted, and otherwise partial to the extent C08 / C05 / C04 are.  The correspondence run decides
all six hypotheses in exact rational arithmetic for every generated pair (`same1`, `same2`). -/
theorem C12_geometry_partial {m : ℕ} (tol : K) (c1 c2 : Bool) (s a b c r : Obj K × Obj K) (i : Fin m)
    (hw1 : C06.WF s.1 m) (hw2 : C06.WF s.2 m)
    (ha : stageReparam s i = .ok a) (hb : stagePeriodic a i = .ok b)
    (hc : stageOrder tol c1 c2 b i = .ok c)
    (hr : stageMerge tol (max (b.1.basis i).order (b.2.basis i).order) c i = .ok r)
    (H_lower₁ : ∀ k, a.1.lowerPeriodic k i = .ok b.1 → SameMapOn m i a.1 b.1)
    (H_lower₂ : ∀ k, a.2.lowerPeriodic k i = .ok b.2 → SameMapOn m i a.2 b.2)
    (H_raise₁ : ∀ (amount : Int) ret, 0 < amount →
      b.1.raiseOrderDispatch tol c1 [amount] (some ((i : ℕ) : Int)) = .ok (ret, c.1) → SameMapOn m i b.1 c.1)
    (H_raise₂ : ∀ (amount : Int) ret, 0 < amount →
      b.2.raiseOrderDispatch tol c2 [amount] (some ((i : ℕ) : Int)) = .ok (ret, c.2) → SameMapOn m i b.2 c.2)
    (H_insert₁ : ∀ xs, c.1.insertKnots xs i = .ok r.1 → SameMapOn m i c.1 r.1)
    (H_insert₂ : ∀ xs, c.2.insertKnots xs i = .ok r.2 → SameMapOn m i c.2 r.2) :
    identicalDir tol c1 c2 s i = .ok r
    ∧ RescaledOn m i (s.1.basis i).start (s.1.basis i).stop s.1 r.1
    ∧ RescaledOn m i (s.2.basis i).start (s.2.basis i).stop s.2 r.2
    ∧ ((a.1.basis i).start = 0 ∧ (a.1.basis i).stop = 1 ∧ (a.2.basis i).start = 0 ∧ (a.2.basis i).stop = 1)
    ∧ ((a.1.basis i).periodic = (a.2.basis i).periodic → b = a)
    ∧ ((b.2.basis i).order ≤ (b.1.basis i).order → c.1 = b.1)
    ∧ ((b.1.basis i).order ≤ (b.2.basis i).order → c.2 = b.2) := by
  obtain ⟨_, _, ha1, ha2⟩ := stageReparam_ok ha
  -- lower_periodic
  have hab : SameMapOn m i a.1 b.1 ∧ SameMapOn m i a.2 b.2 := by
    rcases stagePeriodic_ok hb with ⟨_, h⟩ | ⟨_, h1, h2⟩ | ⟨_, h1, h2⟩
    · rw [h]; exact ⟨SameMapOn.refl _ _, SameMapOn.refl _ _⟩
    · exact ⟨SameMapOn.of_eq h1, H_lower₂ _ h2⟩
    · exact ⟨H_lower₁ _ h2, SameMapOn.of_eq h1⟩
  have hba : (a.1.basis i).periodic = (a.2.basis i).periodic → b = a := by
    intro hk
    rcases stagePeriodic_ok hb with ⟨_, h⟩ | ⟨hlt, _⟩ | ⟨hlt, _⟩
    · exact h
    · omega
    · omega
  -- raise_order
  obtain ⟨r1, r2, hr1, hr2⟩ := stageOrder_ok hc
  have hmax1 : (0 : Int) ≤ ((max (b.1.basis i).order (b.2.basis i).order : ℕ) : Int) - (b.1.basis i).order := by
    have := le_max_left (b.1.basis i).order (b.2.basis i).order; omega
  have hmax2 : (0 : Int) ≤ ((max (b.1.basis i).order (b.2.basis i).order : ℕ) : Int) - (b.2.basis i).order := by
    have := le_max_right (b.1.basis i).order (b.2.basis i).order; omega
  have hbc1 : SameMapOn m i b.1 c.1 := by
    rcases eq_or_lt_of_le hmax1 with h0 | hpos
    · rw [← h0] at hr1; exact SameMapOn.of_eq (raiseOrderDispatch_zero hr1)
    · exact H_raise₁ _ _ hpos hr1
  have hbc2 : SameMapOn m i b.2 c.2 := by
    rcases eq_or_lt_of_le hmax2 with h0 | hpos
    · rw [← h0] at hr2; exact SameMapOn.of_eq (raiseOrderDispatch_zero hr2)
    · exact H_raise₂ _ _ hpos hr2
  -- insert_knot
  obtain ⟨ins2, ins1, _, hk2, _, hk1⟩ := stageMerge_ok hr
  have hre1 := reparam_rescaled hw1 i ha1
  have hre2 := reparam_rescaled hw2 i ha2
  refine ⟨identicalDir_of_stages ha hb hc hr,
    hre1.1.trans_on (hw1.valid i).start_lt_stop ⟨hre1.2.2.1, hre1.2.2.2⟩ ((hab.1.trans hbc1).trans (H_insert₁ _ hk1)),
    hre2.1.trans_on (hw2.valid i).start_lt_stop ⟨hre2.2.2.1, hre2.2.2.2⟩ ((hab.2.trans hbc2).trans (H_insert₂ _ hk2)),
    ⟨hre1.2.2.1, hre1.2.2.2, hre2.2.2.1, hre2.2.2.2⟩, hba, ?_, ?_⟩
  · intro hle
    have : ((max (b.1.basis i).order (b.2.basis i).order : ℕ) : Int) - (b.1.basis i).order = 0 := by
      rw [max_eq_left hle]; omega
    rw [this] at hr1
    exact raiseOrderDispatch_zero hr1
  · intro hle
    have : ((max (b.1.basis i).order (b.2.basis i).order : ℕ) : Int) - (b.2.basis i).order = 0 := by
      rw [max_eq_right hle]; omega
    rw [this] at hr2
    exact raiseOrderDispatch_zero hr2

/-! ## Non-periodic (clamped) directions

Conventions for the theorems of this section.  `s` is the pair the per-direction body of
`make_splines_identical` starts from (the pair after `make_splines_compatible`); both objects are
well formed (`C06.WF`, which contains the validity of every basis).  The `reparam` stage is NOT a
hypothesis: it succeeds for well-formed objects (`C12.stageReparam_succeeds`, property C06) and its result
in direction `i` is the normalised basis `C06.reparamOk (s.j.basis i) 0 1` (knots
`(τ - start)/(end - start)`).

`C12_open_curves_partial`, `C12_open_surfaces_partial`, `C12_open_volumes_partial` and the two
`…_all_directions_partial` theorems put their knot hypotheses DIRECTLY ON THE TWO INPUT BASES of the
direction, all decidable: `ClampedCont` for each, and `PairSeparated δ` of the two normalised knot vectors
(`δ = 2·(max p₁ p₂ - 1)·tol`, the Schoenberg–Whitney spacing of property C05).  That every such pair can be
written over ONE common list of interior entries is proved (`C12_common_entries`), with the list computed
(`commonEntries`).  `C12_open_curves_same_order_partial` and `C12_open_direction_partial` (weaker
separation `tol`, resp. any pardim with `RaisesTo` as hypothesis) are still stated over an explicit
common entry list `L`.

GUARDS that go beyond the property's quantifier (hence `_partial`): orders `≥ 2`; direction `i`
non-periodic, clamped and continuous in both objects; knots of the two normalised vectors pairwise equal
or more than `δ` apart (closer distinct knots — which the code treats with its tolerance — are not
covered); for surfaces and volumes the two no-exception side conditions of a multi-directional
`raise_order` (`GrevilleOK` of the untouched directions, `raiseGuard`). -/

/-- **Every pair of clamped continuous knot vectors with separated knots has the common-entry form, and
the entries are computed.**  `b₁`, `b₂` valid and `ClampedCont` (orders `≥ 2`, any domains, any orders),
their normalised knots (after `reparam()` to `[0,1]`) pairwise equal or more than `δ ≥ 0` apart.  Then with
`L = commonEntries b₁ b₂` — one entry (value, multiplicity in `b₁`, multiplicity in `b₂`) per distinct
interior knot, `0` where absent — each normalised basis IS the clamped basis of its order over the distinct
values `0, L.map (·.1), 1` with its multiplicities; the distinct values are increasing and more than `δ`
apart; every multiplicity is at most `p_j - 1`. -/
theorem C12_common_entries (δ : K) (hδ : 0 ≤ δ) (b1 b2 : Basis K) (hv1 : b1.Valid) (hv2 : b2.Valid)
    (hc1 : ClampedCont b1) (hc2 : ClampedCont b2)
    (hsep : PairSeparated δ (C06.reparamOk b1 0 1).knots.toList (C06.reparamOk b2 0 1).knots.toList) :
    C06.reparamOk b1 0 1
        = openBasis b1.order (clampedU 0 1 ((commonEntries b1 b2).map (·.1)))
            (clampedM b1.order ((commonEntries b1 b2).map (·.2.1)))
      ∧ C06.reparamOk b2 0 1
        = openBasis b2.order (clampedU 0 1 ((commonEntries b1 b2).map (·.1)))
            (clampedM b2.order ((commonEntries b1 b2).map (·.2.2)))
      ∧ Separated δ (clampedU 0 1 ((commonEntries b1 b2).map (·.1)))
      ∧ ∀ e ∈ commonEntries b1 b2, e.2.1 ≤ b1.order - 1 ∧ e.2.2 ≤ b2.order - 1 :=
  common_entries δ hδ b1 b2 hv1 hv2 hc1 hc2 hsep

/-- **Two open curves of the same order** (weakest separation: distinct values more than `tol` apart).
`make_splines_identical` (direction 0) succeeds; both curves end with the SAME basis (order `p`,
non-periodic, the union knot vector with multiplicities `max(m₁,m₂)`); each curve evaluates at
`(u - start)/(end - start)` to exactly its old map (every homogeneous component, every side, every
parameter); both results are well formed.  No hypothesis on the called methods: `lower_periodic` and
`raise_order(0)` do nothing, `reparam` is C06, the insertions are C04 lifted by `C12.toTP_eval_curve`. -/
theorem C12_open_curves_same_order_partial (tol : K) (htol : 0 < tol) (c1 c2 : Bool) (p : ℕ) (hp : 2 ≤ p)
    (x0 xl : K) (L : List (K × ℕ × ℕ)) (hsep : Separated tol (clampedU x0 xl (L.map (·.1))))
    (s : Obj K × Obj K) (hw1 : C06.WF s.1 1) (hw2 : C06.WF s.2 1)
    (hb1 : C06.reparamOk (s.1.basis 0) 0 1
      = openBasis p (clampedU x0 xl (L.map (·.1))) (clampedM p (L.map (·.2.1))))
    (hb2 : C06.reparamOk (s.2.basis 0) 0 1
      = openBasis p (clampedU x0 xl (L.map (·.1))) (clampedM p (L.map (·.2.2)))) :
    ∃ r, identicalDir tol c1 c2 s 0 = .ok r
      ∧ r.1.basis 0 = openBasis p (clampedU x0 xl (L.map (·.1))) (clampedM p (L.map (fun e => max e.2.1 e.2.2)))
      ∧ r.2.basis 0 = r.1.basis 0
      ∧ Rescaled 1 0 (s.1.basis 0).start (s.1.basis 0).stop s.1 r.1
      ∧ Rescaled 1 0 (s.2.basis 0).start (s.2.basis 0).stop s.2 r.2 :=
  core_open_curves_same tol htol c1 c2 p hp x0 xl L hsep s _ hw1 hw2
    (stageReparam_succeeds hw1 hw2 (0 : Fin 1) (by decide))
    ((reparamObj_basis hw1 (0 : Fin 1)).trans hb1) ((reparamObj_basis hw2 (0 : Fin 1)).trans hb2)

/-- **Two clamped curves of ANY orders — hypotheses on the two input bases only, none on the called
methods.**  Both curves well formed; their bases `ClampedCont` (orders `p₁, p₂ ≥ 2`, clamped, continuous);
the knots of the two normalised knot vectors pairwise equal or more than `2·(p-1)·tol` apart,
`p = max p₁ p₂` (with the default `tol = 1e-10` that is `< 1e-9` for `p ≤ 5`).  Whatever the classes of the
two objects (`Curve.raise_order` override or the base-class method):
* `make_splines_identical` (direction 0) SUCCEEDS;
* both curves end with the SAME basis, the `unionBasis` over the computed `commonEntries`: order `p`,
  non-periodic, on `[0,1]`, knot vector = the union in which a knot present in curve `j` counts
  `m_j + (p - p_j)` times (`raise_order` keeps the continuity `p_j - 1 - m_j`) and the larger of the two
  counts is taken;
* each curve evaluates at `(u - start)/(end - start)` to exactly the map it represented before: every
  homogeneous component, every side, every parameter (hence also the projected rational curve).
Ingredients: the common-entry form = `C12_common_entries`; `reparam` = C06; `raise_order` = C05 in full
(`C05_geometry_partial` + degree-elevation inclusion + Schoenberg–Whitney, read at the Cox–de Boor level
through `C12.elevation_both`); insertion = C04 (`C04.insertKnots_fibres`); counts and union knot vector =
`C12_knot_merge_partial`.  `_partial`: the guards listed at the head of this section. -/
theorem C12_open_curves_partial (tol : K) (htol : 0 < tol) (c1 c2 : Bool) (s : Obj K × Obj K)
    (hw1 : C06.WF s.1 1) (hw2 : C06.WF s.2 1)
    (hc1 : ClampedCont (s.1.basis 0)) (hc2 : ClampedCont (s.2.basis 0))
    (hsep : PairSeparated (2 * ((max (s.1.basis 0).order (s.2.basis 0).order - 1 : ℕ) : K) * tol)
      (C06.reparamOk (s.1.basis 0) 0 1).knots.toList (C06.reparamOk (s.2.basis 0) 0 1).knots.toList) :
    ∃ r, identicalDir tol c1 c2 s 0 = .ok r
      ∧ r.1.basis 0 = unionBasis (s.1.basis 0).order (s.2.basis 0).order
          (commonEntries (s.1.basis 0) (s.2.basis 0))
      ∧ r.2.basis 0 = r.1.basis 0
      ∧ Rescaled 1 0 (s.1.basis 0).start (s.1.basis 0).stop s.1 r.1
      ∧ Rescaled 1 0 (s.2.basis 0).start (s.2.basis 0).stop s.2 r.2 := by
  have hL := commonForm_entries _ (by positivity) _ _ (hw1.valid (0 : Fin 1)) (hw2.valid (0 : Fin 1)) hc1 hc2 hsep
  exact open_curves_entries tol htol c1 c2 _ _ hc1.order_ge hc2.order_ge 0 1 _ hL.2.2.2 hL.2.2.1 s hw1 hw2
    hL.1 hL.2.1

/-- **One non-periodic direction of a curve, surface or volume** (`m` = parametric dimension,
direction `i`; the OTHER directions are arbitrary — other orders, knots, periodic or not).  Distinct
values more than `tol` apart.  Conclusion: `make_splines_identical(direction=i)` succeeds; in direction
`i` both objects end with the same basis (order `max p₁ p₂`, the union knot vector with multiplicities
`max (m₁ + (p-p₁)) (m₂ + (p-p₂))` over the present knots); the bases of all other directions are
unchanged; each object evaluates, at `u_i ↦ (u_i - start_i)/(end_i - start_i)`, to exactly its old map
(every homogeneous component, every side, every parameter); both results are well formed (so the
next direction can be processed).
Proved without hypotheses: `reparam` (C06), the insertion passes and their geometry for ANY pardim
(`C12.insertKnots_sameMap`: C04's fibre statement lifted to the tensor-product sum through
`C12.toTP_eval_fibre`), and the whole statement when the two orders are equal.

`_partial`: the guards of this section, and, when the orders differ, `RaisesTo` for the object of lower
order (`H_raise₁/₂`, needed only then): `raise_order(p - p_j, direction=i)` on the re-parametrised object
succeeds, gives the clamped basis of order `p` with the present multiplicities raised by `p - p_j`,
leaves the other bases alone and keeps the evaluated map.  This is a theorem for curves
(`C12.raisesTo_curve` ⇒ `C12_open_curves_partial`) and, under the side conditions `GrevilleOK` /
`raiseGuard`, for surfaces and volumes (`Lemmas/C05RaisesTo.lean` ⇒ `C12_open_surfaces_partial`,
`C12_open_volumes_partial`). -/
theorem C12_open_direction_partial {m : ℕ} (tol : K) (htol : 0 < tol) (c1 c2 : Bool) (p1 p2 : ℕ)
    (hp1 : 2 ≤ p1) (hp2 : 2 ≤ p2) (x0 xl : K) (L : List (K × ℕ × ℕ))
    (hsep : Separated tol (clampedU x0 xl (L.map (·.1)))) (i : Fin m) (hi : (i : ℕ) ≤ 2)
    (s : Obj K × Obj K) (hw1 : C06.WF s.1 m) (hw2 : C06.WF s.2 m)
    (hb1 : C06.reparamOk (s.1.basis i) 0 1
      = openBasis p1 (clampedU x0 xl (L.map (·.1))) (clampedM p1 (L.map (·.2.1))))
    (hb2 : C06.reparamOk (s.2.basis i) 0 1
      = openBasis p2 (clampedU x0 xl (L.map (·.1))) (clampedM p2 (L.map (·.2.2))))
    (H_raise₁ : p1 < max p1 p2 →
      RaisesTo tol c1 m i p1 (max p1 p2) x0 xl L (·.1) (·.2.1) (C06.reparamObj s.1 i 0 1))
    (H_raise₂ : p2 < max p1 p2 →
      RaisesTo tol c2 m i p2 (max p1 p2) x0 xl L (·.1) (·.2.2) (C06.reparamObj s.2 i 0 1)) :
    ∃ r, identicalDir tol c1 c2 s i = .ok r
      ∧ r.1.basis i = openBasis (max p1 p2) (clampedU x0 xl (L.map (·.1)))
          (clampedM (max p1 p2) (L.map (fun e =>
            max (raisedMult (max p1 p2 - p1) e.2.1) (raisedMult (max p1 p2 - p2) e.2.2))))
      ∧ r.2.basis i = r.1.basis i
      ∧ (∀ k : Fin m, k ≠ i → r.1.basis k = s.1.basis k ∧ r.2.basis k = s.2.basis k)
      ∧ Rescaled m i (s.1.basis i).start (s.1.basis i).stop s.1 r.1
      ∧ Rescaled m i (s.2.basis i).start (s.2.basis i).stop s.2 r.2
      ∧ C06.WF r.1 m ∧ C06.WF r.2 m :=
  core_open_direction tol htol c1 c2 p1 p2 hp1 hp2 x0 xl L hsep i hi s _ hw1 hw2
    (stageReparam_succeeds hw1 hw2 i hi)
    ((reparamObj_basis hw1 i).trans hb1) ((reparamObj_basis hw2 i).trans hb2) H_raise₁ H_raise₂

/-- **One clamped direction `i` of two SURFACES of ANY orders — hypotheses on the two input bases of
that direction, none on the geometry of the called methods.**  Both objects well formed and not `Curve`s;
in direction `i` both bases `ClampedCont` (orders `≥ 2`, clamped, continuous) and the knots of the two
normalised knot vectors pairwise equal or more than `2·(max p₁ p₂ - 1)·tol` apart; the OTHER directions are
arbitrary (other orders, knots, periodic or not).  `RaisesTo` of `C12_open_direction_partial` is discharged
by property C05 (`Lemmas/C05RaisesTo.lean`).  Because `raise_order` re-interpolates EVERY direction (also
the untouched ones), two side conditions remain, needed only for an object whose order is actually raised
(the one of smaller order), both about the model (like the code) not raising an exception rather than
about geometry:
* `GrevilleOK tol (s.j.basis k)` for the other directions `k ≠ i` — the Greville collocation matrix
  there is invertible (`np.linalg.inv` does not raise `LinAlgError`); any valid basis is accepted, periodic
  included; for a `ClampedCont` basis it follows from the decidable `PairSeparated` of its own knots
  (`C12.grevilleOK_of_clampedCont`);
* `raiseGuard` of the re-parametrised object is `ok true` — the guard of `raise_order` does not raise;
  automatic when direction 0 is clamped (`raiseGuard_clamped`, `C12.raiseGuard_common`) or periodic
  (`raiseGuard_periodic`).
Conclusion: the call succeeds; in direction `i` both end with the same basis, the `unionBasis` over the
computed `commonEntries`; the bases of the other directions are unchanged; each object is the exact
rescaling of its input in direction `i` (every homogeneous component, every side, every parameter); both
results are well formed.  `_partial`: the guards of this section and the two side conditions. -/
theorem C12_open_surfaces_partial (tol : K) (htol : 0 < tol) (i : Fin 2) (s : Obj K × Obj K)
    (hw1 : C06.WF s.1 2) (hw2 : C06.WF s.2 2)
    (hc1 : ClampedCont (s.1.basis i)) (hc2 : ClampedCont (s.2.basis i))
    (hsep : PairSeparated (2 * ((max (s.1.basis i).order (s.2.basis i).order - 1 : ℕ) : K) * tol)
      (C06.reparamOk (s.1.basis i) 0 1).knots.toList (C06.reparamOk (s.2.basis i) 0 1).knots.toList)
    (hother₁ : (s.1.basis i).order < (s.2.basis i).order → ∀ k : Fin 2, k ≠ i → GrevilleOK tol (s.1.basis k))
    (hother₂ : (s.2.basis i).order < (s.1.basis i).order → ∀ k : Fin 2, k ≠ i → GrevilleOK tol (s.2.basis k))
    (hguard₁ : (s.1.basis i).order < (s.2.basis i).order →
      Obj.raiseGuard tol (C06.reparamObj s.1 i 0 1).bases.toList = .ok true)
    (hguard₂ : (s.2.basis i).order < (s.1.basis i).order →
      Obj.raiseGuard tol (C06.reparamObj s.2 i 0 1).bases.toList = .ok true) :
    ∃ r, identicalDir tol false false s i = .ok r
      ∧ r.1.basis i = unionBasis (s.1.basis i).order (s.2.basis i).order
          (commonEntries (s.1.basis i) (s.2.basis i))
      ∧ r.2.basis i = r.1.basis i
      ∧ (∀ k : Fin 2, k ≠ i → r.1.basis k = s.1.basis k ∧ r.2.basis k = s.2.basis k)
      ∧ Rescaled 2 i (s.1.basis i).start (s.1.basis i).stop s.1 r.1
      ∧ Rescaled 2 i (s.2.basis i).start (s.2.basis i).stop s.2 r.2
      ∧ C06.WF r.1 2 ∧ C06.WF r.2 2 := by
  have hL := commonForm_entries _ (by positivity) _ _ (hw1.valid i) (hw2.valid i) hc1 hc2 hsep
  exact open_surfaces_entries tol htol _ _ hc1.order_ge hc2.order_ge 0 1 _ hL.2.2.2 hL.2.2.1 i s hw1 hw2 hL.1 hL.2.1
    (fun h => hother₁ ((lt_max_iff.mp h).resolve_left (lt_irrefl _)))
    (fun h => hother₂ ((lt_max_iff.mp h).resolve_right (lt_irrefl _)))
    (fun h => hguard₁ ((lt_max_iff.mp h).resolve_left (lt_irrefl _)))
    (fun h => hguard₂ ((lt_max_iff.mp h).resolve_right (lt_irrefl _)))

/-- **One clamped direction `i` of two VOLUMES of ANY orders — hypotheses on the two input bases of
that direction, none on the geometry of the called methods.**  Both objects well formed and not `Curve`s;
in direction `i` both bases `ClampedCont` (orders `≥ 2`, clamped, continuous) and the knots of the two
normalised knot vectors pairwise equal or more than `2·(max p₁ p₂ - 1)·tol` apart; the OTHER directions are
arbitrary (other orders, knots, periodic or not).  `RaisesTo` of `C12_open_direction_partial` is discharged
by property C05 (`Lemmas/C05RaisesTo.lean`).  Because `raise_order` re-interpolates EVERY direction (also
the untouched ones), two side conditions remain, needed only for an object whose order is actually raised
(the one of smaller order), both about the model (like the code) not raising an exception rather than
about geometry:
* `GrevilleOK tol (s.j.basis k)` for the other directions `k ≠ i` — the Greville collocation matrix
  there is invertible (`np.linalg.inv` does not raise `LinAlgError`); any valid basis is accepted, periodic
  included; for a `ClampedCont` basis it follows from the decidable `PairSeparated` of its own knots
  (`C12.grevilleOK_of_clampedCont`);
* `raiseGuard` of the re-parametrised object is `ok true` — the guard of `raise_order` does not raise;
  automatic when direction 0 is clamped (`raiseGuard_clamped`, `C12.raiseGuard_common`) or periodic
  (`raiseGuard_periodic`).
Conclusion: the call succeeds; in direction `i` both end with the same basis, the `unionBasis` over the
computed `commonEntries`; the bases of the other directions are unchanged; each object is the exact
rescaling of its input in direction `i` (every homogeneous component, every side, every parameter); both
results are well formed.  `_partial`: the guards of this section and the two side conditions. -/
theorem C12_open_volumes_partial (tol : K) (htol : 0 < tol) (i : Fin 3) (s : Obj K × Obj K)
    (hw1 : C06.WF s.1 3) (hw2 : C06.WF s.2 3)
    (hc1 : ClampedCont (s.1.basis i)) (hc2 : ClampedCont (s.2.basis i))
    (hsep : PairSeparated (2 * ((max (s.1.basis i).order (s.2.basis i).order - 1 : ℕ) : K) * tol)
      (C06.reparamOk (s.1.basis i) 0 1).knots.toList (C06.reparamOk (s.2.basis i) 0 1).knots.toList)
    (hother₁ : (s.1.basis i).order < (s.2.basis i).order → ∀ k : Fin 3, k ≠ i → GrevilleOK tol (s.1.basis k))
    (hother₂ : (s.2.basis i).order < (s.1.basis i).order → ∀ k : Fin 3, k ≠ i → GrevilleOK tol (s.2.basis k))
    (hguard₁ : (s.1.basis i).order < (s.2.basis i).order →
      Obj.raiseGuard tol (C06.reparamObj s.1 i 0 1).bases.toList = .ok true)
    (hguard₂ : (s.2.basis i).order < (s.1.basis i).order →
      Obj.raiseGuard tol (C06.reparamObj s.2 i 0 1).bases.toList = .ok true) :
    ∃ r, identicalDir tol false false s i = .ok r
      ∧ r.1.basis i = unionBasis (s.1.basis i).order (s.2.basis i).order
          (commonEntries (s.1.basis i) (s.2.basis i))
      ∧ r.2.basis i = r.1.basis i
      ∧ (∀ k : Fin 3, k ≠ i → r.1.basis k = s.1.basis k ∧ r.2.basis k = s.2.basis k)
      ∧ Rescaled 3 i (s.1.basis i).start (s.1.basis i).stop s.1 r.1
      ∧ Rescaled 3 i (s.2.basis i).start (s.2.basis i).stop s.2 r.2
      ∧ C06.WF r.1 3 ∧ C06.WF r.2 3 := by
  have hL := commonForm_entries _ (by positivity) _ _ (hw1.valid i) (hw2.valid i) hc1 hc2 hsep
  exact open_volumes_entries tol htol _ _ hc1.order_ge hc2.order_ge 0 1 _ hL.2.2.2 hL.2.2.1 i s hw1 hw2 hL.1 hL.2.1
    (fun h => hother₁ ((lt_max_iff.mp h).resolve_left (lt_irrefl _)))
    (fun h => hother₂ ((lt_max_iff.mp h).resolve_right (lt_irrefl _)))
    (fun h => hguard₁ ((lt_max_iff.mp h).resolve_left (lt_irrefl _)))
    (fun h => hguard₂ ((lt_max_iff.mp h).resolve_right (lt_irrefl _)))

/-- **`make_splines_identical(a, b)` with `direction=None` on two clamped SURFACES of any orders and
knots in ALL 2 directions — the composed statement, hypotheses on the input objects only.**  `o1`, `o2`
are well-formed surfaces (rational or not, any dimensions); in every direction `i` both bases are
`ClampedCont` and the knots of the two normalised knot vectors are pairwise equal or more than
`2·(max p₁ p₂ - 1)·tol` apart (`p_j` the orders in that direction).  Then the whole call —
`make_splines_compatible`, then the loop over the directions 0 and 1, each of which repeats
`make_splines_compatible` (the identity by then), `check_direction`, `reparam`, `lower_periodic` (nothing
to do), `raise_order`, the two insertion passes — SUCCEEDS, and with
`c = make_splines_compatible(o1, o2)` (see `C12_compatible` for that step):
* both results are well formed, have the rationality and the number of components of `c.1`, `c.2`
  (equal dimension and rationality);
* in EVERY direction both have the same basis: the `unionBasis` (order `max p₁ p₂`, non-periodic, on
  `[0,1]`) over the computed `commonEntries` of the two input bases of that direction;
* each result evaluated at `u_d ↦ (u_d - start_d)/(end_d - start_d)` in ALL directions at once is exactly
  the map of `c.j` (every homogeneous component, every side, every parameter).
One side condition remains, and only if the order of `o_j` is raised in direction 0 (it is the smaller
one): `GrevilleOK` of its (not yet normalised) basis of direction 1 — `raise_order` in direction 0
re-interpolates direction 1 as well (for a `ClampedCont` basis: `C12.grevilleOK_of_clampedCont`); in the
second round the untouched direction 0 carries the union basis, for which `GrevilleOK` and `raiseGuard`
are proved here.  `_partial`: the guards of this section. -/
theorem C12_open_surfaces_all_directions_partial (tol : K) (htol : 0 < tol) (o1 o2 : Obj K) (h1 : o1.WF) (h2 : o2.WF)
    (hw1 : C06.WF o1 2) (hw2 : C06.WF o2 2)
    (hc1 : ∀ i : Fin 2, ClampedCont (o1.basis i)) (hc2 : ∀ i : Fin 2, ClampedCont (o2.basis i))
    (hsep : ∀ i : Fin 2, PairSeparated (2 * ((max (o1.basis i).order (o2.basis i).order - 1 : ℕ) : K) * tol)
      (C06.reparamOk (o1.basis i) 0 1).knots.toList (C06.reparamOk (o2.basis i) 0 1).knots.toList)
    (hG1 : (o1.basis 0).order < (o2.basis 0).order → GrevilleOK tol (o1.basis 1))
    (hG2 : (o2.basis 0).order < (o1.basis 0).order → GrevilleOK tol (o2.basis 1)) :
    ∃ r, makeIdentical tol false false o1 o2 none = .ok r
      ∧ C06.WF r.1 2 ∧ C06.WF r.2 2
      ∧ (∀ i : Fin 2,
          r.1.basis i = unionBasis (o1.basis i).order (o2.basis i).order
            (commonEntries (o1.basis i) (o2.basis i))
          ∧ r.2.basis i = r.1.basis i)
      ∧ (r.1.rational = (makeCompatible o1 o2).1.rational ∧ r.2.rational = (makeCompatible o1 o2).2.rational
          ∧ r.1.ncomp = (makeCompatible o1 o2).1.ncomp ∧ r.2.ncomp = (makeCompatible o1 o2).2.ncomp)
      ∧ (∀ comp, comp < (makeCompatible o1 o2).1.ncomp → ∀ (s : Fin 2 → Side) (u : Fin 2 → K),
          (C06.toTP r.1 2 comp).eval s
              (fun d => (u d - (o1.basis d).start) / ((o1.basis d).stop - (o1.basis d).start))
            = (C06.toTP (makeCompatible o1 o2).1 2 comp).eval s u)
      ∧ (∀ comp, comp < (makeCompatible o1 o2).2.ncomp → ∀ (s : Fin 2 → Side) (u : Fin 2 → K),
          (C06.toTP r.2 2 comp).eval s
              (fun d => (u d - (o2.basis d).start) / ((o2.basis d).stop - (o2.basis d).start))
            = (C06.toTP (makeCompatible o1 o2).2 2 comp).eval s u) := by
  have hL := fun i : Fin 2 =>
    commonForm_entries _ (by positivity) _ _ (hw1.valid i) (hw2.valid i) (hc1 i) (hc2 i) (hsep i)
  exact open_surfaces_all_entries tol htol (fun i => (o1.basis i).order) (fun i => (o2.basis i).order)
    (fun i => (hc1 i).order_ge) (fun i => (hc2 i).order_ge) (fun _ => 0) (fun _ => 1)
    (fun i => commonEntries (o1.basis i) (o2.basis i)) (fun i => (hL i).2.2.2) (fun i => (hL i).2.2.1)
    o1 o2 h1 h2 hw1 hw2 (fun i => (hL i).1) (fun i => (hL i).2.1)
    (fun h => hG1 ((lt_max_iff.mp h).resolve_left (lt_irrefl _)))
    (fun h => hG2 ((lt_max_iff.mp h).resolve_right (lt_irrefl _)))

/-- **`make_splines_identical(a, b)` with `direction=None` on two clamped VOLUMES of any orders and
knots in ALL 3 directions — the composed statement, hypotheses on the input objects only.**  `o1`, `o2`
are well-formed volumes (rational or not, any dimensions); in every direction `i` both bases are
`ClampedCont` and the knots of the two normalised knot vectors are pairwise equal or more than
`2·(max p₁ p₂ - 1)·tol` apart (`p_j` the orders in that direction).  Then the whole call —
`make_splines_compatible`, then the loop over the directions 0, 1 and 2, each of which repeats
`make_splines_compatible` (the identity by then), `check_direction`, `reparam`, `lower_periodic` (nothing
to do), `raise_order`, the two insertion passes — SUCCEEDS, and with
`c = make_splines_compatible(o1, o2)` (see `C12_compatible` for that step):
* both results are well formed, have the rationality and the number of components of `c.1`, `c.2`
  (equal dimension and rationality);
* in EVERY direction both have the same basis: the `unionBasis` (order `max p₁ p₂`, non-periodic, on
  `[0,1]`) over the computed `commonEntries` of the two input bases of that direction;
* each result evaluated at `u_d ↦ (u_d - start_d)/(end_d - start_d)` in ALL directions at once is exactly
  the map of `c.j` (every homogeneous component, every side, every parameter).
Three rounds (`C12.open_volumes_all_entries`).  One side condition remains, and only if the order of
`o_j` is raised in a direction `i` (it is the smaller one there): `GrevilleOK` of its (not yet normalised)
bases of the LATER directions `k > i` — `raise_order` in direction `i` re-interpolates every direction (for
a `ClampedCont` basis: `C12.grevilleOK_of_clampedCont`); the EARLIER directions carry the union bases by
then, for which `GrevilleOK` and `raiseGuard` are proved here.  `_partial`: the guards of this section. -/
theorem C12_open_volumes_all_directions_partial (tol : K) (htol : 0 < tol) (o1 o2 : Obj K) (h1 : o1.WF) (h2 : o2.WF)
    (hw1 : C06.WF o1 3) (hw2 : C06.WF o2 3)
    (hc1 : ∀ i : Fin 3, ClampedCont (o1.basis i)) (hc2 : ∀ i : Fin 3, ClampedCont (o2.basis i))
    (hsep : ∀ i : Fin 3, PairSeparated (2 * ((max (o1.basis i).order (o2.basis i).order - 1 : ℕ) : K) * tol)
      (C06.reparamOk (o1.basis i) 0 1).knots.toList (C06.reparamOk (o2.basis i) 0 1).knots.toList)
    (hG1 : ∀ i k : Fin 3, i < k → (o1.basis i).order < (o2.basis i).order → GrevilleOK tol (o1.basis k))
    (hG2 : ∀ i k : Fin 3, i < k → (o2.basis i).order < (o1.basis i).order → GrevilleOK tol (o2.basis k)) :
    ∃ r, makeIdentical tol false false o1 o2 none = .ok r
      ∧ C06.WF r.1 3 ∧ C06.WF r.2 3
      ∧ (∀ i : Fin 3,
          r.1.basis i = unionBasis (o1.basis i).order (o2.basis i).order
            (commonEntries (o1.basis i) (o2.basis i))
          ∧ r.2.basis i = r.1.basis i)
      ∧ (r.1.rational = (makeCompatible o1 o2).1.rational ∧ r.2.rational = (makeCompatible o1 o2).2.rational
          ∧ r.1.ncomp = (makeCompatible o1 o2).1.ncomp ∧ r.2.ncomp = (makeCompatible o1 o2).2.ncomp)
      ∧ (∀ comp, comp < (makeCompatible o1 o2).1.ncomp → ∀ (s : Fin 3 → Side) (u : Fin 3 → K),
          (C06.toTP r.1 3 comp).eval s
              (fun d => (u d - (o1.basis d).start) / ((o1.basis d).stop - (o1.basis d).start))
            = (C06.toTP (makeCompatible o1 o2).1 3 comp).eval s u)
      ∧ (∀ comp, comp < (makeCompatible o1 o2).2.ncomp → ∀ (s : Fin 3 → Side) (u : Fin 3 → K),
          (C06.toTP r.2 3 comp).eval s
              (fun d => (u d - (o2.basis d).start) / ((o2.basis d).stop - (o2.basis d).start))
            = (C06.toTP (makeCompatible o1 o2).2 3 comp).eval s u) := by
  have hL := fun i : Fin 3 =>
    commonForm_entries _ (by positivity) _ _ (hw1.valid i) (hw2.valid i) (hc1 i) (hc2 i) (hsep i)
  exact open_volumes_all_entries tol htol (fun i => (o1.basis i).order) (fun i => (o2.basis i).order)
    (fun i => (hc1 i).order_ge) (fun i => (hc2 i).order_ge) (fun _ => 0) (fun _ => 1)
    (fun i => commonEntries (o1.basis i) (o2.basis i)) (fun i => (hL i).2.2.2) (fun i => (hL i).2.2.1)
    o1 o2 h1 h2 hw1 hw2 (fun i => (hL i).1) (fun i => (hL i).2.1)
    (fun i k hik h => hG1 i k hik ((lt_max_iff.mp h).resolve_left (lt_irrefl _)))
    (fun i k hik h => hG2 i k hik ((lt_max_iff.mp h).resolve_right (lt_irrefl _)))

/-! ## A periodic direction against an open partner -/

/-- **A direction that is periodic in one object and open in the other — `lower_periodic` without
hypothesis** (any pardim `m`, direction `i`; object 1 open, object 2 periodic of continuity `k ≥ 0` in
direction `i`, ANY valid periodic basis: no lower bound on the number of functions, no assumption on the
seam multiplicity; the other directions arbitrary).  Knot-vector hypotheses: the normalised basis of object 1 and the
basis `lower_periodic(-1)` gives the re-parametrised object 2 (order `p₂`, non-periodic) are in
common-entry form over `L` (`hb1`, `hb2`: statements about knot vectors only, decidable for concrete
data).  Conclusion: `make_splines_identical(direction=i)` succeeds: `lower_periodic` opens object 2 at
the seam, `raise_order` brings both to order `max p₁ p₂`, the insertion passes give both the union knot
vector; in direction `i` both objects end with the same non-periodic basis, the other directions' bases
are unchanged, both results are well formed; object 1 is an exact rescaling of its input for ALL
parameters and object 2 for all parameters of its domain `[start_i, end_i]` (`RescaledOn`; a periodic
object evaluated outside is wrapped into the domain first, property C08).
Proved without hypotheses: `reparam` (C06), `lower_periodic` (C08 lifted by
`C12.lowerPeriodic_sameMapOn`), the insertions (C04 lifted by `C12.insertKnots_sameMap`).

`_partial`: the guards of the previous section; (i) when the orders differ, `RaisesTo` for the object of
lower order (`H_raise₁/₂`; theorems for curves / surfaces / volumes: `C12.raisesTo_curve`,
`raisesTo_surface`, `raisesTo_volume` — `C12_periodic_curves_partial` below has none left); (ii) only
the case "lowered to non-periodic": two periodic partners of different continuity end periodic, and the
insertion passes are then periodic insertions — see `C12_periodic_pair_partial` (equal orders; success and
geometry, not the equality of the knot vectors); (iii) the opened basis of object 2 is not computed from
its input: `hb2` is a hypothesis. -/
theorem C12_periodic_direction_partial {m : ℕ} (tol : K) (htol : 0 < tol) (c1 c2 : Bool) (p1 p2 : ℕ)
    (hp1 : 2 ≤ p1) (hp2 : 2 ≤ p2) (x0 xl : K) (L : List (K × ℕ × ℕ))
    (hsep : Separated tol (clampedU x0 xl (L.map (·.1)))) (i : Fin m) (hi : (i : ℕ) ≤ 2)
    (s : Obj K × Obj K) (hw1 : C06.WF s.1 m) (hw2 : C06.WF s.2 m)
    (hb1 : C06.reparamOk (s.1.basis i) 0 1
      = openBasis p1 (clampedU x0 xl (L.map (·.1))) (clampedM p1 (L.map (·.2.1))))
    (k : ℕ) (hk : (s.2.basis i).periodic = (k : Int))
    (hb2 : ∀ o2, (C06.reparamObj s.2 i 0 1).lowerPeriodic (-1) i = .ok o2 →
      o2.basis i = openBasis p2 (clampedU x0 xl (L.map (·.1))) (clampedM p2 (L.map (·.2.2))))
    (H_raise₁ : p1 < max p1 p2 →
      RaisesTo tol c1 m i p1 (max p1 p2) x0 xl L (·.1) (·.2.1) (C06.reparamObj s.1 i 0 1))
    (H_raise₂ : p2 < max p1 p2 → ∀ o2, (C06.reparamObj s.2 i 0 1).lowerPeriodic (-1) i = .ok o2 →
      RaisesTo tol c2 m i p2 (max p1 p2) x0 xl L (·.1) (·.2.2) o2) :
    ∃ r, identicalDir tol c1 c2 s i = .ok r
      ∧ r.1.basis i = openBasis (max p1 p2) (clampedU x0 xl (L.map (·.1)))
          (clampedM (max p1 p2) (L.map (fun e =>
            max (raisedMult (max p1 p2 - p1) e.2.1) (raisedMult (max p1 p2 - p2) e.2.2))))
      ∧ r.2.basis i = r.1.basis i
      ∧ (∀ j : Fin m, j ≠ i → r.1.basis j = s.1.basis j ∧ r.2.basis j = s.2.basis j)
      ∧ Rescaled m i (s.1.basis i).start (s.1.basis i).stop s.1 r.1
      ∧ RescaledOn m i (s.2.basis i).start (s.2.basis i).stop s.2 r.2
      ∧ C06.WF r.1 m ∧ C06.WF r.2 m := by
  have hbb : (C06.reparamObj s.2 i 0 1).basis i = C06.reparamOk (s.2.basis i) 0 1 := reparamObj_basis hw2 i
  exact core_periodic_direction tol htol c1 c2 p1 p2 hp1 hp2 x0 xl L hsep i hi s _ hw1 hw2
    (stageReparam_succeeds hw1 hw2 i hi) ((reparamObj_basis hw1 i).trans hb1) k
    (by show ((C06.reparamObj s.2 i 0 1).basis i).periodic = _; rw [hbb]; exact hk)
    hb2 H_raise₁ H_raise₂

/-- **A periodic curve against an open curve, any orders — no hypothesis on the geometry of any called
method.**  `C12_periodic_direction_partial` for `m = 1` with `RaisesTo` discharged by C05
(`C12.raisesTo_curve`: continuity `m_j ≤ p_j - 1`, distinct values more than `2·(p-1)·tol` apart).
Any valid periodic basis for object 2 (no guard on the number of functions, no seam hypothesis).
`_partial`: what remains are the guards of the previous section (clamped continuous open partner, common
entry list, separation) and the knot-vector statement `hb2` about the opened basis. -/
theorem C12_periodic_curves_partial (tol : K) (htol : 0 < tol) (c1 c2 : Bool) (p1 p2 : ℕ)
    (hp1 : 2 ≤ p1) (hp2 : 2 ≤ p2) (x0 xl : K) (L : List (K × ℕ × ℕ))
    (hm : ∀ e ∈ L, e.2.1 ≤ p1 - 1 ∧ e.2.2 ≤ p2 - 1)
    (hgap : Separated (2 * ((max p1 p2 - 1 : ℕ) : K) * tol) (clampedU x0 xl (L.map (·.1))))
    (s : Obj K × Obj K) (hw1 : C06.WF s.1 1) (hw2 : C06.WF s.2 1)
    (hb1 : C06.reparamOk (s.1.basis 0) 0 1
      = openBasis p1 (clampedU x0 xl (L.map (·.1))) (clampedM p1 (L.map (·.2.1))))
    (k : ℕ) (hk : (s.2.basis 0).periodic = (k : Int))
    (hb2 : ∀ o2, (C06.reparamObj s.2 0 0 1).lowerPeriodic (-1) 0 = .ok o2 →
      o2.basis 0 = openBasis p2 (clampedU x0 xl (L.map (·.1))) (clampedM p2 (L.map (·.2.2)))) :
    ∃ r, identicalDir tol c1 c2 s 0 = .ok r
      ∧ r.1.basis 0 = openBasis (max p1 p2) (clampedU x0 xl (L.map (·.1)))
          (clampedM (max p1 p2) (L.map (fun e =>
            max (raisedMult (max p1 p2 - p1) e.2.1) (raisedMult (max p1 p2 - p2) e.2.2))))
      ∧ r.2.basis 0 = r.1.basis 0
      ∧ Rescaled 1 0 (s.1.basis 0).start (s.1.basis 0).stop s.1 r.1
      ∧ RescaledOn 1 0 (s.2.basis 0).start (s.2.basis 0).stop s.2 r.2 := by
  have hfac : tol ≤ 2 * ((max p1 p2 - 1 : ℕ) : K) * tol := by
    have h1 : (1 : K) ≤ ((max p1 p2 - 1 : ℕ) : K) := by
      have : 1 ≤ max p1 p2 - 1 := by have := le_max_left p1 p2; omega
      exact_mod_cast this
    nlinarith
  have hwa1 := (C06.wf_reparamObj hw1 (0 : Fin 1) (zero_lt_one : (0 : K) < 1)).1
  have hwa2 := (C06.wf_reparamObj hw2 (0 : Fin 1) (zero_lt_one : (0 : K) < 1)).1
  have hbb : (C06.reparamObj s.2 0 0 1).basis 0 = C06.reparamOk (s.2.basis 0) 0 1 := reparamObj_basis hw2 (0 : Fin 1)
  obtain ⟨r, h1, h2, h3, _, h5, h6, _, _⟩ := C12_periodic_direction_partial (m := 1) tol htol c1 c2 p1 p2 hp1 hp2
    x0 xl L (separated_mono hfac hgap) 0 (by decide) s hw1 hw2 hb1 k hk hb2
    (fun _ => raisesTo_curve tol htol p1 (max p1 p2) hp1 (le_max_left _ _) x0 xl L (·.1) (·.2.1)
      (fun e he => (hm e he).1) hgap _ hwa1 ((reparamObj_basis hw1 (0 : Fin 1)).trans hb1) c1)
    (fun _ o2 hl => by
      obtain ⟨o2', hl', hwo2, _⟩ := lowerPeriodic_sameMapOn hwa2 (0 : Fin 1) k
        (by show ((C06.reparamObj s.2 0 0 1).basis 0).periodic = _; rw [hbb]; exact hk)
        (-1) (le_refl _) (by omega)
      have : o2' = o2 := by rw [hl'] at hl; injection hl
      subst this
      exact raisesTo_curve tol htol p2 (max p1 p2) hp2 (le_max_right _ _) x0 xl L (·.1) (·.2.2)
        (fun e he => (hm e he).2) hgap o2' hwo2 (hb2 o2' hl') c2)
  exact ⟨r, h1, h2, h3, h5, h6⟩

/-- **Two PERIODIC partners of different continuity, equal orders — no hypothesis on any called method.**
Any pardim `m`, direction `i`; in direction `i` object `j` is periodic with continuity `k_j ≥ 0`,
`k₁ ≠ k₂`, both of the same order — ANY valid periodic bases: no lower bound on the number of functions
(below `p + k` functions `insert_knot` and `lower_periodic` work on the cover of the basis), no assumption
on the seam multiplicity; the other directions are arbitrary.  Then
`make_splines_identical(direction=i)` SUCCEEDS — `reparam` (C06), `lower_periodic` of the smoother object
down to `min k₁ k₂` (C08), `raise_order(0)` (nothing), the two passes of PERIODIC `insert_knot` with
whatever values the `continuity` comparisons produce (C04, periodic branch, direct or cover; `continuity`
never raises on a periodic basis) — and
* each object is the exact rescaling of its input for all parameters of its domain `[start_i, end_i]`
  (`RescaledOn`: every homogeneous component, every side; a periodic object evaluated outside is wrapped
  into the domain first, property C08);
* both end periodic with continuity `min k₁ k₂` and the common order, are well formed, and the bases of
  the other directions are unchanged.
`_partial`: equal orders only (`raise_order` of a periodic basis is not covered by C05); and the statement
does NOT say that the two resulting knot
vectors are equal (the periodic analogue of `C12_knot_merge_partial` is not proved; the correspondence
run and the oracle check it on every generated pair). -/
theorem C12_periodic_pair_partial {m : ℕ} (tol : K) (c1 c2 : Bool) (i : Fin m) (hi : (i : ℕ) ≤ 2)
    (s : Obj K × Obj K) (hw1 : C06.WF s.1 m) (hw2 : C06.WF s.2 m) (k1 k2 : ℕ)
    (hk1 : (s.1.basis i).periodic = (k1 : Int)) (hk2 : (s.2.basis i).periodic = (k2 : Int)) (hne : k1 ≠ k2)
    (hord : (s.1.basis i).order = (s.2.basis i).order) :
    ∃ r, identicalDir tol c1 c2 s i = .ok r
      ∧ RescaledOn m i (s.1.basis i).start (s.1.basis i).stop s.1 r.1
      ∧ RescaledOn m i (s.2.basis i).start (s.2.basis i).stop s.2 r.2
      ∧ C06.WF r.1 m ∧ C06.WF r.2 m
      ∧ (r.1.basis i).periodic = ((min k1 k2 : ℕ) : Int) ∧ (r.2.basis i).periodic = ((min k1 k2 : ℕ) : Int)
      ∧ (r.1.basis i).order = (s.1.basis i).order ∧ (r.2.basis i).order = (s.1.basis i).order
      ∧ (∀ j : Fin m, j ≠ i → r.1.basis j = s.1.basis j ∧ r.2.basis j = s.2.basis j) :=
  core_periodic_pair tol c1 c2 i hi s hw1 hw2 k1 k2 hk1 hk2 hne hord

/-! ## Directions -/

/-- **`direction=None` is all directions in turn; a given direction touches only its own bases.**
* `make_splines_identical(a, b)` = `make_splines_compatible` followed by
  `make_splines_identical(a, b, direction=i)` for `i = 0 … pardim-1`, each on the result of the
  previous one, stopping at the first exception (the repeated `make_splines_compatible` inside is
  the identity, `C12_compatible`);
* every spelling of a direction (`i`, `'uvw'[i]`, `'UVW'[i]`) gives the same call; an invalid
  direction raises `ValueError`;
* with an explicit direction `i` the bases of every other direction `k ≠ i` of both objects are
  returned unchanged (the number of bases and rationality after `make_splines_compatible` too).
  (`c_j` = "object `j` is a `Curve`", whose `raise_order` override is dispatched: then it has one
  basis; otherwise the number of bases equals the parametric rank of the control array.) -/
theorem C12_directions (tol : K) (c1 c2 : Bool) (o1 o2 : Obj K) :
    (makeIdentical tol c1 c2 o1 o2 none
      = (List.range o1.bases.size).foldlM
          (fun (s : Obj K × Obj K) (i : ℕ) => makeIdentical tol c1 c2 s.1 s.2 (some (.int (i : Int))))
          (makeCompatible o1 o2))
    ∧ (∀ (d : DirTok) (i : ℕ), Splipy.checkDirection d o1.bases.size = .ok i →
        makeIdentical tol c1 c2 o1 o2 (some d) = makeIdentical tol c1 c2 o1 o2 (some (.int (i : Int)))
        ∧ makeIdentical tol c1 c2 o1 o2 (some d) = identicalDir tol c1 c2 (makeCompatible o1 o2) i)
    ∧ (∀ (d : DirTok) (e : PyErr), Splipy.checkDirection d o1.bases.size = .error e →
        makeIdentical tol c1 c2 o1 o2 (some d) = .error .value)
    ∧ (o1.WF → o2.WF → (c1 = true → o1.bases.size = 1) → (c1 = false → o1.bases.size = o1.pardim) →
        (c2 = true → o2.bases.size = 1) → (c2 = false → o2.bases.size = o2.pardim) →
        ∀ (d : DirTok) (i : ℕ) (r : Obj K × Obj K), Splipy.checkDirection d o1.bases.size = .ok i → makeIdentical tol c1 c2 o1 o2 (some d) = .ok r →
          (∀ k, k ≠ i → r.1.basis k = o1.basis k ∧ r.2.basis k = o2.basis k)
          ∧ r.1.bases.size = o1.bases.size ∧ r.2.bases.size = o2.bases.size
          ∧ r.1.rational = (o1.rational || o2.rational) ∧ r.2.rational = (o1.rational || o2.rational)) := by
  have hsz : (makeCompatible o1 o2).1.pardimB = o1.bases.size := by
    unfold Obj.pardimB; rw [(makeCompatible_bases o1 o2).1]
  have hdir : ∀ (d : DirTok) (i : ℕ), Splipy.checkDirection d o1.bases.size = .ok i →
      makeIdentical tol c1 c2 o1 o2 (some d) = identicalDir tol c1 c2 (makeCompatible o1 o2) i := by
    intro d i hd
    show makeIdenticalDir tol c1 c2 (o1, o2) d = _
    unfold makeIdenticalDir
    simp only [hsz, hd]
  refine ⟨?_, ?_, ?_, ?_⟩
  · show identicalLoop tol c1 c2 (List.range (makeCompatible o1 o2).1.pardimB) (makeCompatible o1 o2) = _
    rw [hsz]
    exact identicalLoop_eq_foldlM tol c1 c2 _ _
  · intro d i hd
    exact ⟨(hdir d i hd).trans (hdir (.int i) i (checkDirection_canon hd)).symm, hdir d i hd⟩
  · intro d e hd
    show makeIdenticalDir tol c1 c2 (o1, o2) d = _
    unfold makeIdenticalDir
    simp only [hsz, hd]
    unfold Splipy.checkDirection at hd
    split_ifs at hd
    injection hd with hd
    rw [← hd]
  · intro h1 h2 hc1 hn1 hc2 hn2 d i r hd hrun
    rw [hdir d i hd] at hrun
    obtain ⟨hb1, hb2⟩ := makeCompatible_bases o1 o2
    obtain ⟨hk1, hk2⟩ := makeCompatible_rank o1 o2 h1.shape_ne h2.shape_ne
    obtain ⟨_, _, _, _, hr1, hr2⟩ := makeCompatible_spec h1 h2
    have hp1 : (makeCompatible o1 o2).1.pardim = o1.pardim := by unfold Obj.pardim; rw [hk1]
    have hp2 : (makeCompatible o1 o2).2.pardim = o2.pardim := by unfold Obj.pardim; rw [hk2]
    obtain ⟨e1, e2⟩ := identicalDir_other (s := makeCompatible o1 o2)
      (fun h => by rw [hb1]; exact hc1 h) (fun h => by rw [hb1, hp1]; exact hn1 h)
      (fun h => by rw [hb2]; exact hc2 h) (fun h => by rw [hb2, hp2]; exact hn2 h) hrun
    refine ⟨fun k hk => ⟨?_, ?_⟩, by rw [e1.size, hb1], by rw [e2.size, hb2],
      by rw [e1.rational, hr1], by rw [e2.rational, hr2]⟩
    · rw [e1.basis_ne k hk]; unfold Obj.basis; rw [hb1]
    · rw [e2.basis_ne k hk]; unfold Obj.basis; rw [hb2]

/-! ## Non-vacuity: the hypotheses are satisfiable and the model really runs -/

section examples

attribute [local instance] basisDecEq tensorDecEq objDecEq

/-- `C12_compatible` on a planar non-rational curve and a rational space curve: both end rational
    in dimension 3, and the promoted curve has weight 1 at control point 0. -/
example : (makeCompatible exP exR).1.dimension = 3 ∧ (makeCompatible exP exR).2.dimension = 3
    ∧ (makeCompatible exP exR).1.rational = true
    ∧ (makeCompatible exP exR).1.cp 0 (makeCompatible exP exR).1.dimension = 1 := by
  obtain ⟨⟨d1, d2⟩, ⟨r1, _⟩, _, h, _⟩ := C12_compatible exP_WF exR_WF
  have hd : max exP.dimension exR.dimension = 3 := by decide
  refine ⟨d1.trans hd, d2.trans hd, r1, ?_⟩
  exact (h exP _ (Or.inl ⟨rfl, rfl⟩)).2.2.1 rfl r1 0 (by decide)

/-- The executable model agrees with that (kernel evaluation of the control points). -/
example : (makeCompatible exP exR).1.cps.data = #[0, 0, 0, 1, 1, 2, 0, 1, 3, 1, 0, 1]
    ∧ (makeCompatible exP exR).2.cps.data = exR.cps.data := by
  constructor <;> decide +kernel

/-- `C12_knot_merge_counts` at `p = 4`: a double knot against a simple one, and an absent one. -/
example : mergeCount 4 (cont 4 2) (cont 4 1) = 1 ∧ mergeCount 4 (cont 4 2) (cont 4 0) = 2
    ∧ mergeCount 4 (cont 4 1) (cont 4 3) = 0 :=
  ⟨(C12_knot_merge_counts 4 2 1).1, (C12_knot_merge_counts 4 2 0).1, (C12_knot_merge_counts 4 1 3).1⟩

/-- The separation hypothesis of `C12_knot_merge_partial` for order 3 on `[0,1]` with interior entries
    `1/3` (simple, absent), `1/2` (double, simple), `2/3` (absent, simple) and the knot tolerance
    `1e-10`; the theorem then gives the common knot vector `0,0,0,1/3,1/2,1/2,2/3,1,1,1`. -/
example :
    mergeKnots exTol 3
        (openBasis 3 (clampedU 0 1 [1/3, 1/2, 2/3]) (clampedM 3 [1, 2, 0]))
        (openBasis 3 (clampedU 0 1 [1/3, 1/2, 2/3]) (clampedM 3 [0, 1, 1]))
      = .ok (openBasis 3 (clampedU 0 1 [1/3, 1/2, 2/3]) (clampedM 3 [1, 2, 1]),
             openBasis 3 (clampedU 0 1 [1/3, 1/2, 2/3]) (clampedM 3 [1, 2, 1]))
    ∧ (openBasis 3 (clampedU (0 : ℚ) 1 [1/3, 1/2, 2/3]) (clampedM 3 [1, 2, 1])).knots
        = #[0, 0, 0, 1/3, 1/2, 1/2, 2/3, 1, 1, 1] := by
  have hsep : Separated exTol (clampedU (0 : ℚ) 1 ([((1 : ℚ)/3, 1, 0), (1/2, 2, 1), (2/3, 0, 1)].map (·.1))) := by
    simp [Separated, clampedU, exTol]; norm_num
  have h := (C12_knot_merge_partial exTol (by norm_num [exTol]) 3 (by norm_num) 0 1
    [((1 : ℚ)/3, 1, 0), (1/2, 2, 1), (2/3, 0, 1)] hsep).2.2.2.2.2.1
  exact ⟨h, by decide +kernel⟩

/-- … and the kernel evaluation of the executable passes gives the same. -/
example :
    mergeKnots exTol 3 (⟨3, #[0, 0, 0, 1/3, 1/2, 1/2, 1, 1, 1], -1⟩ : Basis ℚ) ⟨3, #[0, 0, 0, 1/2, 2/3, 1, 1, 1], -1⟩
      = .ok (⟨3, #[0, 0, 0, 1/3, 1/2, 1/2, 2/3, 1, 1, 1], -1⟩, ⟨3, #[0, 0, 0, 1/3, 1/2, 1/2, 2/3, 1, 1, 1], -1⟩) := by
  decide +kernel

/-- All hypotheses of `C12_geometry_partial` hold for the curves `exA` (on `[0,2]`) and `exB` (on
    `[0,4]`) of the same order with the same relative knots: only `reparam` acts, and the theorem
    gives the rescaling `u ↦ (u - 0)/(2 - 0)` resp. `(u - 0)/(4 - 0)`. -/
example : RescaledOn 1 0 (exA.basis 0).start (exA.basis 0).stop exA exA'
    ∧ RescaledOn 1 0 (exB.basis 0).start (exB.basis 0).stop exB exB' := by
  obtain ⟨ha, hb, hc, hr⟩ := ex_stages
  have h := C12_geometry_partial (m := 1) exTol true true (exA, exB) (exA', exB') (exA', exB') (exA', exB')
    (exA', exB') 0 exA_wf exB_wf ha hb hc hr
    (fun _ _ => SameMapOn.refl _ _) (fun _ _ => SameMapOn.refl _ _)
    (fun _ _ _ _ => SameMapOn.refl _ _) (fun _ _ _ _ => SameMapOn.refl _ _)
    (fun _ _ => SameMapOn.refl _ _) (fun _ _ => SameMapOn.refl _ _)
  exact ⟨h.2.1, h.2.2.1⟩

/-- `make_splines_identical` of a worked example of the harness (quadratic with a double knot on
    `[0,3]` against a rational quadratic on `[1,3]`), evaluated by the kernel: the union knot vector in
    both, dimension 3 and rational for both, seven control points each. -/
example :
    ((makeIdentical exTol true true exQ exL none).toOption.map (fun r =>
        ((r.1.basis 0).order, (r.1.basis 0).knots.toList, (r.2.basis 0).knots.toList)))
      = some (3, [0, 0, 0, 1/3, 1/2, 2/3, 2/3, 1, 1, 1], [0, 0, 0, 1/3, 1/2, 2/3, 2/3, 1, 1, 1]) := by
  decide +kernel

example :
    ((makeIdentical exTol true true exQ exL none).toOption.map (fun r =>
        ([r.1.dimension, r.2.dimension], [r.1.rational, r.2.rational], [r.1.cps.shape, r.2.cps.shape])))
      = some ([3, 3], [true, true], [[7, 4], [7, 4]]) := by
  decide +kernel

/-- `C12_open_curves_same_order_partial` applies to `(exQ, exL)`: the call succeeds, both curves get the
    union knot vector `0,0,0,1/3,1/2,2/3,2/3,1,1,1`, and both are exact rescalings of their inputs. -/
example : ∃ r, identicalDir exTol true true (exQ, exL) 0 = .ok r
    ∧ (r.1.basis 0).knots = #[0, 0, 0, 1/3, 1/2, 2/3, 2/3, 1, 1, 1] ∧ r.2.basis 0 = r.1.basis 0
    ∧ Rescaled 1 0 (exQ.basis 0).start (exQ.basis 0).stop exQ r.1
    ∧ Rescaled 1 0 (exL.basis 0).start (exL.basis 0).stop exL r.2 := by
  obtain ⟨hb1, hb2, _⟩ := exQL_norm
  have hsep : Separated exTol (clampedU (0 : ℚ) 1 ([((1 : ℚ)/3, 1, 0), (1/2, 0, 1), (2/3, 2, 0)].map (·.1))) := by
    simp [Separated, clampedU, exTol]; norm_num
  obtain ⟨r, h1, h2, h3, h4, h5⟩ := C12_open_curves_same_order_partial exTol (by norm_num [exTol]) true true 3
    (by norm_num) 0 1 [((1 : ℚ)/3, 1, 0), (1/2, 0, 1), (2/3, 2, 0)] hsep (exQ, exL) exQ_wf exL_wf hb1 hb2
  refine ⟨r, h1, ?_, h3, h4, h5⟩
  rw [h2]
  decide +kernel

/-- `C12_common_entries` / `commonEntries` on the harness's worked example: the quadratic `exQ` on `[0,3]`
    (knots `1`, `2,2`) and the linear curve `exL2` on `[1,3]` (knot `2`) have the common entries
    `1/3` (1, absent), `1/2` (absent, 1), `2/3` (2, absent); all hypotheses are decided by the kernel. -/
example : ClampedCont (exQ.basis 0) ∧ ClampedCont (exL2.basis 0)
    ∧ PairSeparated (2 * ((max (exQ.basis 0).order (exL2.basis 0).order - 1 : ℕ) : ℚ) * exTol)
        (C06.reparamOk (exQ.basis 0) 0 1).knots.toList (C06.reparamOk (exL2.basis 0) 0 1).knots.toList
    ∧ commonEntries (exQ.basis 0) (exL2.basis 0) = [(1/3, 1, 0), (1/2, 0, 1), (2/3, 2, 0)] := by
  refine ⟨?_, ?_, ?_, ?_⟩ <;> decide +kernel

/-- `C12_open_curves_partial` on that example (DIFFERENT orders 3 and 2).  The call succeeds, both get
    order 3 and the knot vector `0,0,0,1/3,1/2,1/2,2/3,2/3,1,1,1` (what the real code returns,
    `harness/props/C12.py`), and both are exact rescalings of their inputs. -/
example : ∃ r, identicalDir exTol true true (exQ, exL2) 0 = .ok r
    ∧ (r.1.basis 0).order = 3 ∧ (r.1.basis 0).knots = #[0, 0, 0, 1/3, 1/2, 1/2, 2/3, 2/3, 1, 1, 1]
    ∧ r.2.basis 0 = r.1.basis 0
    ∧ Rescaled 1 0 (exQ.basis 0).start (exQ.basis 0).stop exQ r.1
    ∧ Rescaled 1 0 (exL2.basis 0).start (exL2.basis 0).stop exL2 r.2 := by
  obtain ⟨r, h1, h2, h3, h4, h5⟩ := C12_open_curves_partial exTol (by norm_num [exTol]) true true (exQ, exL2)
    exQ_wf exL2_wf (by decide +kernel) (by decide +kernel) (by decide +kernel)
  refine ⟨r, h1, ?_, ?_, h3, h4, h5⟩
  · rw [h2]; decide +kernel
  · rw [h2]; decide +kernel

/-- `C12_open_direction_partial` on two SURFACES, direction `u` (equal orders there, so no `RaisesTo`
    hypothesis is needed; the `v` directions have different orders and are left alone): the call
    succeeds, both get the `u` knot vector `0,0,1/2,1,1`, the `v` bases are untouched, both surfaces are
    exact rescalings of their inputs and the results are well formed. -/
example : ∃ r, identicalDir exTol false false (exSA, exSB) 0 = .ok r
    ∧ (r.1.basis 0).knots = #[0, 0, 1/2, 1, 1] ∧ r.2.basis 0 = r.1.basis 0
    ∧ r.1.basis 1 = exSu1 ∧ r.2.basis 1 = exSv1
    ∧ Rescaled 2 0 (exSA.basis 0).start (exSA.basis 0).stop exSA r.1
    ∧ Rescaled 2 0 (exSB.basis 0).start (exSB.basis 0).stop exSB r.2
    ∧ C06.WF r.1 2 ∧ C06.WF r.2 2 := by
  obtain ⟨hb1, hb2, _⟩ := exS_norm
  have hsep : Separated exTol (clampedU (0 : ℚ) 1 ([((1 : ℚ)/2, 1, 0)].map (·.1))) := by
    simp [Separated, clampedU, exTol]; norm_num
  obtain ⟨r, h1, h2, h3, h4, h5, h6, h7, h8⟩ := C12_open_direction_partial (m := 2) exTol (by norm_num [exTol])
    false false 2 2 (by norm_num) (by norm_num) 0 1 [((1 : ℚ)/2, 1, 0)] hsep 0 (by decide) (exSA, exSB)
    exSA_wf exSB_wf hb1 hb2 (fun h => absurd h (by decide)) (fun h => absurd h (by decide))
  refine ⟨r, h1, ?_, h3, (h4 1 (by decide)).1, (h4 1 (by decide)).2, h5, h6, h7, h8⟩
  have h2' : r.1.basis 0 = openBasis (max 2 2) (clampedU (0 : ℚ) 1 ([((1 : ℚ)/2, 1, 0)].map (·.1)))
      (clampedM (max 2 2) ([((1 : ℚ)/2, 1, 0)].map (fun e =>
        max (raisedMult (max 2 2 - 2) e.2.1) (raisedMult (max 2 2 - 2) e.2.2)))) := h2
  rw [h2']; decide +kernel

/-- `C12_open_surfaces_partial` on the same two surfaces in direction `v`, where the orders DIFFER (2
    against 3): surface A is elevated (its untouched `u` basis `0,0,1,2,2` is `GrevilleOK` by
    `grevilleOK_of_clampedCont`, the guard holds since `u` is clamped), both end with order 3 on
    `0,0,0,1,1,1`, the `u` bases are untouched, both are exact rescalings. -/
example : ∃ r, identicalDir exTol false false (exSA, exSB) 1 = .ok r
    ∧ (r.1.basis 1).order = 3 ∧ (r.1.basis 1).knots = #[0, 0, 0, 1, 1, 1] ∧ r.2.basis 1 = r.1.basis 1
    ∧ r.1.basis 0 = exSu0 ∧ r.2.basis 0 = exSv0
    ∧ Rescaled 2 1 (exSA.basis 1).start (exSA.basis 1).stop exSA r.1
    ∧ Rescaled 2 1 (exSB.basis 1).start (exSB.basis 1).stop exSB r.2 := by
  obtain ⟨_, _, _, _, _, hl⟩ := exS_norm
  have htol : (0 : ℚ) < exTol := by norm_num [exTol]
  have hG : GrevilleOK exTol (exSA.basis 0) :=
    grevilleOK_of_clampedCont exTol htol _ (exSA_wf.valid (0 : Fin 2)) (by decide +kernel) (by decide +kernel)
  have hguard : Obj.raiseGuard exTol (C06.reparamObj exSA 1 0 1).bases.toList = .ok true := by
    rw [hl]
    exact raiseGuard_clamped exTol htol 2 (by norm_num) 0 2 [1] [1] rfl
      (by simp [Separated, clampedU, exTol]; norm_num) (by simp) _
  obtain ⟨r, h1, h2, h3, h4, h5, h6, _, _⟩ := C12_open_surfaces_partial exTol htol 1 (exSA, exSB) exSA_wf exSB_wf
    (by decide +kernel) (by decide +kernel) (by decide +kernel)
    (fun _ k hk => by
      have : k = 0 := by
        rcases k with ⟨_ | _ | n, hn⟩
        · rfl
        · exact absurd rfl hk
        · omega
      subst this; exact hG)
    (fun h => absurd h (by decide)) (fun _ => hguard) (fun h => absurd h (by decide))
  have h2' : r.1.basis 1 = unionBasis (exSA.basis 1).order (exSB.basis 1).order
      (commonEntries (exSA.basis 1) (exSB.basis 1)) := h2
  refine ⟨r, h1, ?_, ?_, h3, (h4 0 (by decide)).1, (h4 0 (by decide)).2, h5, h6⟩
  · rw [h2']; decide +kernel
  · rw [h2']; decide +kernel

/-- `C12_open_surfaces_all_directions_partial` on the two example surfaces: every hypothesis is decided by
    the kernel (in direction `u` the orders agree, so the `GrevilleOK` side condition is not needed);
    `make_splines_identical` with `direction=None` succeeds, both results are well formed and carry the same
    basis in BOTH directions (`u`: `0,0,1/2,1,1`; `v`: order 3 on `0,0,0,1,1,1`), and each is the exact
    rescaling of its (compatible) input in both directions at once. -/
example : ∃ r, makeIdentical exTol false false exSA exSB none = .ok r
    ∧ C06.WF r.1 2 ∧ C06.WF r.2 2 ∧ r.2.basis 0 = r.1.basis 0 ∧ r.2.basis 1 = r.1.basis 1
    ∧ (r.1.basis 0).knots = #[0, 0, 1/2, 1, 1] ∧ (r.1.basis 1).knots = #[0, 0, 0, 1, 1, 1]
    ∧ (∀ comp, comp < (makeCompatible exSA exSB).1.ncomp → ∀ (s : Fin 2 → Side) (u : Fin 2 → ℚ),
        (C06.toTP r.1 2 comp).eval s
            (fun d => (u d - (exSA.basis d).start) / ((exSA.basis d).stop - (exSA.basis d).start))
          = (C06.toTP (makeCompatible exSA exSB).1 2 comp).eval s u) := by
  obtain ⟨r, h1, h2, h3, h4, _, h6, _⟩ := C12_open_surfaces_all_directions_partial exTol (by norm_num [exTol])
    exSA exSB exP_WF'.1 exP_WF'.2 exSA_wf exSB_wf
    (by intro i; fin_cases i <;> decide +kernel) (by intro i; fin_cases i <;> decide +kernel)
    (by intro i; fin_cases i <;> decide +kernel)
    (fun h => absurd h (by decide)) (fun h => absurd h (by decide))
  refine ⟨r, h1, h2, h3, (h4 0).2, (h4 1).2, ?_, ?_, h6⟩
  · have := (h4 0).1
    have h' : r.1.basis 0 = unionBasis (exSA.basis 0).order (exSB.basis 0).order
        (commonEntries (exSA.basis 0) (exSB.basis 0)) := this
    rw [h']; decide +kernel
  · have := (h4 1).1
    have h' : r.1.basis 1 = unionBasis (exSA.basis 1).order (exSB.basis 1).order
        (commonEntries (exSA.basis 1) (exSB.basis 1)) := this
    rw [h']; decide +kernel

/-- `C12_open_volumes_all_directions_partial` on two example VOLUMES (direction 0: `0,0,1,2,2` on `[0,2]`
    against `0,0,4,4` on `[0,4]`; direction 2: order 2 against order 3): every hypothesis is decided by the
    kernel (orders differ only in the LAST direction, so no `GrevilleOK` side condition arises); the call
    with `direction=None` succeeds after three rounds, both results are well formed and carry the same
    basis in all three directions (`0,0,1/2,1,1`; `0,0,1,1`; order 3 on `0,0,0,1,1,1`). -/
example : ∃ r, makeIdentical exTol false false exVA exVB none = .ok r
    ∧ C06.WF r.1 3 ∧ C06.WF r.2 3 ∧ (∀ i : Fin 3, r.2.basis i = r.1.basis i)
    ∧ (r.1.basis 0).knots = #[0, 0, 1/2, 1, 1] ∧ (r.1.basis 1).knots = #[0, 0, 1, 1]
    ∧ (r.1.basis 2).order = 3 ∧ (r.1.basis 2).knots = #[0, 0, 0, 1, 1, 1] := by
  obtain ⟨r, h1, h2, h3, h4, _, _, _⟩ := C12_open_volumes_all_directions_partial exTol (by norm_num [exTol])
    exVA exVB exV_WF.1 exV_WF.2 exVA_wf exVB_wf
    (by intro i; fin_cases i <;> decide +kernel) (by intro i; fin_cases i <;> decide +kernel)
    (by intro i; fin_cases i <;> decide +kernel)
    (fun i k hik h => by
      fin_cases i <;> fin_cases k <;> first | exact absurd hik (by decide) | exact absurd h (by decide))
    (fun i k hik h => by
      fin_cases i <;> fin_cases k <;> first | exact absurd hik (by decide) | exact absurd h (by decide))
  have e0 : r.1.basis 0 = unionBasis (exVA.basis 0).order (exVB.basis 0).order
      (commonEntries (exVA.basis 0) (exVB.basis 0)) := (h4 0).1
  have e1 : r.1.basis 1 = unionBasis (exVA.basis 1).order (exVB.basis 1).order
      (commonEntries (exVA.basis 1) (exVB.basis 1)) := (h4 1).1
  have e2 : r.1.basis 2 = unionBasis (exVA.basis 2).order (exVB.basis 2).order
      (commonEntries (exVA.basis 2) (exVB.basis 2)) := (h4 2).1
  refine ⟨r, h1, h2, h3, fun i => (h4 i).2, ?_, ?_, ?_, ?_⟩
  · rw [e0]; decide +kernel
  · rw [e1]; decide +kernel
  · rw [e2]; decide +kernel
  · rw [e2]; decide +kernel

/-- `C12_periodic_curves_partial` on an open segment and a `C^0`-periodic polyline (`n = 2 = p + k`
    functions): `lower_periodic` opens the polyline at the seam, both end on `0,0,1/2,1,1`, the segment
    is an exact rescaling for all parameters and the polyline on its domain `[0,2]`. -/
example : ∃ r, identicalDir exTol true true (exSeg, exPer) 0 = .ok r
    ∧ (r.1.basis 0).knots = #[0, 0, 1/2, 1, 1] ∧ r.2.basis 0 = r.1.basis 0
    ∧ Rescaled 1 0 (exSeg.basis 0).start (exSeg.basis 0).stop exSeg r.1
    ∧ RescaledOn 1 0 (exPer.basis 0).start (exPer.basis 0).stop exPer r.2 := by
  obtain ⟨hb1, hlow, hk, _, _⟩ := exPer_norm
  have htol : (0 : ℚ) < exTol := by norm_num [exTol]
  have hgap : Separated (2 * ((max 2 2 - 1 : ℕ) : ℚ) * exTol)
      (clampedU (0 : ℚ) 1 ([((1 : ℚ)/2, 0, 1)].map (·.1))) := by
    simp [Separated, clampedU, exTol]; norm_num
  have hb2 : ∀ o2, (C06.reparamObj exPer 0 0 1).lowerPeriodic (-1) 0 = .ok o2 →
      o2.basis 0 = openBasis 2 (clampedU (0 : ℚ) 1 ([((1 : ℚ)/2, 0, 1)].map (·.1)))
        (clampedM 2 ([((1 : ℚ)/2, 0, 1)].map (·.2.2))) := by
    intro o2 h
    rw [h] at hlow
    simpa using hlow
  obtain ⟨r, h1, h2, h3, h4, h5⟩ := C12_periodic_curves_partial exTol htol true true 2 2 (by norm_num) (by norm_num)
    0 1 [((1 : ℚ)/2, 0, 1)] (by simp) hgap (exSeg, exPer) exSeg_wf exPer_wf hb1 0 hk hb2
  refine ⟨r, h1, ?_, h3, h4, h5⟩
  rw [h2]; decide +kernel

/-- `C12_periodic_curves_partial` BELOW `p + k` functions: an open quadratic segment against a
    `C^1`-periodic quadratic curve with `n = 3 < p + k = 4` functions (knots `-2,…,5`, domain `[0,3]`):
    `lower_periodic` (cover branch of the periodic insertion) opens it to `0,0,0,1/3,2/3,1,1,1`, both end on
    that knot vector — the theorem's union basis agrees with the kernel evaluation of the whole model run —,
    the segment is an exact rescaling for all parameters and the periodic curve on its domain. -/
example : (exPPC.basis 0).numFunctions < (exPPC.basis 0).order + 1 ∧
    ∃ r, identicalDir exTol true true (exSeg3, exPPC) 0 = .ok r
    ∧ (r.1.basis 0).knots = #[0, 0, 0, 1/3, 2/3, 1, 1, 1] ∧ r.2.basis 0 = r.1.basis 0
    ∧ Rescaled 1 0 (exSeg3.basis 0).start (exSeg3.basis 0).stop exSeg3 r.1
    ∧ RescaledOn 1 0 (exPPC.basis 0).start (exPPC.basis 0).stop exPPC r.2 := by
  obtain ⟨hn, hk, hb1, hlow, hrun, _⟩ := exPPC_norm
  refine ⟨hn, ?_⟩
  have htol : (0 : ℚ) < exTol := by norm_num [exTol]
  have hgap : Separated (2 * ((max 3 3 - 1 : ℕ) : ℚ) * exTol)
      (clampedU (0 : ℚ) 1 ([((1 : ℚ)/3, 0, 1), (2/3, 0, 1)].map (·.1))) := by
    simp [Separated, clampedU, exTol]; norm_num
  have hb2 : ∀ o2, (C06.reparamObj exPPC 0 0 1).lowerPeriodic (-1) 0 = .ok o2 →
      o2.basis 0 = openBasis 3 (clampedU (0 : ℚ) 1 ([((1 : ℚ)/3, 0, 1), (2/3, 0, 1)].map (·.1)))
        (clampedM 3 ([((1 : ℚ)/3, 0, 1), (2/3, 0, 1)].map (·.2.2))) := by
    intro o2 h
    rw [h] at hlow
    simpa using hlow
  obtain ⟨r, h1, _, _, h4, h5⟩ := C12_periodic_curves_partial exTol htol true true 3 3 (by norm_num) (by norm_num)
    0 1 [((1 : ℚ)/3, 0, 1), (2/3, 0, 1)]
    (by intro e he; simp only [List.mem_cons, List.not_mem_nil, or_false] at he
        rcases he with rfl | rfl <;> decide)
    hgap (exSeg3, exPPC) exSeg3_wf exPPC_wf hb1 1 hk hb2
  rw [h1] at hrun
  have hrun' := of_decide_eq_true hrun
  exact ⟨r, h1, hrun'.1, hrun'.2, h4, h5⟩

/-- `C12_periodic_pair_partial` on a `C^0`-periodic quadratic curve on `[0,3]` (`n = 4`) and a
    `C^1`-periodic quadratic curve on `[0,4]` (`n = 4`): the call succeeds, both end `C^0`-periodic of
    order 3 and are exact rescalings of their inputs on their domains. -/
example : ∃ r, identicalDir exTol true true (exPPA, exPPB) 0 = .ok r
    ∧ RescaledOn 1 0 (exPPA.basis 0).start (exPPA.basis 0).stop exPPA r.1
    ∧ RescaledOn 1 0 (exPPB.basis 0).start (exPPB.basis 0).stop exPPB r.2
    ∧ (r.1.basis 0).periodic = 0 ∧ (r.2.basis 0).periodic = 0 := by
  obtain ⟨r, h1, h2, h3, _, _, h6, h7, _⟩ := C12_periodic_pair_partial (m := 1) exTol true true 0 (by decide)
    (exPPA, exPPB) exPPA_wf exPPB_wf 0 1 (by decide) (by decide) (by decide) (by decide)
  exact ⟨r, h1, h2, h3, h6, h7⟩

/-- `C12_periodic_pair_partial` BELOW `p + k` functions: the `C^0`-periodic quadratic curve (`n = 4`) against
    the `C^1`-periodic quadratic curve with `n = 3 < p + k = 4` functions: the call succeeds (cover branch in
    `lower_periodic` and in the periodic insertions), both end `C^0`-periodic and are exact rescalings on
    their domains; the kernel evaluation of the whole model run adds that both end with the SAME knot vector
    `-1/3,0,0,1/3,2/3,1,1,4/3` (the part the theorem does not state). -/
example : (exPPC.basis 0).numFunctions < (exPPC.basis 0).order + 1 ∧
    ∃ r, identicalDir exTol true true (exPPA, exPPC) 0 = .ok r
    ∧ RescaledOn 1 0 (exPPA.basis 0).start (exPPA.basis 0).stop exPPA r.1
    ∧ RescaledOn 1 0 (exPPC.basis 0).start (exPPC.basis 0).stop exPPC r.2
    ∧ (r.1.basis 0).periodic = 0 ∧ (r.2.basis 0).periodic = 0
    ∧ (r.1.basis 0).knots = #[-1/3, 0, 0, 1/3, 2/3, 1, 1, 4/3] ∧ r.2.basis 0 = r.1.basis 0 := by
  obtain ⟨hn, _, _, _, _, hrun⟩ := exPPC_norm
  refine ⟨hn, ?_⟩
  obtain ⟨r, h1, h2, h3, _, _, h6, h7, _⟩ := C12_periodic_pair_partial (m := 1) exTol true true 0 (by decide)
    (exPPA, exPPC) exPPA_wf exPPC_wf 0 1 (by decide) (by decide) (by decide) (by decide)
  have h1' : identicalDir exTol true true (exPPA, exPPC) 0 = .ok r := h1
  rw [h1'] at hrun
  have hrun' := of_decide_eq_true hrun
  exact ⟨r, h1, h2, h3, h6, h7, hrun'.1, hrun'.2⟩

/-- `C12_directions`: for these curves the explicit directions `0`, `'u'`, `'U'` are the same call,
    `'v'` is a `ValueError`, and `direction=None` is the one-step loop. -/
example : makeIdentical exTol true true exA exB (some (.str "U")) = makeIdentical exTol true true exA exB (some (.int 0))
    ∧ makeIdentical exTol true true exA exB (some (.str "v")) = .error .value
    ∧ makeIdentical exTol true true exA exB none
        = (List.range 1).foldlM (fun (s : Obj ℚ × Obj ℚ) (i : ℕ) =>
            makeIdentical exTol true true s.1 s.2 (some (.int (i : Int)))) (makeCompatible exA exB) := by
  obtain ⟨h1, h2, h3, _⟩ := C12_directions exTol true true exA exB
  exact ⟨(h2 (.str "U") 0 (by decide)).1, h3 (.str "v") .value (by decide), h1⟩

end examples
