import Splipy.Lemmas.C04Basis
import Splipy.Lemmas.C04Seq
import Splipy.Lemmas.C04Tensor
import Splipy.Lemmas.C04Refine
import Splipy.Lemmas.C04Periodic
import Splipy.Lemmas.C04PerSeq
import Splipy.Lemmas.C04Graded
import Splipy.Lemmas.C04PerEval
import Splipy.Lemmas.C04PerKnots
import Splipy.Lemmas.C04PerEvalAll
import Mathlib.Tactic.NormNum
import Mathlib.Tactic.IntervalCases
import Mathlib.Data.Rat.Floor

/-!
# Property C04 — knot insertion and refinement never change the geometry

Model: `Basis.insertKnot` (`BSplineBasis.insert_knot`), `Obj.insertKnots` (`SplineObject.insert_knot`),
`Obj.refineDir` / `refineValues` (`SplineObject.refine`).  Spec: `splineVal` / `splineDeriv` (Cox–de Boor).

Vocabulary (defined in `Lemmas/C04*.lean`):
* `C04.mulVec C n c r = Σ_{j<n} C[r][j]·c j` — the coefficient vector `C·c`;
* `C04.Shape rows cols C` — `C` is a `rows × cols` array;
* `C04.Refines b b' C k` — bundle of exactly the conclusions of `C04_open` with `k` inserted knots:
  `b'` valid, same order / periodicity / start / end, `k` more knots and functions, `C` of shape
  `(n+k) × n`, and `splineVal/​splineDeriv` on `b'` with coefficients `C·c` equal those on `b` with `c`
  for every `c`, side, parameter and derivative order;
* `C04.fibre o dir a i` — the 1-D fibre of the control net along `dir` through outer index `a` and
  inner index `i` (for a curve: `a = 0`, `i` = the homogeneous coordinate).
* `C04.wsum s τ q nAll n c d t = Σ_{i<nAll} c (i mod n) · dB s τ q i d t` — the periodic spline: sum over
  all wrapped images of the `nAll = n+k+1` functions of the ghost-extended knot vector (this is what
  `BSplineBasis.evaluate` computes for periodic bases, `C01_value_deriv_periodic`).
* `C04.PerRefines b b' C k` — periodic analogue of `Refines`, with `wsum` on the domain
  (`Side.mem start end t`) in place of `splineVal`/`splineDeriv`.
* `C04.wrapVal b x0` — the value `insert_knot` really inserts into a periodic basis
  (`x0` inside `[start,end]`, else `(x0-start) % (end-start) + start`).
* `C04.matF`, `C04.repSeq` — the matrix of `insert_knot` (with its modular writes) as a function, and
  the knot sequence after the periodic ghost repair.
* `C04.zext b : ℤ → K` — the knot vector of a periodic basis extended periodically to all integer
  indices (`zext b (i+n) = zext b i + T`, `zext b i = knots[i]` on the array); `C04.insZ f μ w` — the
  sequence `f` with `w` inserted at position `μ`; `C04.PerIns b b' w` — some `n+1` consecutive knots of
  `b'` (one period) are `n` consecutive knots of `b` (one period) with `w` inserted in sorted position.
* `Basis.perMult b v` — the number of knots among the first `n` (one period) that are congruent to `v`
  modulo the period `T = end - start`: the multiplicity of `v` in the periodic knot set;
  `C04.congCount T xs v` — the number of entries of the list `xs` congruent to `v` modulo `T`.

Model notes (after the repair of periodic `insert_knot`): the insertion index of a periodic basis is
`Basis.insertMu = min(bisect_right, len(knots) - p)` (the end of the domain is not passed, so `x = end`
works for every seam multiplicity); a periodic basis with `n < p + k` functions is refined through its
`R`-fold cover (`Basis.insertKnot`, cover branch; `R = ⌈(p+k)/n⌉`).  Both branches are covered by
theorems: `C04_periodic_small` (cover branch), `C04_periodic_partial` (direct algorithm, with the
explicit form of the repaired knot vector), and `C04_periodic` for every valid periodic basis.

Overview: open directions — `C04_open`, `C04_open_interior`, `C04_sequence`, `C04_object`, `C04_curve`,
`C04_refine`, `C04_graded`, `C04_rejects`; periodic directions, every valid periodic basis and every real
value — `C04_periodic`, `C04_periodic_sequence`, `C04_periodic_object` (fibre-wise),
`C04_periodic_evaluate_curve_partial` (evaluator level, curves); the two branches separately —
`C04_periodic_small`, `C04_periodic_partial`, `C04_periodic_boehm` (specification level); the older
guarded forms `C04_periodic_sequence_partial`, `C04_periodic_object_partial` are kept as corollaries;
evaluator level for open directions of curves/surfaces/volumes — `Bridge_C04_*` in
`Properties/Bridge.lean`.

Theorems about the MODEL; multiplicities beyond the order are not excluded here (the spec's `0/0 = 0`
makes Boehm's identity hold there too) although the real code produces NaN there — such inputs are
outside the property's quantifier and are not part of the correspondence run.
-/

open Splipy Splipy.C04

set_option linter.unusedSectionVars false

variable {K : Type} [Field K] [LinearOrder K] [IsStrictOrderedRing K] [FloorRing K]

/-- A value outside `[start, end]` of a non-periodic basis is rejected with `ValueError`. -/
theorem C04_rejects (b : Basis K) (x : K) (hper : b.periodic < 0)
    (hx : x < b.start ∨ b.stop < x) : b.insertKnot x = .error .value := by
  unfold Basis.insertKnot Basis.insertWrap
  simp only []
  rw [if_neg (not_le.2 hper), if_pos hx]

/-- **Knot insertion into an open (non-periodic) basis.**  For a valid non-periodic basis, a value
`x ∈ [start, end]` whose insertion position `μ = bisect_right(knots, x)` satisfies `μ-1+p < len(knots)`
(i.e. `x` is not the clamped end knot of full multiplicity, where the code raises `IndexError`):
`insert_knot` succeeds; the new basis is valid, has the old knots plus `x` at position `μ`
(`insertSeq`, also as a multiset: `Perm`), one more function, the same domain; the returned `C` is
`(n+1) × n`; and for every coefficient vector `c`, side and parameter the spline with coefficients
`C·c` on the new basis equals the old spline — values and all derivatives. -/
theorem C04_open (b : Basis K) (hv : b.Valid) (hper : b.periodic = -1) (x : K)
    (hx : b.start ≤ x ∧ x ≤ b.stop) (hμ : b.bisectR x - 1 + b.order < b.knots.size) :
    ∃ b' C, b.insertKnot x = .ok (b', C) ∧ b'.Valid ∧ b'.order = b.order ∧ b'.periodic = -1 ∧
      b'.knots.size = b.knots.size + 1 ∧
      (∀ j, b'.kn j = insertSeq b.kn (b.bisectR x) x j) ∧
      b'.knots.toList.Perm (x :: b.knots.toList) ∧
      b'.numFunctions = b.numFunctions + 1 ∧ b'.start = b.start ∧ b'.stop = b.stop ∧
      Shape (b.numFunctions + 1) b.numFunctions C ∧
      ∀ (c : ℕ → K) (s : Side) (t : K),
        splineVal s b'.kn (b.order - 1) (b.numFunctions + 1) (mulVec C b.numFunctions c) t
          = splineVal s b.kn (b.order - 1) b.numFunctions c t ∧
        ∀ d, splineDeriv s b'.kn (b.order - 1) (b.numFunctions + 1) (mulVec C b.numFunctions c) d t
          = splineDeriv s b.kn (b.order - 1) b.numFunctions c d t := by
  obtain ⟨b', C, h1, h2, h3, h4⟩ := insertKnot_open b hv hper x hx hμ
  exact ⟨b', C, h1, h2.valid, h2.order_eq, h2.periodic_eq.trans hper, h2.size_eq, h3, h4, h2.num_eq,
    h2.start_eq, h2.stop_eq, h2.shape, h2.same⟩

/-- `C04_open` for `start ≤ x < end`: the index guard holds automatically (clamped or not). -/
theorem C04_open_interior (b : Basis K) (hv : b.Valid) (hper : b.periodic = -1) (x : K)
    (hx : b.start ≤ x ∧ x < b.stop) :
    ∃ b' C, b.insertKnot x = .ok (b', C) ∧ Refines b b' C 1 ∧
      (∀ j, b'.kn j = insertSeq b.kn (b.bisectR x) x j) ∧
      b'.knots.toList.Perm (x :: b.knots.toList) :=
  insertKnot_open b hv hper x ⟨hx.1, le_of_lt hx.2⟩ (guard_of_lt_stop b hv x hx.2)

/-- **Sequences of insertions** (the loop `C = basis.insert_knot(k) @ C` of
`SplineObject.insert_knot`, `insertMany`): any list of values in `[start, end)` of a valid non-periodic
basis, in any order, with repetitions: every step succeeds, the final basis refines the first one
(`Refines … xs.length`: valid, `xs.length` more knots and functions, same domain, accumulated matrix
`C_k ⋯ C_1 · I` maps coefficients to coefficients of the same function, values and derivatives), and
its knot vector is the old one plus exactly the inserted values (as a multiset; it is sorted by
validity). -/
theorem C04_sequence (b : Basis K) (hv : b.Valid) (hper : b.periodic = -1) (xs : List K)
    (hxs : ∀ x ∈ xs, b.start ≤ x ∧ x < b.stop) :
    ∃ b' C, insertMany b (Mat.identity b.numFunctions) xs = .ok (b', C) ∧
      Refines b b' C xs.length ∧ b'.knots.toList.Perm (xs ++ b.knots.toList) :=
  insertMany_open b hv hper xs hxs

/-- **Lifting to objects** (`Obj.insertKnots` = `SplineObject.insert_knot(list, direction)`), any
parametric dimension, rational or not: along a valid non-periodic direction `dir` whose control-net
length matches the basis, inserting values of `[start, end)`:
the call succeeds; direction `dir` gets the refined basis (old knots + inserted values), the other
bases and the `rational` flag are untouched; the control net grows by one point per inserted knot in
direction `dir` only; every fibre of the new net along `dir` is `C` applied to the old fibre; hence the
spline of EVERY fibre (every homogeneous coordinate on every grid line) is unchanged at every
parameter, from both sides, with all derivatives. -/
theorem C04_object (o : Obj K) (dir : ℕ) (hdir : dir < o.bases.size)
    (hax : dir < o.cps.shape.length) (hv : (o.basis dir).Valid) (hper : (o.basis dir).periodic = -1)
    (hshape : o.cps.shape.getD dir 0 = (o.basis dir).numFunctions) (xs : List K)
    (hxs : ∀ x ∈ xs, (o.basis dir).start ≤ x ∧ x < (o.basis dir).stop) :
    ∃ o' C, o.insertKnots xs dir = .ok o' ∧
      Refines (o.basis dir) (o'.basis dir) C xs.length ∧
      (o'.basis dir).knots.toList.Perm (xs ++ (o.basis dir).knots.toList) ∧
      (∀ d, d ≠ dir → o'.basis d = o.basis d) ∧ o'.rational = o.rational ∧
      o'.cps.shape = o.cps.shape.set dir ((o.basis dir).numFunctions + xs.length) ∧
      outerN o' dir = outerN o dir ∧ innerN o' dir = innerN o dir ∧
      (∀ a i r, a < outerN o dir → i < innerN o dir → r < (o.basis dir).numFunctions + xs.length →
        fibre o' dir a i r = mulVec C (o.basis dir).numFunctions (fibre o dir a i) r) ∧
      ∀ a i, a < outerN o dir → i < innerN o dir → ∀ (s : Side) (t : K),
        splineVal s (o'.basis dir).kn ((o.basis dir).order - 1) ((o.basis dir).numFunctions + xs.length)
            (fibre o' dir a i) t
          = splineVal s (o.basis dir).kn ((o.basis dir).order - 1) (o.basis dir).numFunctions
            (fibre o dir a i) t ∧
        ∀ d, splineDeriv s (o'.basis dir).kn ((o.basis dir).order - 1)
            ((o.basis dir).numFunctions + xs.length) (fibre o' dir a i) d t
          = splineDeriv s (o.basis dir).kn ((o.basis dir).order - 1) (o.basis dir).numFunctions
            (fibre o dir a i) d t := by
  obtain ⟨o', C, h1, h2, h3, h4, h5, h6, h7, h8, h9⟩ :=
    insertKnots_fibres o dir hdir hax hv hper hshape xs hxs
  refine ⟨o', C, h1, h2, h3, h4, h5, h6, h7, h8, h9, fun a i ha hi s t => ⟨?_, fun d => ?_⟩⟩
  · rw [splineVal_congr s _ _ _ _ _ t (fun r hr => h9 a i r ha hi hr)]
    exact (h2.same (fibre o dir a i) s t).1
  · rw [splineDeriv_congr s _ _ _ _ _ d t (fun r hr => h9 a i r ha hi hr)]
    exact (h2.same (fibre o dir a i) s t).2 d

/-- **Curves, completely**: for a curve (control net `n × ncomp`) every homogeneous coordinate function
`t ↦ Σ_j cps[j][i]·N_j(t)` is unchanged by inserting a list of knots — hence so is the evaluated point
(the quotient by the weight coordinate for rational curves) and every derivative. -/
theorem C04_curve (o : Obj K) (n nc : ℕ) (hsh : o.cps.shape = [n, nc]) (hb : 0 < o.bases.size)
    (hv : (o.basis 0).Valid) (hper : (o.basis 0).periodic = -1) (hn : n = (o.basis 0).numFunctions)
    (xs : List K) (hxs : ∀ x ∈ xs, (o.basis 0).start ≤ x ∧ x < (o.basis 0).stop) :
    ∃ o', o.insertKnots xs 0 = .ok o' ∧ o'.cps.shape = [n + xs.length, nc] ∧
      (o'.basis 0).Valid ∧ (o'.basis 0).knots.toList.Perm (xs ++ (o.basis 0).knots.toList) ∧
      ∀ i, i < nc → ∀ (s : Side) (t : K),
        splineVal s (o'.basis 0).kn ((o.basis 0).order - 1) (n + xs.length)
            (fun j => o'.cps.get (j * nc + i)) t
          = splineVal s (o.basis 0).kn ((o.basis 0).order - 1) n (fun j => o.cps.get (j * nc + i)) t ∧
        ∀ d, splineDeriv s (o'.basis 0).kn ((o.basis 0).order - 1) (n + xs.length)
            (fun j => o'.cps.get (j * nc + i)) d t
          = splineDeriv s (o.basis 0).kn ((o.basis 0).order - 1) n
            (fun j => o.cps.get (j * nc + i)) d t := by
  have hax : 0 < o.cps.shape.length := by rw [hsh]; simp
  have hshape : o.cps.shape.getD 0 0 = (o.basis 0).numFunctions := by rw [hsh, ← hn]; rfl
  obtain ⟨o', C, h1, h2, h3, _, _, h6, _, _, _, h10⟩ := C04_object o 0 hb hax hv hper hshape xs hxs
  have hsh' : o'.cps.shape = [n + xs.length, nc] := by rw [h6, hsh, ← hn]; rfl
  have hout : outerN o 0 = 1 := by simp [outerN, Tensor.split3, Tensor.prod]
  have hinn : innerN o 0 = nc := by simp [innerN, Tensor.split3, Tensor.prod, hsh]
  have hf : ∀ (o₁ : Obj K) (m : ℕ), o₁.cps.shape = [m, nc] → ∀ i,
      fibre o₁ 0 0 i = fun j => o₁.cps.get (j * nc + i) := by
    intro o₁ m hs i
    funext j
    simp [fibre, Tensor.at3, Tensor.split3, Tensor.prod, hs]
  refine ⟨o', h1, hsh', h2.valid, h3, fun i hi s t => ?_⟩
  have := h10 0 i (by rw [hout]; exact Nat.one_pos) (by rw [hinn]; exact hi) s t
  rw [hf o n hsh i, hf o' _ hsh' i, ← hn] at this
  exact this

/-- Tensor-product form of `C04_object`: any fixed linear combination of the fibre splines (in
particular, with `w a i` = product of the other directions' basis values at a parameter tuple times a
coordinate selector, the tensor-product evaluation `Σ_{i1..id} Π_k N_{ik}(u_k) P_{i1..id}`) is
unchanged.  `_partial`: the identification of `Obj.evaluate`'s contraction over all axes with this
weighted fibre sum is not part of this file; it is done, with the real evaluator `Obj.evaluate`
(snap, domain validation, projective division), in `Properties/Bridge.lean`:
`Bridge_C04_curve`, `Bridge_C04_surface_u/v`, `Bridge_C04_volume_u/v/w`, `Bridge_C04_refine_*`
(`o.insertKnots xs dir = .ok o'` ⇒ `o'.evaluate tol params = o.evaluate tol params` at admissible
parameters, non-periodic directions).  For curves `C04_curve` is complete at the spec level. -/
theorem C04_object_eval_partial (o : Obj K) (dir : ℕ) (hdir : dir < o.bases.size)
    (hax : dir < o.cps.shape.length) (hv : (o.basis dir).Valid) (hper : (o.basis dir).periodic = -1)
    (hshape : o.cps.shape.getD dir 0 = (o.basis dir).numFunctions) (xs : List K)
    (hxs : ∀ x ∈ xs, (o.basis dir).start ≤ x ∧ x < (o.basis dir).stop) :
    ∃ o', o.insertKnots xs dir = .ok o' ∧ ∀ (w : ℕ → ℕ → K) (s : Side) (t : K) (d : ℕ),
      (Finset.range (outerN o' dir)).sum (fun a => (Finset.range (innerN o' dir)).sum (fun i =>
        w a i * splineDeriv s (o'.basis dir).kn ((o'.basis dir).order - 1) (o'.basis dir).numFunctions
          (fibre o' dir a i) d t))
      = (Finset.range (outerN o dir)).sum (fun a => (Finset.range (innerN o dir)).sum (fun i =>
        w a i * splineDeriv s (o.basis dir).kn ((o.basis dir).order - 1) (o.basis dir).numFunctions
          (fibre o dir a i) d t)) := by
  obtain ⟨o', C, h1, h2, _, _, _, _, h7, h8, _, h10⟩ := C04_object o dir hdir hax hv hper hshape xs hxs
  refine ⟨o', h1, fun w s t d => ?_⟩
  rw [h7, h8, h2.order_eq, h2.num_eq]
  apply Finset.sum_congr rfl
  intro a ha
  apply Finset.sum_congr rfl
  intro i hi
  rw [(h10 a i (Finset.mem_range.1 ha) (Finset.mem_range.1 hi) s t).2 d]

/-- **`refine`**: the values `SplineObject.refine(n)` inserts in a direction (`refineValues` of
`knot_spans()`: `k0 + j·(k1-k0)/(n+1)`, `j = 1..n`, for consecutive distinct knots `k0 < k1`) lie strictly
inside a knot span each, hence strictly inside the domain, for any non-negative knot tolerance; so the
pass of `refine` over a valid non-periodic direction succeeds and has all the conclusions of
`C04_object` (with exactly these values inserted). -/
theorem C04_refine (o : Obj K) (tol : K) (htol : 0 ≤ tol) (n dir : ℕ) (hdir : dir < o.bases.size)
    (hpd : dir < o.pardim) (hv : (o.basis dir).Valid) (hper : (o.basis dir).periodic = -1)
    (hshape : o.cps.shape.getD dir 0 = (o.basis dir).numFunctions) :
    let spans := ((o.basis dir).knotSpans tol false).toList
    let xs := refineValues spans n
    (∀ v ∈ xs, (∃ k0 k1, (k0, k1) ∈ List.zip spans spans.tail ∧ k0 < v ∧ v < k1) ∧
        (o.basis dir).start < v ∧ v < (o.basis dir).stop) ∧
    o.refineDir tol n dir = o.insertKnots xs dir ∧
    ∃ o' C, o.refineDir tol n dir = .ok o' ∧
      Refines (o.basis dir) (o'.basis dir) C xs.length ∧
      (o'.basis dir).knots.toList.Perm (xs ++ (o.basis dir).knots.toList) ∧
      ∀ a i, a < outerN o dir → i < innerN o dir → ∀ (s : Side) (t : K) (d : ℕ),
        splineDeriv s (o'.basis dir).kn ((o.basis dir).order - 1)
            ((o.basis dir).numFunctions + xs.length) (fibre o' dir a i) d t
          = splineDeriv s (o.basis dir).kn ((o.basis dir).order - 1) (o.basis dir).numFunctions
            (fibre o dir a i) d t := by
  intro spans xs
  obtain ⟨hs1, hs2⟩ := knotSpans_spec (o.basis dir) hv tol htol
  have hmem : ∀ v ∈ xs, (∃ k0 k1, (k0, k1) ∈ List.zip spans spans.tail ∧ k0 < v ∧ v < k1) ∧
      (o.basis dir).start < v ∧ v < (o.basis dir).stop :=
    fun v hv' => refineValues_mem spans hs1 _ _ hs2 n v hv'
  have hcall : o.refineDir tol n dir = o.insertKnots xs dir := by
    unfold Obj.refineDir Obj.insertKnotDir
    rw [if_pos hpd]
    simp only []
    rw [if_pos hpd]
  have hax : dir < o.cps.shape.length := by unfold Obj.pardim at hpd; omega
  obtain ⟨o', C, h1, h2, h3, _, _, _, _, _, _, h10⟩ := C04_object o dir hdir hax hv hper hshape xs
    (fun v hv' => ⟨le_of_lt (hmem v hv').2.1, (hmem v hv').2.2⟩)
  exact ⟨hmem, hcall, o', C, hcall.trans h1, h2, h3,
    fun a i ha hi s t d => (h10 a i ha hi s t).2 d⟩

/-- **`geometric_refine`** (`reverse=False`): for `α > 0`, `n ≥ 1` and non-negative tolerances the call
IS `insert_knot` of at most `n` values (`knot_start + (Σ_{j≤i} α^j / Σ_{j≤n} α^j)·(knot_end-knot_start)`,
those not filtered by `knot_exists`) which all lie strictly inside the domain; hence along a valid
non-periodic direction it succeeds with all the conclusions of `C04_object`.
(`reverse=True` additionally composes with `Obj.reverse` twice — property C06.) -/
theorem C04_graded (o : Obj K) (tol atol rtol α : K) (htol : 0 ≤ tol) (hat : 0 ≤ atol)
    (hrt : 0 ≤ rtol) (hα : 0 < α) (n : ℕ) (hn : 1 ≤ n) (dir : ℕ) (hdir : dir < o.bases.size)
    (hpd : dir < o.pardim) (hv : (o.basis dir).Valid) (hper : (o.basis dir).periodic = -1)
    (hshape : o.cps.shape.getD dir 0 = (o.basis dir).numFunctions) :
    ∃ (xs : List K) (o' : Obj K) (C : Mat K),
      o.geometricRefine tol atol rtol α (n : Int) dir false = o.insertKnots xs dir ∧
      xs.length ≤ n ∧ (∀ v ∈ xs, (o.basis dir).start < v ∧ v < (o.basis dir).stop) ∧
      o.geometricRefine tol atol rtol α (n : Int) dir false = .ok o' ∧
      Refines (o.basis dir) (o'.basis dir) C xs.length ∧
      (o'.basis dir).knots.toList.Perm (xs ++ (o.basis dir).knots.toList) ∧
      ∀ a i, a < outerN o dir → i < innerN o dir → ∀ (s : Side) (t : K) (d : ℕ),
        splineDeriv s (o'.basis dir).kn ((o.basis dir).order - 1)
            ((o.basis dir).numFunctions + xs.length) (fibre o' dir a i) d t
          = splineDeriv s (o.basis dir).kn ((o.basis dir).order - 1) (o.basis dir).numFunctions
            (fibre o dir a i) d t := by
  obtain ⟨xs, hcall, hlen, hmem⟩ :=
    geometricRefine_values o tol atol rtol α htol hat hrt hα n hn dir hpd hv
  have hax : dir < o.cps.shape.length := by unfold Obj.pardim at hpd; omega
  obtain ⟨o', C, h1, h2, h3, _, _, _, _, _, _, h10⟩ := C04_object o dir hdir hax hv hper hshape xs
    (fun v hv' => ⟨le_of_lt (hmem v hv').1, (hmem v hv').2⟩)
  exact ⟨xs, o', C, hcall, hlen, hmem, hcall.trans h1, h2, h3,
    fun a i ha hi s t d => (h10 a i ha hi s t).2 d⟩

/-- **Periodic Boehm, specification level.**  `τ` monotone, ghost knots repeating with period `T`
over `n` functions (`τ (i+n) = τ i + T` for the `p+k+1` indices of the array; `n+k+1` functions live on
the ghost-extended vector), order `p = q+1`, continuity `k ≤ p-2`, guard `p+k ≤ n`; `x` inserted at
`μ ∈ [p, n+k+1]`, `τ (μ-1) ≤ x ≤ τ μ`.  With the repaired knot sequence `repSeq` (what the two repair
loops of `insert_knot` produce when source and target ranges are disjoint) and `c' = matF·c` (the
matrix of `insert_knot` with its `i % (n+1)`, `i % n` writes, as a function), the periodic splines
`wsum` (sum over all wrapped images) agree on the domain, for both one-sided versions and all
derivatives.  Proof: open Boehm for `x` and for its periodic image `x ± T` on the unrolled vector with
`c (i mod n)`, dropping the one function that leaves the window, folding indices. -/
theorem C04_periodic_boehm (τ : ℕ → K) (x T : K) (n p k mu : ℕ) (s : Side) (hτ : Monotone τ)
    (q : ℕ) (hpq : p = q + 1) (hp : k + 2 ≤ p) (hguard : p + k ≤ n)
    (hg : ∀ i, i ≤ p + k → τ (i + n) = τ i + T) (h1 : p ≤ mu) (h2 : mu ≤ n + k + 1)
    (hx : τ (mu - 1) ≤ x ∧ x ≤ τ mu) (c : ℕ → K) (d : ℕ) (t : K)
    (ht : s.mem (τ (p - 1)) (τ (n + k + 1)) t) :
    wsum s (repSeq (insertSeq τ mu x) mu n (p + k)) q (n + k + 1 + 1) (n + 1)
        (mulVecF (matF τ x n p mu) n c) d t
      = wsum s τ q (n + k + 1) n c d t :=
  wsum_insert_periodic τ x T n p k mu s hτ q hpq hp hguard hg h1 h2 hx c d t ht

/-- **Periodic bases under the guard `n ≥ p + k`.**
For a valid periodic basis (continuity `k`, `n` functions, order `p`) with `n ≥ p + k` and ANY real
`x0` (wrapped image `x = wrapVal b x0`: `x0` itself inside `[start,end]`, else
`(x0-start) % (end-start) + start`; `x = end` included — the insertion index is
`insertMu = min(bisect_right, len(knots) - p)`):
`insert_knot(x0)` = `insert_knot(x)` succeeds; the repaired knot vector is a valid periodic knot vector
(sorted; the ghost knots repeat the interior ones with the unchanged period over `n+1` functions:
"periodic images consistent"), with the same start and end, one more knot and function; away from the
`p+k+1` ghost positions it is `np.insert(knots, μ, x)`; `C` is `(n+1) × n`; and **the geometry is
unchanged**: for every coefficient vector `c`, side, derivative order and parameter `t` of the domain
(`Side.mem start end`: `[start,end)` from the right, `(start,end]` from the left — the effective
point/side of `C01_value_deriv_periodic`), the periodic spline `wsum` (the sum over all wrapped images
that `BSplineBasis.evaluate` computes) with coefficients `C·c` on the new basis equals the one with `c`
on the old basis.
`_partial` — this is the direct-algorithm branch only (it also gives the explicit repaired knot vector
away from the ghost positions); `n < p + k` is `C04_periodic_small`, and `C04_periodic` combines the
two without any guard. -/
theorem C04_periodic_partial (b : Basis K) (hv : b.Valid) (k : ℕ) (hk : b.periodic = (k : Int))
    (hguard : b.order + k ≤ b.numFunctions) (x0 : K) :
    b.start ≤ wrapVal b x0 ∧ wrapVal b x0 ≤ b.stop ∧
    b.insertKnot x0 = b.insertKnot (wrapVal b x0) ∧
    ∃ b' C, b.insertKnot x0 = .ok (b', C) ∧ b'.Valid ∧ b'.order = b.order ∧
      b'.periodic = b.periodic ∧ b'.knots.size = b.knots.size + 1 ∧
      b'.numFunctions = b.numFunctions + 1 ∧ b'.start = b.start ∧ b'.stop = b.stop ∧
      (∀ j, b.order + k < j → j < b.numFunctions + 1 →
        b'.kn j = insertSeq b.kn (b.insertMu (wrapVal b x0)) (wrapVal b x0) j) ∧
      Shape (b.numFunctions + 1) b.numFunctions C ∧
      ∀ (c : ℕ → K) (s : Side) (d : ℕ) (t : K), s.mem b.start b.stop t →
        wsum s b'.kn (b.order - 1) (b.nAll + 1) (b.numFunctions + 1) (mulVec C b.numFunctions c) d t
          = wsum s b.kn (b.order - 1) b.nAll b.numFunctions c d t := by
  obtain ⟨h1, h2, _⟩ := wrapVal_mem b hv.start_lt_stop x0
  have hw := insertKnot_wrap b (by rw [hk]; omega) hv.start_lt_stop x0
  refine ⟨h1, h2, hw, ?_⟩
  rw [hw]
  exact insertKnot_periodic_geom_le b hv k hk hguard (wrapVal b x0) ⟨h1, h2⟩

/-- **Periodic bases with fewer than `p + k` functions (the cover branch of `insert_knot`).**
Valid periodic basis (continuity `k`, order `p`) with `n < p + k` functions — down to `n = 1` — and ANY
real `x0` (wrapped image `x = wrapVal b x0`, `x = end` included): `insert_knot(x0)` — which refines the
`R`-fold cover of the basis (`R = ⌈(p+k)/n⌉` periods, all `R` images of the knot inserted into the cover,
coefficients repeated, first `len(knots)+1` knots and first `n+1` rows kept) — succeeds; the new knot
vector is a valid periodic knot vector (sorted; ghost knots repeat with the unchanged period over `n+1`
functions) with the same start and end, one more knot and function; on `ℤ`, one period of the new
knots is one period of the old knots with `x` inserted in sorted position (`PerIns`), so the
multiplicity `perMult` of the class of `x` modulo the period grows by one and no other changes; `C` is
`(n+1) × n`; and **the geometry is unchanged**: for every coefficient vector, side, derivative order
and parameter of the domain, the periodic spline `wsum` with `C·c` on the new basis equals the one with
`c` on the old basis.
Proof: the `R` direct insertions into the cover compose (`PerRefines` on the cover); the refined cover's
knots are again `T`-periodic (index induction on `ℤ`); the coefficients need not repeat exactly (they do
not when `x = end` has multiplicity `≥ p`), but on every non-empty knot interval the B-splines are
linearly independent (total positivity), so wherever a function does not vanish its two candidate
coefficients agree. -/
theorem C04_periodic_small (b : Basis K) (hv : b.Valid) (k : ℕ) (hk : b.periodic = (k : Int))
    (hsmall : b.numFunctions < b.order + k) (x0 : K) :
    b.start ≤ wrapVal b x0 ∧ wrapVal b x0 ≤ b.stop ∧
    b.insertKnot x0 = b.insertKnot (wrapVal b x0) ∧
    ∃ b' C, b.insertKnot x0 = .ok (b', C) ∧ b'.Valid ∧ b'.order = b.order ∧
      b'.periodic = b.periodic ∧ b'.knots.size = b.knots.size + 1 ∧
      b'.numFunctions = b.numFunctions + 1 ∧ b'.start = b.start ∧ b'.stop = b.stop ∧
      PerIns b b' (wrapVal b x0) ∧
      (∀ v, b'.perMult v = b.perMult v
        + (open Classical in if (∃ m : ℤ, x0 = v + (m : K) * (b.stop - b.start)) then 1 else 0)) ∧
      Shape (b.numFunctions + 1) b.numFunctions C ∧
      ∀ (c : ℕ → K) (s : Side) (d : ℕ) (t : K), s.mem b.start b.stop t →
        wsum s b'.kn (b.order - 1) (b.nAll + 1) (b.numFunctions + 1) (mulVec C b.numFunctions c) d t
          = wsum s b.kn (b.order - 1) b.nAll b.numFunctions c d t := by
  classical
  obtain ⟨h1, h2, _⟩ := wrapVal_mem b hv.start_lt_stop x0
  have hw := insertKnot_wrap b (by rw [hk]; omega) hv.start_lt_stop x0
  refine ⟨h1, h2, hw, ?_⟩
  rw [hw]
  obtain ⟨b', C, e1, hr, hins⟩ := insertKnot_periodic_small b hv k hk hsmall (wrapVal b x0) ⟨h1, h2⟩
  refine ⟨b', C, e1, hr.valid, hr.order_eq, hr.periodic_eq, hr.size_eq, hr.num_eq, hr.start_eq,
    hr.stop_eq, hins, fun v => ?_, hr.shape, hr.same⟩
  rw [perIns_perMult b b' C _ hv (by rw [hk]; omega) hr hins v,
    if_congr (wrapVal_cong b x0 v) rfl rfl]

/-- **Periodic bases: knot insertion never changes the geometry.**  EVERY valid periodic basis
(continuity `k`; no lower bound on the number of functions) and ANY real `x0` (wrapped by the code to
`x = wrapVal b x0 ∈ [start, end]`; `x = end` included): `insert_knot(x0)` succeeds; the new basis is a
valid periodic basis ("periodic images consistent": sorted, ghost knots repeat with the unchanged period
over `n+1` functions) of the same order and continuity with the same start and end, one more knot and
function; the periodic knot set is the old one plus `x`: one period of the new knots is one period of
the old knots with `x` inserted (`PerIns`), i.e. the multiplicity of the class of `x0` modulo the period
grows by one and every other multiplicity is unchanged; `C` is `(n+1) × n`; and for every coefficient
vector, side, derivative order and parameter of the domain the periodic spline (`wsum`, what
`BSplineBasis.evaluate` computes) with `C·c` on the new basis equals the one with `c` on the old
basis. -/
theorem C04_periodic (b : Basis K) (hv : b.Valid) (k : ℕ) (hk : b.periodic = (k : Int)) (x0 : K) :
    ∃ b' C, b.insertKnot x0 = .ok (b', C) ∧ b'.Valid ∧ b'.order = b.order ∧
      b'.periodic = b.periodic ∧ b'.knots.size = b.knots.size + 1 ∧
      b'.numFunctions = b.numFunctions + 1 ∧ b'.start = b.start ∧ b'.stop = b.stop ∧
      PerIns b b' (wrapVal b x0) ∧
      (∀ v, b'.perMult v = b.perMult v
        + (open Classical in if (∃ m : ℤ, x0 = v + (m : K) * (b.stop - b.start)) then 1 else 0)) ∧
      Shape (b.numFunctions + 1) b.numFunctions C ∧
      ∀ (c : ℕ → K) (s : Side) (d : ℕ) (t : K), s.mem b.start b.stop t →
        wsum s b'.kn (b.order - 1) (b.nAll + 1) (b.numFunctions + 1) (mulVec C b.numFunctions c) d t
          = wsum s b.kn (b.order - 1) b.nAll b.numFunctions c d t := by
  classical
  obtain ⟨b', C, e1, hr, hins⟩ := insertKnot_per_step_all b hv k hk x0
  refine ⟨b', C, e1, hr.valid, hr.order_eq, hr.periodic_eq, hr.size_eq, hr.num_eq, hr.start_eq,
    hr.stop_eq, hins, fun v => ?_, hr.shape, hr.same⟩
  rw [perIns_perMult b b' C _ hv (by rw [hk]; omega) hr hins v,
    if_congr (wrapVal_cong b x0 v) rfl rfl]

/-- **Sequences of periodic insertions, every valid periodic basis.**  Any list of reals: every step
succeeds and the final basis `PerRefines` the first (valid periodic — sorted, ghost knots consistent
`kn (i+n') = kn i + T` — same order/continuity/domain, `xs.length` more knots and functions, the
accumulated matrix maps coefficients to coefficients of the same periodic function on the domain, all
derivatives, both sides); and the periodic knot set is the old one plus exactly the inserted values:
for every `v`, the multiplicity of the class of `v` modulo the period among the knots of one period
grows by the number of inserted values in that class. -/
theorem C04_periodic_sequence (b : Basis K) (hv : b.Valid) (k : ℕ) (hk : b.periodic = (k : Int))
    (xs : List K) :
    ∃ b' C, insertMany b (Mat.identity b.numFunctions) xs = .ok (b', C) ∧
      PerRefines b b' C xs.length ∧
      ∀ v, b'.perMult v = b.perMult v + congCount (b.stop - b.start) xs v :=
  insertMany_periodic_all b hv k hk xs

/-- **Objects, periodic direction, every valid periodic basis** (`Obj.insertKnots` along a valid
periodic direction with matching control-net length): success; refined periodic basis (`PerRefines`);
periodic knot set = old plus inserted (`perMult`); other bases, `rational` untouched; net grows only
along `dir`; every fibre of the new net is `C` applied to the old fibre; hence the periodic spline of
every fibre (every homogeneous coordinate on every grid line) is unchanged on the domain, with all
derivatives. -/
theorem C04_periodic_object (o : Obj K) (dir : ℕ) (hdir : dir < o.bases.size)
    (hax : dir < o.cps.shape.length) (hv : (o.basis dir).Valid) (k : ℕ)
    (hk : (o.basis dir).periodic = (k : Int))
    (hshape : o.cps.shape.getD dir 0 = (o.basis dir).numFunctions) (xs : List K) :
    ∃ o' C, o.insertKnots xs dir = .ok o' ∧
      PerRefines (o.basis dir) (o'.basis dir) C xs.length ∧
      (∀ v, (o'.basis dir).perMult v = (o.basis dir).perMult v
        + congCount ((o.basis dir).stop - (o.basis dir).start) xs v) ∧
      (∀ d, d ≠ dir → o'.basis d = o.basis d) ∧ o'.rational = o.rational ∧
      o'.cps.shape = o.cps.shape.set dir ((o.basis dir).numFunctions + xs.length) ∧
      (∀ a i r, a < outerN o dir → i < innerN o dir → r < (o.basis dir).numFunctions + xs.length →
        fibre o' dir a i r = mulVec C (o.basis dir).numFunctions (fibre o dir a i) r) ∧
      ∀ a i, a < outerN o dir → i < innerN o dir → ∀ (s : Side) (d : ℕ) (t : K),
        s.mem (o.basis dir).start (o.basis dir).stop t →
        wsum s (o'.basis dir).kn ((o.basis dir).order - 1) ((o.basis dir).nAll + xs.length)
            ((o.basis dir).numFunctions + xs.length) (fibre o' dir a i) d t
          = wsum s (o.basis dir).kn ((o.basis dir).order - 1) (o.basis dir).nAll
            (o.basis dir).numFunctions (fibre o dir a i) d t := by
  obtain ⟨o', C, h1, h2, hc, h3, h4, h5, _, _, h8, _⟩ :=
    insertKnots_fibres_periodic_all o dir hdir hax hv k hk hshape xs
  refine ⟨o', C, h1, h2, hc, h3, h4, h5, h8, fun a i ha hi s d t ht => ?_⟩
  have hn := numFunctions_pos hv
  rw [wsum_congr s _ _ _ _ (by omega) _ _ d t (fun r hr => h8 a i r ha hi hr)]
  exact h2.same (fibre o dir a i) s d t ht

/-- **Sequences of periodic insertions** (older guarded form, kept as a corollary of
`C04_periodic_sequence`; the hypothesis `hguard` is not used): every step succeeds and the final basis
`PerRefines` the first. -/
theorem C04_periodic_sequence_partial (b : Basis K) (hv : b.Valid) (k : ℕ)
    (hk : b.periodic = (k : Int)) (_hguard : b.order + k ≤ b.numFunctions) (xs : List K) :
    ∃ b' C, insertMany b (Mat.identity b.numFunctions) xs = .ok (b', C) ∧
      PerRefines b b' C xs.length := by
  obtain ⟨b', C, h1, h2, _⟩ := C04_periodic_sequence b hv k hk xs
  exact ⟨b', C, h1, h2⟩

/-- **Objects, periodic direction** (older guarded form, kept as a corollary of `C04_periodic_object`;
the hypothesis `hguard` is not used). -/
theorem C04_periodic_object_partial (o : Obj K) (dir : ℕ) (hdir : dir < o.bases.size)
    (hax : dir < o.cps.shape.length) (hv : (o.basis dir).Valid) (k : ℕ)
    (hk : (o.basis dir).periodic = (k : Int))
    (_hguard : (o.basis dir).order + k ≤ (o.basis dir).numFunctions)
    (hshape : o.cps.shape.getD dir 0 = (o.basis dir).numFunctions) (xs : List K) :
    ∃ o' C, o.insertKnots xs dir = .ok o' ∧
      PerRefines (o.basis dir) (o'.basis dir) C xs.length ∧
      (∀ d, d ≠ dir → o'.basis d = o.basis d) ∧ o'.rational = o.rational ∧
      o'.cps.shape = o.cps.shape.set dir ((o.basis dir).numFunctions + xs.length) ∧
      (∀ a i r, a < outerN o dir → i < innerN o dir → r < (o.basis dir).numFunctions + xs.length →
        fibre o' dir a i r = mulVec C (o.basis dir).numFunctions (fibre o dir a i) r) ∧
      ∀ a i, a < outerN o dir → i < innerN o dir → ∀ (s : Side) (d : ℕ) (t : K),
        s.mem (o.basis dir).start (o.basis dir).stop t →
        wsum s (o'.basis dir).kn ((o.basis dir).order - 1) ((o.basis dir).nAll + xs.length)
            ((o.basis dir).numFunctions + xs.length) (fibre o' dir a i) d t
          = wsum s (o.basis dir).kn ((o.basis dir).order - 1) (o.basis dir).nAll
            (o.basis dir).numFunctions (fibre o dir a i) d t := by
  obtain ⟨o', C, h1, h2, _, h3, h4, h5, h8, h9⟩ :=
    C04_periodic_object o dir hdir hax hv k hk hshape xs
  exact ⟨o', C, h1, h2, h3, h4, h5, h8, h9⟩

/-- **Periodic curves and the real evaluator.**  Curve over ANY valid periodic basis `b1`,
rational or not; any reals `xs`; `tol > 0`
(`state.knot_tolerance`); parameters `us` admissible for `b1` (`Basis.Admissible`: every tolerance
comparison exact at `u` and at the wrapped point):
`insert_knot(xs)` succeeds, the new basis is valid with `xs.length` more functions, and
`o'.evaluate tol [us] = o.evaluate tol [us]` (the same tensor, or the same error) provided the
parameters are admissible for the new basis as well.  (For non-periodic directions of curves,
surfaces and volumes see `Bridge_C04_*` in `Properties/Bridge.lean`.)
`_partial`: curves only — surfaces/volumes with a periodic direction are covered fibre-wise by
`C04_periodic_object`, not at the level of `Obj.evaluate`. -/
theorem C04_periodic_evaluate_curve_partial {o : Obj K} {b1 : Basis K} (hb : o.bases = #[b1])
    (hv1 : b1.Valid) (k : ℕ) (hk : b1.periodic = (k : Int)) {nc : ℕ}
    (hs : o.cps.shape = [b1.numFunctions, nc]) (hnc : o.rational = true → 1 ≤ nc)
    (xs : List K) {tol : K} (htol : 0 < tol)
    {us : List K} (hus : ∀ u ∈ us, b1.Admissible tol u) :
    ∃ o', o.insertKnots xs 0 = .ok o' ∧ (o'.basis 0).Valid ∧
      (o'.basis 0).numFunctions = b1.numFunctions + xs.length ∧
      ((∀ u ∈ us, (o'.basis 0).Admissible tol u) →
        o'.evaluate tol [us] true = o.evaluate tol [us] true) :=
  evaluate_unchanged_periodic_curve_all hb hv1 k hk hs hnc xs htol hus

/-! ## Non-vacuity: the hypotheses are satisfiable (concrete instances at `ℚ`) -/

/-- Open quadratic basis with a double interior knot. -/
def C04_exOpen : Basis ℚ := ⟨3, #[0, 0, 0, 1, 2, 2, 3, 3, 3], -1⟩

/-- Periodic (`C^0`) quadratic basis, `n = 4 ≥ p + k = 3`. -/
def C04_exPer : Basis ℚ := ⟨3, #[-1, 0, 0, 1, 2, 3, 3, 4], 0⟩

/-- Rational curve over `C04_exOpen` (6 control points, 3 homogeneous coordinates). -/
def C04_exCurve : Obj ℚ :=
  { bases := #[C04_exOpen],
    cps := { shape := [6, 3], data := #[0, 0, 1, 1, 2, 1, 2, 1, 2, 3, 0, 1, 4, 1, 1, 5, 5, 3] },
    rational := true }

theorem C04_exOpen_valid : C04_exOpen.Valid where
  order_pos := by decide
  size_ge := by decide
  sorted := by
    intro i hi
    have hi' : i + 1 < 9 := hi
    have hi'' : i < 8 := by omega
    interval_cases i <;> norm_num [Basis.kn, C04_exOpen]
  periodic_ge := by decide
  periodic_le := by decide
  start_lt_stop := by norm_num [Basis.start, Basis.stop, Basis.kn, C04_exOpen]
  ghosts := fun h => absurd h (by decide)

theorem C04_exPer_valid : C04_exPer.Valid where
  order_pos := by decide
  size_ge := by decide
  sorted := by
    intro i hi
    have hi' : i + 1 < 8 := hi
    have hi'' : i < 7 := by omega
    interval_cases i <;> norm_num [Basis.kn, C04_exPer]
  periodic_ge := by decide
  periodic_le := by decide
  start_lt_stop := by norm_num [Basis.start, Basis.stop, Basis.kn, C04_exPer]
  ghosts := by
    intro _ i hi
    have hi' : i + 4 < 8 := hi
    have hi'' : i < 4 := by omega
    interval_cases i <;> norm_num [Basis.kn, Basis.start, Basis.stop, Basis.numFunctions, C04_exPer]

theorem C04_exOpen_start : C04_exOpen.start = 0 := by
  norm_num [Basis.start, Basis.kn, C04_exOpen]

theorem C04_exOpen_stop : C04_exOpen.stop = 3 := by
  norm_num [Basis.stop, Basis.kn, C04_exOpen]

theorem C04_exPer_stop : C04_exPer.stop = 3 := by
  norm_num [Basis.stop, Basis.kn, C04_exPer]

/-- C04_rejects. -/
example : C04_exOpen.insertKnot 4 = .error .value :=
  C04_rejects C04_exOpen 4 (by decide) (Or.inr (by rw [C04_exOpen_stop]; norm_num))

/-- C04_open: raising the double interior knot `2` to full multiplicity `p = 3`. -/
example : ∃ b' C, C04_exOpen.insertKnot 2 = .ok (b', C) ∧ b'.Valid ∧ b'.numFunctions = 7 := by
  obtain ⟨b', C, h1, h2, _, _, _, _, _, h8, _⟩ := C04_open C04_exOpen C04_exOpen_valid rfl 2
    (by rw [C04_exOpen_start, C04_exOpen_stop]; norm_num)
    (guard_of_lt_stop _ C04_exOpen_valid 2 (by rw [C04_exOpen_stop]; norm_num))
  exact ⟨b', C, h1, h2, h8⟩

/-- C04_open_interior at the start of the domain. -/
example : ∃ b' C, C04_exOpen.insertKnot 0 = .ok (b', C) ∧ Refines C04_exOpen b' C 1 := by
  obtain ⟨b', C, h1, h2, _⟩ := C04_open_interior C04_exOpen C04_exOpen_valid rfl 0
    (by rw [C04_exOpen_start, C04_exOpen_stop]; norm_num)
  exact ⟨b', C, h1, h2⟩

/-- C04_sequence: new value, existing knot, repeated value. -/
example : ∃ b' C, insertMany C04_exOpen (Mat.identity C04_exOpen.numFunctions) [1/2, 2, 1/2]
      = .ok (b', C) ∧ Refines C04_exOpen b' C 3 := by
  obtain ⟨b', C, h1, h2, _⟩ := C04_sequence C04_exOpen C04_exOpen_valid rfl [1/2, 2, 1/2]
    (by
      intro x hx
      rw [C04_exOpen_start, C04_exOpen_stop]
      simp only [List.mem_cons, List.not_mem_nil, or_false] at hx
      rcases hx with rfl | rfl | rfl <;> norm_num)
  exact ⟨b', C, h1, h2⟩

theorem C04_exCurve_hyps :
    0 < C04_exCurve.bases.size ∧ (C04_exCurve.basis 0).Valid ∧ (C04_exCurve.basis 0).periodic = -1 ∧
    C04_exCurve.cps.shape.getD 0 0 = (C04_exCurve.basis 0).numFunctions :=
  ⟨by decide, C04_exOpen_valid, rfl, by decide⟩

/-- C04_object / C04_object_eval_partial / C04_curve on a rational curve. -/
example : ∃ o', C04_exCurve.insertKnots [1/2, 2] 0 = .ok o' ∧ o'.cps.shape = [8, 3] := by
  obtain ⟨o', h1, h2, _⟩ := C04_curve C04_exCurve 6 3 rfl C04_exCurve_hyps.1 C04_exCurve_hyps.2.1
    rfl (by decide) [1/2, 2]
    (by
      intro x hx
      change C04_exOpen.start ≤ x ∧ x < C04_exOpen.stop
      rw [C04_exOpen_start, C04_exOpen_stop]
      simp only [List.mem_cons, List.not_mem_nil, or_false] at hx
      rcases hx with rfl | rfl <;> norm_num)
  exact ⟨o', h1, h2⟩

example : ∃ o' C, C04_exCurve.insertKnots [1] 0 = .ok o' ∧
    Refines (C04_exCurve.basis 0) (o'.basis 0) C 1 := by
  obtain ⟨o', C, h1, h2, _⟩ := C04_object C04_exCurve 0 C04_exCurve_hyps.1 (by decide)
    C04_exCurve_hyps.2.1 rfl C04_exCurve_hyps.2.2.2 [1]
    (by
      intro x hx
      change C04_exOpen.start ≤ x ∧ x < C04_exOpen.stop
      rw [C04_exOpen_start, C04_exOpen_stop]
      simp only [List.mem_cons, List.not_mem_nil, or_false] at hx
      rcases hx with rfl; norm_num)
  exact ⟨o', C, h1, h2⟩

example : ∃ o', C04_exCurve.insertKnots [1] 0 = .ok o' := by
  obtain ⟨o', h1, _⟩ := C04_object_eval_partial C04_exCurve 0 C04_exCurve_hyps.1 (by decide)
    C04_exCurve_hyps.2.1 rfl C04_exCurve_hyps.2.2.2 [1]
    (by
      intro x hx
      change C04_exOpen.start ≤ x ∧ x < C04_exOpen.stop
      rw [C04_exOpen_start, C04_exOpen_stop]
      simp only [List.mem_cons, List.not_mem_nil, or_false] at hx
      rcases hx with rfl; norm_num)
  exact ⟨o', h1⟩

/-- C04_refine: `refine(2)` of the curve with `state.knot_tolerance = 1e-10`. -/
example : ∃ o', C04_exCurve.refineDir (1/10000000000) 2 0 = .ok o' := by
  obtain ⟨_, _, o', C, h1, _⟩ := C04_refine C04_exCurve (1/10000000000) (by norm_num) 2 0
    C04_exCurve_hyps.1 (by decide) C04_exCurve_hyps.2.1 rfl C04_exCurve_hyps.2.2.2
  exact ⟨o', h1⟩

/-- C04_periodic_partial: a value two... one period above the domain (`7/2 ↦ 1/2`), and the seam. -/
example : ∃ b' C, C04_exPer.insertKnot (7/2) = .ok (b', C) ∧ b'.Valid := by
  obtain ⟨_, _, _, b', C, h1, h2, _⟩ :=
    C04_periodic_partial C04_exPer C04_exPer_valid 0 rfl (by decide) (7/2)
  exact ⟨b', C, h1, h2⟩

example : ∃ b' C, C04_exPer.insertKnot 0 = .ok (b', C) ∧ b'.Valid ∧ b'.numFunctions = 5 := by
  obtain ⟨_, _, _, b', C, h1, h2, _, _, _, h6, _⟩ :=
    C04_periodic_partial C04_exPer C04_exPer_valid 0 rfl (by decide) 0
  exact ⟨b', C, h1, h2, h6⟩

/-- C04_graded: `geometric_refine(curve, 1/2, 3)`. -/
example : ∃ o', C04_exCurve.geometricRefine (1/10000000000) (1/10000000) (1/10000000000) (1/2)
    (3 : ℕ) 0 false = .ok o' := by
  obtain ⟨_, o', _, _, _, _, h, _⟩ := C04_graded C04_exCurve (1/10000000000) (1/10000000)
    (1/10000000000) (1/2) (by norm_num) (by norm_num) (by norm_num) (by norm_num) 3 (by norm_num) 0
    C04_exCurve_hyps.1 (by decide) C04_exCurve_hyps.2.1 rfl C04_exCurve_hyps.2.2.2
  exact ⟨o', h⟩

/-- Periodic curve over `C04_exPer` (4 control points, 2 coordinates). -/
def C04_exPerCurve : Obj ℚ :=
  { bases := #[C04_exPer], cps := { shape := [4, 2], data := #[0, 0, 1, 2, 3, 1, 2, -1] },
    rational := false }

/-- C04_periodic_partial, geometric clause: the periodic spline is unchanged at `t = 5/2` from the
left after inserting `7/2` (wrapped to `1/2`). -/
example : ∃ b' C, C04_exPer.insertKnot (7/2) = .ok (b', C) ∧
    wsum .left b'.kn 2 (C04_exPer.nAll + 1) 5 (mulVec C 4 (fun i => (i : ℚ) ^ 2)) 1 (5/2)
      = wsum .left C04_exPer.kn 2 C04_exPer.nAll 4 (fun i => (i : ℚ) ^ 2) 1 (5/2) := by
  obtain ⟨_, _, _, b', C, h1, _, _, _, _, _, _, _, _, _, hgeo⟩ :=
    C04_periodic_partial C04_exPer C04_exPer_valid 0 rfl (by decide) (7/2)
  refine ⟨b', C, h1, hgeo _ .left 1 (5/2) ?_⟩
  rw [C04_exPer_stop]
  change C04_exPer.kn 2 < 5/2 ∧ (5/2 : ℚ) ≤ 3
  norm_num [Basis.kn, C04_exPer]

/-- C04_periodic_boehm on the knot sequence of `C04_exPer` (`x = 1/2` at `μ = 3`). -/
example : wsum .right (repSeq (insertSeq C04_exPer.kn 3 (1/2)) 3 4 (3 + 0)) 2 (4 + 0 + 1 + 1) (4 + 1)
      (mulVecF (matF C04_exPer.kn (1/2) 4 3 3) 4 (fun i => (i : ℚ))) 0 (1/4)
    = wsum .right C04_exPer.kn 2 (4 + 0 + 1) 4 (fun i => (i : ℚ)) 0 (1/4) :=
  C04_periodic_boehm C04_exPer.kn (1/2) 3 4 3 0 3 .right (kn_mono C04_exPer_valid.sorted) 2 rfl
    (by decide) (by decide)
    (by
      intro i hi
      have hi' : i < 4 := by omega
      interval_cases i <;> norm_num [Basis.kn, C04_exPer])
    (by decide) (by decide) (by norm_num [Basis.kn, C04_exPer]) _ 0 (1/4)
    (by change C04_exPer.kn 2 ≤ 1/4 ∧ (1/4 : ℚ) < C04_exPer.kn 5; norm_num [Basis.kn, C04_exPer])

/-- C04_periodic_sequence_partial / C04_periodic_object_partial: seam, interior, a value outside. -/
example : ∃ b' C, insertMany C04_exPer (Mat.identity C04_exPer.numFunctions) [0, 1/2, -5/2]
    = .ok (b', C) ∧ PerRefines C04_exPer b' C 3 := by
  exact C04_periodic_sequence_partial C04_exPer C04_exPer_valid 0 rfl (by decide) [0, 1/2, -5/2]

/-- the domain end `3` included (seam multiplicity 2: `IndexError` before the end clamp) -/
example : ∃ o', C04_exPerCurve.insertKnots [1/2, 3] 0 = .ok o' ∧ o'.cps.shape = [6, 2] := by
  obtain ⟨o', C, h1, _, _, _, h5, _⟩ := C04_periodic_object_partial C04_exPerCurve 0 (by decide)
    (by decide) C04_exPer_valid 0 rfl (by decide) (by decide) [1/2, 3]
  exact ⟨o', h1, h5⟩

/-- C04_periodic_evaluate_curve_partial. -/
example : ∃ o', C04_exPerCurve.insertKnots [1/2, -5/2] 0 = .ok o' ∧
    (o'.basis 0).numFunctions = 6 := by
  have hex : C04_exPer.ExactAt (1/1000) (1/4) := by
    intro i hi
    have hi' : i < 8 := hi
    interval_cases i <;> norm_num [Basis.kn, C04_exPer, abs_of_nonneg, abs_of_neg]
  have hw : C04_exPer.wrap (1/4) = 1/4 :=
    C04_exPer.wrap_of_mem (by norm_num [Basis.start, Basis.kn, C04_exPer])
      (by rw [C04_exPer_stop]; norm_num)
  obtain ⟨o', h1, _, h3, _⟩ := C04_periodic_evaluate_curve_partial (o := C04_exPerCurve)
    (b1 := C04_exPer) rfl C04_exPer_valid 0 rfl (nc := 2) rfl (by decide) [1/2, -5/2]
    (tol := 1/1000) (by norm_num) (us := [1/4])
    (by
      intro u hu
      simp only [List.mem_cons, List.not_mem_nil, or_false] at hu
      subst hu
      exact ⟨hex, fun h => absurd h (by decide), fun _ => by rw [hw]; exact hex⟩)
  exact ⟨o', h1, h3⟩

/-- Periodic (`C^1`) quadratic basis with `n = 2 < p + k = 4` functions (uniform knots, period 2). -/
def C04_exSmall : Basis ℚ := ⟨3, #[-2, -1, 0, 1, 2, 3, 4], 1⟩

theorem C04_exSmall_valid : C04_exSmall.Valid where
  order_pos := by decide
  size_ge := by decide
  sorted := by
    intro i hi
    have hi' : i + 1 < 7 := hi
    have hi'' : i < 6 := by omega
    interval_cases i <;> norm_num [Basis.kn, C04_exSmall]
  periodic_ge := by decide
  periodic_le := by decide
  start_lt_stop := by norm_num [Basis.start, Basis.stop, Basis.kn, C04_exSmall]
  ghosts := by
    intro _ i hi
    have hi' : i + 2 < 7 := hi
    have hi'' : i < 5 := by omega
    have hn : C04_exSmall.numFunctions = 2 := by decide
    rw [hn]
    interval_cases i <;> norm_num [Basis.kn, Basis.start, Basis.stop, C04_exSmall]

/-- C04_periodic_small: an interior value, the domain end, a value outside the domain. -/
example : ∃ b' C, C04_exSmall.insertKnot (1/2) = .ok (b', C) ∧ b'.Valid ∧ b'.numFunctions = 3 := by
  obtain ⟨_, _, _, b', C, h1, h2, _, _, _, h6, _⟩ :=
    C04_periodic_small C04_exSmall C04_exSmall_valid 1 rfl (by decide) (1/2)
  exact ⟨b', C, h1, h2, h6⟩

example : ∃ b' C, C04_exSmall.insertKnot 2 = .ok (b', C) ∧ b'.Valid := by
  obtain ⟨_, _, _, b', C, h1, h2, _⟩ :=
    C04_periodic_small C04_exSmall C04_exSmall_valid 1 rfl (by decide) 2
  exact ⟨b', C, h1, h2⟩

/-- C04_periodic on the small basis and on the large one. -/
example : ∃ b' C, C04_exSmall.insertKnot (9/2) = .ok (b', C) ∧ b'.Valid := by
  obtain ⟨b', C, h1, h2, _⟩ := C04_periodic C04_exSmall C04_exSmall_valid 1 rfl (9/2)
  exact ⟨b', C, h1, h2⟩

example : ∃ b' C, C04_exPer.insertKnot 3 = .ok (b', C) ∧ b'.Valid := by
  obtain ⟨b', C, h1, h2, _⟩ := C04_periodic C04_exPer C04_exPer_valid 0 rfl 3
  exact ⟨b', C, h1, h2⟩

/-- C04_periodic_sequence: repeated refinement starting from the small basis. -/
example : ∃ b' C, insertMany C04_exSmall (Mat.identity C04_exSmall.numFunctions) [1/2, 2, -5/2, 1/2]
    = .ok (b', C) ∧ PerRefines C04_exSmall b' C 4 := by
  obtain ⟨b', C, h1, h2, _⟩ :=
    C04_periodic_sequence C04_exSmall C04_exSmall_valid 1 rfl [1/2, 2, -5/2, 1/2]
  exact ⟨b', C, h1, h2⟩

/-- C04_periodic_object: a periodic curve with two control points. -/
def C04_exSmallCurve : Obj ℚ :=
  { bases := #[C04_exSmall], cps := { shape := [2, 2], data := #[0, 0, 1, 2] }, rational := false }

example : ∃ o', C04_exSmallCurve.insertKnots [1/2, 2] 0 = .ok o' ∧ o'.cps.shape = [4, 2] := by
  obtain ⟨o', C, h1, _, _, _, _, h5, _⟩ := C04_periodic_object C04_exSmallCurve 0 (by decide)
    (by decide) C04_exSmall_valid 1 rfl (by decide) [1/2, 2]
  exact ⟨o', h1, h5⟩
