import Splipy.Lemmas.C04Basis
import Splipy.Lemmas.C04Seq
import Splipy.Lemmas.C04Tensor
import Splipy.Lemmas.C04Refine
import Splipy.Lemmas.C04Periodic
import Mathlib.Tactic.NormNum
import Mathlib.Tactic.IntervalCases
import Mathlib.Data.Rat.Floor

/-!
# Property C04 — knot insertion and refinement never change the geometry

Model: `Basis.insertKnot` (`BSplineBasis.insert_knot`), `Obj.insertKnots` (`SplineObject.insert_knot`),
`Obj.refineDir` / `refineValues` (`SplineObject.refine`).  Spec: `splineVal` / `splineDeriv` (Cox–de Boor).

Vocabulary (defined in `Lemmas/C04*.lean`):
* `C04.mulVec C n c r = Σ_{j<n} C[r][j]·c j` — the coefficient vector `C·c`;
* `C04.Shape rows cols C` — `C` is a `rows × cols` array;
* `C04.Refines b b' C k` — bundle of exactly the conclusions of `C04_open` with `k` inserted knots:
  `b'` valid, same order / periodicity / start / end, `k` more knots and functions, `C` of shape
  `(n+k) × n`, and `splineVal/​splineDeriv` on `b'` with coefficients `C·c` equal those on `b` with `c`
  for every `c`, side, parameter and derivative order;
* `C04.fibre o dir a i` — the 1-D fibre of the control net along `dir` through outer index `a` and
  inner index `i` (for a curve: `a = 0`, `i` = the homogeneous coordinate).

Theorems about the MODEL; multiplicities beyond the order are not excluded here (the spec's `0/0 = 0`
makes Boehm's identity hold there too) although the real code produces NaN there — such inputs are
outside the property's quantifier and are not part of the correspondence run.
-/

open Splipy Splipy.C04

set_option linter.unusedSectionVars false

variable {K : Type} [Field K] [LinearOrder K] [IsStrictOrderedRing K] [FloorRing K]

/-- A value outside `[start, end]` of a non-periodic basis is rejected with `ValueError`. -/
theorem C04_rejects (b : Basis K) (x : K) (hper : b.periodic < 0)
    (hx : x < b.start ∨ b.stop < x) : b.insertKnot x = .error .value := by
  rw [insertKnot_eq]
  unfold wrapX
  rw [if_neg (not_le.2 hper), if_pos hx]

/-- **Knot insertion into an open (non-periodic) basis.**  For a valid non-periodic basis, a value
`x ∈ [start, end]` whose insertion position `μ = bisect_right(knots, x)` satisfies `μ-1+p < len(knots)`
(i.e. `x` is not the clamped end knot of full multiplicity, where the code raises `IndexError`):
`insert_knot` succeeds; the new basis is valid, has the old knots plus `x` at position `μ`
(`insertSeq`, also as a multiset: `Perm`), one more function, the same domain; the returned `C` is
`(n+1) × n`; and for every coefficient vector `c`, side and parameter the spline with coefficients
`C·c` on the new basis equals the old spline — values and all derivatives. -/
theorem C04_open (b : Basis K) (hv : b.Valid) (hper : b.periodic = -1) (x : K)
    (hx : b.start ≤ x ∧ x ≤ b.stop) (hμ : b.bisectR x - 1 + b.order < b.knots.size) :
    ∃ b' C, b.insertKnot x = .ok (b', C) ∧ b'.Valid ∧ b'.order = b.order ∧ b'.periodic = -1 ∧
      b'.knots.size = b.knots.size + 1 ∧
      (∀ j, b'.kn j = insertSeq b.kn (b.bisectR x) x j) ∧
      b'.knots.toList.Perm (x :: b.knots.toList) ∧
      b'.numFunctions = b.numFunctions + 1 ∧ b'.start = b.start ∧ b'.stop = b.stop ∧
      Shape (b.numFunctions + 1) b.numFunctions C ∧
      ∀ (c : ℕ → K) (s : Side) (t : K),
        splineVal s b'.kn (b.order - 1) (b.numFunctions + 1) (mulVec C b.numFunctions c) t
          = splineVal s b.kn (b.order - 1) b.numFunctions c t ∧
        ∀ d, splineDeriv s b'.kn (b.order - 1) (b.numFunctions + 1) (mulVec C b.numFunctions c) d t
          = splineDeriv s b.kn (b.order - 1) b.numFunctions c d t := by
  obtain ⟨b', C, h1, h2, h3, h4⟩ := insertKnot_open b hv hper x hx hμ
  exact ⟨b', C, h1, h2.valid, h2.order_eq, h2.periodic_eq.trans hper, h2.size_eq, h3, h4, h2.num_eq,
    h2.start_eq, h2.stop_eq, h2.shape, h2.same⟩

/-- `C04_open` for `start ≤ x < end`: the index guard holds automatically (clamped or not). -/
theorem C04_open_interior (b : Basis K) (hv : b.Valid) (hper : b.periodic = -1) (x : K)
    (hx : b.start ≤ x ∧ x < b.stop) :
    ∃ b' C, b.insertKnot x = .ok (b', C) ∧ Refines b b' C 1 ∧
      (∀ j, b'.kn j = insertSeq b.kn (b.bisectR x) x j) ∧
      b'.knots.toList.Perm (x :: b.knots.toList) :=
  insertKnot_open b hv hper x ⟨hx.1, le_of_lt hx.2⟩ (guard_of_lt_stop b hv x hx.2)

/-- **Sequences of insertions** (the loop `C = basis.insert_knot(k) @ C` of
`SplineObject.insert_knot`, `insertMany`): any list of values in `[start, end)` of a valid non-periodic
basis, in any order, with repetitions: every step succeeds, the final basis refines the first one
(`Refines … xs.length`: valid, `xs.length` more knots and functions, same domain, accumulated matrix
`C_k ⋯ C_1 · I` maps coefficients to coefficients of the same function, values and derivatives), and
its knot vector is the old one plus exactly the inserted values (as a multiset; it is sorted by
validity). -/
theorem C04_sequence (b : Basis K) (hv : b.Valid) (hper : b.periodic = -1) (xs : List K)
    (hxs : ∀ x ∈ xs, b.start ≤ x ∧ x < b.stop) :
    ∃ b' C, insertMany b (Mat.identity b.numFunctions) xs = .ok (b', C) ∧
      Refines b b' C xs.length ∧ b'.knots.toList.Perm (xs ++ b.knots.toList) :=
  insertMany_open b hv hper xs hxs

/-- **Lifting to objects** (`Obj.insertKnots` = `SplineObject.insert_knot(list, direction)`), any
parametric dimension, rational or not: along a valid non-periodic direction `dir` whose control-net
length matches the basis, inserting values of `[start, end)`:
the call succeeds; direction `dir` gets the refined basis (old knots + inserted values), the other
bases and the `rational` flag are untouched; the control net grows by one point per inserted knot in
direction `dir` only; every fibre of the new net along `dir` is `C` applied to the old fibre; hence the
spline of EVERY fibre (every homogeneous coordinate on every grid line) is unchanged at every
parameter, from both sides, with all derivatives. -/
theorem C04_object (o : Obj K) (dir : ℕ) (hdir : dir < o.bases.size)
    (hax : dir < o.cps.shape.length) (hv : (o.basis dir).Valid) (hper : (o.basis dir).periodic = -1)
    (hshape : o.cps.shape.getD dir 0 = (o.basis dir).numFunctions) (xs : List K)
    (hxs : ∀ x ∈ xs, (o.basis dir).start ≤ x ∧ x < (o.basis dir).stop) :
    ∃ o' C, o.insertKnots xs dir = .ok o' ∧
      Refines (o.basis dir) (o'.basis dir) C xs.length ∧
      (o'.basis dir).knots.toList.Perm (xs ++ (o.basis dir).knots.toList) ∧
      (∀ d, d ≠ dir → o'.basis d = o.basis d) ∧ o'.rational = o.rational ∧
      o'.cps.shape = o.cps.shape.set dir ((o.basis dir).numFunctions + xs.length) ∧
      outerN o' dir = outerN o dir ∧ innerN o' dir = innerN o dir ∧
      (∀ a i r, a < outerN o dir → i < innerN o dir → r < (o.basis dir).numFunctions + xs.length →
        fibre o' dir a i r = mulVec C (o.basis dir).numFunctions (fibre o dir a i) r) ∧
      ∀ a i, a < outerN o dir → i < innerN o dir → ∀ (s : Side) (t : K),
        splineVal s (o'.basis dir).kn ((o.basis dir).order - 1) ((o.basis dir).numFunctions + xs.length)
            (fibre o' dir a i) t
          = splineVal s (o.basis dir).kn ((o.basis dir).order - 1) (o.basis dir).numFunctions
            (fibre o dir a i) t ∧
        ∀ d, splineDeriv s (o'.basis dir).kn ((o.basis dir).order - 1)
            ((o.basis dir).numFunctions + xs.length) (fibre o' dir a i) d t
          = splineDeriv s (o.basis dir).kn ((o.basis dir).order - 1) (o.basis dir).numFunctions
            (fibre o dir a i) d t := by
  obtain ⟨o', C, h1, h2, h3, h4, h5, h6, h7, h8, h9⟩ :=
    insertKnots_fibres o dir hdir hax hv hper hshape xs hxs
  refine ⟨o', C, h1, h2, h3, h4, h5, h6, h7, h8, h9, fun a i ha hi s t => ⟨?_, fun d => ?_⟩⟩
  · rw [splineVal_congr s _ _ _ _ _ t (fun r hr => h9 a i r ha hi hr)]
    exact (h2.same (fibre o dir a i) s t).1
  · rw [splineDeriv_congr s _ _ _ _ _ d t (fun r hr => h9 a i r ha hi hr)]
    exact (h2.same (fibre o dir a i) s t).2 d

/-- **Curves, completely**: for a curve (control net `n × ncomp`) every homogeneous coordinate function
`t ↦ Σ_j cps[j][i]·N_j(t)` is unchanged by inserting a list of knots — hence so is the evaluated point
(the quotient by the weight coordinate for rational curves) and every derivative. -/
theorem C04_curve (o : Obj K) (n nc : ℕ) (hsh : o.cps.shape = [n, nc]) (hb : 0 < o.bases.size)
    (hv : (o.basis 0).Valid) (hper : (o.basis 0).periodic = -1) (hn : n = (o.basis 0).numFunctions)
    (xs : List K) (hxs : ∀ x ∈ xs, (o.basis 0).start ≤ x ∧ x < (o.basis 0).stop) :
    ∃ o', o.insertKnots xs 0 = .ok o' ∧ o'.cps.shape = [n + xs.length, nc] ∧
      (o'.basis 0).Valid ∧ (o'.basis 0).knots.toList.Perm (xs ++ (o.basis 0).knots.toList) ∧
      ∀ i, i < nc → ∀ (s : Side) (t : K),
        splineVal s (o'.basis 0).kn ((o.basis 0).order - 1) (n + xs.length)
            (fun j => o'.cps.get (j * nc + i)) t
          = splineVal s (o.basis 0).kn ((o.basis 0).order - 1) n (fun j => o.cps.get (j * nc + i)) t ∧
        ∀ d, splineDeriv s (o'.basis 0).kn ((o.basis 0).order - 1) (n + xs.length)
            (fun j => o'.cps.get (j * nc + i)) d t
          = splineDeriv s (o.basis 0).kn ((o.basis 0).order - 1) n
            (fun j => o.cps.get (j * nc + i)) d t := by
  have hax : 0 < o.cps.shape.length := by rw [hsh]; simp
  have hshape : o.cps.shape.getD 0 0 = (o.basis 0).numFunctions := by rw [hsh, ← hn]; rfl
  obtain ⟨o', C, h1, h2, h3, _, _, h6, _, _, _, h10⟩ := C04_object o 0 hb hax hv hper hshape xs hxs
  have hsh' : o'.cps.shape = [n + xs.length, nc] := by rw [h6, hsh, ← hn]; rfl
  have hout : outerN o 0 = 1 := by simp [outerN, Tensor.split3, Tensor.prod]
  have hinn : innerN o 0 = nc := by simp [innerN, Tensor.split3, Tensor.prod, hsh]
  have hf : ∀ (o₁ : Obj K) (m : ℕ), o₁.cps.shape = [m, nc] → ∀ i,
      fibre o₁ 0 0 i = fun j => o₁.cps.get (j * nc + i) := by
    intro o₁ m hs i
    funext j
    simp [fibre, Tensor.at3, Tensor.split3, Tensor.prod, hs]
  refine ⟨o', h1, hsh', h2.valid, h3, fun i hi s t => ?_⟩
  have := h10 0 i (by rw [hout]; exact Nat.one_pos) (by rw [hinn]; exact hi) s t
  rw [hf o n hsh i, hf o' _ hsh' i, ← hn] at this
  exact this

/-- Tensor-product form of `C04_object`: any fixed linear combination of the fibre splines (in
particular, with `w a i` = product of the other directions' basis values at a parameter tuple times a
coordinate selector, the tensor-product evaluation `Σ_{i1..id} Π_k N_{ik}(u_k) P_{i1..id}`) is
unchanged.  `_partial`: the identification of `Obj.evaluate`'s contraction over all axes with this
weighted fibre sum (i.e. the multi-directional evaluation theorem) is not proved here; for curves
`C04_curve` is complete. -/
theorem C04_object_eval_partial (o : Obj K) (dir : ℕ) (hdir : dir < o.bases.size)
    (hax : dir < o.cps.shape.length) (hv : (o.basis dir).Valid) (hper : (o.basis dir).periodic = -1)
    (hshape : o.cps.shape.getD dir 0 = (o.basis dir).numFunctions) (xs : List K)
    (hxs : ∀ x ∈ xs, (o.basis dir).start ≤ x ∧ x < (o.basis dir).stop) :
    ∃ o', o.insertKnots xs dir = .ok o' ∧ ∀ (w : ℕ → ℕ → K) (s : Side) (t : K) (d : ℕ),
      (Finset.range (outerN o' dir)).sum (fun a => (Finset.range (innerN o' dir)).sum (fun i =>
        w a i * splineDeriv s (o'.basis dir).kn ((o'.basis dir).order - 1) (o'.basis dir).numFunctions
          (fibre o' dir a i) d t))
      = (Finset.range (outerN o dir)).sum (fun a => (Finset.range (innerN o dir)).sum (fun i =>
        w a i * splineDeriv s (o.basis dir).kn ((o.basis dir).order - 1) (o.basis dir).numFunctions
          (fibre o dir a i) d t)) := by
  obtain ⟨o', C, h1, h2, _, _, _, _, h7, h8, _, h10⟩ := C04_object o dir hdir hax hv hper hshape xs hxs
  refine ⟨o', h1, fun w s t d => ?_⟩
  rw [h7, h8, h2.order_eq, h2.num_eq]
  apply Finset.sum_congr rfl
  intro a ha
  apply Finset.sum_congr rfl
  intro i hi
  rw [(h10 a i (Finset.mem_range.1 ha) (Finset.mem_range.1 hi) s t).2 d]

/-- **`refine`**: the values `SplineObject.refine(n)` inserts in a direction (`refineValues` of
`knot_spans()`: `k0 + j·(k1-k0)/(n+1)`, `j = 1..n`, for consecutive distinct knots `k0 < k1`) lie strictly
inside a knot span each, hence strictly inside the domain, for any non-negative knot tolerance; so the
pass of `refine` over a valid non-periodic direction succeeds and has all the conclusions of
`C04_object` (with exactly these values inserted). -/
theorem C04_refine (o : Obj K) (tol : K) (htol : 0 ≤ tol) (n dir : ℕ) (hdir : dir < o.bases.size)
    (hpd : dir < o.pardim) (hv : (o.basis dir).Valid) (hper : (o.basis dir).periodic = -1)
    (hshape : o.cps.shape.getD dir 0 = (o.basis dir).numFunctions) :
    let spans := ((o.basis dir).knotSpans tol false).toList
    let xs := refineValues spans n
    (∀ v ∈ xs, (∃ k0 k1, (k0, k1) ∈ List.zip spans spans.tail ∧ k0 < v ∧ v < k1) ∧
        (o.basis dir).start < v ∧ v < (o.basis dir).stop) ∧
    o.refineDir tol n dir = o.insertKnots xs dir ∧
    ∃ o' C, o.refineDir tol n dir = .ok o' ∧
      Refines (o.basis dir) (o'.basis dir) C xs.length ∧
      (o'.basis dir).knots.toList.Perm (xs ++ (o.basis dir).knots.toList) ∧
      ∀ a i, a < outerN o dir → i < innerN o dir → ∀ (s : Side) (t : K) (d : ℕ),
        splineDeriv s (o'.basis dir).kn ((o.basis dir).order - 1)
            ((o.basis dir).numFunctions + xs.length) (fibre o' dir a i) d t
          = splineDeriv s (o.basis dir).kn ((o.basis dir).order - 1) (o.basis dir).numFunctions
            (fibre o dir a i) d t := by
  intro spans xs
  obtain ⟨hs1, hs2⟩ := knotSpans_spec (o.basis dir) hv tol htol
  have hmem : ∀ v ∈ xs, (∃ k0 k1, (k0, k1) ∈ List.zip spans spans.tail ∧ k0 < v ∧ v < k1) ∧
      (o.basis dir).start < v ∧ v < (o.basis dir).stop :=
    fun v hv' => refineValues_mem spans hs1 _ _ hs2 n v hv'
  have hcall : o.refineDir tol n dir = o.insertKnots xs dir := by
    unfold Obj.refineDir Obj.insertKnotDir
    rw [if_pos hpd]
    simp only []
    rw [if_pos hpd]
  have hax : dir < o.cps.shape.length := by unfold Obj.pardim at hpd; omega
  obtain ⟨o', C, h1, h2, h3, _, _, _, _, _, _, h10⟩ := C04_object o dir hdir hax hv hper hshape xs
    (fun v hv' => ⟨le_of_lt (hmem v hv').2.1, (hmem v hv').2.2⟩)
  exact ⟨hmem, hcall, o', C, hcall.trans h1, h2, h3,
    fun a i ha hi s t d => (h10 a i ha hi s t).2 d⟩

/-- **Periodic bases, knot-vector half, under the guard `n ≥ p + k`.**
For a valid periodic basis (continuity `k`, `n` functions, order `p`) with `n ≥ p + k` and ANY real
`x0` whose wrapped image `x = wrapVal b x0` (`x0` itself inside `[start,end]`, else
`(x0-start) % (end-start) + start`) is not the end of the domain:
`insert_knot(x0)` = `insert_knot(x)` succeeds; the repaired knot vector is a valid periodic knot vector
(sorted; the ghost knots repeat the interior ones with the unchanged period over `n+1` functions:
"periodic images consistent"), with the same start and end, one more knot and function; away from the
`p+k+1` ghost positions it is `np.insert(knots, μ, x)`; `C` is `(n+1) × n`.
`_partial` — NOT proved: (i) the geometric half (that the spline with coefficients `C·c`, indices
folded modulo `n+1`/`n`, is the same periodic function); (ii) `x = end` (the code raises `IndexError`
there when the seam multiplicity `p-1-k ≥ 2`); (iii) `n < p + k`, where the two repair loops read
knots they have already overwritten and the real code changes the geometry (both are reported
defects of the pinned code, found by the oracle of this property). -/
theorem C04_periodic_partial (b : Basis K) (hv : b.Valid) (k : ℕ) (hk : b.periodic = (k : Int))
    (hguard : b.order + k ≤ b.numFunctions) (x0 : K) (hne : wrapVal b x0 ≠ b.stop) :
    b.start ≤ wrapVal b x0 ∧ wrapVal b x0 < b.stop ∧
    b.insertKnot x0 = b.insertKnot (wrapVal b x0) ∧
    ∃ b' C, b.insertKnot x0 = .ok (b', C) ∧ b'.Valid ∧ b'.order = b.order ∧
      b'.periodic = b.periodic ∧ b'.knots.size = b.knots.size + 1 ∧
      b'.numFunctions = b.numFunctions + 1 ∧ b'.start = b.start ∧ b'.stop = b.stop ∧
      (∀ j, b.order + k < j → j < b.numFunctions + 1 →
        b'.kn j = insertSeq b.kn (b.bisectR (wrapVal b x0)) (wrapVal b x0) j) ∧
      Shape (b.numFunctions + 1) b.numFunctions C := by
  obtain ⟨h1, h2, _⟩ := wrapVal_mem b hv.start_lt_stop x0
  have hlt : wrapVal b x0 < b.stop := lt_of_le_of_ne h2 hne
  have hw := insertKnot_wrap b (by rw [hk]; omega) hv.start_lt_stop x0
  refine ⟨h1, hlt, hw, ?_⟩
  rw [hw]
  exact insertKnot_periodic b hv k hk hguard (wrapVal b x0) ⟨h1, hlt⟩

/-! ## Non-vacuity: the hypotheses are satisfiable (concrete instances at `ℚ`) -/

/-- Open quadratic basis with a double interior knot. -/
def C04_exOpen : Basis ℚ := ⟨3, #[0, 0, 0, 1, 2, 2, 3, 3, 3], -1⟩

/-- Periodic (`C^0`) quadratic basis, `n = 4 ≥ p + k = 3`. -/
def C04_exPer : Basis ℚ := ⟨3, #[-1, 0, 0, 1, 2, 3, 3, 4], 0⟩

/-- Rational curve over `C04_exOpen` (6 control points, 3 homogeneous coordinates). -/
def C04_exCurve : Obj ℚ :=
  { bases := #[C04_exOpen],
    cps := { shape := [6, 3], data := #[0, 0, 1, 1, 2, 1, 2, 1, 2, 3, 0, 1, 4, 1, 1, 5, 5, 3] },
    rational := true }

theorem C04_exOpen_valid : C04_exOpen.Valid where
  order_pos := by decide
  size_ge := by decide
  sorted := by
    intro i hi
    have hi' : i + 1 < 9 := hi
    have hi'' : i < 8 := by omega
    interval_cases i <;> norm_num [Basis.kn, C04_exOpen]
  periodic_ge := by decide
  periodic_le := by decide
  start_lt_stop := by norm_num [Basis.start, Basis.stop, Basis.kn, C04_exOpen]
  ghosts := fun h => absurd h (by decide)

theorem C04_exPer_valid : C04_exPer.Valid where
  order_pos := by decide
  size_ge := by decide
  sorted := by
    intro i hi
    have hi' : i + 1 < 8 := hi
    have hi'' : i < 7 := by omega
    interval_cases i <;> norm_num [Basis.kn, C04_exPer]
  periodic_ge := by decide
  periodic_le := by decide
  start_lt_stop := by norm_num [Basis.start, Basis.stop, Basis.kn, C04_exPer]
  ghosts := by
    intro _ i hi
    have hi' : i + 4 < 8 := hi
    have hi'' : i < 4 := by omega
    interval_cases i <;> norm_num [Basis.kn, Basis.start, Basis.stop, Basis.numFunctions, C04_exPer]

theorem C04_exOpen_start : C04_exOpen.start = 0 := by
  norm_num [Basis.start, Basis.kn, C04_exOpen]

theorem C04_exOpen_stop : C04_exOpen.stop = 3 := by
  norm_num [Basis.stop, Basis.kn, C04_exOpen]

theorem C04_exPer_stop : C04_exPer.stop = 3 := by
  norm_num [Basis.stop, Basis.kn, C04_exPer]

/-- C04_rejects. -/
example : C04_exOpen.insertKnot 4 = .error .value :=
  C04_rejects C04_exOpen 4 (by decide) (Or.inr (by rw [C04_exOpen_stop]; norm_num))

/-- C04_open: raising the double interior knot `2` to full multiplicity `p = 3`. -/
example : ∃ b' C, C04_exOpen.insertKnot 2 = .ok (b', C) ∧ b'.Valid ∧ b'.numFunctions = 7 := by
  obtain ⟨b', C, h1, h2, _, _, _, _, _, h8, _⟩ := C04_open C04_exOpen C04_exOpen_valid rfl 2
    (by rw [C04_exOpen_start, C04_exOpen_stop]; norm_num)
    (guard_of_lt_stop _ C04_exOpen_valid 2 (by rw [C04_exOpen_stop]; norm_num))
  exact ⟨b', C, h1, h2, h8⟩

/-- C04_open_interior at the start of the domain. -/
example : ∃ b' C, C04_exOpen.insertKnot 0 = .ok (b', C) ∧ Refines C04_exOpen b' C 1 := by
  obtain ⟨b', C, h1, h2, _⟩ := C04_open_interior C04_exOpen C04_exOpen_valid rfl 0
    (by rw [C04_exOpen_start, C04_exOpen_stop]; norm_num)
  exact ⟨b', C, h1, h2⟩

/-- C04_sequence: new value, existing knot, repeated value. -/
example : ∃ b' C, insertMany C04_exOpen (Mat.identity C04_exOpen.numFunctions) [1/2, 2, 1/2]
      = .ok (b', C) ∧ Refines C04_exOpen b' C 3 := by
  obtain ⟨b', C, h1, h2, _⟩ := C04_sequence C04_exOpen C04_exOpen_valid rfl [1/2, 2, 1/2]
    (by
      intro x hx
      rw [C04_exOpen_start, C04_exOpen_stop]
      simp only [List.mem_cons, List.not_mem_nil, or_false] at hx
      rcases hx with rfl | rfl | rfl <;> norm_num)
  exact ⟨b', C, h1, h2⟩

theorem C04_exCurve_hyps :
    0 < C04_exCurve.bases.size ∧ (C04_exCurve.basis 0).Valid ∧ (C04_exCurve.basis 0).periodic = -1 ∧
    C04_exCurve.cps.shape.getD 0 0 = (C04_exCurve.basis 0).numFunctions :=
  ⟨by decide, C04_exOpen_valid, rfl, by decide⟩

/-- C04_object / C04_object_eval_partial / C04_curve on a rational curve. -/
example : ∃ o', C04_exCurve.insertKnots [1/2, 2] 0 = .ok o' ∧ o'.cps.shape = [8, 3] := by
  obtain ⟨o', h1, h2, _⟩ := C04_curve C04_exCurve 6 3 rfl C04_exCurve_hyps.1 C04_exCurve_hyps.2.1
    rfl (by decide) [1/2, 2]
    (by
      intro x hx
      change C04_exOpen.start ≤ x ∧ x < C04_exOpen.stop
      rw [C04_exOpen_start, C04_exOpen_stop]
      simp only [List.mem_cons, List.not_mem_nil, or_false] at hx
      rcases hx with rfl | rfl <;> norm_num)
  exact ⟨o', h1, h2⟩

example : ∃ o' C, C04_exCurve.insertKnots [1] 0 = .ok o' ∧
    Refines (C04_exCurve.basis 0) (o'.basis 0) C 1 := by
  obtain ⟨o', C, h1, h2, _⟩ := C04_object C04_exCurve 0 C04_exCurve_hyps.1 (by decide)
    C04_exCurve_hyps.2.1 rfl C04_exCurve_hyps.2.2.2 [1]
    (by
      intro x hx
      change C04_exOpen.start ≤ x ∧ x < C04_exOpen.stop
      rw [C04_exOpen_start, C04_exOpen_stop]
      simp only [List.mem_cons, List.not_mem_nil, or_false] at hx
      rcases hx with rfl; norm_num)
  exact ⟨o', C, h1, h2⟩

example : ∃ o', C04_exCurve.insertKnots [1] 0 = .ok o' := by
  obtain ⟨o', h1, _⟩ := C04_object_eval_partial C04_exCurve 0 C04_exCurve_hyps.1 (by decide)
    C04_exCurve_hyps.2.1 rfl C04_exCurve_hyps.2.2.2 [1]
    (by
      intro x hx
      change C04_exOpen.start ≤ x ∧ x < C04_exOpen.stop
      rw [C04_exOpen_start, C04_exOpen_stop]
      simp only [List.mem_cons, List.not_mem_nil, or_false] at hx
      rcases hx with rfl; norm_num)
  exact ⟨o', h1⟩

/-- C04_refine: `refine(2)` of the curve with `state.knot_tolerance = 1e-10`. -/
example : ∃ o', C04_exCurve.refineDir (1/10000000000) 2 0 = .ok o' := by
  obtain ⟨_, _, o', C, h1, _⟩ := C04_refine C04_exCurve (1/10000000000) (by norm_num) 2 0
    C04_exCurve_hyps.1 (by decide) C04_exCurve_hyps.2.1 rfl C04_exCurve_hyps.2.2.2
  exact ⟨o', h1⟩

/-- C04_periodic_partial: a value two... one period above the domain (`7/2 ↦ 1/2`), and the seam. -/
example : ∃ b' C, C04_exPer.insertKnot (7/2) = .ok (b', C) ∧ b'.Valid := by
  have hne : wrapVal C04_exPer (7/2) ≠ C04_exPer.stop :=
    ne_of_lt ((wrapVal_mem C04_exPer C04_exPer_valid.start_lt_stop (7/2)).2.2
      (by rw [C04_exPer_stop]; norm_num))
  obtain ⟨_, _, _, b', C, h1, h2, _⟩ :=
    C04_periodic_partial C04_exPer C04_exPer_valid 0 rfl (by decide) (7/2) hne
  exact ⟨b', C, h1, h2⟩

example : ∃ b' C, C04_exPer.insertKnot 0 = .ok (b', C) ∧ b'.Valid ∧ b'.numFunctions = 5 := by
  have hne : wrapVal C04_exPer 0 ≠ C04_exPer.stop :=
    ne_of_lt ((wrapVal_mem C04_exPer C04_exPer_valid.start_lt_stop 0).2.2
      (by rw [C04_exPer_stop]; norm_num))
  obtain ⟨_, _, _, b', C, h1, h2, _, _, _, h6, _⟩ :=
    C04_periodic_partial C04_exPer C04_exPer_valid 0 rfl (by decide) 0 hne
  exact ⟨b', C, h1, h2, h6⟩
