import Splipy.Lemmas.C06Obj
import Splipy.Generated.C06
import Mathlib.Tactic.NormNum
import Mathlib.Tactic.IntervalCases

/-!
# Property C06: `reverse`, `swap` and `reparam` are exact reparametrisations

Layers (all in `Splipy/Lemmas/C06*.lean`):

* **model** — `Basis.reverse`, `Basis.reparam`, `Obj.reverse`, `Obj.swap`, `Obj.reparamDir`
  (`Model/BasisOps.lean`, `Model/Object.lean`), the calling conventions `checkDirection`,
  `Obj.reverseTok/swapTok/reparamArgs/reparamDirTok`, `Obj.reverseSpec`, `Obj.reverseFlipOnly`
  (`Model/Reparam.lean`);
* **specification** — `B`, `dB`, `splineVal`, `splineDeriv` (`Spec/BSpline.lean`); the wrapped
  curve sum `C06.wsum` and the tensor-product sum `C06.TP.evalD` (`Lemmas/C06Spec.lean`) are the
  defining sums of (periodic) spline curves / objects, one homogeneous component at a time
  (a rational object is the quotient of two such components, so every statement carries over);
* **bridge** — `C06.toTP o m comp` reads component `comp` of a model object through multi-index
  access `C06.getIdx` into the flat C-order control array (`Lemmas/C06Tensor.lean`,
  `Lemmas/C06Obj.lean`).

The control-point correspondence that makes `reverse` exact is `j ↦ (nAll-1-j) mod n`
(`= n-1-j` on an open direction, `= (n+k-j) mod n`, i.e. flip **and roll by `k+1`**, on a periodic
direction of continuity `k`).  The code and its model `Obj.reverse` do exactly that (flip, then
`np.roll` by `k+1`): `C06_reverse_eq_spec`.  Before the fix 4fe14f6 the code only flipped
(`Obj.reverseFlipOnly`): `C06_reverse_periodic_flip_only_refuted` exhibits a periodic curve on
which that shape is wrong.
-/

open Splipy Splipy.C06

set_option linter.unusedSectionVars false

variable {K : Type} [Field K] [LinearOrder K] [IsStrictOrderedRing K]

/-! ## reverse — knot vector -/

/-- The reversed knot vector is `τ'_j = start + end - τ_{N-1-j}` exactly. -/
theorem C06_reverse_knots {b : Basis K} (hv : b.Valid) (j : ℕ) :
    b.reverse.kn j = b.start + b.stop - b.kn (b.knots.size - 1 - j) :=
  reverse_kn b (valid_size_pos hv) (valid_ne hv) j

/-- `reverse` keeps the domain `[start, end]`, the order, the periodicity, the number of knots and
functions, and yields a well-formed (sorted, ghost-periodic) basis again; twice is the identity. -/
theorem C06_reverse_domain {b : Basis K} (hv : b.Valid) :
    b.reverse.start = b.start ∧ b.reverse.stop = b.stop ∧ b.reverse.periodic = b.periodic
      ∧ b.reverse.order = b.order ∧ b.reverse.knots.size = b.knots.size
      ∧ b.reverse.numFunctions = b.numFunctions ∧ b.reverse.Valid ∧ b.reverse.reverse = b :=
  ⟨reverse_start hv, reverse_stop hv, rfl, rfl, reverse_size b, reverse_numFunctions b, reverse_valid hv,
    reverse_reverse hv⟩

theorem C06_reversed_knots_eq_refl {b : Basis K} (hv : b.Valid) :
    b.reverse.kn = reflKnots b.kn (b.order - 1) b.nAll (b.start + b.stop) := by
  funext j
  rw [C06_reverse_knots hv, reflKnots, valid_nAll_add_q hv]

/-! ## reverse — curves -/

/-- **Open curve.**  With reversed coefficients `c'_i = c_{n-1-i}` the spline on the reversed knot
vector, evaluated at `start+end-t` from the other side, is the old spline at `t`. -/
theorem C06_reverse_open {b : Basis K} (hv : b.Valid) (hper : b.periodic = -1) (s : Side) (c : ℕ → K) (t : K) :
    splineVal s.flip b.reverse.kn (b.order - 1) b.numFunctions (fun i => c (b.numFunctions - 1 - i))
        (b.start + b.stop - t)
      = splineVal s b.kn (b.order - 1) b.numFunctions c t := by
  have hn : b.nAll = b.numFunctions := by rw [valid_nAll_eq hv, hper]; rfl
  have h := wsum_reflect s b.kn (b.order - 1) b.nAll b.numFunctions c
    (fun i => c (b.numFunctions - 1 - i)) 0 (b.start + b.stop) t (by
      intro j hj
      rw [hn] at hj ⊢
      have h2 : b.numFunctions - 1 - j < b.numFunctions := by omega
      rw [Nat.mod_eq_of_lt hj, Nat.mod_eq_of_lt h2])
  rw [← C06_reversed_knots_eq_refl hv, hn, wsum_open, wsum_open, splineDeriv_zero, splineDeriv_zero, pow_zero,
    one_mul] at h
  exact h

/-- … and its `d`-th one-sided derivative picks up the factor `(-1)^d`. -/
theorem C06_reverse_open_deriv {b : Basis K} (hv : b.Valid) (hper : b.periodic = -1) (s : Side) (c : ℕ → K)
    (d : ℕ) (t : K) :
    splineDeriv s.flip b.reverse.kn (b.order - 1) b.numFunctions (fun i => c (b.numFunctions - 1 - i)) d
        (b.start + b.stop - t)
      = (-1) ^ d * splineDeriv s b.kn (b.order - 1) b.numFunctions c d t := by
  have hn : b.nAll = b.numFunctions := by rw [valid_nAll_eq hv, hper]; rfl
  have h := wsum_reflect s b.kn (b.order - 1) b.nAll b.numFunctions c
    (fun i => c (b.numFunctions - 1 - i)) d (b.start + b.stop) t (by
      intro j hj
      rw [hn] at hj ⊢
      have h2 : b.numFunctions - 1 - j < b.numFunctions := by omega
      rw [Nat.mod_eq_of_lt hj, Nat.mod_eq_of_lt h2])
  rw [← C06_reversed_knots_eq_refl hv, hn, wsum_open, wsum_open] at h
  exact h

/-- **Periodic (and open) curve, the correspondence the property requires.**  The defining wrapped
sum `Σ_{i<nAll} c_{i mod n} B_i` of a curve on any valid basis is reproduced on the reversed knot
vector at `start+end-t`, from the other side, by the coefficients
`c'_j = c_{(nAll-1-j) mod n}` (`C06.revCoef`). -/
theorem C06_reverse_periodic {b : Basis K} (hv : b.Valid) (s : Side) (c : ℕ → K) (d : ℕ) (t : K) :
    wsum s.flip b.reverse.kn (b.order - 1) b.nAll b.numFunctions (revCoef b.nAll b.numFunctions c) d
        (b.start + b.stop - t)
      = (-1) ^ d * wsum s b.kn (b.order - 1) b.nAll b.numFunctions c d t := by
  rw [C06_reversed_knots_eq_refl hv]
  exact wsum_reflect s b.kn (b.order - 1) b.nAll b.numFunctions c _ d _ t
    (fun j hj => revCoef_spec b.nAll b.numFunctions c j hj)

/-- On a periodic basis of continuity `k` the required correspondence is `j ↦ (n + k - j) mod n`:
flip and roll by `k+1`. -/
theorem C06_reverse_periodic_index {b : Basis K} (hv : b.Valid) (hper : 0 ≤ b.periodic) (c : ℕ → K) (j : ℕ) :
    revCoef b.nAll b.numFunctions c j = c ((b.numFunctions + b.periodic.toNat - j) % b.numFunctions) := by
  unfold revCoef
  have h := valid_nAll_eq hv
  have : b.nAll - 1 = b.numFunctions + b.periodic.toNat := by omega
  rw [this]

/-- The minimal periodic instance: order 2 (piecewise linear), `C^0`-periodic, two control points. -/
def C06_exPer : Basis ℚ := ⟨2, #[-1, 0, 1, 2, 3], 0⟩

theorem C06_exPer_valid : C06_exPer.Valid where
  order_pos := by decide
  size_ge := by decide
  sorted := by
    intro i hi
    have hi' : i + 1 < 5 := hi
    have hi'' : i < 4 := by omega
    interval_cases i <;> norm_num [Basis.kn, C06_exPer]
  periodic_ge := by decide
  periodic_le := by decide
  start_lt_stop := by norm_num [Basis.start, Basis.stop, Basis.kn, C06_exPer]
  ghosts := by
    intro _ i hi
    have hi' : i + 2 < 5 := hi
    have hi'' : i < 3 := by omega
    interval_cases i <;> norm_num [Basis.kn, Basis.start, Basis.stop, Basis.numFunctions, C06_exPer]

/-- The periodic curve on `C06_exPer` with control points `0, 1` (one component). -/
def C06_exObj : Obj ℚ := { bases := #[C06_exPer], cps := ⟨[2, 1], #[0, 1]⟩, rational := false }

/-- **"Flip only" (the shape of `reverse` before the fix 4fe14f6) is refuted.**  Flipping alone
turns the control points `(0,1)` of the periodic curve `C06_exObj` into `(1,0)` and leaves the knots
as they are, whereas the required correspondence (`Obj.reverseSpec`, and the model of the fixed code
`Obj.reverse`) keeps `(0,1)`; with the flipped coefficients the reversed curve at `start+end-t = 2`
(from the left) has the value `1`, the old curve at `t = 0` (from the right) the value `0`.
The harness replays this instance on the real code. -/
theorem C06_reverse_periodic_flip_only_refuted :
    (C06_exObj.reverseFlipOnly 0).cps.data = #[1, 0] ∧ (C06_exObj.reverseSpec 0).cps.data = #[0, 1]
    ∧ (C06_exObj.reverse 0).cps.data = #[0, 1]
    ∧ ((C06_exObj.reverseFlipOnly 0).basis 0).knots = #[-1, 0, 1, 2, 3]
    ∧ wsum .left C06_exPer.reverse.kn 1 3 2 (fun j => (#[(1 : ℚ), 0]).getD j 0) 0 (0 + 2 - 0) = 1
    ∧ wsum .right C06_exPer.kn 1 3 2 (fun j => (#[(0 : ℚ), 1]).getD j 0) 0 0 = 0 := by
  refine ⟨by decide, by decide, by decide, ?_, ?_, ?_⟩
  · simp [C06_exObj, C06_exPer, Obj.reverseFlipOnly, Obj.basis, Basis.reverse, Basis.start, Basis.stop, Basis.kn]
    norm_num
  · rw [C06_reversed_knots_eq_refl C06_exPer_valid]
    norm_num [wsum, reflKnots, Finset.sum_range_succ, dB, B, ind, Basis.kn, Basis.start, Basis.stop,
      Basis.nAll, C06_exPer]
  · norm_num [wsum, Finset.sum_range_succ, dB, B, ind, Basis.kn, C06_exPer]

/-! ## reverse — objects -/

/-- **The model of the code's `reverse` is the required correspondence**, on every direction
(periodic or not) and for every object: flipping and rolling by `k+1` re-indexes the control array
by `j ↦ (n + k - j) mod n`. -/
theorem C06_reverse_eq_spec (o : Obj K) (d : ℕ) : o.reverse d = o.reverseSpec d :=
  reverse_eq_reverseSpec o d

/-- **Object level, every direction (periodic or not).**  For a well-formed model object and every
homogeneous component, `o.reverse d` (the model of the code) evaluated at `start+end-u_d` in
direction `d` (side flipped in direction `d`) has the value — and, up to the sign `(-1)^{α_d}`, the
derivatives — of the old object at `u`. -/
theorem C06_reverse_obj {m : ℕ} {o : Obj K} (hw : WF o m) (d : Fin m) (comp : ℕ) (hc : comp < o.ncomp)
    (s : Fin m → Side) (α : Fin m → ℕ) (u : Fin m → K) :
    (toTP (o.reverse d) m comp).evalD (Function.update s d (s d).flip) α
        (Function.update u d ((o.basis d).start + (o.basis d).stop - u d))
      = (-1) ^ (α d) * (toTP o m comp).evalD s α u := by
  rw [reverse_eq_reverseSpec]
  have hA := toTP_reverseSpec hw d comp hc
  have hpos : (toTP (o.reverseSpec d) m comp).Pos := toTP_pos (wf_reverseSpec hw d).1 comp
  rw [hA.evalD hpos]
  exact TP.evalD_reverse (toTP o m comp) d s α u

/-- **`reverse ∘ reverse` is the identity** (object level): bases and every control-array entry. -/
theorem C06_reverse_involution {m : ℕ} {o : Obj K} (hw : WF o m) (d : Fin m) (J : Fin m → ℕ) (comp : ℕ)
    (hJ : ∀ k, J k < (o.basis k).numFunctions) (hc : comp < o.ncomp) :
    (∀ k : Fin m, ((o.reverse d).reverse d).basis k = o.basis k)
    ∧ getIdx ((o.reverse d).reverse d).cps (midx J comp) = getIdx o.cps (midx J comp) := by
  rw [reverse_eq_reverseSpec, reverse_eq_reverseSpec]
  exact reverseSpec_reverseSpec hw d J comp hJ hc

/-! ## swap -/

/-- **Index algebra of `swap`**: the control array of `o.swap a b` at the multi-index with
positions `a`, `b` exchanged is the old control array at the multi-index; the bases are exchanged. -/
theorem C06_swap {m : ℕ} {o : Obj K} (hw : WF o m) (a b : Fin m) (J : Fin m → ℕ) (comp : ℕ)
    (hJ : ∀ k, J k < (o.basis k).numFunctions) (hc : comp < o.ncomp) :
    getIdx (o.swap a b).cps (midx (fun k => J (Equiv.swap a b k)) comp) = getIdx o.cps (midx J comp)
    ∧ (∀ k : Fin m, (o.swap a b).basis k = o.basis (Equiv.swap a b k))
    ∧ WF (o.swap a b) m := by
  refine ⟨?_, basis_swap o hw.size a b, (wf_swap hw a b).1⟩
  have hlen : o.cps.shape.length = m + 1 := by rw [hw.shape, midx_length]
  have := getIdx_swapAxes o.cps a b (midx J comp)
    (by rw [hlen]; exact Nat.lt_succ_of_lt a.isLt) (by rw [hlen]; exact Nat.lt_succ_of_lt b.isLt)
    (by rw [hw.shape, inRange_midx]; exact ⟨hJ, hc⟩)
  rw [swapL_midx] at this
  exact this

/-- **`swap` evaluated with the two parameters (sides, derivative orders) exchanged is the old
object.** -/
theorem C06_swap_eval {m : ℕ} {o : Obj K} (hw : WF o m) (a b : Fin m) (comp : ℕ) (hc : comp < o.ncomp)
    (s : Fin m → Side) (α : Fin m → ℕ) (u : Fin m → K) :
    (toTP (o.swap a b) m comp).evalD (fun d => s (Equiv.swap a b d)) (fun d => α (Equiv.swap a b d))
        (fun d => u (Equiv.swap a b d))
      = (toTP o m comp).evalD s α u := by
  have hA := toTP_swap hw a b comp hc
  have hpos : (toTP (o.swap a b) m comp).Pos := toTP_pos (wf_swap hw a b).1 comp
  rw [hA.evalD hpos]
  exact TP.evalD_perm (toTP o m comp) (Equiv.swap a b) s α u

/-- **`swap ∘ swap` is the identity** on bases and on every entry of the control array. -/
theorem C06_swap_involution {m : ℕ} {o : Obj K} (hw : WF o m) (a b : Fin m) (comp : ℕ) (hc : comp < o.ncomp) :
    TP.Agree (toTP ((o.swap a b).swap a b) m comp) (toTP o m comp) := by
  obtain ⟨hw', hn⟩ := wf_swap hw a b
  have h1 := toTP_swap hw' a b comp (by rw [hn]; exact hc)
  have h2 := toTP_swap hw a b comp hc
  have hp : (toTP (o.swap a b) m comp).Pos := toTP_pos hw' comp
  have h3 := h2.apply hp (.swap a b)
  have h4 : ((toTP o m comp).perm (Equiv.swap a b)).perm (Equiv.swap a b) = toTP o m comp :=
    TP.perm_perm _ _ (fun d => Equiv.swap_apply_self a b d)
  have h5 := h1.trans h3
  change TP.Agree _ (((toTP o m comp).perm (Equiv.swap a b)).perm (Equiv.swap a b)) at h5
  rwa [h4] at h5

/-! ## reparam -/

/-- `reparam(start, end)` with `end ≤ start` raises `ValueError`; otherwise it succeeds, the new
knots are `s + (τ_j - a)(e - s)/(b_end - a)`, the new domain is **exactly** `[s, e]`, order,
periodicity and size are unchanged, the result is well formed, and re-parametrising back to the old
interval restores the basis. -/
theorem C06_reparam_knots {b : Basis K} (hv : b.Valid) (s e : K) :
    (e ≤ s → b.reparam s e = .error .value) ∧
    (s < e → ∃ b', b.reparam s e = .ok b'
        ∧ (∀ j, b'.kn j = s + (b.kn j - b.start) * (e - s) / (b.stop - b.start))
        ∧ b'.start = s ∧ b'.stop = e ∧ b'.order = b.order ∧ b'.periodic = b.periodic
        ∧ b'.knots.size = b.knots.size ∧ b'.Valid
        ∧ b'.reparam b.start b.stop = .ok b) := by
  refine ⟨fun h => reparam_error b h, fun h => ⟨reparamOk b s e, reparam_ok b h, ?_, reparamOk_start hv s e,
    reparamOk_stop hv s e, rfl, rfl, reparamOk_size b s e, reparamOk_valid hv h, ?_⟩⟩
  · exact fun j => reparamOk_kn b (valid_size_pos hv) s e j
  · rw [reparam_ok _ hv.start_lt_stop, reparamOk_back hv h]

/-- **Curve level**: the spline on the re-parametrised knots at the affinely mapped parameter has the
old value (`d`-th derivative divided by `ρ^d`, `ρ = (e-s)/(end-start) > 0`). -/
theorem C06_reparam_curve {b : Basis K} (hv : b.Valid) {s e : K} (h : s < e) (sd : Side) (c : ℕ → K)
    (d : ℕ) (t : K) :
    wsum sd (reparamOk b s e).kn (b.order - 1) b.nAll b.numFunctions c d
        (s + (t - b.start) * (e - s) / (b.stop - b.start))
      = wsum sd b.kn (b.order - 1) b.nAll b.numFunctions c d t / ((e - s) / (b.stop - b.start)) ^ d := by
  have hk : (reparamOk b s e).kn = fun j => (e - s) / (b.stop - b.start) * b.kn j
      + (s - (e - s) / (b.stop - b.start) * b.start) := by
    funext j; exact reparamOk_kn_affine b (valid_size_pos hv) s e j
  have ht : s + (t - b.start) * (e - s) / (b.stop - b.start)
      = (e - s) / (b.stop - b.start) * t + (s - (e - s) / (b.stop - b.start) * b.start) := by ring
  rw [hk, ht]
  exact wsum_affine sd b.kn _ _ _ c d _ _ t (reparam_scale_pos hv h)

/-- **Object level**: `reparamDir d s e` succeeds for `s < e` and the new object at the mapped
parameter of direction `d` is the old object. -/
theorem C06_reparam {m : ℕ} {o : Obj K} (hw : WF o m) (d : Fin m) {s e : K} (h : s < e) (comp : ℕ)
    (sd : Fin m → Side) (α : Fin m → ℕ) (u : Fin m → K) :
    ∃ o', o.reparamDir d s e = .ok o' ∧ WF o' m ∧ (o'.basis d).start = s ∧ (o'.basis d).stop = e
      ∧ o'.cps = o.cps
      ∧ (toTP o' m comp).evalD sd α
          (Function.update u d (s + (u d - (o.basis d).start) * (e - s) / ((o.basis d).stop - (o.basis d).start)))
        = (toTP o m comp).evalD sd α u / ((e - s) / ((o.basis d).stop - (o.basis d).start)) ^ (α d) := by
  have hd : (d : ℕ) < o.bases.size := by rw [hw.size]; exact d.isLt
  have hbd : (reparamObj o d s e).basis d = reparamOk (o.basis d) s e := basis_set_self o o.cps d _ hd
  refine ⟨reparamObj o d s e, reparamDir_ok o d h, (wf_reparamObj hw d h).1, ?_, ?_, rfl, ?_⟩
  · rw [hbd]; exact reparamOk_start (hw.valid d) s e
  · rw [hbd]; exact reparamOk_stop (hw.valid d) s e
  · have hA := toTP_reparam hw d s e comp
    have hpos : (toTP (reparamObj o d s e) m comp).Pos := toTP_pos (wf_reparamObj hw d h).1 comp
    rw [hA.evalD hpos]
    have := TP.evalD_reparam (toTP o m comp) d s e (toTP_dom hw comp d) h sd α u
    rw [TP.reparamMap_eq] at this
    exact this

/-- **`reparam` is invertible**: re-parametrising the direction back to its old interval restores the
model object (knots, control array, everything). -/
theorem C06_reparam_inverse {m : ℕ} {o : Obj K} (hw : WF o m) (d : Fin m) {s e : K} (h : s < e) :
    ∃ o', o.reparamDir d s e = .ok o' ∧ o'.reparamDir d (o.basis d).start (o.basis d).stop = .ok o := by
  refine ⟨reparamObj o d s e, reparamDir_ok o d h, ?_⟩
  rw [reparamDir_ok _ d (hw.valid d).start_lt_stop, reparamObj_back hw d h]

/-- `end ≤ start` is rejected at object level too. -/
theorem C06_reparam_error {o : Obj K} (d : ℕ) {s e : K} (h : e ≤ s) : o.reparamDir d s e = .error .value :=
  reparamDir_error o d h

/-! ## compositions, image -/

/-- **Closure under arbitrary histories (defining sums).**  For every list of operations
(`reverse d`, `swap d₁ d₂`, `reparam d s e` with `s < e`) applied to a tensor-product spline with
non-degenerate domains there are a parameter map `φ = paramOps` and a side map `sideOps` with
`eval(new)(φ u) = eval(old)(u)`; domains stay non-degenerate; `φ` maps the old domain box into the
new one; the image is unchanged. -/
theorem C06_compositions {m : ℕ} (ops : List (TOp K m)) (P : TP K m) (hP : P.Dom) (hops : ∀ op ∈ ops, op.WF) :
    (∀ s u, (TP.run ops P).eval (TP.sideOps ops s) (TP.paramOps ops P u) = P.eval s u)
    ∧ (TP.run ops P).Dom
    ∧ (∀ u, P.Box u → (TP.run ops P).Box (TP.paramOps ops P u))
    ∧ (TP.run ops P).imageSet = P.imageSet :=
  TP.run_spec ops P hP hops

/-- **Closure under arbitrary histories (model objects).**  Running a history on a well-formed model
object (`Obj.reverse`, `Obj.swap`, successful `Obj.reparamDir` — the model of the code)
keeps it well formed, and every homogeneous component of the final object at the composed
parameter map equals the initial one; its image is the initial image. -/
theorem C06_compositions_model {m : ℕ} (ops : List (TOp K m)) {o : Obj K} (hw : WF o m)
    (hops : ∀ op ∈ ops, op.WF) (comp : ℕ) (hc : comp < o.ncomp) :
    WF (runM ops o) m
    ∧ (∀ s u, (toTP (runM ops o) m comp).eval (TP.sideOps ops s) (TP.paramOps ops (toTP o m comp) u)
          = (toTP o m comp).eval s u)
    ∧ (∀ x, (∃ s u, (TP.run ops (toTP o m comp)).Box u ∧ x = (toTP (runM ops o) m comp).eval s u)
          ↔ x ∈ (toTP o m comp).imageSet) := by
  obtain ⟨hA, hw', _⟩ := toTP_runM ops hw hops comp hc
  obtain ⟨h1, _, _, h4⟩ := TP.run_spec ops (toTP o m comp) (toTP_dom hw comp) hops
  have hpos := toTP_pos hw' comp
  refine ⟨hw', ?_, ?_⟩
  · intro s u
    rw [hA.eval hpos]
    exact h1 s u
  · intro x
    rw [← h4]
    constructor
    · rintro ⟨s, u, hu, rfl⟩
      exact ⟨s, u, hu, hA.eval hpos s u⟩
    · rintro ⟨s, u, hu, rfl⟩
      exact ⟨s, u, hu, (hA.eval hpos s u).symm⟩

/-- **Rational objects.**  The composed parameter map only depends on the knot vectors, so the
numerator component `comp` and the weight component `w` are related by the *same* map: the NURBS
value (their quotient) of the final object at the mapped parameter is the initial one. -/
theorem C06_compositions_rational {m : ℕ} (ops : List (TOp K m)) {o : Obj K} (hw : WF o m)
    (hops : ∀ op ∈ ops, op.WF) (comp w : ℕ) (hc : comp < o.ncomp) (hwt : w < o.ncomp)
    (s : Fin m → Side) (u : Fin m → K) :
    (toTP (runM ops o) m comp).eval (TP.sideOps ops s) (TP.paramOps ops (toTP o m w) u)
        / (toTP (runM ops o) m w).eval (TP.sideOps ops s) (TP.paramOps ops (toTP o m w) u)
      = (toTP o m comp).eval s u / (toTP o m w).eval s u := by
  have h1 := (C06_compositions_model ops hw hops comp hc).2.1 s u
  have h2 := (C06_compositions_model ops hw hops w hwt).2.1 s u
  rw [(toTP_sameGrid o m comp w).paramOps ops u] at h1
  rw [h1, h2]

/-- **No single operation changes the image of the object.** -/
theorem C06_image {m : ℕ} (P : TP K m) (op : TOp K m) (hP : P.Dom) (hop : op.WF) :
    (P.apply op).imageSet = P.imageSet :=
  TP.image_apply P op hP hop

/-! ## direction spellings -/

/-- `check_direction`: exactly the spellings `i`, `'uvw'[i]`, `'UVW'[i]` of a direction `i` the
object has are accepted (and give `i`); everything else raises `ValueError`. -/
theorem C06_check_direction (tok : DirTok) (pardim : ℕ) :
    (checkDirection tok pardim = .ok 0 ↔ (tok = .int 0 ∨ tok = .str "u" ∨ tok = .str "U") ∧ 0 < pardim)
    ∧ (checkDirection tok pardim = .ok 1 ↔ (tok = .int 1 ∨ tok = .str "v" ∨ tok = .str "V") ∧ 1 < pardim)
    ∧ (checkDirection tok pardim = .ok 2 ↔ (tok = .int 2 ∨ tok = .str "w" ∨ tok = .str "W") ∧ 2 < pardim)
    ∧ (∀ d, checkDirection tok pardim = .ok d → d < pardim ∧ d < 3)
    ∧ (∀ e, checkDirection tok pardim = .error e → e = .value) := by
  unfold checkDirection
  refine ⟨?_, ?_, ?_, ?_, ?_⟩
  · constructor
    · intro h; split_ifs at h <;> simp_all
    · intro h; rw [if_pos h]
  · constructor
    · intro h; split_ifs at h <;> simp_all
    · rintro ⟨h1, h2⟩
      have h0 : ¬ (tok = .int 0 ∨ tok = .str "u" ∨ tok = .str "U") := by
        rcases h1 with h | h | h <;> subst h <;> decide
      rw [if_neg (fun h => h0 h.1), if_pos ⟨h1, h2⟩]
  · constructor
    · intro h; split_ifs at h <;> simp_all
    · rintro ⟨h1, h2⟩
      have h0 : ¬ (tok = .int 0 ∨ tok = .str "u" ∨ tok = .str "U") := by
        rcases h1 with h | h | h <;> subst h <;> decide
      have h0' : ¬ (tok = .int 1 ∨ tok = .str "v" ∨ tok = .str "V") := by
        rcases h1 with h | h | h <;> subst h <;> decide
      rw [if_neg (fun h => h0 h.1), if_neg (fun h => h0' h.1), if_pos ⟨h1, h2⟩]
  · intro d h
    split_ifs at h with h1 h2 h3
    · cases h; exact ⟨h1.2, by omega⟩
    · cases h; exact ⟨h2.2, by omega⟩
    · cases h; exact ⟨h3.2, by omega⟩
  · intro e h
    split_ifs at h
    cases h; rfl

/-- **Source tie.**  `Splipy/Generated/C06.lean` is re-generated at every run from the Python AST of
`splipy/utils/__init__.py::check_direction` (arms `if direction in {…} and k < pardim: return r`, then
the fallback statement); the hand-written model `checkDirection` is exactly that table.  Any edit of
the source that changes the table breaks this theorem (and the build). -/
theorem C06_check_direction_source (tok : DirTok) (pardim : ℕ) :
    checkDirection tok pardim = checkDirectionOf Generated.C06.checkDirectionArms tok pardim
    ∧ Generated.C06.checkDirectionFallback = "raise ValueError" := by
  refine ⟨?_, by decide⟩
  unfold checkDirection Generated.C06.checkDirectionArms
  simp only [checkDirectionOf, List.contains_cons, List.contains_nil, Bool.or_false, beq_iff_eq,
    Bool.or_eq_true]

/-- The calling conventions: every valid spelling of a direction leads to the same model
operation; `swap` on a curve does nothing and returns the receiver; `reparam()` without
arguments is `reparam((0,1), …, (0,1))`. -/
theorem C06_spellings (o : Obj K) (t₁ t₂ : DirTok) (d : ℕ)
    (h₁ : checkDirection t₁ o.pardimB = .ok d) (h₂ : checkDirection t₂ o.pardimB = .ok d) :
    o.reverseTok t₁ = o.reverseTok t₂ ∧ (o.reverseTok t₁).obj = o.reverse d
      ∧ (o.reverseTok t₁).err = none ∧ (o.reverseTok t₁).returnsSelf = true
      ∧ (∀ a, o.reparamDirTok t₁ a = o.reparamDirTok t₂ a)
      ∧ (∀ t₃, o.swapTok t₁ t₃ = o.swapTok t₂ t₃ ∧ o.swapTok t₃ t₁ = o.swapTok t₃ t₂) := by
  refine ⟨?_, ?_, ?_, ?_, ?_, ?_⟩
  · simp [Obj.reverseTok, h₁, h₂]
  · simp [Obj.reverseTok, h₁]
  · simp [Obj.reverseTok, h₁]
  · simp [Obj.reverseTok, h₁]
  · intro a; simp [Obj.reparamDirTok, h₁, h₂]
  · intro t₃; simp [Obj.swapTok, h₁, h₂]

/-- `swap` on a curve is the identity and returns the receiver (for any direction arguments: they
are not validated on a curve); `reverse` with a valid spelling returns the receiver. -/
theorem C06_swap_curve (o : Obj K) (h : o.pardimB = 1) (t₁ t₂ : DirTok) :
    (o.swapTok t₁ t₂).obj = o ∧ (o.swapTok t₁ t₂).err = none ∧ (o.swapTok t₁ t₂).returnsSelf = true := by
  simp [Obj.swapTok, h]

/-! ## Non-vacuity -/

/-- A well-formed model surface: periodic `C06_exPer` in `u`, open linear in `v`, 2 components. -/
def C06_exOpen : Basis ℚ := ⟨2, #[0, 0, 1, 3, 3], -1⟩

theorem C06_exOpen_valid : C06_exOpen.Valid where
  order_pos := by decide
  size_ge := by decide
  sorted := by
    intro i hi
    have hi' : i + 1 < 5 := hi
    have hi'' : i < 4 := by omega
    interval_cases i <;> norm_num [Basis.kn, C06_exOpen]
  periodic_ge := by decide
  periodic_le := by decide
  start_lt_stop := by norm_num [Basis.start, Basis.stop, Basis.kn, C06_exOpen]
  ghosts := fun h => absurd h (by decide)

def C06_exSurf : Obj ℚ :=
  { bases := #[C06_exPer, C06_exOpen], cps := ⟨[2, 3, 2], #[0, 1, 2, 3, 4, 5, 6, 7, 8, 9, 10, 11]⟩, rational := false }

theorem C06_exSurf_wf : WF C06_exSurf 2 where
  size := rfl
  valid := by
    intro d
    match d with
    | ⟨0, _⟩ => exact C06_exPer_valid
    | ⟨1, _⟩ => exact C06_exOpen_valid
  shape := by decide

/-- A history mixing all three operations: reverse the periodic direction, swap, re-parametrise
the (new) first direction to `[-5, 7]`. -/
def C06_exOps : List (TOp ℚ 2) := [TOp.reverse 0, TOp.swap 0 1, TOp.reparam 0 (-5) 7]

theorem C06_exOps_wf : ∀ op ∈ C06_exOps, op.WF := by
  intro op hop
  simp only [C06_exOps, List.mem_cons, List.mem_nil_iff, or_false] at hop
  rcases hop with h | h | h <;> subst h
  · trivial
  · trivial
  · show (-5 : ℚ) < 7; norm_num

/-- The hypotheses of the object-level theorems are satisfiable and mixed histories are covered. -/
example : ∀ s u, (toTP (runM C06_exOps C06_exSurf) 2 1).eval (TP.sideOps C06_exOps s)
      (TP.paramOps C06_exOps (toTP C06_exSurf 2 1) u) = (toTP C06_exSurf 2 1).eval s u :=
  (C06_compositions_model C06_exOps C06_exSurf_wf C06_exOps_wf 1 (by decide)).2.1

example (s : Fin 2 → Side) (α : Fin 2 → ℕ) (u : Fin 2 → ℚ) :=
  C06_reverse_obj C06_exSurf_wf 0 1 (by decide) s α u

example (s : Side) (c : ℕ → ℚ) (t : ℚ) := C06_reverse_open C06_exOpen_valid rfl s c t
example (s : Side) (c : ℕ → ℚ) (d : ℕ) (t : ℚ) := C06_reverse_periodic C06_exPer_valid s c d t
