import Splipy.Lemmas.C19Index
import Splipy.Lemmas.C19G2
import Splipy.Lemmas.C19Foreign
import Splipy.Lemmas.C19Mesh
import Splipy.Lemmas.C19Prims
import Splipy.Lemmas.C19Objects

/-!
# C19 — file output is a faithful image of the objects and reads back to the same shape

Theorems about the token-level model `Splipy.FileIO` (`Model/IOTokens.lean`, `Model/IOMesh.lean`).
Trusted, not proved: `'%.16g'`/`float()` (tokens carry exact numbers; the harness rounds on its
side), `.4f`/`float32`/`%f` likewise.  Outside the model and covered by the harness oracle on the
real code only: the seam split of periodic objects before writing (geometry: property C07),
the analytic primitive records of G2 (geometry: C13/C06), `bezier_representation` (C04/C05) and
the evaluation of the tessellation grid (C02).
-/

open Splipy.FileIO

/-- L11: re-ordering a control net (any parametric dimension, any shape) to first-index-fastest
    order and back is the identity, both ways, and `splipy.utils.reshape(..., order='F')` (the
    reader's "reshape to the reversed shape and reverse the axes") is that inverse. -/
theorem C19_flatten_roundtrip {P : Type} [Inhabited P] (shape : List ℕ) (net : List P)
    (h : net.length = shape.prod) :
    unflattenF shape (flattenF shape net) = net ∧
    flattenF shape (unflattenF shape net) = net ∧
    reshapeF shape (flattenF shape net) = net :=
  ⟨unflattenF_flattenF shape net h, flattenF_unflattenF shape net h,
   by rw [reshapeF_eq_unflattenF]; exact unflattenF_flattenF shape net h⟩

/-- What `flattenF` means: the written row number `i1 + n1·(i2 + n2·(…))` (first index fastest)
    is the control point with multi-index `(i1,…,id)` (which sits at row-major position
    `ravelC shape idx` of `controlpoints.reshape(-1, ncomp)`). -/
theorem C19_flatten_spec {P : Type} [Inhabited P] (shape idx : List ℕ) (net : List P)
    (hn : net.length = shape.prod) (hi : IdxOk shape idx) (d : P) :
    (flattenF shape net).getD (ravelF shape idx) d = net.getD (ravelC shape idx) d := by
  have h1 := ravelF_lt hi
  have h2 := ravelC_lt hi
  rw [List.getD_eq_getElem _ _ (by rw [length_flattenF]; exact h1),
    List.getD_eq_getElem _ _ (by rw [hn]; exact h2), getElem_flattenF shape net hn _ h1]
  simp [fToC, unravelF_ravelF hi]

/-- Token-level G2 round trip of one record: for every well-formed non-periodic object of
    parametric dimension 1..3 (rational or not, any dimension, any knot and control values),
    reading what `G2.write` wrote returns exactly the object — same kind, rationality, number of
    components, orders, knots, control points in the same places — and leaves the rest of the
    stream untouched.  (Periodic objects: the real writer first opens them with `split`; the
    harness applies the real `split` and the theorem covers the result.) -/
theorem C19_g2_roundtrip {K : Type} [Field K] [LinearOrder K] (tol : K) (o : Obj K)
    (ho : o.WF tol) (rest : List (Token K)) :
    g2ReadSpline tol (g2Write o ++ rest) = .ok (o, rest) :=
  g2ReadSpline_write tol o ho rest

/-- Whole files: writing any list of well-formed objects and reading the file returns the same
    list (same number of objects, each equal). -/
theorem C19_g2_roundtrip_file {K : Type} [Field K] [LinearOrder K] (tol : K) (os : List (Obj K))
    (ho : ∀ o ∈ os, o.WF tol) :
    g2ReadAll tol (os.flatMap g2Write) = .ok os :=
  g2ReadAllFuel_write tol os ho _ (by
    have : ∀ l : List (Obj K), l.length ≤ (l.flatMap g2Write).length := by
      intro l
      induction l with
      | nil => simp
      | cons o l ih =>
        simp only [List.flatMap_cons, List.length_cons, List.length_append]
        have : 1 ≤ (g2Write o).length := by simp [g2Write]
        omega
    have := this os
    omega)

/-- Records written by an independent writer: whatever is put in the unused fields (`dim`, the
    per-basis count) and however the numbers are spelled (`3` or `3.0`), a spline record with
    well-formed knot vectors and `∏ nᵢ` control point lines of `k` numbers reads to the object
    with exactly those orders and knots whose control point `(i1,…,id)` is line number
    `i1 + n1·(i2 + …)` (first index fastest; `unflattenF`), `k` components, rational iff the
    flag is non-zero. -/
theorem C19_g2_foreign_record {K : Type} [Field K] [LinearOrder K] (tol : K) (dimTok : Token K)
    (rat : Int) (fbs : List (ForeignBasis K)) (rows : List (List (Token K) × List K)) (k : ℕ)
    (hp : fbs.length = 1 ∨ fbs.length = 2 ∨ fbs.length = 3)
    (hd : dimTok.isNl = false)
    (hb : ∀ fb ∈ fbs, fb.basis.WF tol ∧ FloatLine fb.knotToks fb.basis.knots)
    (hr : ∀ r ∈ rows, FloatLine r.1 r.2 ∧ r.2.length = k)
    (hn : rows.length = ((fbs.map ForeignBasis.basis).map IOBasis.numFunctions).prod)
    (rest : List (Token K)) :
    g2ReadSpline tol
      (Token.int (g2TypeCode fbs.length) :: [Token.int 1, Token.int 0, Token.int 0] ++ Token.nl ::
        (dimTok :: [Token.int rat] ++ Token.nl ::
          (fbs.flatMap ForeignBasis.toks ++ (rows.flatMap foreignRowToks ++ rest))))
      = .ok ({ bases := fbs.map ForeignBasis.basis,
               shape := (fbs.map ForeignBasis.basis).map IOBasis.numFunctions,
               ncomp := k,
               cps := unflattenF ((fbs.map ForeignBasis.basis).map IOBasis.numFunctions)
                        (rows.map Prod.snd),
               rational := rat != 0 }, rest) :=
  g2ReadSpline_foreign tol dimTok rat fbs rows k hp hd hb hr hn rest

/-- SPL coefficient order.  `cpts.reshape(physdim, *ncoeffs[::-1]).transpose()` takes component
    `c` of grid point `idx = (i1,…,id)` from flat position `c·N + (i1 + n1·(i2 + …))`
    (component-major, grid first-index-fastest); consequently the model's control point list
    (C order) holds, at position `pos`, component `c`, the value number
    `c·N + cToF shape pos` of the file. -/
theorem C19_spl_order {K : Type} [Field K] (physdim c : ℕ) (shape idx : List ℕ)
    (vals : List K) (hidx : idx.length = shape.length) (pos : ℕ) (hpos : pos < shape.prod)
    (hc : c < physdim) :
    ravelC (physdim :: shape.reverse) (c :: idx.reverse) = c * shape.prod + ravelF shape idx ∧
    ((splCps physdim shape vals).getD pos []).getD c 0 =
      vals.getD (c * shape.prod + cToF shape pos) 0 := by
  refine ⟨spl_index physdim c hidx, ?_⟩
  have e1 : (splCps physdim shape vals).getD pos [] =
      (List.range physdim).map fun c' =>
        vals.getD (ravelC (physdim :: shape.reverse) (c' :: (unravelC shape pos).reverse)) 0 := by
    unfold splCps
    rw [List.getD_eq_getElem _ _ (by simpa using hpos)]
    simp
  rw [e1, List.getD_eq_getElem _ _ (by simpa using hc)]
  simp only [List.getElem_map, List.getElem_range]
  rw [spl_index physdim c (idxOk_length (unravelC_ok shape pos hpos))]
  rfl

/-- STL: an `nu × nv` evaluation grid contributes exactly `2·(nu−1)·(nv−1)` facets, each with
    three vertices, every vertex one of the grid points `x i j` (`i < nu`, `j < nv`); the counter
    the binary writer puts in the header is the number of facets written. -/
theorem C19_stl_count {V : Type} (x : ℕ → ℕ → V) (nu nv : ℕ) (grids : List (ℕ × ℕ)) :
    (stlFacets x nu nv).length = 2 * (nu - 1) * (nv - 1) ∧
    (∀ f ∈ stlFacets x nu nv, f.length = 3 ∧ ∀ v ∈ f, ∃ i j, i < nu ∧ j < nv ∧ v = x i j) ∧
    stlCounter grids = (grids.map fun g => 2 * (g.1 - 1) * (g.2 - 1)).sum ∧
    stlCounter grids = (grids.map fun g => (stlFacets x g.1 g.2).length).sum := by
  refine ⟨by simp [stlFacets, length_stlTriangles], ?_, ?_, ?_⟩
  · intro f hf
    obtain ⟨t, ht, rfl⟩ := List.mem_map.mp hf
    obtain ⟨h3, hv⟩ := stlTriangles_vertex ht
    refine ⟨by simpa using h3, ?_⟩
    intro v hv'
    obtain ⟨ij, hij, rfl⟩ := List.mem_map.mp hv'
    exact ⟨ij.1, ij.2, (hv ij hij).1, (hv ij hij).2, rfl⟩
  · simp [stlCounter, length_stlTriangles]
  · simp [stlCounter, stlFacets]

/-- SVG: with the layout computed once per drawing by `__exit__` (positive picture size,
    margin fraction in `[0, 1/2)`, a bounding box of positive width), `read ∘ write` acts on
    every point of every curve as the same map `p ↦ s·p + b` with `s > 0` — a uniform scale and
    a translation; the flip `height + 2·margin − y` of the writer and the flip `height − y` of
    the reader cancel. -/
theorem C19_svg_similarity {K : Type} [Field K] [LinearOrder K] [IsStrictOrderedRing K]
    (W H m x0 y0 x1 y1 : K) (hW : 0 < W) (hH : 0 < H) (hm0 : 0 ≤ m) (hm : m < 1 / 2)
    (hx : x0 < x1) (hy : y0 ≤ y1) :
    ∃ s b1 b2 : K, 0 < s ∧ ∀ p : K × K,
      svgReadPt (svgLayout W H m (x0, y0, x1, y1)).height
        (svgWritePt (svgLayout W H m (x0, y0, x1, y1)) p) = (s * p.1 + b1, s * p.2 + b2) :=
  ⟨_, _, _, svgLayout_scale_pos W H m x0 y0 x1 y1 hW hH hm0 hm hx hy,
   fun p => svg_read_write _ p⟩

/-- G2 analytic primitive records (line 120, circle 130, ellipse 140, plane 250, cylinder 260,
    surface of linear extrusion 261, sphere 270, torus 290, disc 292).  A record spelled field by
    field in the layout of the format (`PrimRecord.toks`: header `code 1 0 0`, then one line per
    field, optional parameter lines present exactly when the `finite` flag is set, the extrusion
    record embedding a well-formed curve record) is parsed to exactly the factory call with those
    fields in the documented roles, followed by the documented post-processing
    (`PrimRecord.build`: `reparam` to the parameter bounds, `reverse` / `swap` on the flag; for the
    sphere the extra `swap` before the flag; for the cylinder the bottom moved to
    `center + z·v0` and height `v1 − v0`; for the torus the FIRST radius is the major one), and the
    rest of the stream is untouched.  The geometry of the factory results is property C13, of the
    post-processing C06. -/
theorem C19_primitive_record_fields {K : Type} [Field K] [LinearOrder K] [FloorRing K]
    (aux : PrimAux K) (tol : K) (rec : PrimRecord K) (h : rec.WF tol) (rest : List (Token K)) :
    g2ReadPrim aux tol (rec.toks ++ rest) = (rec.build aux).map (·, rest) :=
  g2ReadPrim_toks aux tol rec h rest

/-- `G2.write` of an object with periodic directions, then `G2.read`: whenever the writer's
    per-direction `split(start)` succeeds with result `o'` (`openSeams`, the C07 model of `split`)
    and `o'` is a well-formed non-periodic object, the file reads back to exactly `o'` — the object
    opened at its seams, no periodic direction left.  An object without periodic directions is
    written as it is (`o' = o`).

    Partial: that `o'` is well formed and describes the same geometry as `o` is not derived here;
    it is the statement of C07 (`C07_split_periodic_partial`, with its hypothesis on periodic knot
    insertion, which fails for bases with fewer than `p + k` functions — the `periodic-seam-split`
    finding). -/
theorem C19_g2_roundtrip_periodic_partial {K : Type} [Field K] [LinearOrder K] [FloorRing K]
    (tol : K) (o o' : Splipy.Obj K) (hs : openSeams tol o = .ok o') (hwf : (toFile o').WF tol)
    (rest : List (Token K)) :
    (∃ toks, g2WriteObj tol o = .ok toks ∧
      g2ReadSpline tol (toks ++ rest) = .ok (toFile o', rest)) ∧
    (∀ b ∈ (toFile o').bases, b.periodic = -1) ∧
    ((∀ i, ¬ (o.basis i).periodic > -1) → o' = o) := by
  refine ⟨⟨g2Write (toFile o'), ?_, g2ReadSpline_write tol _ hwf rest⟩,
    fun b hb => (hwf.bases b hb).nonperiodic, ?_⟩
  · unfold g2WriteObj; rw [hs]
  · intro hnp
    have := openSeamsFrom_nonperiodic tol o hnp o.pardim 0
    unfold openSeams at hs
    rw [this] at hs
    exact (Except.ok.inj hs).symm

/-- The sampling rule of `STL.write_surface` (one direction): with `n` given, `n` equispaced
    values from `start` to `end` inclusive, all inside the domain; without `n`, the knots for
    order 2 and, for order ≥ 3, the sorted merge of the knots with `2p−3` equispaced values per
    knot span (`spans·(2p−3) + #knots` values, every knot among them); order 1 without `n` is a
    `ValueError`. -/
theorem C19_stl_sampling {K : Type} [Field K] [LinearOrder K] [IsStrictOrderedRing K]
    (order : ℕ) (knots : List K) (a b : K) (n : ℕ) :
    ((linspace a b n).length = n ∧
      (1 ≤ n → (linspace a b n).head? = some a) ∧
      (2 ≤ n → (linspace a b n).getLast? = some b) ∧
      (a ≤ b → ∀ x ∈ linspace a b n, a ≤ x ∧ x ≤ b)) ∧
    (stlParams order knots (some n) = .ok (linspace (knots.headD 0) (knots.getLastD 0) n)) ∧
    (order = 2 → stlParams order knots none = .ok knots) ∧
    (order < 2 → stlParams order knots none = .error .value) ∧
    (3 ≤ order → ∃ l, stlParams order knots none = .ok l ∧
      l.Perm (((knots.zip knots.tail).flatMap fun kk => linspaceOpen kk.1 kk.2 (2 * order - 3)) ++ knots) ∧
      l.Pairwise (· ≤ ·) ∧
      l.length = (knots.length - 1) * (2 * order - 3) + knots.length ∧
      ∀ k ∈ knots, k ∈ l) :=
  ⟨linspace_spec a b n, (stlParams_spec order knots).1 n, (stlParams_spec order knots).2.1,
   (stlParams_spec order knots).2.2.1, (stlParams_spec order knots).2.2.2⟩

/-- SVG, whole drawing: every curve of a drawing is written through the same layout, so the
    control points read back are the control points of its `bezier_representation` (model
    `bezierRepresentation`: raise to cubic, open at the seam, insert knots to multiplicity 3) under
    ONE map `p ↦ s·p + b`, `s > 0`, the same for all curves.  That `bezier_representation`
    preserves the geometry of the curve is C05 (order elevation), C07 (seam) and C04 (knot
    insertion); it is not re-proved here. -/
theorem C19_svg_drawing {K : Type} [Field K] [LinearOrder K] [IsStrictOrderedRing K] [FloorRing K]
    (tol W H m x0 y0 x1 y1 : K) (hW : 0 < W) (hH : 0 < H) (hm0 : 0 ≤ m) (hm : m < 1 / 2)
    (hx : x0 < x1) (hy : y0 ≤ y1) :
    ∃ s b1 b2 : K, 0 < s ∧ ∀ (c bz : Splipy.Obj K) (path : List (K × K)),
      bezierRepresentation tol c = .ok bz →
      svgPath tol (svgLayout W H m (x0, y0, x1, y1)) c = .ok path →
      path.map (svgReadPt (svgLayout W H m (x0, y0, x1, y1)).height) =
        (planarPts bz).map fun p => (s * p.1 + b1, s * p.2 + b2) := by
  refine ⟨(svgLayout W H m (x0, y0, x1, y1)).scale,
    (svgLayout W H m (x0, y0, x1, y1)).ox -
      (svgLayout W H m (x0, y0, x1, y1)).scale * (svgLayout W H m (x0, y0, x1, y1)).cx,
    (svgLayout W H m (x0, y0, x1, y1)).oy -
      (svgLayout W H m (x0, y0, x1, y1)).scale * (svgLayout W H m (x0, y0, x1, y1)).cy -
      2 * (svgLayout W H m (x0, y0, x1, y1)).margin,
    svgLayout_scale_pos W H m x0 y0 x1 y1 hW hH hm0 hm hx hy, ?_⟩
  intro c bz path hb hp
  unfold svgPath at hp
  rw [hb] at hp
  have := Except.ok.inj hp
  subst this
  rw [List.map_map]
  apply List.map_congr_left
  intro p _
  exact svg_read_write _ p

/-! The hypotheses are satisfiable: a rational quadratic-by-linear surface in the plane. -/

example : ∃ o : Obj ℚ, o.WF (1 / 10 ^ 10) ∧ o.rational = true ∧ o.bases.length = 2 :=
  ⟨{ bases := [⟨3, [0, 0, 0, 1, 1, 1], -1⟩, ⟨2, [0, 0, 1, 1], -1⟩], shape := [3, 2], ncomp := 3,
     cps := [[0, 0, 1], [0, 1, 1], [1, 0, 1], [1, 1, 2], [2, 0, 1], [2, 3, 1]], rational := true },
   { pardim := by simp
     bases := by
       intro b hb
       simp only [List.mem_cons, List.not_mem_nil, or_false] at hb
       rcases hb with rfl | rfl <;>
         exact ⟨by simp, by simp, by norm_num [knotsOk], rfl⟩
     shape := by simp [IOBasis.numFunctions]
     count := by simp
     comps := by simp
     ncomp_pos := by simp },
   rfl, rfl⟩

example : ∃ W H m x0 y0 x1 y1 : ℚ, 0 < W ∧ 0 < H ∧ 0 ≤ m ∧ m < 1 / 2 ∧ x0 < x1 ∧ y0 ≤ y1 :=
  ⟨1000, 1000, 1 / 20, 0, 0, 1, 0, by norm_num⟩
