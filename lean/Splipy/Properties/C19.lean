import Splipy.Lemmas.C19Index
import Splipy.Lemmas.C19G2
import Splipy.Lemmas.C19Foreign
import Splipy.Lemmas.C19Mesh
import Splipy.Lemmas.C19Prims
import Splipy.Lemmas.C19Objects
import Splipy.Lemmas.C19Rnd
import Splipy.Lemmas.C19Stl
import Splipy.Lemmas.C19Spl
import Splipy.Lemmas.C19Seam
import Splipy.Lemmas.C19Mixed
import Splipy.Lemmas.C10Ctor
import Mathlib.Data.Rat.Floor
import Mathlib.Algebra.Order.Field.Rat

/-!
# C19 — file output is a faithful image of the objects and reads back to the same shape

Theorems about the token-level model `Splipy.FileIO` (`Model/IOTokens.lean`, `IOMesh.lean`,
`IOPrims.lean`, `IOObjects.lean`, `IOFiles.lean`) — the functions the driver runs.
Number formatting is an abstract idempotent rounding `rnd` (`'%.16g'` then `float()`): the round
trip is stated as `read (write o) = o.mapNum rnd`; that the real formatting is such a rounding is
trusted.  `.4f`/`float32`/`%f` are applied by the harness.  Theorems named `_partial` carry guards
that cut the property's quantifier; each docstring names them.
-/

open Splipy.FileIO

/-- L11: re-ordering a control net (any parametric dimension, any shape) to first-index-fastest
    order and back is the identity, both ways, and `splipy.utils.reshape(..., order='F')` (the
    reader's "reshape to the reversed shape and reverse the axes") is that inverse. -/
theorem C19_flatten_roundtrip {P : Type} [Inhabited P] (shape : List ℕ) (net : List P)
    (h : net.length = shape.prod) :
    unflattenF shape (flattenF shape net) = net ∧
    flattenF shape (unflattenF shape net) = net ∧
    reshapeF shape (flattenF shape net) = net :=
  ⟨unflattenF_flattenF shape net h, flattenF_unflattenF shape net h,
   by rw [reshapeF_eq_unflattenF]; exact unflattenF_flattenF shape net h⟩

/-- What `flattenF` means: the written row number `i1 + n1·(i2 + n2·(…))` (first index fastest)
    is the control point with multi-index `(i1,…,id)` (which sits at row-major position
    `ravelC shape idx` of `controlpoints.reshape(-1, ncomp)`). -/
theorem C19_flatten_spec {P : Type} [Inhabited P] (shape idx : List ℕ) (net : List P)
    (hn : net.length = shape.prod) (hi : IdxOk shape idx) (d : P) :
    (flattenF shape net).getD (ravelF shape idx) d = net.getD (ravelC shape idx) d := by
  have h1 := ravelF_lt hi
  have h2 := ravelC_lt hi
  rw [List.getD_eq_getElem _ _ (by rw [length_flattenF]; exact h1),
    List.getD_eq_getElem _ _ (by rw [hn]; exact h2), getElem_flattenF shape net hn _ h1]
  simp [fToC, unravelF_ravelF hi]

/-- Token-level G2 round trip of one record, with the number formatting `rnd` of the writer
    (`'%.16g'`; any idempotent map): for every object whose rounded image is a well-formed
    non-periodic object of parametric dimension 1..3 (rational or not, any dimension), reading what
    `G2.write` wrote returns exactly the rounded object — same kind, rationality, number of
    components, orders; knots and control points equal to the digits written, each in its place —
    and leaves the rest of the stream untouched; writing that result again reproduces it
    (idempotence).  `C19_g2_rounded_wf` gives the hypothesis from the well-formedness of `o` for a
    monotone rounding.

    `_partial`: objects without a periodic direction (periodic ones:
    `C19_g2_roundtrip_periodic`). -/
theorem C19_g2_roundtrip_partial {K : Type} [Field K] [LinearOrder K] (tol : K) (rnd : K → K)
    (hr : ∀ x, rnd (rnd x) = rnd x) (o : Obj K) (ho : (o.mapNum rnd).WF tol)
    (rest : List (Token K)) :
    g2ReadSpline tol (g2WriteR rnd o ++ rest) = .ok (o.mapNum rnd, rest) ∧
    g2ReadSpline tol (g2WriteR rnd (o.mapNum rnd) ++ rest) = .ok (o.mapNum rnd, rest) := by
  constructor
  · rw [g2WriteR_eq]; exact g2ReadSpline_write tol _ ho rest
  · rw [g2WriteR_eq, mapNum_idem rnd hr]; exact g2ReadSpline_write tol _ ho rest

/-- The rounded image of a well-formed object with exactly non-decreasing knot vectors is well
    formed, for any monotone rounding and `tol ≥ 0`. -/
theorem C19_g2_rounded_wf {K : Type} [Field K] [LinearOrder K] [IsStrictOrderedRing K] (tol : K)
    (htol : 0 ≤ tol) (rnd : K → K) (hm : Monotone rnd) (o : Obj K) (ho : o.WF tol)
    (hs : ∀ b ∈ o.bases, b.knots.Pairwise (· ≤ ·)) : (o.mapNum rnd).WF tol :=
  WF_mapNum tol htol rnd hm o ho hs

/-- Whole files of spline records: writing any list of objects (rounded images well formed) and
    reading the file returns the list of rounded objects — same number, each equal.
    `_partial`: non-periodic objects (as above). -/
theorem C19_g2_roundtrip_file_partial {K : Type} [Field K] [LinearOrder K] (tol : K) (rnd : K → K)
    (os : List (Obj K)) (ho : ∀ o ∈ os, (o.mapNum rnd).WF tol) :
    g2ReadAll tol (os.flatMap (g2WriteR rnd)) = .ok (os.map (Obj.mapNum rnd)) := by
  have e : os.flatMap (g2WriteR rnd) = (os.map (Obj.mapNum rnd)).flatMap g2Write := by
    rw [List.flatMap_map]
    apply List.flatMap_congr
    intro o _
    exact g2WriteR_eq rnd o
  rw [e]
  apply g2ReadAllFuel_write tol _ (by
    intro o ho'
    obtain ⟨o0, h0, rfl⟩ := List.mem_map.mp ho'
    exact ho o0 h0)
  have : ∀ l : List (Obj K), l.length ≤ (l.flatMap g2Write).length := by
    intro l
    induction l with
    | nil => simp
    | cons o l ih =>
      simp only [List.flatMap_cons, List.length_cons, List.length_append]
      have : 1 ≤ (g2Write o).length := by simp [g2Write]
      omega
  have := this (os.map (Obj.mapNum rnd))
  omega

/-- Whole files as `G2.read` handles them: any sequence of spline records (well-formed
    non-periodic objects) and analytic primitive records (each with the data its factory needs,
    `res` the result of the documented call `PrimRecord.build`) reads to the sequence of those
    objects, in order, the auxiliary data consumed one per primitive record. -/
theorem C19_g2_mixed_file {K : Type} [Field K] [LinearOrder K] [FloorRing K] (tol : K)
    (items : List (FileItem K)) (h : ∀ it ∈ items, it.WF tol) :
    g2ReadMixed (items.flatMap FileItem.auxs) tol (items.flatMap FileItem.toks) =
      .ok (items.map FileItem.item) := by
  apply g2ReadMixedFuel_items tol items h
  have : ∀ l : List (FileItem K), l.length ≤ (l.flatMap FileItem.toks).length := by
    intro l
    induction l with
    | nil => simp
    | cons it l ih =>
      obtain ⟨n, t, ht⟩ := it.toks_head
      simp only [List.flatMap_cons, List.length_cons, List.length_append, ht]
      omega
  have := this items
  omega

/-- Records written by an independent writer: whatever is put in the unused fields (`dim`, the
    per-basis count) and however the numbers are spelled (`3` or `3.0`), a spline record with
    well-formed knot vectors and `∏ nᵢ` control point lines of `k` numbers reads to the object
    with exactly those orders and knots whose control point `(i1,…,id)` is line number
    `i1 + n1·(i2 + …)` (first index fastest; `unflattenF`), `k` components, rational iff the
    flag is non-zero. -/
theorem C19_g2_foreign_record {K : Type} [Field K] [LinearOrder K] (tol : K) (dimTok : Token K)
    (rat : Int) (fbs : List (ForeignBasis K)) (rows : List (List (Token K) × List K)) (k : ℕ)
    (hp : fbs.length = 1 ∨ fbs.length = 2 ∨ fbs.length = 3)
    (hd : dimTok.isNl = false)
    (hb : ∀ fb ∈ fbs, fb.basis.WF tol ∧ FloatLine fb.knotToks fb.basis.knots)
    (hr : ∀ r ∈ rows, FloatLine r.1 r.2 ∧ r.2.length = k)
    (hn : rows.length = ((fbs.map ForeignBasis.basis).map IOBasis.numFunctions).prod)
    (rest : List (Token K)) :
    g2ReadSpline tol
      (Token.int (g2TypeCode fbs.length) :: [Token.int 1, Token.int 0, Token.int 0] ++ Token.nl ::
        (dimTok :: [Token.int rat] ++ Token.nl ::
          (fbs.flatMap ForeignBasis.toks ++ (rows.flatMap foreignRowToks ++ rest))))
      = .ok ({ bases := fbs.map ForeignBasis.basis,
               shape := (fbs.map ForeignBasis.basis).map IOBasis.numFunctions,
               ncomp := k,
               cps := unflattenF ((fbs.map ForeignBasis.basis).map IOBasis.numFunctions)
                        (rows.map Prod.snd),
               rational := rat != 0 }, rest) :=
  g2ReadSpline_foreign tol dimTok rat fbs rows k hp hd hb hr hn rest

/-- SPL coefficient order.  `cpts.reshape(physdim, *ncoeffs[::-1]).transpose()` takes component
    `c` of grid point `idx = (i1,…,id)` from flat position `c·N + (i1 + n1·(i2 + …))`
    (component-major, grid first-index-fastest); consequently the model's control point list
    (C order) holds, at position `pos`, component `c`, the value number
    `c·N + cToF shape pos` of the file. -/
theorem C19_spl_order {K : Type} [Field K] (physdim c : ℕ) (shape idx : List ℕ)
    (vals : List K) (hidx : idx.length = shape.length) (pos : ℕ) (hpos : pos < shape.prod)
    (hc : c < physdim) :
    ravelC (physdim :: shape.reverse) (c :: idx.reverse) = c * shape.prod + ravelF shape idx ∧
    ((splCps physdim shape vals).getD pos []).getD c 0 =
      vals.getD (c * shape.prod + cToF shape pos) 0 := by
  refine ⟨spl_index physdim c hidx, ?_⟩
  have e1 : (splCps physdim shape vals).getD pos [] =
      (List.range physdim).map fun c' =>
        vals.getD (ravelC (physdim :: shape.reverse) (c' :: (unravelC shape pos).reverse)) 0 := by
    unfold splCps
    rw [List.getD_eq_getElem _ _ (by simpa using hpos)]
    simp
  rw [e1, List.getD_eq_getElem _ _ (by simpa using hc)]
  simp only [List.getElem_map, List.getElem_range]
  rw [spl_index physdim c (idxOk_length (unravelC_ok shape pos hpos))]
  rfl

/-- `SPL.read` (the function the driver runs) on the file that describes a well-formed
    non-rational object — header `C pardim physdim 0`, orders, coefficient counts, one ignored
    line, the knots one per line, the coefficients one per line component-major with the grid
    first-index-fastest (`splLines`), any further lines ignored — returns exactly that object. -/
theorem C19_spl_read {K : Type} [Field K] [LinearOrder K] (tol acc : K) (o : Obj K)
    (ho : o.WF tol) (hr : o.rational = false) (extra : List (List (Token K)))
    (hx : ∀ l ∈ extra, ∀ t ∈ l, t.isNl = false) :
    splRead tol (linesToToks (splLines acc o ++ extra)) = .ok o :=
  splRead_lines tol acc o ho hr extra hx

/-- The STL writer model `stlFile` (what the driver runs: `STL.write(obj, n)` for every object,
    then `close()`): whenever it succeeds,
    * the count written in the header (the writer's counter, incremented once per `_write`) equals
      the number of facet records in the file, and
    * every record belongs to one of the tessellated surfaces `s` (the surface itself, or a
      non-`None` face of a volume): it has three vertices and each vertex is the value
      `x[i,j]` (padded with zeros to three components) of `X = s.evaluate(u, v)` — the model of
      `SplineObject.evaluate`, property C02 — at grid indices `i < |u|`, `j < |v|` of the sampling
      parameters `u`, `v` that `write_surface` computes (`stlParamsObj`, see `C19_stl_sampling`);
    and one surface contributes `2(|u|−1)(|v|−1)` records. -/
theorem C19_stl_file {K : Type} [Field K] [LinearOrder K] [FloorRing K] (tol : K)
    (objs : List (Splipy.Obj K)) (n : Option (ℕ × ℕ)) (f : StlFile K)
    (h : stlFile tol objs n = .ok f) :
    f.declared = f.records.length ∧
    (∀ rec ∈ f.records, ∃ o ∈ objs, ∃ ss, stlSurfaces o = .ok ss ∧ ∃ s ∈ ss,
      ∃ u v X, stlParamsObj tol s 0 (n.map Prod.fst) = .ok u ∧
        stlParamsObj tol s 1 (n.map Prod.snd) = .ok v ∧ s.evaluate tol [u, v] true = .ok X ∧
        rec.length = 3 ∧
        ∀ vtx ∈ rec, ∃ i j, i < u.length ∧ j < v.length ∧ vtx = stlVertex X v.length s.dimension i j) ∧
    (∀ s fs, stlSurfaceFacets tol s n = .ok fs →
      ∃ u v, stlParamsObj tol s 0 (n.map Prod.fst) = .ok u ∧
        stlParamsObj tol s 1 (n.map Prod.snd) = .ok v ∧ fs.length = 2 * (u.length - 1) * (v.length - 1)) :=
  ⟨(stlFile_spec tol objs n f h).1, (stlFile_spec tol objs n f h).2,
   fun s fs hfs => (stlSurfaceFacets_spec tol s n fs hfs).1⟩

/-- SVG: with the layout computed once per drawing by `__exit__` (positive picture size,
    margin fraction in `[0, 1/2)`, a bounding box of positive width), `read ∘ write` acts on
    every point of every curve as the same map `p ↦ s·p + b` with `s > 0` — a uniform scale and
    a translation; the flip `height + 2·margin − y` of the writer and the flip `height − y` of
    the reader cancel.

    `_partial` (guards): positive picture size, margin fraction in `[0, 1/2)`, bounding box of
    positive width (`x0 < x1`; a drawing on a vertical line divides by zero in `__exit__`). -/
theorem C19_svg_similarity_partial {K : Type} [Field K] [LinearOrder K] [IsStrictOrderedRing K]
    (W H m x0 y0 x1 y1 : K) (hW : 0 < W) (hH : 0 < H) (hm0 : 0 ≤ m) (hm : m < 1 / 2)
    (hx : x0 < x1) (hy : y0 ≤ y1) :
    ∃ s b1 b2 : K, 0 < s ∧ ∀ p : K × K,
      svgReadPt (svgLayout W H m (x0, y0, x1, y1)).height
        (svgWritePt (svgLayout W H m (x0, y0, x1, y1)) p) = (s * p.1 + b1, s * p.2 + b2) :=
  ⟨_, _, _, svgLayout_scale_pos W H m x0 y0 x1 y1 hW hH hm0 hm hx hy,
   fun p => svg_read_write _ p⟩

/-- G2 analytic primitive records (line 120, circle 130, ellipse 140, plane 250, cylinder 260,
    surface of linear extrusion 261, sphere 270, torus 290, disc 292).  A record spelled field by
    field in the layout of the format (`PrimRecord.toks`: header `code 1 0 0`, then one line per
    field, optional parameter lines present exactly when the `finite` flag is set, the extrusion
    record embedding a well-formed curve record) is parsed to exactly the factory call with those
    fields in the documented roles, followed by the documented post-processing
    (`PrimRecord.build`: `reparam` to the parameter bounds, `reverse` / `swap` on the flag; for the
    sphere the extra `swap` before the flag; for the cylinder the bottom moved to
    `center + z·v0` and height `v1 − v0`; for the torus the FIRST radius is the major one), and the
    rest of the stream is untouched.  The geometry of the factory results is property C13, of the
    post-processing C06.

    Scope: the statement is about what the READER does with the fields.  In particular the
    parameter bounds of circle/ellipse (and cylinder/sphere/torus) records are used as a
    re-parametrisation of the FULL primitive — a record whose bounds describe a partial arc is read
    (by the code and by this model alike) as the whole circle with that domain.  Whether such
    records should denote arcs is not settled by anything in the repository; the harness does not
    test it (`CHECK_ARC_BOUNDS = False`).  `bounded_surface` (210) is not modelled. -/
theorem C19_primitive_record_fields {K : Type} [Field K] [LinearOrder K] [FloorRing K]
    (aux : PrimAux K) (tol : K) (rec : PrimRecord K) (h : rec.WF tol) (rest : List (Token K)) :
    g2ReadPrim aux tol (rec.toks ++ rest) = (rec.build aux).map (·, rest) :=
  g2ReadPrim_toks aux tol rec h rest

/-- `G2.write` of a PERIODIC object, then `G2.read`.  `o` a curve, surface or volume with exactly
    one periodic direction `dir` (any continuity `k`, ANY number of functions — bases with fewer
    than `p + k` functions included), all bases valid, control net of the shape the bases demand
    with `nc ≥ 1` components (`PeriodicWF`).  Then:

    * the writer's seam loop succeeds (`openSeams`, i.e. `obj.split(obj.start(dir), dir)` by the
      C07 model of `split`) and `G2.write` produces a record;
    * reading that record returns a well-formed object `toFile op` with NO periodic direction and
      leaves the rest of the stream untouched;
    * `op` has the same rationality, the same bases in the other directions, the same order in
      `dir`, a valid non-periodic basis on `[start, end]` there, and
    * every control-net fibre of `op` along `dir` evaluates on `[start, end]` (inward sides at the
      ends) to the wrapped-image sum of the corresponding fibre of the periodic `o` — the map of
      the original object (`split_periodic_single_all` with `hMult_of_exact_all`, the guard-free
      form of `C07_split_periodic_partial`, at the split value `start`): the object comes back
      opened at the seam with identical geometry.

    Hypotheses that remain, all fields of `PeriodicWF`: exactly ONE periodic direction
    (`periodic_dir`, `others`); `sepR`/`sepL`: no knot other than copies of `start` within the
    tolerance of `start` (tolerance-separated seam); and the formatting is `rnd = id` here (compose
    with `C19_g2_roundtrip_partial` for the rounded statement). -/
theorem C19_g2_roundtrip_periodic {K : Type} [Field K] [LinearOrder K]
    [IsStrictOrderedRing K] [FloorRing K] {tol : K} (htol : 0 < tol) (o : Splipy.Obj K)
    (dir k nc : ℕ) (h : Splipy.C19Seam.PeriodicWF tol o dir k nc) (rest : List (Token K)) :
    ∃ op m toks, openSeams tol o = .ok op ∧ g2WriteObj tol o = .ok toks ∧
      g2ReadSpline tol (toks ++ rest) = .ok (toFile op, rest) ∧
      (toFile op).WF tol ∧ (∀ b ∈ (toFile op).bases, b.periodic = -1) ∧
      (op.basis dir).Valid ∧ (op.basis dir).periodic = -1 ∧
      (op.basis dir).order = (o.basis dir).order ∧
      (op.basis dir).start = (o.basis dir).start ∧ (op.basis dir).stop = (o.basis dir).stop ∧
      (∀ d, d ≠ dir → op.basis d = o.basis d) ∧ op.rational = o.rational ∧
      ∀ a i, a < Splipy.C04.outerN o dir → i < Splipy.C04.innerN o dir → ∀ (s : Splipy.Side) (t : K),
        s.mem (o.basis dir).start (o.basis dir).stop t → s.before t (o.basis dir).stop →
        Splipy.splineVal s (op.basis dir).kn ((o.basis dir).order - 1) ((o.basis dir).numFunctions + m)
            (Splipy.C04.fibre op dir a i) t
          = Splipy.C04.wsum s (o.basis dir).kn ((o.basis dir).order - 1) (o.basis dir).nAll
              (o.basis dir).numFunctions (Splipy.C04.fibre o dir a i) 0 t := by
  have hd := h.dir_lt
  have hx : (o.basis dir).start ≤ (o.basis dir).start ∧ (o.basis dir).start < (o.basis dir).stop :=
    ⟨le_refl _, (h.valid dir hd).start_lt_stop⟩
  obtain ⟨op, m, hsplit, hvalid, hper, hord, hnum, hstart, hstop, hoth, hrat, hshp, hfib⟩ :=
    Splipy.split_periodic_single_all o dir hd h.hax (h.valid dir hd) k h.periodic_dir h.hshape
      tol (o.basis dir).start hx
      (Splipy.hMult_of_exact_all o dir hd (h.valid dir hd) k h.periodic_dir h.hshape htol hx
        h.sepR h.sepL)
  obtain ⟨hopen, hwf⟩ := Splipy.C19Seam.seam_open htol h op m hsplit hvalid hper hnum hoth hshp
  have hstop' : (op.basis dir).stop = (o.basis dir).stop := by rw [hstop]; ring
  refine ⟨op, m, g2Write (toFile op), hopen, ?_, g2ReadSpline_write tol _ hwf rest, hwf,
    fun b hb => (hwf.bases b hb).nonperiodic, hvalid, hper, hord, hstart, hstop', hoth, hrat, ?_⟩
  · unfold g2WriteObj; rw [hopen]
  · intro a i ha hi s t ht hb
    have ht' : s.mem (o.basis dir).start ((o.basis dir).start + ((o.basis dir).stop - (o.basis dir).start)) t := by
      rw [show (o.basis dir).start + ((o.basis dir).stop - (o.basis dir).start) = (o.basis dir).stop by ring]
      exact ht
    exact (hfib a i ha hi s t ht').1 hb

/-- Objects without a periodic direction are written as they are. -/
theorem C19_g2_write_nonperiodic {K : Type} [Field K] [LinearOrder K] [FloorRing K] (tol : K)
    (o : Splipy.Obj K) (h : ∀ i, ¬ (o.basis i).periodic > -1) :
    g2WriteObj tol o = .ok (g2Write (toFile o)) :=
  g2WriteObj_nonperiodic tol o h

/-- The sampling rule of `STL.write_surface` (one direction): with `n` given, `n` equispaced
    values from `start` to `end` inclusive, all inside the domain; without `n`, the knots for
    order 2 and, for order ≥ 3, the sorted merge of the knots with `2p−3` equispaced values per
    knot span (`spans·(2p−3) + #knots` values, every knot among them); order 1 without `n` is a
    `ValueError`. -/
theorem C19_stl_sampling {K : Type} [Field K] [LinearOrder K] [IsStrictOrderedRing K]
    (order : ℕ) (knots : List K) (a b : K) (n : ℕ) :
    ((linspace a b n).length = n ∧
      (1 ≤ n → (linspace a b n).head? = some a) ∧
      (2 ≤ n → (linspace a b n).getLast? = some b) ∧
      (a ≤ b → ∀ x ∈ linspace a b n, a ≤ x ∧ x ≤ b)) ∧
    (stlParams order knots (some n) = .ok (linspace (knots.headD 0) (knots.getLastD 0) n)) ∧
    (order = 2 → stlParams order knots none = .ok knots) ∧
    (order < 2 → stlParams order knots none = .error .value) ∧
    (3 ≤ order → ∃ l, stlParams order knots none = .ok l ∧
      l.Perm (((knots.zip knots.tail).flatMap fun kk => linspaceOpen kk.1 kk.2 (2 * order - 3)) ++ knots) ∧
      l.Pairwise (· ≤ ·) ∧
      l.length = (knots.length - 1) * (2 * order - 3) + knots.length ∧
      ∀ k ∈ knots, k ∈ l) :=
  ⟨linspace_spec a b n, (stlParams_spec order knots).1 n, (stlParams_spec order knots).2.1,
   (stlParams_spec order knots).2.2.1, (stlParams_spec order knots).2.2.2⟩

/-- SVG, whole drawing: every curve of a drawing is written through the same layout, so the
    control points read back are the control points of its `bezier_representation` (model
    `bezierRepresentation`: raise to cubic, open at the seam, insert knots to multiplicity 3) under
    ONE map `p ↦ s·p + b`, `s > 0`, the same for all curves.  That `bezier_representation`
    preserves the geometry of the curve is C05 (order elevation), C07 (seam) and C04 (knot
    insertion); it is not re-proved here.  `SVG.write` refuses objects of dimension ≠ 2
    (`svgAccept`, `RuntimeError`), mirrored by the driver.

    `_partial`: the guards of `C19_svg_similarity_partial`. -/
theorem C19_svg_drawing_partial {K : Type} [Field K] [LinearOrder K] [IsStrictOrderedRing K] [FloorRing K]
    (tol W H m x0 y0 x1 y1 : K) (hW : 0 < W) (hH : 0 < H) (hm0 : 0 ≤ m) (hm : m < 1 / 2)
    (hx : x0 < x1) (hy : y0 ≤ y1) :
    ∃ s b1 b2 : K, 0 < s ∧ ∀ (c bz : Splipy.Obj K) (path : List (K × K)),
      bezierRepresentation tol c = .ok bz →
      svgPath tol (svgLayout W H m (x0, y0, x1, y1)) c = .ok path →
      path.map (svgReadPt (svgLayout W H m (x0, y0, x1, y1)).height) =
        (planarPts bz).map fun p => (s * p.1 + b1, s * p.2 + b2) := by
  refine ⟨(svgLayout W H m (x0, y0, x1, y1)).scale,
    (svgLayout W H m (x0, y0, x1, y1)).ox -
      (svgLayout W H m (x0, y0, x1, y1)).scale * (svgLayout W H m (x0, y0, x1, y1)).cx,
    (svgLayout W H m (x0, y0, x1, y1)).oy -
      (svgLayout W H m (x0, y0, x1, y1)).scale * (svgLayout W H m (x0, y0, x1, y1)).cy -
      2 * (svgLayout W H m (x0, y0, x1, y1)).margin,
    svgLayout_scale_pos W H m x0 y0 x1 y1 hW hH hm0 hm hx hy, ?_⟩
  intro c bz path hb hp
  unfold svgPath at hp
  rw [hb] at hp
  have := Except.ok.inj hp
  subst this
  rw [List.map_map]
  apply List.map_congr_left
  intro p _
  exact svg_read_write _ p

/-! The hypotheses are satisfiable: a rational quadratic-by-linear surface in the plane. -/

example : ∃ o : Obj ℚ, o.WF (1 / 10 ^ 10) ∧ o.rational = true ∧ o.bases.length = 2 :=
  ⟨{ bases := [⟨3, [0, 0, 0, 1, 1, 1], -1⟩, ⟨2, [0, 0, 1, 1], -1⟩], shape := [3, 2], ncomp := 3,
     cps := [[0, 0, 1], [0, 1, 1], [1, 0, 1], [1, 1, 2], [2, 0, 1], [2, 3, 1]], rational := true },
   { pardim := by simp
     bases := by
       intro b hb
       simp only [List.mem_cons, List.not_mem_nil, or_false] at hb
       rcases hb with rfl | rfl <;>
         exact ⟨by simp, by simp, by norm_num [knotsOk], rfl⟩
     shape := by simp [IOBasis.numFunctions]
     count := by simp
     comps := by simp
     ncomp_pos := by simp },
   rfl, rfl⟩

example : ∃ W H m x0 y0 x1 y1 : ℚ, 0 < W ∧ 0 < H ∧ 0 ≤ m ∧ m < 1 / 2 ∧ x0 < x1 ∧ y0 ≤ y1 :=
  ⟨1000, 1000, 1 / 20, 0, 0, 1, 0, by norm_num⟩

/-! A genuinely periodic witness over ℚ: quadratic, continuity 1, four control points in the plane
(non-uniform knots, period 6). -/

def C19_exPer : Splipy.Obj ℚ :=
  { bases := #[⟨3, #[-3, -2, 0, 1, 3, 4, 6, 7, 9], 1⟩],
    cps := { shape := [4, 2], data := #[0, 1, 4, -2, 9, 5, -3, 7] }, rational := false }

/-- Kernel evaluation of the writer and reader models on it: `G2.write` opens the curve at the seam
    and the record reads back as the open quadratic on `[0, 6]` with six control points, first and
    last equal. -/
theorem C19_exPer_roundtrip :
    (match g2WriteObj (1 / 10 ^ 10) C19_exPer with
      | .ok toks =>
        match g2ReadSpline (1 / 10 ^ 10 : ℚ) toks with
        | .ok (o, rest) => (o.bases.map (fun (b : IOBasis ℚ) => (b.order, b.knots, b.periodic)), o.shape,
                            o.ncomp, o.cps, o.rational, rest.length)
        | .error _ => ([], [], 0, [], false, 7)
      | .error _ => ([], [], 0, [], false, 9))
    = ([(3, [0, 0, 0, 1, 3, 4, 6, 6, 6], -1)], [6], 2,
       [[8 / 3, -1], [4, -2], [9, 5], [-3, 7], [0, 1], [8 / 3, -1]], false, 0) := by
  decide +kernel

/-- The hypotheses of `C19_g2_roundtrip_periodic` hold for it (`p = 3`, `k = 1`, `n = 4`,
    `tol = 10⁻¹⁰`). -/
theorem C19_exPer_wf : Splipy.C19Seam.PeriodicWF (1 / 10 ^ 10 : ℚ) C19_exPer 0 1 2 where
  pardim := Or.inl rfl
  dir_lt := by decide
  shape := by decide +kernel
  ncomp_pos := by decide
  valid := by
    intro d hd
    have : d = 0 := by
      have : d < 1 := hd
      omega
    subst this
    rw [← Splipy.Basis.validB_iff]
    decide +kernel
  periodic_dir := by decide +kernel
  others := by
    intro d hd hne
    have : d < 1 := hd
    omega
  sepR := by
    intro i hi
    have hi' : i < 9 := hi
    interval_cases i <;> norm_num [Splipy.Obj.basis, C19_exPer, Splipy.Basis.start, Splipy.Basis.kn]
  sepL := by
    intro i hi
    have hi' : i < 9 := hi
    interval_cases i <;> norm_num [Splipy.Obj.basis, C19_exPer, Splipy.Basis.start, Splipy.Basis.kn]

/-! A periodic witness BELOW the former guard: quadratic, continuity 1, only two control points
(`n = 2 < p + k = 4`), uniform knots, period 2. -/

def C19_exSmall : Splipy.Obj ℚ :=
  { bases := #[⟨3, #[-2, -1, 0, 1, 2, 3, 4], 1⟩],
    cps := { shape := [2, 2], data := #[0, 1, 4, -2] }, rational := false }

/-- Kernel evaluation: the record reads back as the open quadratic on `[0, 2]` with four control
    points, first equal to last (the values the repaired `G2.write` prints: `2 -0.5`, `4 -2`,
    `0 1`, `2 -0.5`). -/
theorem C19_exSmall_roundtrip :
    (match g2WriteObj (1 / 10 ^ 10) C19_exSmall with
      | .ok toks =>
        match g2ReadSpline (1 / 10 ^ 10 : ℚ) toks with
        | .ok (o, rest) => (o.bases.map (fun (b : IOBasis ℚ) => (b.order, b.knots, b.periodic)), o.shape,
                            o.ncomp, o.cps, o.rational, rest.length)
        | .error _ => ([], [], 0, [], false, 7)
      | .error _ => ([], [], 0, [], false, 9))
    = ([(3, [0, 0, 0, 1, 2, 2, 2], -1)], [4], 2, [[2, -1 / 2], [4, -2], [0, 1], [2, -1 / 2]], false, 0) := by
  decide +kernel

/-- It satisfies the hypotheses of `C19_g2_roundtrip_periodic` although
    `order + k = 4 > numFunctions = 2`. -/
theorem C19_exSmall_wf : Splipy.C19Seam.PeriodicWF (1 / 10 ^ 10 : ℚ) C19_exSmall 0 1 2 ∧
    (C19_exSmall.basis 0).numFunctions < (C19_exSmall.basis 0).order + 1 := by
  refine ⟨{
    pardim := Or.inl rfl
    dir_lt := by decide
    shape := by decide +kernel
    ncomp_pos := by decide
    valid := by
      intro d hd
      have : d = 0 := by
        have : d < 1 := hd
        omega
      subst this
      rw [← Splipy.Basis.validB_iff]
      decide +kernel
    periodic_dir := by decide +kernel
    others := by
      intro d hd hne
      have : d < 1 := hd
      omega
    sepR := by
      intro i hi
      have hi' : i < 7 := hi
      interval_cases i <;> norm_num [Splipy.Obj.basis, C19_exSmall, Splipy.Basis.start, Splipy.Basis.kn]
    sepL := by
      intro i hi
      have hi' : i < 7 := hi
      interval_cases i <;> norm_num [Splipy.Obj.basis, C19_exSmall, Splipy.Basis.start, Splipy.Basis.kn] }, ?_⟩
  decide +kernel
