import Splipy.Lemmas.BridgeOps
import Splipy.Lemmas.BridgeC09
import Splipy.Lemmas.BridgeC05
import Splipy.Lemmas.C05Bridge
import Splipy.Lemmas.BridgeC07
import Splipy.Lemmas.BridgePointwise
import Splipy.Properties.C02

/-!
# Bridge: the geometry-preserving operations and the object-level evaluator `Obj.evaluate`

The property theorems C04 (knot insertion), C06 (`reverse`, `reparam`) and C09 (affine maps) are
stated for spline sums (`splineVal`, fibre sums, `evalPt` with abstract weight families).  C02
identifies `Obj.evaluate` with these sums.  The theorems below compose the two: they speak about
the tensors returned by `o.evaluate tol params true` (`tol` = `state.knot_tolerance`), for curves,
surfaces and volumes, rational or not, along valid non-periodic directions, at admissible
parameters (`Basis.Admissible`: exact with respect to the knots, inside the domain).

* `Bridge_C04_*` — `o.insertKnots xs dir = .ok o'` and `o'.evaluate … = o.evaluate …`;
  `Bridge_C04_refine_*` — the same for one pass of `refine` (`Obj.refineDir`).
* `Bridge_C06_reverse_*` — `(o.reverse dir).evaluate` at `start + end - u` is `o.evaluate` at `u`
  (where the spline is continuous; `Bridge_C06_reverse_jump` shows that this cannot be dropped).
* `Bridge_C06_reparam_*` — `o.reparamDir dir s e = .ok o'` and `o'.evaluate` at the mapped
  parameters is `o.evaluate`.
* `Bridge_C09_*` — the result entries of the transformed object are the affine image
  (`AffOp.sem`, `AffOp.semList`) of the result entries of the original (`_run`: sequences,
  `_pointwise`: `tensor=False`, `_snap`: arbitrary parameters under `Basis.Separated`,
  `_translate_*`: spelled out for `translate`).
* `Bridge_C07_piece_*_partial` — a piece built by `split` evaluates like the refined object.
* `Bridge_C05_*` — order elevation of curves (`ElevatedFrom`; clamped bases under `H_sw`) and of
  surfaces and volumes on clamped continuous bases (`Bridge_C05_clamped_surface`,
  `Bridge_C05_clamped_volume`; no analytic hypothesis), and of periodic curves and of surfaces and
  volumes with periodic directions relative to `H_sw` (`Bridge_C05_periodic_curve_partial`,
  `Bridge_C05_weak_surface_partial`, `Bridge_C05_weak_volume_partial`,
  `Bridge_C05_periodic_surface_partial`); `H_sw` is discharged for uniform periodic quadratics raised
  to cubics (`Bridge_C05_periodic_uniform_cubic`).
For C04/C06/C07/C05 the conclusion is equality of the whole returned tensors (shape and flat data)
for `tensor=True`, which is entrywise equality, and equality of the returned values (tensor or
`ValueError` of the length test) for `tensor=False`.  The flat index of entry `(i₁, i₂, c)` of an
`m₁ × m₂ × dim` result is `(i₁·m₂ + i₂)·dim + c`.
-/

open Splipy Splipy.Bridge

set_option linter.unusedSectionVars false

variable {K : Type} [Field K] [LinearOrder K] [IsStrictOrderedRing K] [FloorRing K]

omit [IsStrictOrderedRing K] [FloorRing K] in
private theorem getD_map_lt (l : List K) (f : K → K) {p : ℕ} (hp : p < l.length) :
    (l.map f).getD p 0 = f (l.getD p 0) := by
  simp [List.getD_eq_getElem?_getD, hp]

/-! ## C04 — knot insertion -/

/-- **C04 ⇒ evaluate.**  Curves: inserting the knots `xs ⊂ [start, end)` into the
valid non-periodic basis `b1` does not change `evaluate` at admissible parameters that are exact
with respect to the inserted values too (`x = u` or `|x - u| ≥ tol`): the call succeeds and both
objects return the same tensor. -/
theorem Bridge_C04_curve {o : Obj K} {b1 : Basis K}
    (hb : o.bases = #[b1])
    (hv1 : b1.Valid) (hper : b1.periodic = -1)
    {nc : ℕ} (hs : o.cps.shape = [b1.numFunctions, nc])
    (hnc : o.rational = true → 1 ≤ nc)
    (xs : List K) (hxs : ∀ x ∈ xs, b1.start ≤ x ∧ x < b1.stop) {tol : K} (htol : 0 < tol)
    {us : List K} (hus : ∀ u ∈ us, b1.Admissible tol u)
    (hex : ∀ u ∈ us, ∀ x ∈ xs, x = u ∨ tol ≤ |x - u|)
    (hneA1 : b1.periodic < 0 → us ≠ [] := by (first | assumption | (simp; done) | skip)) :
    ∃ o' res, o.insertKnots xs 0 = .ok o' ∧ o.evaluate tol [us] true = .ok res ∧
      res.shape = [us.length, o.dimension] ∧
      o'.evaluate tol [us] true = .ok res ∧
      o'.evaluate tol [us] false = o.evaluate tol [us] false := by
  have hb0 : o.basis 0 = b1 := by simp [Obj.basis, hb]
  have key := insertKnots_along o 0 (by rw [hb]; simp) (by rw [hs]; simp)
    (by rw [hb0]; exact hv1) (by rw [hb0]; exact hper) (by rw [hb0, hs]; rfl) xs
    (by rw [hb0]; exact hxs)
  rw [hb0] at key
  obtain ⟨o', b', h1, hb', hv', hper', hn', hst', hsp', hperm, hrat, hsh, hsame⟩ := key
  have hb'' : o'.bases = #[b'] := by rw [hb', hb]; rfl
  have hs' : o'.cps.shape = [b'.numFunctions, nc] := by rw [hsh, hs, hn']; rfl
  have hadm' : ∀ u ∈ us, b'.Admissible tol u := fun u hu =>
    admissible_of_perm hper' hst' hsp' hperm hper (hus u hu) (hex u hu)
  have hneB1 : b'.periodic < 0 → us ≠ [] := by
    intro h
    first
      | exact hneA1 h | exact hneA2 h | exact hneA3 h | exact hneA4 h
      | exact hneA5 h | exact hneA6 h | exact hneA7 h | simpa using hneA1 h
      | simpa using hneA2 h | simpa using hneA3 h | simpa using hneA4 h | simpa using hneA5 h
      | simpa using hneA6 h | simpa using hneA7 h | exact hneA1 (by omega) | exact hneA2 (by omega)
      | exact hneA3 (by omega) | exact hneA4 (by omega) | exact hneA5 (by omega) | exact hneA6 (by omega)
      | exact hneA7 (by omega) | simpa using hneA1 (by omega) | simpa using hneA2 (by omega) | simpa using hneA3 (by omega)
      | simpa using hneA4 (by omega) | simpa using hneA5 (by omega) | simpa using hneA6 (by omega) | simpa using hneA7 (by omega)
      | exact hneA1 (by simp_all) | exact hneA2 (by simp_all) | exact hneA3 (by simp_all) | exact hneA4 (by simp_all)
      | exact hneA5 (by simp_all) | exact hneA6 (by simp_all) | exact hneA7 (by simp_all)
  obtain ⟨e, res, e1, e2⟩ := transfer_curve hb hb'' hv1 hv' hs hs' hrat hnc htol rfl
    hus
    hadm'
    (fun p _ => hsame _)
  exact ⟨o', res, h1, e1, e2, e.trans e1, pointwise_curve hb hb'' hv1 hv' hs hs' hrat hnc htol rfl
    hus hadm' e⟩

/-- **C04 ⇒ evaluate.**  Surfaces, direction `u` (index 0): inserting the knots `xs ⊂ [start, end)` into the
valid non-periodic basis `b1` does not change `evaluate` at admissible parameters that are exact
with respect to the inserted values too (`x = u` or `|x - u| ≥ tol`): the call succeeds and both
objects return the same tensor. -/
theorem Bridge_C04_surface_u {o : Obj K} {b1 b2 : Basis K}
    (hb : o.bases = #[b1, b2])
    (hv1 : b1.Valid) (hv2 : b2.Valid) (hper : b1.periodic = -1)
    {nc : ℕ} (hs : o.cps.shape = [b1.numFunctions, b2.numFunctions, nc])
    (hnc : o.rational = true → 1 ≤ nc)
    (xs : List K) (hxs : ∀ x ∈ xs, b1.start ≤ x ∧ x < b1.stop) {tol : K} (htol : 0 < tol)
    {us vs : List K} (hus : ∀ u ∈ us, b1.Admissible tol u) (hvs : ∀ v ∈ vs, b2.Admissible tol v)
    (hex : ∀ u ∈ us, ∀ x ∈ xs, x = u ∨ tol ≤ |x - u|)
    (hneA1 : b1.periodic < 0 → us ≠ [] := by (first | assumption | (simp; done) | skip))
    (hneA2 : b2.periodic < 0 → vs ≠ [] := by (first | assumption | (simp; done) | skip)) :
    ∃ o' res, o.insertKnots xs 0 = .ok o' ∧ o.evaluate tol [us, vs] true = .ok res ∧
      res.shape = [us.length, vs.length, o.dimension] ∧
      o'.evaluate tol [us, vs] true = .ok res ∧
      o'.evaluate tol [us, vs] false = o.evaluate tol [us, vs] false := by
  have hb0 : o.basis 0 = b1 := by simp [Obj.basis, hb]
  have key := insertKnots_along o 0 (by rw [hb]; simp) (by rw [hs]; simp)
    (by rw [hb0]; exact hv1) (by rw [hb0]; exact hper) (by rw [hb0, hs]; rfl) xs
    (by rw [hb0]; exact hxs)
  rw [hb0] at key
  obtain ⟨o', b', h1, hb', hv', hper', hn', hst', hsp', hperm, hrat, hsh, hsame⟩ := key
  have hb'' : o'.bases = #[b', b2] := by rw [hb', hb]; rfl
  have hs' : o'.cps.shape = [b'.numFunctions, b2.numFunctions, nc] := by rw [hsh, hs, hn']; rfl
  have hadm' : ∀ u ∈ us, b'.Admissible tol u := fun u hu =>
    admissible_of_perm hper' hst' hsp' hperm hper (hus u hu) (hex u hu)
  have hneB1 : b'.periodic < 0 → us ≠ [] := by
    intro h
    first
      | exact hneA1 h | exact hneA2 h | exact hneA3 h | exact hneA4 h
      | exact hneA5 h | exact hneA6 h | exact hneA7 h | simpa using hneA1 h
      | simpa using hneA2 h | simpa using hneA3 h | simpa using hneA4 h | simpa using hneA5 h
      | simpa using hneA6 h | simpa using hneA7 h | exact hneA1 (by omega) | exact hneA2 (by omega)
      | exact hneA3 (by omega) | exact hneA4 (by omega) | exact hneA5 (by omega) | exact hneA6 (by omega)
      | exact hneA7 (by omega) | simpa using hneA1 (by omega) | simpa using hneA2 (by omega) | simpa using hneA3 (by omega)
      | simpa using hneA4 (by omega) | simpa using hneA5 (by omega) | simpa using hneA6 (by omega) | simpa using hneA7 (by omega)
      | exact hneA1 (by simp_all) | exact hneA2 (by simp_all) | exact hneA3 (by simp_all) | exact hneA4 (by simp_all)
      | exact hneA5 (by simp_all) | exact hneA6 (by simp_all) | exact hneA7 (by simp_all)
  obtain ⟨e, res, e1, e2⟩ := transfer_surface_u hb hb'' hv1 hv' hv2 hs hs' hrat hnc htol rfl
    hus
    hadm'
    hvs
    (fun p _ => hsame _)
  exact ⟨o', res, h1, e1, e2, e.trans e1, pointwise_surface hb hb'' hv1 hv' hv2 hv2 hs hs' hrat hnc htol rfl rfl
    hus hadm' hvs hvs e⟩

/-- **C04 ⇒ evaluate.**  Surfaces, direction `v` (index 1): inserting the knots `xs ⊂ [start, end)` into the
valid non-periodic basis `b2` does not change `evaluate` at admissible parameters that are exact
with respect to the inserted values too (`x = u` or `|x - u| ≥ tol`): the call succeeds and both
objects return the same tensor. -/
theorem Bridge_C04_surface_v {o : Obj K} {b1 b2 : Basis K}
    (hb : o.bases = #[b1, b2])
    (hv1 : b1.Valid) (hv2 : b2.Valid) (hper : b2.periodic = -1)
    {nc : ℕ} (hs : o.cps.shape = [b1.numFunctions, b2.numFunctions, nc])
    (hnc : o.rational = true → 1 ≤ nc)
    (xs : List K) (hxs : ∀ x ∈ xs, b2.start ≤ x ∧ x < b2.stop) {tol : K} (htol : 0 < tol)
    {us vs : List K} (hus : ∀ u ∈ us, b1.Admissible tol u) (hvs : ∀ v ∈ vs, b2.Admissible tol v)
    (hex : ∀ u ∈ vs, ∀ x ∈ xs, x = u ∨ tol ≤ |x - u|)
    (hneA1 : b1.periodic < 0 → us ≠ [] := by (first | assumption | (simp; done) | skip))
    (hneA2 : b2.periodic < 0 → vs ≠ [] := by (first | assumption | (simp; done) | skip)) :
    ∃ o' res, o.insertKnots xs 1 = .ok o' ∧ o.evaluate tol [us, vs] true = .ok res ∧
      res.shape = [us.length, vs.length, o.dimension] ∧
      o'.evaluate tol [us, vs] true = .ok res ∧
      o'.evaluate tol [us, vs] false = o.evaluate tol [us, vs] false := by
  have hb0 : o.basis 1 = b2 := by simp [Obj.basis, hb]
  have key := insertKnots_along o 1 (by rw [hb]; simp) (by rw [hs]; simp)
    (by rw [hb0]; exact hv2) (by rw [hb0]; exact hper) (by rw [hb0, hs]; rfl) xs
    (by rw [hb0]; exact hxs)
  rw [hb0] at key
  obtain ⟨o', b', h1, hb', hv', hper', hn', hst', hsp', hperm, hrat, hsh, hsame⟩ := key
  have hb'' : o'.bases = #[b1, b'] := by rw [hb', hb]; rfl
  have hs' : o'.cps.shape = [b1.numFunctions, b'.numFunctions, nc] := by rw [hsh, hs, hn']; rfl
  have hadm' : ∀ u ∈ vs, b'.Admissible tol u := fun u hu =>
    admissible_of_perm hper' hst' hsp' hperm hper (hvs u hu) (hex u hu)
  have hneB1 : b'.periodic < 0 → vs ≠ [] := by
    intro h
    first
      | exact hneA1 h | exact hneA2 h | exact hneA3 h | exact hneA4 h
      | exact hneA5 h | exact hneA6 h | exact hneA7 h | simpa using hneA1 h
      | simpa using hneA2 h | simpa using hneA3 h | simpa using hneA4 h | simpa using hneA5 h
      | simpa using hneA6 h | simpa using hneA7 h | exact hneA1 (by omega) | exact hneA2 (by omega)
      | exact hneA3 (by omega) | exact hneA4 (by omega) | exact hneA5 (by omega) | exact hneA6 (by omega)
      | exact hneA7 (by omega) | simpa using hneA1 (by omega) | simpa using hneA2 (by omega) | simpa using hneA3 (by omega)
      | simpa using hneA4 (by omega) | simpa using hneA5 (by omega) | simpa using hneA6 (by omega) | simpa using hneA7 (by omega)
      | exact hneA1 (by simp_all) | exact hneA2 (by simp_all) | exact hneA3 (by simp_all) | exact hneA4 (by simp_all)
      | exact hneA5 (by simp_all) | exact hneA6 (by simp_all) | exact hneA7 (by simp_all)
  obtain ⟨e, res, e1, e2⟩ := transfer_surface_v hb hb'' hv1 hv2 hv' hs hs' hrat hnc htol rfl
    hus
    hvs
    hadm'
    (fun p _ => hsame _)
  exact ⟨o', res, h1, e1, e2, e.trans e1, pointwise_surface hb hb'' hv1 hv1 hv2 hv' hs hs' hrat hnc htol rfl rfl
    hus hus hvs hadm' e⟩

/-- **C04 ⇒ evaluate.**  Volumes, direction `u` (index 0): inserting the knots `xs ⊂ [start, end)` into the
valid non-periodic basis `b1` does not change `evaluate` at admissible parameters that are exact
with respect to the inserted values too (`x = u` or `|x - u| ≥ tol`): the call succeeds and both
objects return the same tensor. -/
theorem Bridge_C04_volume_u {o : Obj K} {b1 b2 b3 : Basis K}
    (hb : o.bases = #[b1, b2, b3])
    (hv1 : b1.Valid) (hv2 : b2.Valid) (hv3 : b3.Valid) (hper : b1.periodic = -1)
    {nc : ℕ} (hs : o.cps.shape = [b1.numFunctions, b2.numFunctions, b3.numFunctions, nc])
    (hnc : o.rational = true → 1 ≤ nc)
    (xs : List K) (hxs : ∀ x ∈ xs, b1.start ≤ x ∧ x < b1.stop) {tol : K} (htol : 0 < tol)
    {us vs ws : List K} (hus : ∀ u ∈ us, b1.Admissible tol u) (hvs : ∀ v ∈ vs, b2.Admissible tol v) (hws : ∀ w ∈ ws, b3.Admissible tol w)
    (hex : ∀ u ∈ us, ∀ x ∈ xs, x = u ∨ tol ≤ |x - u|)
    (hneA1 : b1.periodic < 0 → us ≠ [] := by (first | assumption | (simp; done) | skip))
    (hneA2 : b2.periodic < 0 → vs ≠ [] := by (first | assumption | (simp; done) | skip))
    (hneA3 : b3.periodic < 0 → ws ≠ [] := by (first | assumption | (simp; done) | skip)) :
    ∃ o' res, o.insertKnots xs 0 = .ok o' ∧ o.evaluate tol [us, vs, ws] true = .ok res ∧
      res.shape = [us.length, vs.length, ws.length, o.dimension] ∧
      o'.evaluate tol [us, vs, ws] true = .ok res ∧
      o'.evaluate tol [us, vs, ws] false = o.evaluate tol [us, vs, ws] false := by
  have hb0 : o.basis 0 = b1 := by simp [Obj.basis, hb]
  have key := insertKnots_along o 0 (by rw [hb]; simp) (by rw [hs]; simp)
    (by rw [hb0]; exact hv1) (by rw [hb0]; exact hper) (by rw [hb0, hs]; rfl) xs
    (by rw [hb0]; exact hxs)
  rw [hb0] at key
  obtain ⟨o', b', h1, hb', hv', hper', hn', hst', hsp', hperm, hrat, hsh, hsame⟩ := key
  have hb'' : o'.bases = #[b', b2, b3] := by rw [hb', hb]; rfl
  have hs' : o'.cps.shape = [b'.numFunctions, b2.numFunctions, b3.numFunctions, nc] := by rw [hsh, hs, hn']; rfl
  have hadm' : ∀ u ∈ us, b'.Admissible tol u := fun u hu =>
    admissible_of_perm hper' hst' hsp' hperm hper (hus u hu) (hex u hu)
  have hneB1 : b'.periodic < 0 → us ≠ [] := by
    intro h
    first
      | exact hneA1 h | exact hneA2 h | exact hneA3 h | exact hneA4 h
      | exact hneA5 h | exact hneA6 h | exact hneA7 h | simpa using hneA1 h
      | simpa using hneA2 h | simpa using hneA3 h | simpa using hneA4 h | simpa using hneA5 h
      | simpa using hneA6 h | simpa using hneA7 h | exact hneA1 (by omega) | exact hneA2 (by omega)
      | exact hneA3 (by omega) | exact hneA4 (by omega) | exact hneA5 (by omega) | exact hneA6 (by omega)
      | exact hneA7 (by omega) | simpa using hneA1 (by omega) | simpa using hneA2 (by omega) | simpa using hneA3 (by omega)
      | simpa using hneA4 (by omega) | simpa using hneA5 (by omega) | simpa using hneA6 (by omega) | simpa using hneA7 (by omega)
      | exact hneA1 (by simp_all) | exact hneA2 (by simp_all) | exact hneA3 (by simp_all) | exact hneA4 (by simp_all)
      | exact hneA5 (by simp_all) | exact hneA6 (by simp_all) | exact hneA7 (by simp_all)
  obtain ⟨e, res, e1, e2⟩ := transfer_volume_u hb hb'' hv1 hv' hv2 hv3 hs hs' hrat hnc htol rfl
    hus
    hadm'
    hvs
    hws
    (fun p _ => hsame _)
  exact ⟨o', res, h1, e1, e2, e.trans e1, pointwise_volume hb hb'' hv1 hv' hv2 hv2 hv3 hv3 hs hs' hrat hnc htol rfl rfl rfl
    hus hadm' hvs hvs hws hws e⟩

/-- **C04 ⇒ evaluate.**  Volumes, direction `v` (index 1): inserting the knots `xs ⊂ [start, end)` into the
valid non-periodic basis `b2` does not change `evaluate` at admissible parameters that are exact
with respect to the inserted values too (`x = u` or `|x - u| ≥ tol`): the call succeeds and both
objects return the same tensor. -/
theorem Bridge_C04_volume_v {o : Obj K} {b1 b2 b3 : Basis K}
    (hb : o.bases = #[b1, b2, b3])
    (hv1 : b1.Valid) (hv2 : b2.Valid) (hv3 : b3.Valid) (hper : b2.periodic = -1)
    {nc : ℕ} (hs : o.cps.shape = [b1.numFunctions, b2.numFunctions, b3.numFunctions, nc])
    (hnc : o.rational = true → 1 ≤ nc)
    (xs : List K) (hxs : ∀ x ∈ xs, b2.start ≤ x ∧ x < b2.stop) {tol : K} (htol : 0 < tol)
    {us vs ws : List K} (hus : ∀ u ∈ us, b1.Admissible tol u) (hvs : ∀ v ∈ vs, b2.Admissible tol v) (hws : ∀ w ∈ ws, b3.Admissible tol w)
    (hex : ∀ u ∈ vs, ∀ x ∈ xs, x = u ∨ tol ≤ |x - u|)
    (hneA1 : b1.periodic < 0 → us ≠ [] := by (first | assumption | (simp; done) | skip))
    (hneA2 : b2.periodic < 0 → vs ≠ [] := by (first | assumption | (simp; done) | skip))
    (hneA3 : b3.periodic < 0 → ws ≠ [] := by (first | assumption | (simp; done) | skip)) :
    ∃ o' res, o.insertKnots xs 1 = .ok o' ∧ o.evaluate tol [us, vs, ws] true = .ok res ∧
      res.shape = [us.length, vs.length, ws.length, o.dimension] ∧
      o'.evaluate tol [us, vs, ws] true = .ok res ∧
      o'.evaluate tol [us, vs, ws] false = o.evaluate tol [us, vs, ws] false := by
  have hb0 : o.basis 1 = b2 := by simp [Obj.basis, hb]
  have key := insertKnots_along o 1 (by rw [hb]; simp) (by rw [hs]; simp)
    (by rw [hb0]; exact hv2) (by rw [hb0]; exact hper) (by rw [hb0, hs]; rfl) xs
    (by rw [hb0]; exact hxs)
  rw [hb0] at key
  obtain ⟨o', b', h1, hb', hv', hper', hn', hst', hsp', hperm, hrat, hsh, hsame⟩ := key
  have hb'' : o'.bases = #[b1, b', b3] := by rw [hb', hb]; rfl
  have hs' : o'.cps.shape = [b1.numFunctions, b'.numFunctions, b3.numFunctions, nc] := by rw [hsh, hs, hn']; rfl
  have hadm' : ∀ u ∈ vs, b'.Admissible tol u := fun u hu =>
    admissible_of_perm hper' hst' hsp' hperm hper (hvs u hu) (hex u hu)
  have hneB1 : b'.periodic < 0 → vs ≠ [] := by
    intro h
    first
      | exact hneA1 h | exact hneA2 h | exact hneA3 h | exact hneA4 h
      | exact hneA5 h | exact hneA6 h | exact hneA7 h | simpa using hneA1 h
      | simpa using hneA2 h | simpa using hneA3 h | simpa using hneA4 h | simpa using hneA5 h
      | simpa using hneA6 h | simpa using hneA7 h | exact hneA1 (by omega) | exact hneA2 (by omega)
      | exact hneA3 (by omega) | exact hneA4 (by omega) | exact hneA5 (by omega) | exact hneA6 (by omega)
      | exact hneA7 (by omega) | simpa using hneA1 (by omega) | simpa using hneA2 (by omega) | simpa using hneA3 (by omega)
      | simpa using hneA4 (by omega) | simpa using hneA5 (by omega) | simpa using hneA6 (by omega) | simpa using hneA7 (by omega)
      | exact hneA1 (by simp_all) | exact hneA2 (by simp_all) | exact hneA3 (by simp_all) | exact hneA4 (by simp_all)
      | exact hneA5 (by simp_all) | exact hneA6 (by simp_all) | exact hneA7 (by simp_all)
  obtain ⟨e, res, e1, e2⟩ := transfer_volume_v hb hb'' hv1 hv2 hv' hv3 hs hs' hrat hnc htol rfl
    hus
    hvs
    hadm'
    hws
    (fun p _ => hsame _)
  exact ⟨o', res, h1, e1, e2, e.trans e1, pointwise_volume hb hb'' hv1 hv1 hv2 hv' hv3 hv3 hs hs' hrat hnc htol rfl rfl rfl
    hus hus hvs hadm' hws hws e⟩

/-- **C04 ⇒ evaluate.**  Volumes, direction `w` (index 2): inserting the knots `xs ⊂ [start, end)` into the
valid non-periodic basis `b3` does not change `evaluate` at admissible parameters that are exact
with respect to the inserted values too (`x = u` or `|x - u| ≥ tol`): the call succeeds and both
objects return the same tensor. -/
theorem Bridge_C04_volume_w {o : Obj K} {b1 b2 b3 : Basis K}
    (hb : o.bases = #[b1, b2, b3])
    (hv1 : b1.Valid) (hv2 : b2.Valid) (hv3 : b3.Valid) (hper : b3.periodic = -1)
    {nc : ℕ} (hs : o.cps.shape = [b1.numFunctions, b2.numFunctions, b3.numFunctions, nc])
    (hnc : o.rational = true → 1 ≤ nc)
    (xs : List K) (hxs : ∀ x ∈ xs, b3.start ≤ x ∧ x < b3.stop) {tol : K} (htol : 0 < tol)
    {us vs ws : List K} (hus : ∀ u ∈ us, b1.Admissible tol u) (hvs : ∀ v ∈ vs, b2.Admissible tol v) (hws : ∀ w ∈ ws, b3.Admissible tol w)
    (hex : ∀ u ∈ ws, ∀ x ∈ xs, x = u ∨ tol ≤ |x - u|)
    (hneA1 : b1.periodic < 0 → us ≠ [] := by (first | assumption | (simp; done) | skip))
    (hneA2 : b2.periodic < 0 → vs ≠ [] := by (first | assumption | (simp; done) | skip))
    (hneA3 : b3.periodic < 0 → ws ≠ [] := by (first | assumption | (simp; done) | skip)) :
    ∃ o' res, o.insertKnots xs 2 = .ok o' ∧ o.evaluate tol [us, vs, ws] true = .ok res ∧
      res.shape = [us.length, vs.length, ws.length, o.dimension] ∧
      o'.evaluate tol [us, vs, ws] true = .ok res ∧
      o'.evaluate tol [us, vs, ws] false = o.evaluate tol [us, vs, ws] false := by
  have hb0 : o.basis 2 = b3 := by simp [Obj.basis, hb]
  have key := insertKnots_along o 2 (by rw [hb]; simp) (by rw [hs]; simp)
    (by rw [hb0]; exact hv3) (by rw [hb0]; exact hper) (by rw [hb0, hs]; rfl) xs
    (by rw [hb0]; exact hxs)
  rw [hb0] at key
  obtain ⟨o', b', h1, hb', hv', hper', hn', hst', hsp', hperm, hrat, hsh, hsame⟩ := key
  have hb'' : o'.bases = #[b1, b2, b'] := by rw [hb', hb]; rfl
  have hs' : o'.cps.shape = [b1.numFunctions, b2.numFunctions, b'.numFunctions, nc] := by rw [hsh, hs, hn']; rfl
  have hadm' : ∀ u ∈ ws, b'.Admissible tol u := fun u hu =>
    admissible_of_perm hper' hst' hsp' hperm hper (hws u hu) (hex u hu)
  have hneB1 : b'.periodic < 0 → ws ≠ [] := by
    intro h
    first
      | exact hneA1 h | exact hneA2 h | exact hneA3 h | exact hneA4 h
      | exact hneA5 h | exact hneA6 h | exact hneA7 h | simpa using hneA1 h
      | simpa using hneA2 h | simpa using hneA3 h | simpa using hneA4 h | simpa using hneA5 h
      | simpa using hneA6 h | simpa using hneA7 h | exact hneA1 (by omega) | exact hneA2 (by omega)
      | exact hneA3 (by omega) | exact hneA4 (by omega) | exact hneA5 (by omega) | exact hneA6 (by omega)
      | exact hneA7 (by omega) | simpa using hneA1 (by omega) | simpa using hneA2 (by omega) | simpa using hneA3 (by omega)
      | simpa using hneA4 (by omega) | simpa using hneA5 (by omega) | simpa using hneA6 (by omega) | simpa using hneA7 (by omega)
      | exact hneA1 (by simp_all) | exact hneA2 (by simp_all) | exact hneA3 (by simp_all) | exact hneA4 (by simp_all)
      | exact hneA5 (by simp_all) | exact hneA6 (by simp_all) | exact hneA7 (by simp_all)
  obtain ⟨e, res, e1, e2⟩ := transfer_volume_w hb hb'' hv1 hv2 hv3 hv' hs hs' hrat hnc htol rfl
    hus
    hvs
    hws
    hadm'
    (fun p _ => hsame _)
  exact ⟨o', res, h1, e1, e2, e.trans e1, pointwise_volume hb hb'' hv1 hv1 hv2 hv2 hv3 hv' hs hs' hrat hnc htol rfl rfl rfl
    hus hus hvs hvs hws hadm' e⟩

/-- **C04 (`refine`) ⇒ evaluate.**  Curves: one pass `refine(n)` over the direction
(`Obj.refineDir`: `n` new knots in every knot span) succeeds and does not change `evaluate` at
admissible parameters that are exact with respect to the inserted values. -/
theorem Bridge_C04_refine_curve {o : Obj K} {b1 : Basis K}
    (hb : o.bases = #[b1])
    (hv1 : b1.Valid) (hper : b1.periodic = -1)
    {nc : ℕ} (hs : o.cps.shape = [b1.numFunctions, nc])
    (hnc : o.rational = true → 1 ≤ nc)
    (n : ℕ) {tol : K} (htol : 0 < tol)
    {us : List K} (hus : ∀ u ∈ us, b1.Admissible tol u)
    (hex : ∀ u ∈ us, ∀ x ∈ refineValues ((b1.knotSpans tol false).toList) n,
      x = u ∨ tol ≤ |x - u|)
    (hneA1 : b1.periodic < 0 → us ≠ [] := by (first | assumption | (simp; done) | skip)) :
    ∃ o' res, o.refineDir tol n 0 = .ok o' ∧ o.evaluate tol [us] true = .ok res ∧
      res.shape = [us.length, o.dimension] ∧
      o'.evaluate tol [us] true = .ok res ∧
      o'.evaluate tol [us] false = o.evaluate tol [us] false := by
  have hb0 : o.basis 0 = b1 := by simp [Obj.basis, hb]
  have hr := C04_refine o tol (le_of_lt htol) n 0 (by rw [hb]; simp)
    (by unfold Obj.pardim; rw [hs]; simp) (by rw [hb0]; exact hv1) (by rw [hb0]; exact hper)
    (by rw [hb0, hs]; rfl)
  rw [hb0] at hr
  obtain ⟨hmem, hcall, _⟩ := hr
  obtain ⟨o', res, h1, rest⟩ := Bridge_C04_curve hb hv1 hper hs hnc
    (refineValues ((b1.knotSpans tol false).toList) n)
    (fun x hx => ⟨le_of_lt (hmem x hx).2.1, (hmem x hx).2.2⟩) htol hus hex
  exact ⟨o', res, hcall.trans h1, rest⟩

/-- **C04 (`refine`) ⇒ evaluate.**  Surfaces, direction `u` (index 0): one pass `refine(n)` over the direction
(`Obj.refineDir`: `n` new knots in every knot span) succeeds and does not change `evaluate` at
admissible parameters that are exact with respect to the inserted values. -/
theorem Bridge_C04_refine_surface_u {o : Obj K} {b1 b2 : Basis K}
    (hb : o.bases = #[b1, b2])
    (hv1 : b1.Valid) (hv2 : b2.Valid) (hper : b1.periodic = -1)
    {nc : ℕ} (hs : o.cps.shape = [b1.numFunctions, b2.numFunctions, nc])
    (hnc : o.rational = true → 1 ≤ nc)
    (n : ℕ) {tol : K} (htol : 0 < tol)
    {us vs : List K} (hus : ∀ u ∈ us, b1.Admissible tol u) (hvs : ∀ v ∈ vs, b2.Admissible tol v)
    (hex : ∀ u ∈ us, ∀ x ∈ refineValues ((b1.knotSpans tol false).toList) n,
      x = u ∨ tol ≤ |x - u|)
    (hneA1 : b1.periodic < 0 → us ≠ [] := by (first | assumption | (simp; done) | skip))
    (hneA2 : b2.periodic < 0 → vs ≠ [] := by (first | assumption | (simp; done) | skip)) :
    ∃ o' res, o.refineDir tol n 0 = .ok o' ∧ o.evaluate tol [us, vs] true = .ok res ∧
      res.shape = [us.length, vs.length, o.dimension] ∧
      o'.evaluate tol [us, vs] true = .ok res ∧
      o'.evaluate tol [us, vs] false = o.evaluate tol [us, vs] false := by
  have hb0 : o.basis 0 = b1 := by simp [Obj.basis, hb]
  have hr := C04_refine o tol (le_of_lt htol) n 0 (by rw [hb]; simp)
    (by unfold Obj.pardim; rw [hs]; simp) (by rw [hb0]; exact hv1) (by rw [hb0]; exact hper)
    (by rw [hb0, hs]; rfl)
  rw [hb0] at hr
  obtain ⟨hmem, hcall, _⟩ := hr
  obtain ⟨o', res, h1, rest⟩ := Bridge_C04_surface_u hb hv1 hv2 hper hs hnc
    (refineValues ((b1.knotSpans tol false).toList) n)
    (fun x hx => ⟨le_of_lt (hmem x hx).2.1, (hmem x hx).2.2⟩) htol hus hvs hex
  exact ⟨o', res, hcall.trans h1, rest⟩

/-- **C04 (`refine`) ⇒ evaluate.**  Surfaces, direction `v` (index 1): one pass `refine(n)` over the direction
(`Obj.refineDir`: `n` new knots in every knot span) succeeds and does not change `evaluate` at
admissible parameters that are exact with respect to the inserted values. -/
theorem Bridge_C04_refine_surface_v {o : Obj K} {b1 b2 : Basis K}
    (hb : o.bases = #[b1, b2])
    (hv1 : b1.Valid) (hv2 : b2.Valid) (hper : b2.periodic = -1)
    {nc : ℕ} (hs : o.cps.shape = [b1.numFunctions, b2.numFunctions, nc])
    (hnc : o.rational = true → 1 ≤ nc)
    (n : ℕ) {tol : K} (htol : 0 < tol)
    {us vs : List K} (hus : ∀ u ∈ us, b1.Admissible tol u) (hvs : ∀ v ∈ vs, b2.Admissible tol v)
    (hex : ∀ u ∈ vs, ∀ x ∈ refineValues ((b2.knotSpans tol false).toList) n,
      x = u ∨ tol ≤ |x - u|)
    (hneA1 : b1.periodic < 0 → us ≠ [] := by (first | assumption | (simp; done) | skip))
    (hneA2 : b2.periodic < 0 → vs ≠ [] := by (first | assumption | (simp; done) | skip)) :
    ∃ o' res, o.refineDir tol n 1 = .ok o' ∧ o.evaluate tol [us, vs] true = .ok res ∧
      res.shape = [us.length, vs.length, o.dimension] ∧
      o'.evaluate tol [us, vs] true = .ok res ∧
      o'.evaluate tol [us, vs] false = o.evaluate tol [us, vs] false := by
  have hb0 : o.basis 1 = b2 := by simp [Obj.basis, hb]
  have hr := C04_refine o tol (le_of_lt htol) n 1 (by rw [hb]; simp)
    (by unfold Obj.pardim; rw [hs]; simp) (by rw [hb0]; exact hv2) (by rw [hb0]; exact hper)
    (by rw [hb0, hs]; rfl)
  rw [hb0] at hr
  obtain ⟨hmem, hcall, _⟩ := hr
  obtain ⟨o', res, h1, rest⟩ := Bridge_C04_surface_v hb hv1 hv2 hper hs hnc
    (refineValues ((b2.knotSpans tol false).toList) n)
    (fun x hx => ⟨le_of_lt (hmem x hx).2.1, (hmem x hx).2.2⟩) htol hus hvs hex
  exact ⟨o', res, hcall.trans h1, rest⟩

/-- **C04 (`refine`) ⇒ evaluate.**  Volumes, direction `u` (index 0): one pass `refine(n)` over the direction
(`Obj.refineDir`: `n` new knots in every knot span) succeeds and does not change `evaluate` at
admissible parameters that are exact with respect to the inserted values. -/
theorem Bridge_C04_refine_volume_u {o : Obj K} {b1 b2 b3 : Basis K}
    (hb : o.bases = #[b1, b2, b3])
    (hv1 : b1.Valid) (hv2 : b2.Valid) (hv3 : b3.Valid) (hper : b1.periodic = -1)
    {nc : ℕ} (hs : o.cps.shape = [b1.numFunctions, b2.numFunctions, b3.numFunctions, nc])
    (hnc : o.rational = true → 1 ≤ nc)
    (n : ℕ) {tol : K} (htol : 0 < tol)
    {us vs ws : List K} (hus : ∀ u ∈ us, b1.Admissible tol u) (hvs : ∀ v ∈ vs, b2.Admissible tol v) (hws : ∀ w ∈ ws, b3.Admissible tol w)
    (hex : ∀ u ∈ us, ∀ x ∈ refineValues ((b1.knotSpans tol false).toList) n,
      x = u ∨ tol ≤ |x - u|)
    (hneA1 : b1.periodic < 0 → us ≠ [] := by (first | assumption | (simp; done) | skip))
    (hneA2 : b2.periodic < 0 → vs ≠ [] := by (first | assumption | (simp; done) | skip))
    (hneA3 : b3.periodic < 0 → ws ≠ [] := by (first | assumption | (simp; done) | skip)) :
    ∃ o' res, o.refineDir tol n 0 = .ok o' ∧ o.evaluate tol [us, vs, ws] true = .ok res ∧
      res.shape = [us.length, vs.length, ws.length, o.dimension] ∧
      o'.evaluate tol [us, vs, ws] true = .ok res ∧
      o'.evaluate tol [us, vs, ws] false = o.evaluate tol [us, vs, ws] false := by
  have hb0 : o.basis 0 = b1 := by simp [Obj.basis, hb]
  have hr := C04_refine o tol (le_of_lt htol) n 0 (by rw [hb]; simp)
    (by unfold Obj.pardim; rw [hs]; simp) (by rw [hb0]; exact hv1) (by rw [hb0]; exact hper)
    (by rw [hb0, hs]; rfl)
  rw [hb0] at hr
  obtain ⟨hmem, hcall, _⟩ := hr
  obtain ⟨o', res, h1, rest⟩ := Bridge_C04_volume_u hb hv1 hv2 hv3 hper hs hnc
    (refineValues ((b1.knotSpans tol false).toList) n)
    (fun x hx => ⟨le_of_lt (hmem x hx).2.1, (hmem x hx).2.2⟩) htol hus hvs hws hex
  exact ⟨o', res, hcall.trans h1, rest⟩

/-- **C04 (`refine`) ⇒ evaluate.**  Volumes, direction `v` (index 1): one pass `refine(n)` over the direction
(`Obj.refineDir`: `n` new knots in every knot span) succeeds and does not change `evaluate` at
admissible parameters that are exact with respect to the inserted values. -/
theorem Bridge_C04_refine_volume_v {o : Obj K} {b1 b2 b3 : Basis K}
    (hb : o.bases = #[b1, b2, b3])
    (hv1 : b1.Valid) (hv2 : b2.Valid) (hv3 : b3.Valid) (hper : b2.periodic = -1)
    {nc : ℕ} (hs : o.cps.shape = [b1.numFunctions, b2.numFunctions, b3.numFunctions, nc])
    (hnc : o.rational = true → 1 ≤ nc)
    (n : ℕ) {tol : K} (htol : 0 < tol)
    {us vs ws : List K} (hus : ∀ u ∈ us, b1.Admissible tol u) (hvs : ∀ v ∈ vs, b2.Admissible tol v) (hws : ∀ w ∈ ws, b3.Admissible tol w)
    (hex : ∀ u ∈ vs, ∀ x ∈ refineValues ((b2.knotSpans tol false).toList) n,
      x = u ∨ tol ≤ |x - u|)
    (hneA1 : b1.periodic < 0 → us ≠ [] := by (first | assumption | (simp; done) | skip))
    (hneA2 : b2.periodic < 0 → vs ≠ [] := by (first | assumption | (simp; done) | skip))
    (hneA3 : b3.periodic < 0 → ws ≠ [] := by (first | assumption | (simp; done) | skip)) :
    ∃ o' res, o.refineDir tol n 1 = .ok o' ∧ o.evaluate tol [us, vs, ws] true = .ok res ∧
      res.shape = [us.length, vs.length, ws.length, o.dimension] ∧
      o'.evaluate tol [us, vs, ws] true = .ok res ∧
      o'.evaluate tol [us, vs, ws] false = o.evaluate tol [us, vs, ws] false := by
  have hb0 : o.basis 1 = b2 := by simp [Obj.basis, hb]
  have hr := C04_refine o tol (le_of_lt htol) n 1 (by rw [hb]; simp)
    (by unfold Obj.pardim; rw [hs]; simp) (by rw [hb0]; exact hv2) (by rw [hb0]; exact hper)
    (by rw [hb0, hs]; rfl)
  rw [hb0] at hr
  obtain ⟨hmem, hcall, _⟩ := hr
  obtain ⟨o', res, h1, rest⟩ := Bridge_C04_volume_v hb hv1 hv2 hv3 hper hs hnc
    (refineValues ((b2.knotSpans tol false).toList) n)
    (fun x hx => ⟨le_of_lt (hmem x hx).2.1, (hmem x hx).2.2⟩) htol hus hvs hws hex
  exact ⟨o', res, hcall.trans h1, rest⟩

/-- **C04 (`refine`) ⇒ evaluate.**  Volumes, direction `w` (index 2): one pass `refine(n)` over the direction
(`Obj.refineDir`: `n` new knots in every knot span) succeeds and does not change `evaluate` at
admissible parameters that are exact with respect to the inserted values. -/
theorem Bridge_C04_refine_volume_w {o : Obj K} {b1 b2 b3 : Basis K}
    (hb : o.bases = #[b1, b2, b3])
    (hv1 : b1.Valid) (hv2 : b2.Valid) (hv3 : b3.Valid) (hper : b3.periodic = -1)
    {nc : ℕ} (hs : o.cps.shape = [b1.numFunctions, b2.numFunctions, b3.numFunctions, nc])
    (hnc : o.rational = true → 1 ≤ nc)
    (n : ℕ) {tol : K} (htol : 0 < tol)
    {us vs ws : List K} (hus : ∀ u ∈ us, b1.Admissible tol u) (hvs : ∀ v ∈ vs, b2.Admissible tol v) (hws : ∀ w ∈ ws, b3.Admissible tol w)
    (hex : ∀ u ∈ ws, ∀ x ∈ refineValues ((b3.knotSpans tol false).toList) n,
      x = u ∨ tol ≤ |x - u|)
    (hneA1 : b1.periodic < 0 → us ≠ [] := by (first | assumption | (simp; done) | skip))
    (hneA2 : b2.periodic < 0 → vs ≠ [] := by (first | assumption | (simp; done) | skip))
    (hneA3 : b3.periodic < 0 → ws ≠ [] := by (first | assumption | (simp; done) | skip)) :
    ∃ o' res, o.refineDir tol n 2 = .ok o' ∧ o.evaluate tol [us, vs, ws] true = .ok res ∧
      res.shape = [us.length, vs.length, ws.length, o.dimension] ∧
      o'.evaluate tol [us, vs, ws] true = .ok res ∧
      o'.evaluate tol [us, vs, ws] false = o.evaluate tol [us, vs, ws] false := by
  have hb0 : o.basis 2 = b3 := by simp [Obj.basis, hb]
  have hr := C04_refine o tol (le_of_lt htol) n 2 (by rw [hb]; simp)
    (by unfold Obj.pardim; rw [hs]; simp) (by rw [hb0]; exact hv3) (by rw [hb0]; exact hper)
    (by rw [hb0, hs]; rfl)
  rw [hb0] at hr
  obtain ⟨hmem, hcall, _⟩ := hr
  obtain ⟨o', res, h1, rest⟩ := Bridge_C04_volume_w hb hv1 hv2 hv3 hper hs hnc
    (refineValues ((b3.knotSpans tol false).toList) n)
    (fun x hx => ⟨le_of_lt (hmem x hx).2.1, (hmem x hx).2.2⟩) htol hus hvs hws hex
  exact ⟨o', res, hcall.trans h1, rest⟩

/-! ## C06 — reverse -/

/-- **C06 (`reverse`) ⇒ evaluate.**  Curves: the reversed object evaluated at
`start + end - u` returns what the original returns at `u`, for admissible parameters `u` that are
an end of the domain or a point where fewer than `order` consecutive knots of `b1` coincide (at a
knot of full multiplicity the spline jumps and `evaluate` takes the right-hand limit on both
sides of the identity, see `Bridge_C06_reverse_jump`). -/
theorem Bridge_C06_reverse_curve {o : Obj K} {b1 : Basis K}
    (hb : o.bases = #[b1])
    (hv1 : b1.Valid) (hper : b1.periodic = -1)
    {nc : ℕ} (hs : o.cps.shape = [b1.numFunctions, nc])
    (hnc : o.rational = true → 1 ≤ nc)
    {tol : K} (htol : 0 < tol) {us : List K} (hus : ∀ u ∈ us, b1.Admissible tol u)
    (hok : ∀ u ∈ us, u = b1.start ∨ u = b1.stop ∨
      ∀ j, b1.kn j = u → b1.kn (j + (b1.order - 1)) ≠ u)
    (hneA1 : b1.periodic < 0 → us ≠ [] := by (first | assumption | (simp; done) | skip)) :
    ∃ res, o.evaluate tol [us] true = .ok res ∧
      res.shape = [us.length, o.dimension] ∧
      (o.reverse 0).evaluate tol [(us.map (fun u => b1.start + b1.stop - u))] true
        = .ok res ∧
      (o.reverse 0).evaluate tol [(us.map (fun u => b1.start + b1.stop - u))] false
        = o.evaluate tol [us] false := by
  have hb0 : o.basis 0 = b1 := by simp [Obj.basis, hb]
  have key := reverse_along o 0 (by rw [hs]; simp) (by rw [hb0]; exact hv1)
    (by rw [hb0]; exact hper) (by rw [hb0, hs]; rfl)
  rw [hb0] at key
  obtain ⟨hb', hrat, hsh, hsame⟩ := key
  have hb'' : (o.reverse 0).bases = #[b1.reverse] := by
    rw [hb', hb]; rfl
  have hs' : (o.reverse 0).cps.shape = [b1.reverse.numFunctions, nc] := by
    rw [hsh, hs, C06.reverse_numFunctions]
  have hadm' : ∀ u ∈ (us.map (fun u => b1.start + b1.stop - u)), b1.reverse.Admissible tol u := fun u hu => by
    obtain ⟨u0, hu0, rfl⟩ := List.mem_map.mp hu
    exact admissible_reverse hv1 hper (hus u0 hu0)
  have hneB1 : b1.reverse.periodic < 0 → List.map (fun u => b1.start + b1.stop - u) us ≠ [] := by
    intro h
    first
      | exact hneA1 h | exact hneA2 h | exact hneA3 h | exact hneA4 h
      | exact hneA5 h | exact hneA6 h | exact hneA7 h | simpa using hneA1 h
      | simpa using hneA2 h | simpa using hneA3 h | simpa using hneA4 h | simpa using hneA5 h
      | simpa using hneA6 h | simpa using hneA7 h | exact hneA1 (by omega) | exact hneA2 (by omega)
      | exact hneA3 (by omega) | exact hneA4 (by omega) | exact hneA5 (by omega) | exact hneA6 (by omega)
      | exact hneA7 (by omega) | simpa using hneA1 (by omega) | simpa using hneA2 (by omega) | simpa using hneA3 (by omega)
      | simpa using hneA4 (by omega) | simpa using hneA5 (by omega) | simpa using hneA6 (by omega) | simpa using hneA7 (by omega)
      | exact hneA1 (by simp_all) | exact hneA2 (by simp_all) | exact hneA3 (by simp_all) | exact hneA4 (by simp_all)
      | exact hneA5 (by simp_all) | exact hneA6 (by simp_all) | exact hneA7 (by simp_all)
  obtain ⟨e, res, e1, e2⟩ := transfer_curve (us' := (us.map (fun u => b1.start + b1.stop - u))) hb hb'' hv1 (C06.reverse_valid hv1) hs hs' hrat hnc htol
    (by simp)
    hus
    hadm'
    (fun p hp => by
      rw [getD_map_lt _ _ hp]
      exact hsame _ (hok _ (getD_mem_of_lt us hp 0)))
  exact ⟨res, e1, e2, e.trans e1, pointwise_curve hb hb'' hv1 (C06.reverse_valid hv1) hs hs' hrat hnc htol (by simp)
    hus hadm' e⟩

/-- **C06 (`reverse`) ⇒ evaluate.**  Surfaces, direction `u` (index 0): the reversed object evaluated at
`start + end - u` returns what the original returns at `u`, for admissible parameters `u` that are
an end of the domain or a point where fewer than `order` consecutive knots of `b1` coincide (at a
knot of full multiplicity the spline jumps and `evaluate` takes the right-hand limit on both
sides of the identity, see `Bridge_C06_reverse_jump`). -/
theorem Bridge_C06_reverse_surface_u {o : Obj K} {b1 b2 : Basis K}
    (hb : o.bases = #[b1, b2])
    (hv1 : b1.Valid) (hv2 : b2.Valid) (hper : b1.periodic = -1)
    {nc : ℕ} (hs : o.cps.shape = [b1.numFunctions, b2.numFunctions, nc])
    (hnc : o.rational = true → 1 ≤ nc)
    {tol : K} (htol : 0 < tol) {us vs : List K} (hus : ∀ u ∈ us, b1.Admissible tol u) (hvs : ∀ v ∈ vs, b2.Admissible tol v)
    (hok : ∀ u ∈ us, u = b1.start ∨ u = b1.stop ∨
      ∀ j, b1.kn j = u → b1.kn (j + (b1.order - 1)) ≠ u)
    (hneA1 : b1.periodic < 0 → us ≠ [] := by (first | assumption | (simp; done) | skip))
    (hneA2 : b2.periodic < 0 → vs ≠ [] := by (first | assumption | (simp; done) | skip)) :
    ∃ res, o.evaluate tol [us, vs] true = .ok res ∧
      res.shape = [us.length, vs.length, o.dimension] ∧
      (o.reverse 0).evaluate tol [(us.map (fun u => b1.start + b1.stop - u)), vs] true
        = .ok res ∧
      (o.reverse 0).evaluate tol [(us.map (fun u => b1.start + b1.stop - u)), vs] false
        = o.evaluate tol [us, vs] false := by
  have hb0 : o.basis 0 = b1 := by simp [Obj.basis, hb]
  have key := reverse_along o 0 (by rw [hs]; simp) (by rw [hb0]; exact hv1)
    (by rw [hb0]; exact hper) (by rw [hb0, hs]; rfl)
  rw [hb0] at key
  obtain ⟨hb', hrat, hsh, hsame⟩ := key
  have hb'' : (o.reverse 0).bases = #[b1.reverse, b2] := by
    rw [hb', hb]; rfl
  have hs' : (o.reverse 0).cps.shape = [b1.reverse.numFunctions, b2.numFunctions, nc] := by
    rw [hsh, hs, C06.reverse_numFunctions]
  have hadm' : ∀ u ∈ (us.map (fun u => b1.start + b1.stop - u)), b1.reverse.Admissible tol u := fun u hu => by
    obtain ⟨u0, hu0, rfl⟩ := List.mem_map.mp hu
    exact admissible_reverse hv1 hper (hus u0 hu0)
  have hneB1 : b1.reverse.periodic < 0 → List.map (fun u => b1.start + b1.stop - u) us ≠ [] := by
    intro h
    first
      | exact hneA1 h | exact hneA2 h | exact hneA3 h | exact hneA4 h
      | exact hneA5 h | exact hneA6 h | exact hneA7 h | simpa using hneA1 h
      | simpa using hneA2 h | simpa using hneA3 h | simpa using hneA4 h | simpa using hneA5 h
      | simpa using hneA6 h | simpa using hneA7 h | exact hneA1 (by omega) | exact hneA2 (by omega)
      | exact hneA3 (by omega) | exact hneA4 (by omega) | exact hneA5 (by omega) | exact hneA6 (by omega)
      | exact hneA7 (by omega) | simpa using hneA1 (by omega) | simpa using hneA2 (by omega) | simpa using hneA3 (by omega)
      | simpa using hneA4 (by omega) | simpa using hneA5 (by omega) | simpa using hneA6 (by omega) | simpa using hneA7 (by omega)
      | exact hneA1 (by simp_all) | exact hneA2 (by simp_all) | exact hneA3 (by simp_all) | exact hneA4 (by simp_all)
      | exact hneA5 (by simp_all) | exact hneA6 (by simp_all) | exact hneA7 (by simp_all)
  obtain ⟨e, res, e1, e2⟩ := transfer_surface_u (us' := (us.map (fun u => b1.start + b1.stop - u))) hb hb'' hv1 (C06.reverse_valid hv1) hv2 hs hs' hrat hnc htol
    (by simp)
    hus
    hadm'
    hvs
    (fun p hp => by
      rw [getD_map_lt _ _ hp]
      exact hsame _ (hok _ (getD_mem_of_lt us hp 0)))
  exact ⟨res, e1, e2, e.trans e1, pointwise_surface hb hb'' hv1 (C06.reverse_valid hv1) hv2 hv2 hs hs' hrat hnc htol (by simp) rfl
    hus hadm' hvs hvs e⟩

/-- **C06 (`reverse`) ⇒ evaluate.**  Surfaces, direction `v` (index 1): the reversed object evaluated at
`start + end - u` returns what the original returns at `u`, for admissible parameters `u` that are
an end of the domain or a point where fewer than `order` consecutive knots of `b2` coincide (at a
knot of full multiplicity the spline jumps and `evaluate` takes the right-hand limit on both
sides of the identity, see `Bridge_C06_reverse_jump`). -/
theorem Bridge_C06_reverse_surface_v {o : Obj K} {b1 b2 : Basis K}
    (hb : o.bases = #[b1, b2])
    (hv1 : b1.Valid) (hv2 : b2.Valid) (hper : b2.periodic = -1)
    {nc : ℕ} (hs : o.cps.shape = [b1.numFunctions, b2.numFunctions, nc])
    (hnc : o.rational = true → 1 ≤ nc)
    {tol : K} (htol : 0 < tol) {us vs : List K} (hus : ∀ u ∈ us, b1.Admissible tol u) (hvs : ∀ v ∈ vs, b2.Admissible tol v)
    (hok : ∀ u ∈ vs, u = b2.start ∨ u = b2.stop ∨
      ∀ j, b2.kn j = u → b2.kn (j + (b2.order - 1)) ≠ u)
    (hneA1 : b1.periodic < 0 → us ≠ [] := by (first | assumption | (simp; done) | skip))
    (hneA2 : b2.periodic < 0 → vs ≠ [] := by (first | assumption | (simp; done) | skip)) :
    ∃ res, o.evaluate tol [us, vs] true = .ok res ∧
      res.shape = [us.length, vs.length, o.dimension] ∧
      (o.reverse 1).evaluate tol [us, (vs.map (fun u => b2.start + b2.stop - u))] true
        = .ok res ∧
      (o.reverse 1).evaluate tol [us, (vs.map (fun u => b2.start + b2.stop - u))] false
        = o.evaluate tol [us, vs] false := by
  have hb0 : o.basis 1 = b2 := by simp [Obj.basis, hb]
  have key := reverse_along o 1 (by rw [hs]; simp) (by rw [hb0]; exact hv2)
    (by rw [hb0]; exact hper) (by rw [hb0, hs]; rfl)
  rw [hb0] at key
  obtain ⟨hb', hrat, hsh, hsame⟩ := key
  have hb'' : (o.reverse 1).bases = #[b1, b2.reverse] := by
    rw [hb', hb]; rfl
  have hs' : (o.reverse 1).cps.shape = [b1.numFunctions, b2.reverse.numFunctions, nc] := by
    rw [hsh, hs, C06.reverse_numFunctions]
  have hadm' : ∀ u ∈ (vs.map (fun u => b2.start + b2.stop - u)), b2.reverse.Admissible tol u := fun u hu => by
    obtain ⟨u0, hu0, rfl⟩ := List.mem_map.mp hu
    exact admissible_reverse hv2 hper (hvs u0 hu0)
  have hneB1 : b2.reverse.periodic < 0 → List.map (fun u => b2.start + b2.stop - u) vs ≠ [] := by
    intro h
    first
      | exact hneA1 h | exact hneA2 h | exact hneA3 h | exact hneA4 h
      | exact hneA5 h | exact hneA6 h | exact hneA7 h | simpa using hneA1 h
      | simpa using hneA2 h | simpa using hneA3 h | simpa using hneA4 h | simpa using hneA5 h
      | simpa using hneA6 h | simpa using hneA7 h | exact hneA1 (by omega) | exact hneA2 (by omega)
      | exact hneA3 (by omega) | exact hneA4 (by omega) | exact hneA5 (by omega) | exact hneA6 (by omega)
      | exact hneA7 (by omega) | simpa using hneA1 (by omega) | simpa using hneA2 (by omega) | simpa using hneA3 (by omega)
      | simpa using hneA4 (by omega) | simpa using hneA5 (by omega) | simpa using hneA6 (by omega) | simpa using hneA7 (by omega)
      | exact hneA1 (by simp_all) | exact hneA2 (by simp_all) | exact hneA3 (by simp_all) | exact hneA4 (by simp_all)
      | exact hneA5 (by simp_all) | exact hneA6 (by simp_all) | exact hneA7 (by simp_all)
  obtain ⟨e, res, e1, e2⟩ := transfer_surface_v (vs' := (vs.map (fun u => b2.start + b2.stop - u))) hb hb'' hv1 hv2 (C06.reverse_valid hv2) hs hs' hrat hnc htol
    (by simp)
    hus
    hvs
    hadm'
    (fun p hp => by
      rw [getD_map_lt _ _ hp]
      exact hsame _ (hok _ (getD_mem_of_lt vs hp 0)))
  exact ⟨res, e1, e2, e.trans e1, pointwise_surface hb hb'' hv1 hv1 hv2 (C06.reverse_valid hv2) hs hs' hrat hnc htol rfl (by simp)
    hus hus hvs hadm' e⟩

/-- **C06 (`reverse`) ⇒ evaluate.**  Volumes, direction `u` (index 0): the reversed object evaluated at
`start + end - u` returns what the original returns at `u`, for admissible parameters `u` that are
an end of the domain or a point where fewer than `order` consecutive knots of `b1` coincide (at a
knot of full multiplicity the spline jumps and `evaluate` takes the right-hand limit on both
sides of the identity, see `Bridge_C06_reverse_jump`). -/
theorem Bridge_C06_reverse_volume_u {o : Obj K} {b1 b2 b3 : Basis K}
    (hb : o.bases = #[b1, b2, b3])
    (hv1 : b1.Valid) (hv2 : b2.Valid) (hv3 : b3.Valid) (hper : b1.periodic = -1)
    {nc : ℕ} (hs : o.cps.shape = [b1.numFunctions, b2.numFunctions, b3.numFunctions, nc])
    (hnc : o.rational = true → 1 ≤ nc)
    {tol : K} (htol : 0 < tol) {us vs ws : List K} (hus : ∀ u ∈ us, b1.Admissible tol u) (hvs : ∀ v ∈ vs, b2.Admissible tol v) (hws : ∀ w ∈ ws, b3.Admissible tol w)
    (hok : ∀ u ∈ us, u = b1.start ∨ u = b1.stop ∨
      ∀ j, b1.kn j = u → b1.kn (j + (b1.order - 1)) ≠ u)
    (hneA1 : b1.periodic < 0 → us ≠ [] := by (first | assumption | (simp; done) | skip))
    (hneA2 : b2.periodic < 0 → vs ≠ [] := by (first | assumption | (simp; done) | skip))
    (hneA3 : b3.periodic < 0 → ws ≠ [] := by (first | assumption | (simp; done) | skip)) :
    ∃ res, o.evaluate tol [us, vs, ws] true = .ok res ∧
      res.shape = [us.length, vs.length, ws.length, o.dimension] ∧
      (o.reverse 0).evaluate tol [(us.map (fun u => b1.start + b1.stop - u)), vs, ws] true
        = .ok res ∧
      (o.reverse 0).evaluate tol [(us.map (fun u => b1.start + b1.stop - u)), vs, ws] false
        = o.evaluate tol [us, vs, ws] false := by
  have hb0 : o.basis 0 = b1 := by simp [Obj.basis, hb]
  have key := reverse_along o 0 (by rw [hs]; simp) (by rw [hb0]; exact hv1)
    (by rw [hb0]; exact hper) (by rw [hb0, hs]; rfl)
  rw [hb0] at key
  obtain ⟨hb', hrat, hsh, hsame⟩ := key
  have hb'' : (o.reverse 0).bases = #[b1.reverse, b2, b3] := by
    rw [hb', hb]; rfl
  have hs' : (o.reverse 0).cps.shape = [b1.reverse.numFunctions, b2.numFunctions, b3.numFunctions, nc] := by
    rw [hsh, hs, C06.reverse_numFunctions]
  have hadm' : ∀ u ∈ (us.map (fun u => b1.start + b1.stop - u)), b1.reverse.Admissible tol u := fun u hu => by
    obtain ⟨u0, hu0, rfl⟩ := List.mem_map.mp hu
    exact admissible_reverse hv1 hper (hus u0 hu0)
  have hneB1 : b1.reverse.periodic < 0 → List.map (fun u => b1.start + b1.stop - u) us ≠ [] := by
    intro h
    first
      | exact hneA1 h | exact hneA2 h | exact hneA3 h | exact hneA4 h
      | exact hneA5 h | exact hneA6 h | exact hneA7 h | simpa using hneA1 h
      | simpa using hneA2 h | simpa using hneA3 h | simpa using hneA4 h | simpa using hneA5 h
      | simpa using hneA6 h | simpa using hneA7 h | exact hneA1 (by omega) | exact hneA2 (by omega)
      | exact hneA3 (by omega) | exact hneA4 (by omega) | exact hneA5 (by omega) | exact hneA6 (by omega)
      | exact hneA7 (by omega) | simpa using hneA1 (by omega) | simpa using hneA2 (by omega) | simpa using hneA3 (by omega)
      | simpa using hneA4 (by omega) | simpa using hneA5 (by omega) | simpa using hneA6 (by omega) | simpa using hneA7 (by omega)
      | exact hneA1 (by simp_all) | exact hneA2 (by simp_all) | exact hneA3 (by simp_all) | exact hneA4 (by simp_all)
      | exact hneA5 (by simp_all) | exact hneA6 (by simp_all) | exact hneA7 (by simp_all)
  obtain ⟨e, res, e1, e2⟩ := transfer_volume_u (us' := (us.map (fun u => b1.start + b1.stop - u))) hb hb'' hv1 (C06.reverse_valid hv1) hv2 hv3 hs hs' hrat hnc htol
    (by simp)
    hus
    hadm'
    hvs
    hws
    (fun p hp => by
      rw [getD_map_lt _ _ hp]
      exact hsame _ (hok _ (getD_mem_of_lt us hp 0)))
  exact ⟨res, e1, e2, e.trans e1, pointwise_volume hb hb'' hv1 (C06.reverse_valid hv1) hv2 hv2 hv3 hv3 hs hs' hrat hnc htol (by simp) rfl rfl
    hus hadm' hvs hvs hws hws e⟩

/-- **C06 (`reverse`) ⇒ evaluate.**  Volumes, direction `v` (index 1): the reversed object evaluated at
`start + end - u` returns what the original returns at `u`, for admissible parameters `u` that are
an end of the domain or a point where fewer than `order` consecutive knots of `b2` coincide (at a
knot of full multiplicity the spline jumps and `evaluate` takes the right-hand limit on both
sides of the identity, see `Bridge_C06_reverse_jump`). -/
theorem Bridge_C06_reverse_volume_v {o : Obj K} {b1 b2 b3 : Basis K}
    (hb : o.bases = #[b1, b2, b3])
    (hv1 : b1.Valid) (hv2 : b2.Valid) (hv3 : b3.Valid) (hper : b2.periodic = -1)
    {nc : ℕ} (hs : o.cps.shape = [b1.numFunctions, b2.numFunctions, b3.numFunctions, nc])
    (hnc : o.rational = true → 1 ≤ nc)
    {tol : K} (htol : 0 < tol) {us vs ws : List K} (hus : ∀ u ∈ us, b1.Admissible tol u) (hvs : ∀ v ∈ vs, b2.Admissible tol v) (hws : ∀ w ∈ ws, b3.Admissible tol w)
    (hok : ∀ u ∈ vs, u = b2.start ∨ u = b2.stop ∨
      ∀ j, b2.kn j = u → b2.kn (j + (b2.order - 1)) ≠ u)
    (hneA1 : b1.periodic < 0 → us ≠ [] := by (first | assumption | (simp; done) | skip))
    (hneA2 : b2.periodic < 0 → vs ≠ [] := by (first | assumption | (simp; done) | skip))
    (hneA3 : b3.periodic < 0 → ws ≠ [] := by (first | assumption | (simp; done) | skip)) :
    ∃ res, o.evaluate tol [us, vs, ws] true = .ok res ∧
      res.shape = [us.length, vs.length, ws.length, o.dimension] ∧
      (o.reverse 1).evaluate tol [us, (vs.map (fun u => b2.start + b2.stop - u)), ws] true
        = .ok res ∧
      (o.reverse 1).evaluate tol [us, (vs.map (fun u => b2.start + b2.stop - u)), ws] false
        = o.evaluate tol [us, vs, ws] false := by
  have hb0 : o.basis 1 = b2 := by simp [Obj.basis, hb]
  have key := reverse_along o 1 (by rw [hs]; simp) (by rw [hb0]; exact hv2)
    (by rw [hb0]; exact hper) (by rw [hb0, hs]; rfl)
  rw [hb0] at key
  obtain ⟨hb', hrat, hsh, hsame⟩ := key
  have hb'' : (o.reverse 1).bases = #[b1, b2.reverse, b3] := by
    rw [hb', hb]; rfl
  have hs' : (o.reverse 1).cps.shape = [b1.numFunctions, b2.reverse.numFunctions, b3.numFunctions, nc] := by
    rw [hsh, hs, C06.reverse_numFunctions]
  have hadm' : ∀ u ∈ (vs.map (fun u => b2.start + b2.stop - u)), b2.reverse.Admissible tol u := fun u hu => by
    obtain ⟨u0, hu0, rfl⟩ := List.mem_map.mp hu
    exact admissible_reverse hv2 hper (hvs u0 hu0)
  have hneB1 : b2.reverse.periodic < 0 → List.map (fun u => b2.start + b2.stop - u) vs ≠ [] := by
    intro h
    first
      | exact hneA1 h | exact hneA2 h | exact hneA3 h | exact hneA4 h
      | exact hneA5 h | exact hneA6 h | exact hneA7 h | simpa using hneA1 h
      | simpa using hneA2 h | simpa using hneA3 h | simpa using hneA4 h | simpa using hneA5 h
      | simpa using hneA6 h | simpa using hneA7 h | exact hneA1 (by omega) | exact hneA2 (by omega)
      | exact hneA3 (by omega) | exact hneA4 (by omega) | exact hneA5 (by omega) | exact hneA6 (by omega)
      | exact hneA7 (by omega) | simpa using hneA1 (by omega) | simpa using hneA2 (by omega) | simpa using hneA3 (by omega)
      | simpa using hneA4 (by omega) | simpa using hneA5 (by omega) | simpa using hneA6 (by omega) | simpa using hneA7 (by omega)
      | exact hneA1 (by simp_all) | exact hneA2 (by simp_all) | exact hneA3 (by simp_all) | exact hneA4 (by simp_all)
      | exact hneA5 (by simp_all) | exact hneA6 (by simp_all) | exact hneA7 (by simp_all)
  obtain ⟨e, res, e1, e2⟩ := transfer_volume_v (vs' := (vs.map (fun u => b2.start + b2.stop - u))) hb hb'' hv1 hv2 (C06.reverse_valid hv2) hv3 hs hs' hrat hnc htol
    (by simp)
    hus
    hvs
    hadm'
    hws
    (fun p hp => by
      rw [getD_map_lt _ _ hp]
      exact hsame _ (hok _ (getD_mem_of_lt vs hp 0)))
  exact ⟨res, e1, e2, e.trans e1, pointwise_volume hb hb'' hv1 hv1 hv2 (C06.reverse_valid hv2) hv3 hv3 hs hs' hrat hnc htol rfl (by simp) rfl
    hus hus hvs hadm' hws hws e⟩

/-- **C06 (`reverse`) ⇒ evaluate.**  Volumes, direction `w` (index 2): the reversed object evaluated at
`start + end - u` returns what the original returns at `u`, for admissible parameters `u` that are
an end of the domain or a point where fewer than `order` consecutive knots of `b3` coincide (at a
knot of full multiplicity the spline jumps and `evaluate` takes the right-hand limit on both
sides of the identity, see `Bridge_C06_reverse_jump`). -/
theorem Bridge_C06_reverse_volume_w {o : Obj K} {b1 b2 b3 : Basis K}
    (hb : o.bases = #[b1, b2, b3])
    (hv1 : b1.Valid) (hv2 : b2.Valid) (hv3 : b3.Valid) (hper : b3.periodic = -1)
    {nc : ℕ} (hs : o.cps.shape = [b1.numFunctions, b2.numFunctions, b3.numFunctions, nc])
    (hnc : o.rational = true → 1 ≤ nc)
    {tol : K} (htol : 0 < tol) {us vs ws : List K} (hus : ∀ u ∈ us, b1.Admissible tol u) (hvs : ∀ v ∈ vs, b2.Admissible tol v) (hws : ∀ w ∈ ws, b3.Admissible tol w)
    (hok : ∀ u ∈ ws, u = b3.start ∨ u = b3.stop ∨
      ∀ j, b3.kn j = u → b3.kn (j + (b3.order - 1)) ≠ u)
    (hneA1 : b1.periodic < 0 → us ≠ [] := by (first | assumption | (simp; done) | skip))
    (hneA2 : b2.periodic < 0 → vs ≠ [] := by (first | assumption | (simp; done) | skip))
    (hneA3 : b3.periodic < 0 → ws ≠ [] := by (first | assumption | (simp; done) | skip)) :
    ∃ res, o.evaluate tol [us, vs, ws] true = .ok res ∧
      res.shape = [us.length, vs.length, ws.length, o.dimension] ∧
      (o.reverse 2).evaluate tol [us, vs, (ws.map (fun u => b3.start + b3.stop - u))] true
        = .ok res ∧
      (o.reverse 2).evaluate tol [us, vs, (ws.map (fun u => b3.start + b3.stop - u))] false
        = o.evaluate tol [us, vs, ws] false := by
  have hb0 : o.basis 2 = b3 := by simp [Obj.basis, hb]
  have key := reverse_along o 2 (by rw [hs]; simp) (by rw [hb0]; exact hv3)
    (by rw [hb0]; exact hper) (by rw [hb0, hs]; rfl)
  rw [hb0] at key
  obtain ⟨hb', hrat, hsh, hsame⟩ := key
  have hb'' : (o.reverse 2).bases = #[b1, b2, b3.reverse] := by
    rw [hb', hb]; rfl
  have hs' : (o.reverse 2).cps.shape = [b1.numFunctions, b2.numFunctions, b3.reverse.numFunctions, nc] := by
    rw [hsh, hs, C06.reverse_numFunctions]
  have hadm' : ∀ u ∈ (ws.map (fun u => b3.start + b3.stop - u)), b3.reverse.Admissible tol u := fun u hu => by
    obtain ⟨u0, hu0, rfl⟩ := List.mem_map.mp hu
    exact admissible_reverse hv3 hper (hws u0 hu0)
  have hneB1 : b3.reverse.periodic < 0 → List.map (fun u => b3.start + b3.stop - u) ws ≠ [] := by
    intro h
    first
      | exact hneA1 h | exact hneA2 h | exact hneA3 h | exact hneA4 h
      | exact hneA5 h | exact hneA6 h | exact hneA7 h | simpa using hneA1 h
      | simpa using hneA2 h | simpa using hneA3 h | simpa using hneA4 h | simpa using hneA5 h
      | simpa using hneA6 h | simpa using hneA7 h | exact hneA1 (by omega) | exact hneA2 (by omega)
      | exact hneA3 (by omega) | exact hneA4 (by omega) | exact hneA5 (by omega) | exact hneA6 (by omega)
      | exact hneA7 (by omega) | simpa using hneA1 (by omega) | simpa using hneA2 (by omega) | simpa using hneA3 (by omega)
      | simpa using hneA4 (by omega) | simpa using hneA5 (by omega) | simpa using hneA6 (by omega) | simpa using hneA7 (by omega)
      | exact hneA1 (by simp_all) | exact hneA2 (by simp_all) | exact hneA3 (by simp_all) | exact hneA4 (by simp_all)
      | exact hneA5 (by simp_all) | exact hneA6 (by simp_all) | exact hneA7 (by simp_all)
  obtain ⟨e, res, e1, e2⟩ := transfer_volume_w (ws' := (ws.map (fun u => b3.start + b3.stop - u))) hb hb'' hv1 hv2 hv3 (C06.reverse_valid hv3) hs hs' hrat hnc htol
    (by simp)
    hus
    hvs
    hws
    hadm'
    (fun p hp => by
      rw [getD_map_lt _ _ hp]
      exact hsame _ (hok _ (getD_mem_of_lt ws hp 0)))
  exact ⟨res, e1, e2, e.trans e1, pointwise_volume hb hb'' hv1 hv1 hv2 hv2 hv3 (C06.reverse_valid hv3) hs hs' hrat hnc htol rfl rfl (by simp)
    hus hus hvs hvs hws hadm' e⟩

/-! ## C06 — reparam -/

/-- **C06 (`reparam`) ⇒ evaluate.**  Curves: re-parametrising the valid
non-periodic basis `b1` to `[s, e]` (`b1.reparam s e = .ok b1'`) succeeds on the object, and
the new object evaluated at the affinely mapped parameters returns what the original returns at
`u` (the mapped parameters must be admissible for the new basis: tolerances do not scale). -/
theorem Bridge_C06_reparam_curve {o : Obj K} {b1 : Basis K}
    (hb : o.bases = #[b1])
    (hv1 : b1.Valid) (hper : b1.periodic = -1)
    {nc : ℕ} (hs : o.cps.shape = [b1.numFunctions, nc])
    (hnc : o.rational = true → 1 ≤ nc)
    {s e : K} {b1' : Basis K} (hrep : b1.reparam s e = .ok b1')
    {tol : K} (htol : 0 < tol) {us : List K} (hus : ∀ u ∈ us, b1.Admissible tol u)
    (hus' : ∀ u ∈ us,
      b1'.Admissible tol (s + (u - b1.start) * (e - s) / (b1.stop - b1.start)))
    (hneA1 : b1.periodic < 0 → us ≠ [] := by (first | assumption | (simp; done) | skip)) :
    ∃ o' res, o.reparamDir 0 s e = .ok o' ∧ o.evaluate tol [us] true = .ok res ∧
      res.shape = [us.length, o.dimension] ∧
      o'.evaluate tol [(us.map (fun u => s + (u - b1.start) * (e - s) / (b1.stop - b1.start)))] true
        = .ok res ∧
      o'.evaluate tol [(us.map (fun u => s + (u - b1.start) * (e - s) / (b1.stop - b1.start)))] false
        = o.evaluate tol [us] false := by
  have hb0 : o.basis 0 = b1 := by simp [Obj.basis, hb]
  have hse : s < e := by
    by_contra hc
    rw [C06.reparam_error _ (not_lt.mp hc)] at hrep
    cases hrep
  have hbd' : b1' = C06.reparamOk b1 s e := by
    rw [C06.reparam_ok _ hse] at hrep
    injection hrep with hrep
    exact hrep.symm
  subst hbd'
  have hdir := C06.reparamDir_ok o 0 hse
  have key := reparam_along o 0 (by rw [hb0]; exact hv1) (by rw [hb0]; exact hper) hdir
  rw [hb0] at key
  obtain ⟨_, hb', hv', hper', hn', _, _, hrat, hcps, hsame⟩ := key
  have hb'' : (C06.reparamObj o 0 s e).bases
      = #[C06.reparamOk b1 s e] := by
    rw [hb', hb]; rfl
  have hs' : (C06.reparamObj o 0 s e).cps.shape
      = [(C06.reparamOk b1 s e).numFunctions, nc] := by
    rw [hcps, hs, hn']
  have hadm' : ∀ u ∈ (us.map (fun u => s + (u - b1.start) * (e - s) / (b1.stop - b1.start))), (C06.reparamOk b1 s e).Admissible tol u := fun u hu => by
    obtain ⟨u0, hu0, rfl⟩ := List.mem_map.mp hu
    exact hus' u0 hu0
  have hneB1 : (C06.reparamOk b1 s e).periodic < 0 → List.map (fun u => s + (u - b1.start) * (e - s) / (b1.stop - b1.start)) us ≠ [] := by
    intro h
    first
      | exact hneA1 h | exact hneA2 h | exact hneA3 h | exact hneA4 h
      | exact hneA5 h | exact hneA6 h | exact hneA7 h | simpa using hneA1 h
      | simpa using hneA2 h | simpa using hneA3 h | simpa using hneA4 h | simpa using hneA5 h
      | simpa using hneA6 h | simpa using hneA7 h | exact hneA1 (by omega) | exact hneA2 (by omega)
      | exact hneA3 (by omega) | exact hneA4 (by omega) | exact hneA5 (by omega) | exact hneA6 (by omega)
      | exact hneA7 (by omega) | simpa using hneA1 (by omega) | simpa using hneA2 (by omega) | simpa using hneA3 (by omega)
      | simpa using hneA4 (by omega) | simpa using hneA5 (by omega) | simpa using hneA6 (by omega) | simpa using hneA7 (by omega)
      | exact hneA1 (by simp_all) | exact hneA2 (by simp_all) | exact hneA3 (by simp_all) | exact hneA4 (by simp_all)
      | exact hneA5 (by simp_all) | exact hneA6 (by simp_all) | exact hneA7 (by simp_all)
  obtain ⟨e, res, e1, e2⟩ := transfer_curve (us' := (us.map (fun u => s + (u - b1.start) * (e - s) / (b1.stop - b1.start)))) hb hb'' hv1 hv' hs hs' hrat hnc htol
    (by simp)
    hus
    hadm'
    (fun p hp => by
      rw [getD_map_lt _ _ hp]
      exact hsame _)
  exact ⟨_, res, hdir, e1, e2, e.trans e1, pointwise_curve hb hb'' hv1 hv' hs hs' hrat hnc htol (by simp)
    hus hadm' e⟩

/-- **C06 (`reparam`) ⇒ evaluate.**  Surfaces, direction `u` (index 0): re-parametrising the valid
non-periodic basis `b1` to `[s, e]` (`b1.reparam s e = .ok b1'`) succeeds on the object, and
the new object evaluated at the affinely mapped parameters returns what the original returns at
`u` (the mapped parameters must be admissible for the new basis: tolerances do not scale). -/
theorem Bridge_C06_reparam_surface_u {o : Obj K} {b1 b2 : Basis K}
    (hb : o.bases = #[b1, b2])
    (hv1 : b1.Valid) (hv2 : b2.Valid) (hper : b1.periodic = -1)
    {nc : ℕ} (hs : o.cps.shape = [b1.numFunctions, b2.numFunctions, nc])
    (hnc : o.rational = true → 1 ≤ nc)
    {s e : K} {b1' : Basis K} (hrep : b1.reparam s e = .ok b1')
    {tol : K} (htol : 0 < tol) {us vs : List K} (hus : ∀ u ∈ us, b1.Admissible tol u) (hvs : ∀ v ∈ vs, b2.Admissible tol v)
    (hus' : ∀ u ∈ us,
      b1'.Admissible tol (s + (u - b1.start) * (e - s) / (b1.stop - b1.start)))
    (hneA1 : b1.periodic < 0 → us ≠ [] := by (first | assumption | (simp; done) | skip))
    (hneA2 : b2.periodic < 0 → vs ≠ [] := by (first | assumption | (simp; done) | skip)) :
    ∃ o' res, o.reparamDir 0 s e = .ok o' ∧ o.evaluate tol [us, vs] true = .ok res ∧
      res.shape = [us.length, vs.length, o.dimension] ∧
      o'.evaluate tol [(us.map (fun u => s + (u - b1.start) * (e - s) / (b1.stop - b1.start))), vs] true
        = .ok res ∧
      o'.evaluate tol [(us.map (fun u => s + (u - b1.start) * (e - s) / (b1.stop - b1.start))), vs] false
        = o.evaluate tol [us, vs] false := by
  have hb0 : o.basis 0 = b1 := by simp [Obj.basis, hb]
  have hse : s < e := by
    by_contra hc
    rw [C06.reparam_error _ (not_lt.mp hc)] at hrep
    cases hrep
  have hbd' : b1' = C06.reparamOk b1 s e := by
    rw [C06.reparam_ok _ hse] at hrep
    injection hrep with hrep
    exact hrep.symm
  subst hbd'
  have hdir := C06.reparamDir_ok o 0 hse
  have key := reparam_along o 0 (by rw [hb0]; exact hv1) (by rw [hb0]; exact hper) hdir
  rw [hb0] at key
  obtain ⟨_, hb', hv', hper', hn', _, _, hrat, hcps, hsame⟩ := key
  have hb'' : (C06.reparamObj o 0 s e).bases
      = #[C06.reparamOk b1 s e, b2] := by
    rw [hb', hb]; rfl
  have hs' : (C06.reparamObj o 0 s e).cps.shape
      = [(C06.reparamOk b1 s e).numFunctions, b2.numFunctions, nc] := by
    rw [hcps, hs, hn']
  have hadm' : ∀ u ∈ (us.map (fun u => s + (u - b1.start) * (e - s) / (b1.stop - b1.start))), (C06.reparamOk b1 s e).Admissible tol u := fun u hu => by
    obtain ⟨u0, hu0, rfl⟩ := List.mem_map.mp hu
    exact hus' u0 hu0
  have hneB1 : (C06.reparamOk b1 s e).periodic < 0 → List.map (fun u => s + (u - b1.start) * (e - s) / (b1.stop - b1.start)) us ≠ [] := by
    intro h
    first
      | exact hneA1 h | exact hneA2 h | exact hneA3 h | exact hneA4 h
      | exact hneA5 h | exact hneA6 h | exact hneA7 h | simpa using hneA1 h
      | simpa using hneA2 h | simpa using hneA3 h | simpa using hneA4 h | simpa using hneA5 h
      | simpa using hneA6 h | simpa using hneA7 h | exact hneA1 (by omega) | exact hneA2 (by omega)
      | exact hneA3 (by omega) | exact hneA4 (by omega) | exact hneA5 (by omega) | exact hneA6 (by omega)
      | exact hneA7 (by omega) | simpa using hneA1 (by omega) | simpa using hneA2 (by omega) | simpa using hneA3 (by omega)
      | simpa using hneA4 (by omega) | simpa using hneA5 (by omega) | simpa using hneA6 (by omega) | simpa using hneA7 (by omega)
      | exact hneA1 (by simp_all) | exact hneA2 (by simp_all) | exact hneA3 (by simp_all) | exact hneA4 (by simp_all)
      | exact hneA5 (by simp_all) | exact hneA6 (by simp_all) | exact hneA7 (by simp_all)
  obtain ⟨e, res, e1, e2⟩ := transfer_surface_u (us' := (us.map (fun u => s + (u - b1.start) * (e - s) / (b1.stop - b1.start)))) hb hb'' hv1 hv' hv2 hs hs' hrat hnc htol
    (by simp)
    hus
    hadm'
    hvs
    (fun p hp => by
      rw [getD_map_lt _ _ hp]
      exact hsame _)
  exact ⟨_, res, hdir, e1, e2, e.trans e1, pointwise_surface hb hb'' hv1 hv' hv2 hv2 hs hs' hrat hnc htol (by simp) rfl
    hus hadm' hvs hvs e⟩

/-- **C06 (`reparam`) ⇒ evaluate.**  Surfaces, direction `v` (index 1): re-parametrising the valid
non-periodic basis `b2` to `[s, e]` (`b2.reparam s e = .ok b2'`) succeeds on the object, and
the new object evaluated at the affinely mapped parameters returns what the original returns at
`u` (the mapped parameters must be admissible for the new basis: tolerances do not scale). -/
theorem Bridge_C06_reparam_surface_v {o : Obj K} {b1 b2 : Basis K}
    (hb : o.bases = #[b1, b2])
    (hv1 : b1.Valid) (hv2 : b2.Valid) (hper : b2.periodic = -1)
    {nc : ℕ} (hs : o.cps.shape = [b1.numFunctions, b2.numFunctions, nc])
    (hnc : o.rational = true → 1 ≤ nc)
    {s e : K} {b2' : Basis K} (hrep : b2.reparam s e = .ok b2')
    {tol : K} (htol : 0 < tol) {us vs : List K} (hus : ∀ u ∈ us, b1.Admissible tol u) (hvs : ∀ v ∈ vs, b2.Admissible tol v)
    (hvs' : ∀ u ∈ vs,
      b2'.Admissible tol (s + (u - b2.start) * (e - s) / (b2.stop - b2.start)))
    (hneA1 : b1.periodic < 0 → us ≠ [] := by (first | assumption | (simp; done) | skip))
    (hneA2 : b2.periodic < 0 → vs ≠ [] := by (first | assumption | (simp; done) | skip)) :
    ∃ o' res, o.reparamDir 1 s e = .ok o' ∧ o.evaluate tol [us, vs] true = .ok res ∧
      res.shape = [us.length, vs.length, o.dimension] ∧
      o'.evaluate tol [us, (vs.map (fun u => s + (u - b2.start) * (e - s) / (b2.stop - b2.start)))] true
        = .ok res ∧
      o'.evaluate tol [us, (vs.map (fun u => s + (u - b2.start) * (e - s) / (b2.stop - b2.start)))] false
        = o.evaluate tol [us, vs] false := by
  have hb0 : o.basis 1 = b2 := by simp [Obj.basis, hb]
  have hse : s < e := by
    by_contra hc
    rw [C06.reparam_error _ (not_lt.mp hc)] at hrep
    cases hrep
  have hbd' : b2' = C06.reparamOk b2 s e := by
    rw [C06.reparam_ok _ hse] at hrep
    injection hrep with hrep
    exact hrep.symm
  subst hbd'
  have hdir := C06.reparamDir_ok o 1 hse
  have key := reparam_along o 1 (by rw [hb0]; exact hv2) (by rw [hb0]; exact hper) hdir
  rw [hb0] at key
  obtain ⟨_, hb', hv', hper', hn', _, _, hrat, hcps, hsame⟩ := key
  have hb'' : (C06.reparamObj o 1 s e).bases
      = #[b1, C06.reparamOk b2 s e] := by
    rw [hb', hb]; rfl
  have hs' : (C06.reparamObj o 1 s e).cps.shape
      = [b1.numFunctions, (C06.reparamOk b2 s e).numFunctions, nc] := by
    rw [hcps, hs, hn']
  have hadm' : ∀ u ∈ (vs.map (fun u => s + (u - b2.start) * (e - s) / (b2.stop - b2.start))), (C06.reparamOk b2 s e).Admissible tol u := fun u hu => by
    obtain ⟨u0, hu0, rfl⟩ := List.mem_map.mp hu
    exact hvs' u0 hu0
  have hneB1 : (C06.reparamOk b2 s e).periodic < 0 → List.map (fun u => s + (u - b2.start) * (e - s) / (b2.stop - b2.start)) vs ≠ [] := by
    intro h
    first
      | exact hneA1 h | exact hneA2 h | exact hneA3 h | exact hneA4 h
      | exact hneA5 h | exact hneA6 h | exact hneA7 h | simpa using hneA1 h
      | simpa using hneA2 h | simpa using hneA3 h | simpa using hneA4 h | simpa using hneA5 h
      | simpa using hneA6 h | simpa using hneA7 h | exact hneA1 (by omega) | exact hneA2 (by omega)
      | exact hneA3 (by omega) | exact hneA4 (by omega) | exact hneA5 (by omega) | exact hneA6 (by omega)
      | exact hneA7 (by omega) | simpa using hneA1 (by omega) | simpa using hneA2 (by omega) | simpa using hneA3 (by omega)
      | simpa using hneA4 (by omega) | simpa using hneA5 (by omega) | simpa using hneA6 (by omega) | simpa using hneA7 (by omega)
      | exact hneA1 (by simp_all) | exact hneA2 (by simp_all) | exact hneA3 (by simp_all) | exact hneA4 (by simp_all)
      | exact hneA5 (by simp_all) | exact hneA6 (by simp_all) | exact hneA7 (by simp_all)
  obtain ⟨e, res, e1, e2⟩ := transfer_surface_v (vs' := (vs.map (fun u => s + (u - b2.start) * (e - s) / (b2.stop - b2.start)))) hb hb'' hv1 hv2 hv' hs hs' hrat hnc htol
    (by simp)
    hus
    hvs
    hadm'
    (fun p hp => by
      rw [getD_map_lt _ _ hp]
      exact hsame _)
  exact ⟨_, res, hdir, e1, e2, e.trans e1, pointwise_surface hb hb'' hv1 hv1 hv2 hv' hs hs' hrat hnc htol rfl (by simp)
    hus hus hvs hadm' e⟩

/-- **C06 (`reparam`) ⇒ evaluate.**  Volumes, direction `u` (index 0): re-parametrising the valid
non-periodic basis `b1` to `[s, e]` (`b1.reparam s e = .ok b1'`) succeeds on the object, and
the new object evaluated at the affinely mapped parameters returns what the original returns at
`u` (the mapped parameters must be admissible for the new basis: tolerances do not scale). -/
theorem Bridge_C06_reparam_volume_u {o : Obj K} {b1 b2 b3 : Basis K}
    (hb : o.bases = #[b1, b2, b3])
    (hv1 : b1.Valid) (hv2 : b2.Valid) (hv3 : b3.Valid) (hper : b1.periodic = -1)
    {nc : ℕ} (hs : o.cps.shape = [b1.numFunctions, b2.numFunctions, b3.numFunctions, nc])
    (hnc : o.rational = true → 1 ≤ nc)
    {s e : K} {b1' : Basis K} (hrep : b1.reparam s e = .ok b1')
    {tol : K} (htol : 0 < tol) {us vs ws : List K} (hus : ∀ u ∈ us, b1.Admissible tol u) (hvs : ∀ v ∈ vs, b2.Admissible tol v) (hws : ∀ w ∈ ws, b3.Admissible tol w)
    (hus' : ∀ u ∈ us,
      b1'.Admissible tol (s + (u - b1.start) * (e - s) / (b1.stop - b1.start)))
    (hneA1 : b1.periodic < 0 → us ≠ [] := by (first | assumption | (simp; done) | skip))
    (hneA2 : b2.periodic < 0 → vs ≠ [] := by (first | assumption | (simp; done) | skip))
    (hneA3 : b3.periodic < 0 → ws ≠ [] := by (first | assumption | (simp; done) | skip)) :
    ∃ o' res, o.reparamDir 0 s e = .ok o' ∧ o.evaluate tol [us, vs, ws] true = .ok res ∧
      res.shape = [us.length, vs.length, ws.length, o.dimension] ∧
      o'.evaluate tol [(us.map (fun u => s + (u - b1.start) * (e - s) / (b1.stop - b1.start))), vs, ws] true
        = .ok res ∧
      o'.evaluate tol [(us.map (fun u => s + (u - b1.start) * (e - s) / (b1.stop - b1.start))), vs, ws] false
        = o.evaluate tol [us, vs, ws] false := by
  have hb0 : o.basis 0 = b1 := by simp [Obj.basis, hb]
  have hse : s < e := by
    by_contra hc
    rw [C06.reparam_error _ (not_lt.mp hc)] at hrep
    cases hrep
  have hbd' : b1' = C06.reparamOk b1 s e := by
    rw [C06.reparam_ok _ hse] at hrep
    injection hrep with hrep
    exact hrep.symm
  subst hbd'
  have hdir := C06.reparamDir_ok o 0 hse
  have key := reparam_along o 0 (by rw [hb0]; exact hv1) (by rw [hb0]; exact hper) hdir
  rw [hb0] at key
  obtain ⟨_, hb', hv', hper', hn', _, _, hrat, hcps, hsame⟩ := key
  have hb'' : (C06.reparamObj o 0 s e).bases
      = #[C06.reparamOk b1 s e, b2, b3] := by
    rw [hb', hb]; rfl
  have hs' : (C06.reparamObj o 0 s e).cps.shape
      = [(C06.reparamOk b1 s e).numFunctions, b2.numFunctions, b3.numFunctions, nc] := by
    rw [hcps, hs, hn']
  have hadm' : ∀ u ∈ (us.map (fun u => s + (u - b1.start) * (e - s) / (b1.stop - b1.start))), (C06.reparamOk b1 s e).Admissible tol u := fun u hu => by
    obtain ⟨u0, hu0, rfl⟩ := List.mem_map.mp hu
    exact hus' u0 hu0
  have hneB1 : (C06.reparamOk b1 s e).periodic < 0 → List.map (fun u => s + (u - b1.start) * (e - s) / (b1.stop - b1.start)) us ≠ [] := by
    intro h
    first
      | exact hneA1 h | exact hneA2 h | exact hneA3 h | exact hneA4 h
      | exact hneA5 h | exact hneA6 h | exact hneA7 h | simpa using hneA1 h
      | simpa using hneA2 h | simpa using hneA3 h | simpa using hneA4 h | simpa using hneA5 h
      | simpa using hneA6 h | simpa using hneA7 h | exact hneA1 (by omega) | exact hneA2 (by omega)
      | exact hneA3 (by omega) | exact hneA4 (by omega) | exact hneA5 (by omega) | exact hneA6 (by omega)
      | exact hneA7 (by omega) | simpa using hneA1 (by omega) | simpa using hneA2 (by omega) | simpa using hneA3 (by omega)
      | simpa using hneA4 (by omega) | simpa using hneA5 (by omega) | simpa using hneA6 (by omega) | simpa using hneA7 (by omega)
      | exact hneA1 (by simp_all) | exact hneA2 (by simp_all) | exact hneA3 (by simp_all) | exact hneA4 (by simp_all)
      | exact hneA5 (by simp_all) | exact hneA6 (by simp_all) | exact hneA7 (by simp_all)
  obtain ⟨e, res, e1, e2⟩ := transfer_volume_u (us' := (us.map (fun u => s + (u - b1.start) * (e - s) / (b1.stop - b1.start)))) hb hb'' hv1 hv' hv2 hv3 hs hs' hrat hnc htol
    (by simp)
    hus
    hadm'
    hvs
    hws
    (fun p hp => by
      rw [getD_map_lt _ _ hp]
      exact hsame _)
  exact ⟨_, res, hdir, e1, e2, e.trans e1, pointwise_volume hb hb'' hv1 hv' hv2 hv2 hv3 hv3 hs hs' hrat hnc htol (by simp) rfl rfl
    hus hadm' hvs hvs hws hws e⟩

/-- **C06 (`reparam`) ⇒ evaluate.**  Volumes, direction `v` (index 1): re-parametrising the valid
non-periodic basis `b2` to `[s, e]` (`b2.reparam s e = .ok b2'`) succeeds on the object, and
the new object evaluated at the affinely mapped parameters returns what the original returns at
`u` (the mapped parameters must be admissible for the new basis: tolerances do not scale). -/
theorem Bridge_C06_reparam_volume_v {o : Obj K} {b1 b2 b3 : Basis K}
    (hb : o.bases = #[b1, b2, b3])
    (hv1 : b1.Valid) (hv2 : b2.Valid) (hv3 : b3.Valid) (hper : b2.periodic = -1)
    {nc : ℕ} (hs : o.cps.shape = [b1.numFunctions, b2.numFunctions, b3.numFunctions, nc])
    (hnc : o.rational = true → 1 ≤ nc)
    {s e : K} {b2' : Basis K} (hrep : b2.reparam s e = .ok b2')
    {tol : K} (htol : 0 < tol) {us vs ws : List K} (hus : ∀ u ∈ us, b1.Admissible tol u) (hvs : ∀ v ∈ vs, b2.Admissible tol v) (hws : ∀ w ∈ ws, b3.Admissible tol w)
    (hvs' : ∀ u ∈ vs,
      b2'.Admissible tol (s + (u - b2.start) * (e - s) / (b2.stop - b2.start)))
    (hneA1 : b1.periodic < 0 → us ≠ [] := by (first | assumption | (simp; done) | skip))
    (hneA2 : b2.periodic < 0 → vs ≠ [] := by (first | assumption | (simp; done) | skip))
    (hneA3 : b3.periodic < 0 → ws ≠ [] := by (first | assumption | (simp; done) | skip)) :
    ∃ o' res, o.reparamDir 1 s e = .ok o' ∧ o.evaluate tol [us, vs, ws] true = .ok res ∧
      res.shape = [us.length, vs.length, ws.length, o.dimension] ∧
      o'.evaluate tol [us, (vs.map (fun u => s + (u - b2.start) * (e - s) / (b2.stop - b2.start))), ws] true
        = .ok res ∧
      o'.evaluate tol [us, (vs.map (fun u => s + (u - b2.start) * (e - s) / (b2.stop - b2.start))), ws] false
        = o.evaluate tol [us, vs, ws] false := by
  have hb0 : o.basis 1 = b2 := by simp [Obj.basis, hb]
  have hse : s < e := by
    by_contra hc
    rw [C06.reparam_error _ (not_lt.mp hc)] at hrep
    cases hrep
  have hbd' : b2' = C06.reparamOk b2 s e := by
    rw [C06.reparam_ok _ hse] at hrep
    injection hrep with hrep
    exact hrep.symm
  subst hbd'
  have hdir := C06.reparamDir_ok o 1 hse
  have key := reparam_along o 1 (by rw [hb0]; exact hv2) (by rw [hb0]; exact hper) hdir
  rw [hb0] at key
  obtain ⟨_, hb', hv', hper', hn', _, _, hrat, hcps, hsame⟩ := key
  have hb'' : (C06.reparamObj o 1 s e).bases
      = #[b1, C06.reparamOk b2 s e, b3] := by
    rw [hb', hb]; rfl
  have hs' : (C06.reparamObj o 1 s e).cps.shape
      = [b1.numFunctions, (C06.reparamOk b2 s e).numFunctions, b3.numFunctions, nc] := by
    rw [hcps, hs, hn']
  have hadm' : ∀ u ∈ (vs.map (fun u => s + (u - b2.start) * (e - s) / (b2.stop - b2.start))), (C06.reparamOk b2 s e).Admissible tol u := fun u hu => by
    obtain ⟨u0, hu0, rfl⟩ := List.mem_map.mp hu
    exact hvs' u0 hu0
  have hneB1 : (C06.reparamOk b2 s e).periodic < 0 → List.map (fun u => s + (u - b2.start) * (e - s) / (b2.stop - b2.start)) vs ≠ [] := by
    intro h
    first
      | exact hneA1 h | exact hneA2 h | exact hneA3 h | exact hneA4 h
      | exact hneA5 h | exact hneA6 h | exact hneA7 h | simpa using hneA1 h
      | simpa using hneA2 h | simpa using hneA3 h | simpa using hneA4 h | simpa using hneA5 h
      | simpa using hneA6 h | simpa using hneA7 h | exact hneA1 (by omega) | exact hneA2 (by omega)
      | exact hneA3 (by omega) | exact hneA4 (by omega) | exact hneA5 (by omega) | exact hneA6 (by omega)
      | exact hneA7 (by omega) | simpa using hneA1 (by omega) | simpa using hneA2 (by omega) | simpa using hneA3 (by omega)
      | simpa using hneA4 (by omega) | simpa using hneA5 (by omega) | simpa using hneA6 (by omega) | simpa using hneA7 (by omega)
      | exact hneA1 (by simp_all) | exact hneA2 (by simp_all) | exact hneA3 (by simp_all) | exact hneA4 (by simp_all)
      | exact hneA5 (by simp_all) | exact hneA6 (by simp_all) | exact hneA7 (by simp_all)
  obtain ⟨e, res, e1, e2⟩ := transfer_volume_v (vs' := (vs.map (fun u => s + (u - b2.start) * (e - s) / (b2.stop - b2.start)))) hb hb'' hv1 hv2 hv' hv3 hs hs' hrat hnc htol
    (by simp)
    hus
    hvs
    hadm'
    hws
    (fun p hp => by
      rw [getD_map_lt _ _ hp]
      exact hsame _)
  exact ⟨_, res, hdir, e1, e2, e.trans e1, pointwise_volume hb hb'' hv1 hv1 hv2 hv' hv3 hv3 hs hs' hrat hnc htol rfl (by simp) rfl
    hus hus hvs hadm' hws hws e⟩

/-- **C06 (`reparam`) ⇒ evaluate.**  Volumes, direction `w` (index 2): re-parametrising the valid
non-periodic basis `b3` to `[s, e]` (`b3.reparam s e = .ok b3'`) succeeds on the object, and
the new object evaluated at the affinely mapped parameters returns what the original returns at
`u` (the mapped parameters must be admissible for the new basis: tolerances do not scale). -/
theorem Bridge_C06_reparam_volume_w {o : Obj K} {b1 b2 b3 : Basis K}
    (hb : o.bases = #[b1, b2, b3])
    (hv1 : b1.Valid) (hv2 : b2.Valid) (hv3 : b3.Valid) (hper : b3.periodic = -1)
    {nc : ℕ} (hs : o.cps.shape = [b1.numFunctions, b2.numFunctions, b3.numFunctions, nc])
    (hnc : o.rational = true → 1 ≤ nc)
    {s e : K} {b3' : Basis K} (hrep : b3.reparam s e = .ok b3')
    {tol : K} (htol : 0 < tol) {us vs ws : List K} (hus : ∀ u ∈ us, b1.Admissible tol u) (hvs : ∀ v ∈ vs, b2.Admissible tol v) (hws : ∀ w ∈ ws, b3.Admissible tol w)
    (hws' : ∀ u ∈ ws,
      b3'.Admissible tol (s + (u - b3.start) * (e - s) / (b3.stop - b3.start)))
    (hneA1 : b1.periodic < 0 → us ≠ [] := by (first | assumption | (simp; done) | skip))
    (hneA2 : b2.periodic < 0 → vs ≠ [] := by (first | assumption | (simp; done) | skip))
    (hneA3 : b3.periodic < 0 → ws ≠ [] := by (first | assumption | (simp; done) | skip)) :
    ∃ o' res, o.reparamDir 2 s e = .ok o' ∧ o.evaluate tol [us, vs, ws] true = .ok res ∧
      res.shape = [us.length, vs.length, ws.length, o.dimension] ∧
      o'.evaluate tol [us, vs, (ws.map (fun u => s + (u - b3.start) * (e - s) / (b3.stop - b3.start)))] true
        = .ok res ∧
      o'.evaluate tol [us, vs, (ws.map (fun u => s + (u - b3.start) * (e - s) / (b3.stop - b3.start)))] false
        = o.evaluate tol [us, vs, ws] false := by
  have hb0 : o.basis 2 = b3 := by simp [Obj.basis, hb]
  have hse : s < e := by
    by_contra hc
    rw [C06.reparam_error _ (not_lt.mp hc)] at hrep
    cases hrep
  have hbd' : b3' = C06.reparamOk b3 s e := by
    rw [C06.reparam_ok _ hse] at hrep
    injection hrep with hrep
    exact hrep.symm
  subst hbd'
  have hdir := C06.reparamDir_ok o 2 hse
  have key := reparam_along o 2 (by rw [hb0]; exact hv3) (by rw [hb0]; exact hper) hdir
  rw [hb0] at key
  obtain ⟨_, hb', hv', hper', hn', _, _, hrat, hcps, hsame⟩ := key
  have hb'' : (C06.reparamObj o 2 s e).bases
      = #[b1, b2, C06.reparamOk b3 s e] := by
    rw [hb', hb]; rfl
  have hs' : (C06.reparamObj o 2 s e).cps.shape
      = [b1.numFunctions, b2.numFunctions, (C06.reparamOk b3 s e).numFunctions, nc] := by
    rw [hcps, hs, hn']
  have hadm' : ∀ u ∈ (ws.map (fun u => s + (u - b3.start) * (e - s) / (b3.stop - b3.start))), (C06.reparamOk b3 s e).Admissible tol u := fun u hu => by
    obtain ⟨u0, hu0, rfl⟩ := List.mem_map.mp hu
    exact hws' u0 hu0
  have hneB1 : (C06.reparamOk b3 s e).periodic < 0 → List.map (fun u => s + (u - b3.start) * (e - s) / (b3.stop - b3.start)) ws ≠ [] := by
    intro h
    first
      | exact hneA1 h | exact hneA2 h | exact hneA3 h | exact hneA4 h
      | exact hneA5 h | exact hneA6 h | exact hneA7 h | simpa using hneA1 h
      | simpa using hneA2 h | simpa using hneA3 h | simpa using hneA4 h | simpa using hneA5 h
      | simpa using hneA6 h | simpa using hneA7 h | exact hneA1 (by omega) | exact hneA2 (by omega)
      | exact hneA3 (by omega) | exact hneA4 (by omega) | exact hneA5 (by omega) | exact hneA6 (by omega)
      | exact hneA7 (by omega) | simpa using hneA1 (by omega) | simpa using hneA2 (by omega) | simpa using hneA3 (by omega)
      | simpa using hneA4 (by omega) | simpa using hneA5 (by omega) | simpa using hneA6 (by omega) | simpa using hneA7 (by omega)
      | exact hneA1 (by simp_all) | exact hneA2 (by simp_all) | exact hneA3 (by simp_all) | exact hneA4 (by simp_all)
      | exact hneA5 (by simp_all) | exact hneA6 (by simp_all) | exact hneA7 (by simp_all)
  obtain ⟨e, res, e1, e2⟩ := transfer_volume_w (ws' := (ws.map (fun u => s + (u - b3.start) * (e - s) / (b3.stop - b3.start)))) hb hb'' hv1 hv2 hv3 hv' hs hs' hrat hnc htol
    (by simp)
    hus
    hvs
    hws
    hadm'
    (fun p hp => by
      rw [getD_map_lt _ _ hp]
      exact hsame _)
  exact ⟨_, res, hdir, e1, e2, e.trans e1, pointwise_volume hb hb'' hv1 hv1 hv2 hv2 hv3 hv' hs hs' hrat hnc htol rfl rfl (by simp)
    hus hus hvs hvs hws hadm' e⟩

/-! ## C09 — affine operations -/

/-- **C09 ⇒ evaluate.**  Curves, one operation (`translate`, `scale`, `rotate`, `mirror`,
`project`, `set_dimension`, `force_rational` and all operator forms): if the call succeeds, every
evaluated point of the result is the affine map `op.sem` applied to the (zero-padded) evaluated
point of the original, entry by entry; rational objects need positive weights. -/
theorem Bridge_C09_curve {o o' : Obj K} (op : AffOp K) (hadm : op.Admissible)
    (hop : op.inplace o = .ok o') {b1 : Basis K} (hb : o.bases = #[b1])
    (hv1 : b1.Valid)
    {nc : ℕ} (hs : o.cps.shape = [b1.numFunctions, nc]) (hnc : 0 < nc)
    (hdata : o.cps.data.size = b1.numFunctions * nc)
    (hw : o.rational = true → ∀ k, k < b1.numFunctions → 0 < o.cps.get (k * nc + (nc - 1)))
    {tol : K} (htol : 0 < tol) {us : List K} (hus : ∀ u ∈ us, b1.Admissible tol u)
    (hneA1 : b1.periodic < 0 → us ≠ [] := by (first | assumption | (simp; done) | skip)) :
    o'.dimension = op.newDim o.dimension ∧ o'.rational = op.newRational o.rational ∧
    ∃ res res', o.evaluate tol [us] true = .ok res ∧
      o'.evaluate tol [us] true = .ok res' ∧
      res.shape = [us.length, o.dimension] ∧
      res'.shape = [us.length, o'.dimension] ∧
      ∀ i1 c, i1 < us.length → c < o'.dimension →
        res'.get (i1 * o'.dimension + c)
          = (op.sem o.dimension).apply (fun c => if c < o.dimension
              then res.get (i1 * o.dimension + c) else 0) c := by
  obtain ⟨hwf, _, _⟩ := wf_of_shape (o := o) (pre := [b1.numFunctions]) hs hnc
    (by rw [hdata]; simp [Tensor.prod])
  obtain ⟨hA, hdim, hr⟩ := AffOp.inplace_acts hwf op hadm hop
  exact ⟨hdim, hr, acts_curve hA (inplace_dropLast op hop) hb hv1 hs hnc hdata hw htol
    hus⟩

/-- Curves, a sequence of operations: the composite affine map `AffOp.semList`. -/
theorem Bridge_C09_curve_run {o o' : Obj K} (ops : List (AffOp K))
    (hadm : ∀ op ∈ ops, op.Admissible) (hop : AffOp.run o ops = .ok o')
    {b1 : Basis K} (hb : o.bases = #[b1])
    (hv1 : b1.Valid)
    {nc : ℕ} (hs : o.cps.shape = [b1.numFunctions, nc]) (hnc : 0 < nc)
    (hdata : o.cps.data.size = b1.numFunctions * nc)
    (hw : o.rational = true → ∀ k, k < b1.numFunctions → 0 < o.cps.get (k * nc + (nc - 1)))
    {tol : K} (htol : 0 < tol) {us : List K} (hus : ∀ u ∈ us, b1.Admissible tol u)
    (hneA1 : b1.periodic < 0 → us ≠ [] := by (first | assumption | (simp; done) | skip)) :
    o'.dimension = AffOp.newDimList o.dimension ops ∧
    ∃ res res', o.evaluate tol [us] true = .ok res ∧
      o'.evaluate tol [us] true = .ok res' ∧
      res.shape = [us.length, o.dimension] ∧
      res'.shape = [us.length, o'.dimension] ∧
      ∀ i1 c, i1 < us.length → c < o'.dimension →
        res'.get (i1 * o'.dimension + c)
          = (AffOp.semList o.dimension ops).apply (fun c => if c < o.dimension
              then res.get (i1 * o.dimension + c) else 0) c := by
  obtain ⟨hwf, _, _⟩ := wf_of_shape (o := o) (pre := [b1.numFunctions]) hs hnc
    (by rw [hdata]; simp [Tensor.prod])
  obtain ⟨hA, hdim, _⟩ := AffOp.run_acts ops hwf hadm hop
  exact ⟨hdim, acts_curve hA (run_dropLast ops hop) hb hv1 hs hnc hdata hw htol
    hus⟩

/-- **C09 ⇒ evaluate.**  Surfaces, one operation (`translate`, `scale`, `rotate`, `mirror`,
`project`, `set_dimension`, `force_rational` and all operator forms): if the call succeeds, every
evaluated point of the result is the affine map `op.sem` applied to the (zero-padded) evaluated
point of the original, entry by entry; rational objects need positive weights. -/
theorem Bridge_C09_surface {o o' : Obj K} (op : AffOp K) (hadm : op.Admissible)
    (hop : op.inplace o = .ok o') {b1 b2 : Basis K} (hb : o.bases = #[b1, b2])
    (hv1 : b1.Valid) (hv2 : b2.Valid)
    {nc : ℕ} (hs : o.cps.shape = [b1.numFunctions, b2.numFunctions, nc]) (hnc : 0 < nc)
    (hdata : o.cps.data.size = b1.numFunctions * b2.numFunctions * nc)
    (hw : o.rational = true → ∀ k, k < b1.numFunctions * b2.numFunctions → 0 < o.cps.get (k * nc + (nc - 1)))
    {tol : K} (htol : 0 < tol) {us vs : List K} (hus : ∀ u ∈ us, b1.Admissible tol u) (hvs : ∀ v ∈ vs, b2.Admissible tol v)
    (hneA1 : b1.periodic < 0 → us ≠ [] := by (first | assumption | (simp; done) | skip))
    (hneA2 : b2.periodic < 0 → vs ≠ [] := by (first | assumption | (simp; done) | skip)) :
    o'.dimension = op.newDim o.dimension ∧ o'.rational = op.newRational o.rational ∧
    ∃ res res', o.evaluate tol [us, vs] true = .ok res ∧
      o'.evaluate tol [us, vs] true = .ok res' ∧
      res.shape = [us.length, vs.length, o.dimension] ∧
      res'.shape = [us.length, vs.length, o'.dimension] ∧
      ∀ i1 i2 c, i1 < us.length → i2 < vs.length → c < o'.dimension →
        res'.get ((i1 * vs.length + i2) * o'.dimension + c)
          = (op.sem o.dimension).apply (fun c => if c < o.dimension
              then res.get ((i1 * vs.length + i2) * o.dimension + c) else 0) c := by
  obtain ⟨hwf, _, _⟩ := wf_of_shape (o := o) (pre := [b1.numFunctions, b2.numFunctions]) hs hnc
    (by rw [hdata]; simp [Tensor.prod])
  obtain ⟨hA, hdim, hr⟩ := AffOp.inplace_acts hwf op hadm hop
  exact ⟨hdim, hr, acts_surface hA (inplace_dropLast op hop) hb hv1 hv2 hs hnc hdata hw htol
    hus hvs⟩

/-- Surfaces, a sequence of operations: the composite affine map `AffOp.semList`. -/
theorem Bridge_C09_surface_run {o o' : Obj K} (ops : List (AffOp K))
    (hadm : ∀ op ∈ ops, op.Admissible) (hop : AffOp.run o ops = .ok o')
    {b1 b2 : Basis K} (hb : o.bases = #[b1, b2])
    (hv1 : b1.Valid) (hv2 : b2.Valid)
    {nc : ℕ} (hs : o.cps.shape = [b1.numFunctions, b2.numFunctions, nc]) (hnc : 0 < nc)
    (hdata : o.cps.data.size = b1.numFunctions * b2.numFunctions * nc)
    (hw : o.rational = true → ∀ k, k < b1.numFunctions * b2.numFunctions → 0 < o.cps.get (k * nc + (nc - 1)))
    {tol : K} (htol : 0 < tol) {us vs : List K} (hus : ∀ u ∈ us, b1.Admissible tol u) (hvs : ∀ v ∈ vs, b2.Admissible tol v)
    (hneA1 : b1.periodic < 0 → us ≠ [] := by (first | assumption | (simp; done) | skip))
    (hneA2 : b2.periodic < 0 → vs ≠ [] := by (first | assumption | (simp; done) | skip)) :
    o'.dimension = AffOp.newDimList o.dimension ops ∧
    ∃ res res', o.evaluate tol [us, vs] true = .ok res ∧
      o'.evaluate tol [us, vs] true = .ok res' ∧
      res.shape = [us.length, vs.length, o.dimension] ∧
      res'.shape = [us.length, vs.length, o'.dimension] ∧
      ∀ i1 i2 c, i1 < us.length → i2 < vs.length → c < o'.dimension →
        res'.get ((i1 * vs.length + i2) * o'.dimension + c)
          = (AffOp.semList o.dimension ops).apply (fun c => if c < o.dimension
              then res.get ((i1 * vs.length + i2) * o.dimension + c) else 0) c := by
  obtain ⟨hwf, _, _⟩ := wf_of_shape (o := o) (pre := [b1.numFunctions, b2.numFunctions]) hs hnc
    (by rw [hdata]; simp [Tensor.prod])
  obtain ⟨hA, hdim, _⟩ := AffOp.run_acts ops hwf hadm hop
  exact ⟨hdim, acts_surface hA (run_dropLast ops hop) hb hv1 hv2 hs hnc hdata hw htol
    hus hvs⟩

/-- **C09 ⇒ evaluate.**  Volumes, one operation (`translate`, `scale`, `rotate`, `mirror`,
`project`, `set_dimension`, `force_rational` and all operator forms): if the call succeeds, every
evaluated point of the result is the affine map `op.sem` applied to the (zero-padded) evaluated
point of the original, entry by entry; rational objects need positive weights. -/
theorem Bridge_C09_volume {o o' : Obj K} (op : AffOp K) (hadm : op.Admissible)
    (hop : op.inplace o = .ok o') {b1 b2 b3 : Basis K} (hb : o.bases = #[b1, b2, b3])
    (hv1 : b1.Valid) (hv2 : b2.Valid) (hv3 : b3.Valid)
    {nc : ℕ} (hs : o.cps.shape = [b1.numFunctions, b2.numFunctions, b3.numFunctions, nc]) (hnc : 0 < nc)
    (hdata : o.cps.data.size = b1.numFunctions * b2.numFunctions * b3.numFunctions * nc)
    (hw : o.rational = true → ∀ k, k < b1.numFunctions * b2.numFunctions * b3.numFunctions → 0 < o.cps.get (k * nc + (nc - 1)))
    {tol : K} (htol : 0 < tol) {us vs ws : List K} (hus : ∀ u ∈ us, b1.Admissible tol u) (hvs : ∀ v ∈ vs, b2.Admissible tol v) (hws : ∀ w ∈ ws, b3.Admissible tol w)
    (hneA1 : b1.periodic < 0 → us ≠ [] := by (first | assumption | (simp; done) | skip))
    (hneA2 : b2.periodic < 0 → vs ≠ [] := by (first | assumption | (simp; done) | skip))
    (hneA3 : b3.periodic < 0 → ws ≠ [] := by (first | assumption | (simp; done) | skip)) :
    o'.dimension = op.newDim o.dimension ∧ o'.rational = op.newRational o.rational ∧
    ∃ res res', o.evaluate tol [us, vs, ws] true = .ok res ∧
      o'.evaluate tol [us, vs, ws] true = .ok res' ∧
      res.shape = [us.length, vs.length, ws.length, o.dimension] ∧
      res'.shape = [us.length, vs.length, ws.length, o'.dimension] ∧
      ∀ i1 i2 i3 c, i1 < us.length → i2 < vs.length → i3 < ws.length → c < o'.dimension →
        res'.get (((i1 * vs.length + i2) * ws.length + i3) * o'.dimension + c)
          = (op.sem o.dimension).apply (fun c => if c < o.dimension
              then res.get (((i1 * vs.length + i2) * ws.length + i3) * o.dimension + c) else 0) c := by
  obtain ⟨hwf, _, _⟩ := wf_of_shape (o := o) (pre := [b1.numFunctions, b2.numFunctions, b3.numFunctions]) hs hnc
    (by rw [hdata]; simp [Tensor.prod])
  obtain ⟨hA, hdim, hr⟩ := AffOp.inplace_acts hwf op hadm hop
  exact ⟨hdim, hr, acts_volume hA (inplace_dropLast op hop) hb hv1 hv2 hv3 hs hnc hdata hw htol
    hus hvs hws⟩

/-- Volumes, a sequence of operations: the composite affine map `AffOp.semList`. -/
theorem Bridge_C09_volume_run {o o' : Obj K} (ops : List (AffOp K))
    (hadm : ∀ op ∈ ops, op.Admissible) (hop : AffOp.run o ops = .ok o')
    {b1 b2 b3 : Basis K} (hb : o.bases = #[b1, b2, b3])
    (hv1 : b1.Valid) (hv2 : b2.Valid) (hv3 : b3.Valid)
    {nc : ℕ} (hs : o.cps.shape = [b1.numFunctions, b2.numFunctions, b3.numFunctions, nc]) (hnc : 0 < nc)
    (hdata : o.cps.data.size = b1.numFunctions * b2.numFunctions * b3.numFunctions * nc)
    (hw : o.rational = true → ∀ k, k < b1.numFunctions * b2.numFunctions * b3.numFunctions → 0 < o.cps.get (k * nc + (nc - 1)))
    {tol : K} (htol : 0 < tol) {us vs ws : List K} (hus : ∀ u ∈ us, b1.Admissible tol u) (hvs : ∀ v ∈ vs, b2.Admissible tol v) (hws : ∀ w ∈ ws, b3.Admissible tol w)
    (hneA1 : b1.periodic < 0 → us ≠ [] := by (first | assumption | (simp; done) | skip))
    (hneA2 : b2.periodic < 0 → vs ≠ [] := by (first | assumption | (simp; done) | skip))
    (hneA3 : b3.periodic < 0 → ws ≠ [] := by (first | assumption | (simp; done) | skip)) :
    o'.dimension = AffOp.newDimList o.dimension ops ∧
    ∃ res res', o.evaluate tol [us, vs, ws] true = .ok res ∧
      o'.evaluate tol [us, vs, ws] true = .ok res' ∧
      res.shape = [us.length, vs.length, ws.length, o.dimension] ∧
      res'.shape = [us.length, vs.length, ws.length, o'.dimension] ∧
      ∀ i1 i2 i3 c, i1 < us.length → i2 < vs.length → i3 < ws.length → c < o'.dimension →
        res'.get (((i1 * vs.length + i2) * ws.length + i3) * o'.dimension + c)
          = (AffOp.semList o.dimension ops).apply (fun c => if c < o.dimension
              then res.get (((i1 * vs.length + i2) * ws.length + i3) * o.dimension + c) else 0) c := by
  obtain ⟨hwf, _, _⟩ := wf_of_shape (o := o) (pre := [b1.numFunctions, b2.numFunctions, b3.numFunctions]) hs hnc
    (by rw [hdata]; simp [Tensor.prod])
  obtain ⟨hA, hdim, _⟩ := AffOp.run_acts ops hwf hadm hop
  exact ⟨hdim, acts_volume hA (run_dropLast ops hop) hb hv1 hv2 hv3 hs hnc hdata hw htol
    hus hvs hws⟩

/-- **C09 ⇒ evaluate, `tensor=False`.**  Curves: the same for the pointwise calling form
(`evaluate(…, tensor=False)`, lists of equal length): point `i` of the result is the affine image
of point `i` of the original result. -/
theorem Bridge_C09_curve_pointwise {o o' : Obj K} (op : AffOp K) (hadm : op.Admissible)
    (hop : op.inplace o = .ok o') {b1 : Basis K} (hb : o.bases = #[b1])
    (hv1 : b1.Valid)
    {nc : ℕ} (hs : o.cps.shape = [b1.numFunctions, nc]) (hnc : 0 < nc)
    (hdata : o.cps.data.size = b1.numFunctions * nc)
    (hw : o.rational = true → ∀ k, k < b1.numFunctions → 0 < o.cps.get (k * nc + (nc - 1)))
    {tol : K} (htol : 0 < tol) {us : List K} (hus : ∀ u ∈ us, b1.Admissible tol u)
    (hneA1 : b1.periodic < 0 → us ≠ [] := by (first | assumption | (simp; done) | skip)) :
    ∃ rp rp', o.evaluate tol [us] false = .ok rp ∧
      o'.evaluate tol [us] false = .ok rp' ∧
      rp.shape = [us.length, o.dimension] ∧ rp'.shape = [us.length, o'.dimension] ∧
      ∀ i c, i < us.length → c < o'.dimension →
        rp'.get (i * o'.dimension + c)
          = (op.sem o.dimension).apply (fun c => if c < o.dimension
              then rp.get (i * o.dimension + c) else 0) c := by
  obtain ⟨hwf, _, _⟩ := wf_of_shape (o := o) (pre := [b1.numFunctions]) hs hnc
    (by rw [hdata]; simp [Tensor.prod])
  obtain ⟨hA, _, _⟩ := AffOp.inplace_acts hwf op hadm hop
  exact acts_curve_pw hA (inplace_dropLast op hop) hb hv1 hs hnc hdata hw htol
    hus

/-- **C09 ⇒ evaluate, `tensor=False`.**  Surfaces: the same for the pointwise calling form
(`evaluate(…, tensor=False)`, lists of equal length): point `i` of the result is the affine image
of point `i` of the original result. -/
theorem Bridge_C09_surface_pointwise {o o' : Obj K} (op : AffOp K) (hadm : op.Admissible)
    (hop : op.inplace o = .ok o') {b1 b2 : Basis K} (hb : o.bases = #[b1, b2])
    (hv1 : b1.Valid) (hv2 : b2.Valid)
    {nc : ℕ} (hs : o.cps.shape = [b1.numFunctions, b2.numFunctions, nc]) (hnc : 0 < nc)
    (hdata : o.cps.data.size = b1.numFunctions * b2.numFunctions * nc)
    (hw : o.rational = true → ∀ k, k < b1.numFunctions * b2.numFunctions → 0 < o.cps.get (k * nc + (nc - 1)))
    {tol : K} (htol : 0 < tol) {us vs : List K} (hlen2 : vs.length = us.length) (hus : ∀ u ∈ us, b1.Admissible tol u) (hvs : ∀ v ∈ vs, b2.Admissible tol v)
    (hneA1 : b1.periodic < 0 → us ≠ [] := by (first | assumption | (simp; done) | skip))
    (hneA2 : b2.periodic < 0 → vs ≠ [] := by (first | assumption | (simp; done) | skip)) :
    ∃ rp rp', o.evaluate tol [us, vs] false = .ok rp ∧
      o'.evaluate tol [us, vs] false = .ok rp' ∧
      rp.shape = [us.length, o.dimension] ∧ rp'.shape = [us.length, o'.dimension] ∧
      ∀ i c, i < us.length → c < o'.dimension →
        rp'.get (i * o'.dimension + c)
          = (op.sem o.dimension).apply (fun c => if c < o.dimension
              then rp.get (i * o.dimension + c) else 0) c := by
  obtain ⟨hwf, _, _⟩ := wf_of_shape (o := o) (pre := [b1.numFunctions, b2.numFunctions]) hs hnc
    (by rw [hdata]; simp [Tensor.prod])
  obtain ⟨hA, _, _⟩ := AffOp.inplace_acts hwf op hadm hop
  exact acts_surface_pw hA (inplace_dropLast op hop) hb hv1 hv2 hs hnc hdata hw htol hlen2
    hus hvs

/-- **C09 ⇒ evaluate, `tensor=False`.**  Volumes: the same for the pointwise calling form
(`evaluate(…, tensor=False)`, lists of equal length): point `i` of the result is the affine image
of point `i` of the original result. -/
theorem Bridge_C09_volume_pointwise {o o' : Obj K} (op : AffOp K) (hadm : op.Admissible)
    (hop : op.inplace o = .ok o') {b1 b2 b3 : Basis K} (hb : o.bases = #[b1, b2, b3])
    (hv1 : b1.Valid) (hv2 : b2.Valid) (hv3 : b3.Valid)
    {nc : ℕ} (hs : o.cps.shape = [b1.numFunctions, b2.numFunctions, b3.numFunctions, nc]) (hnc : 0 < nc)
    (hdata : o.cps.data.size = b1.numFunctions * b2.numFunctions * b3.numFunctions * nc)
    (hw : o.rational = true → ∀ k, k < b1.numFunctions * b2.numFunctions * b3.numFunctions → 0 < o.cps.get (k * nc + (nc - 1)))
    {tol : K} (htol : 0 < tol) {us vs ws : List K} (hlen2 : vs.length = us.length) (hlen3 : ws.length = us.length) (hus : ∀ u ∈ us, b1.Admissible tol u) (hvs : ∀ v ∈ vs, b2.Admissible tol v) (hws : ∀ w ∈ ws, b3.Admissible tol w)
    (hneA1 : b1.periodic < 0 → us ≠ [] := by (first | assumption | (simp; done) | skip))
    (hneA2 : b2.periodic < 0 → vs ≠ [] := by (first | assumption | (simp; done) | skip))
    (hneA3 : b3.periodic < 0 → ws ≠ [] := by (first | assumption | (simp; done) | skip)) :
    ∃ rp rp', o.evaluate tol [us, vs, ws] false = .ok rp ∧
      o'.evaluate tol [us, vs, ws] false = .ok rp' ∧
      rp.shape = [us.length, o.dimension] ∧ rp'.shape = [us.length, o'.dimension] ∧
      ∀ i c, i < us.length → c < o'.dimension →
        rp'.get (i * o'.dimension + c)
          = (op.sem o.dimension).apply (fun c => if c < o.dimension
              then rp.get (i * o.dimension + c) else 0) c := by
  obtain ⟨hwf, _, _⟩ := wf_of_shape (o := o) (pre := [b1.numFunctions, b2.numFunctions, b3.numFunctions]) hs hnc
    (by rw [hdata]; simp [Tensor.prod])
  obtain ⟨hA, _, _⟩ := AffOp.inplace_acts hwf op hadm hop
  exact acts_volume_pw hA (inplace_dropLast op hop) hb hv1 hv2 hv3 hs hnc hdata hw htol hlen2 hlen3
    hus hvs hws

/-- `translate(x)` (`len(x) ≥ dim`, promotion included), curves, spelled out: every evaluated point
moves by `x`. -/
theorem Bridge_C09_translate_curve {o : Obj K} (x : List K) (hx : o.dimension ≤ x.length)
    {b1 : Basis K} (hb : o.bases = #[b1]) (hv1 : b1.Valid)
    {nc : ℕ} (hs : o.cps.shape = [b1.numFunctions, nc]) (hnc : 0 < nc)
    (hdata : o.cps.data.size = b1.numFunctions * nc)
    (hw : o.rational = true → ∀ k, k < b1.numFunctions → 0 < o.cps.get (k * nc + (nc - 1)))
    {tol : K} (htol : 0 < tol) {us : List K} (hus : ∀ u ∈ us, b1.Admissible tol u)
    (hneA1 : b1.periodic < 0 → us ≠ [] := by (first | assumption | (simp; done) | skip)) :
    (o.translate x).dimension = x.length ∧
    ∃ res res', o.evaluate tol [us] true = .ok res ∧
      (o.translate x).evaluate tol [us] true = .ok res' ∧
      ∀ i c, i < us.length → c < x.length →
        res'.get (i * x.length + c)
          = (if c < o.dimension then res.get (i * o.dimension + c) else 0) + x.getD c 0 := by
  have hop : (AffOp.translate x).inplace o = .ok (o.translate x) := by
    simp [AffOp.inplace, Obj.translateChecked, not_lt.mpr hx]
  obtain ⟨hdim, _, res, res', e1, e1', _, _, h⟩ :=
    Bridge_C09_curve (.translate x) trivial hop hb hv1 hs hnc hdata hw htol hus
  have hdim' : (o.translate x).dimension = x.length := by
    rw [hdim]; simp only [AffOp.newDim]; omega
  refine ⟨hdim', res, res', e1, e1', fun i c hi hc => ?_⟩
  have := h i c hi (by rw [hdim']; exact hc)
  rw [hdim'] at this
  rw [this]
  simp [AffOp.sem, HomAffine.apply]

/-- … and for surfaces. -/
theorem Bridge_C09_translate_surface {o : Obj K} (x : List K) (hx : o.dimension ≤ x.length)
    {b1 b2 : Basis K} (hb : o.bases = #[b1, b2]) (hv1 : b1.Valid) (hv2 : b2.Valid)
    {nc : ℕ} (hs : o.cps.shape = [b1.numFunctions, b2.numFunctions, nc]) (hnc : 0 < nc)
    (hdata : o.cps.data.size = b1.numFunctions * b2.numFunctions * nc)
    (hw : o.rational = true → ∀ k, k < b1.numFunctions * b2.numFunctions →
      0 < o.cps.get (k * nc + (nc - 1)))
    {tol : K} (htol : 0 < tol) {us vs : List K} (hus : ∀ u ∈ us, b1.Admissible tol u)
    (hvs : ∀ v ∈ vs, b2.Admissible tol v)
    (hneA1 : b1.periodic < 0 → us ≠ [] := by (first | assumption | (simp; done) | skip))
    (hneA2 : b2.periodic < 0 → vs ≠ [] := by (first | assumption | (simp; done) | skip)) :
    (o.translate x).dimension = x.length ∧
    ∃ res res', o.evaluate tol [us, vs] true = .ok res ∧
      (o.translate x).evaluate tol [us, vs] true = .ok res' ∧
      ∀ i1 i2 c, i1 < us.length → i2 < vs.length → c < x.length →
        res'.get ((i1 * vs.length + i2) * x.length + c)
          = (if c < o.dimension then res.get ((i1 * vs.length + i2) * o.dimension + c) else 0)
            + x.getD c 0 := by
  have hop : (AffOp.translate x).inplace o = .ok (o.translate x) := by
    simp [AffOp.inplace, Obj.translateChecked, not_lt.mpr hx]
  obtain ⟨hdim, _, res, res', e1, e1', _, _, h⟩ :=
    Bridge_C09_surface (.translate x) trivial hop hb hv1 hv2 hs hnc hdata hw htol hus hvs
  have hdim' : (o.translate x).dimension = x.length := by
    rw [hdim]; simp only [AffOp.newDim]; omega
  refine ⟨hdim', res, res', e1, e1', fun i1 i2 c hi1 hi2 hc => ?_⟩
  have := h i1 i2 c hi1 hi2 (by rw [hdim']; exact hc)
  rw [hdim'] at this
  rw [this]
  simp [AffOp.sem, HomAffine.apply]

/-- **C09 ⇒ evaluate at arbitrary (non-exact) parameters.**  Curves over a non-periodic basis
whose distinct knots are at least `tol` apart (`Basis.Separated`): for ANY parameters whose snapped
values lie in the domain (the others raise `ValueError`, `C02_outside_raises`) the conclusion of
`Bridge_C09_curve` holds — `evaluate` snaps the parameters first (`C02_evaluate_snap_curve`) and
the bases of `o'` are those of `o`. -/
theorem Bridge_C09_curve_snap {o o' : Obj K} (op : AffOp K) (hadm : op.Admissible)
    (hop : op.inplace o = .ok o') {b1 : Basis K} (hb : o.bases = #[b1])
    (hv1 : b1.Valid) (hper1 : b1.periodic = -1)
    {nc : ℕ} (hs : o.cps.shape = [b1.numFunctions, nc]) (hnc : 0 < nc)
    (hdata : o.cps.data.size = b1.numFunctions * nc)
    (hw : o.rational = true → ∀ k, k < b1.numFunctions → 0 < o.cps.get (k * nc + (nc - 1)))
    {tol : K} (htol : 0 < tol) (hsep1 : b1.Separated tol) {us : List K}
    (hus : ∀ u ∈ us, b1.start ≤ snap b1 tol u ∧ snap b1 tol u ≤ b1.stop)
    (hneA1 : b1.periodic < 0 → us ≠ [] := by (first | assumption | (simp; done) | skip)) :
    ∃ res res', o.evaluate tol [us] true = .ok res ∧
      o'.evaluate tol [us] true = .ok res' ∧
      res.shape = [us.length, o.dimension] ∧
      res'.shape = [us.length, o'.dimension] ∧
      ∀ i1 c, i1 < us.length → c < o'.dimension →
        res'.get (i1 * o'.dimension + c)
          = (op.sem o.dimension).apply (fun c => if c < o.dimension
              then res.get (i1 * o.dimension + c) else 0) c := by
  obtain ⟨hwf, _, _⟩ := wf_of_shape (o := o) (pre := [b1.numFunctions]) hs hnc
    (by rw [hdata]; simp [Tensor.prod])
  have hb' : o'.bases = #[b1] := (AffOp.inplace_acts hwf op hadm hop).1.bases.trans hb
  have hneB1 : b1.periodic < 0 → List.map (snap b1 tol) us ≠ [] := by
    intro h
    first
      | exact hneA1 h | exact hneA2 h | exact hneA3 h | exact hneA4 h
      | exact hneA5 h | exact hneA6 h | exact hneA7 h | simpa using hneA1 h
      | simpa using hneA2 h | simpa using hneA3 h | simpa using hneA4 h | simpa using hneA5 h
      | simpa using hneA6 h | simpa using hneA7 h | exact hneA1 (by omega) | exact hneA2 (by omega)
      | exact hneA3 (by omega) | exact hneA4 (by omega) | exact hneA5 (by omega) | exact hneA6 (by omega)
      | exact hneA7 (by omega) | simpa using hneA1 (by omega) | simpa using hneA2 (by omega) | simpa using hneA3 (by omega)
      | simpa using hneA4 (by omega) | simpa using hneA5 (by omega) | simpa using hneA6 (by omega) | simpa using hneA7 (by omega)
      | exact hneA1 (by simp_all) | exact hneA2 (by simp_all) | exact hneA3 (by simp_all) | exact hneA4 (by simp_all)
      | exact hneA5 (by simp_all) | exact hneA6 (by simp_all) | exact hneA7 (by simp_all)
  obtain ⟨_, _, res, res', e1, e1', e2, e2', h⟩ :=
    Bridge_C09_curve op hadm hop hb hv1 hs hnc hdata hw htol (us := us.map (snap b1 tol))
      (fun u hu => by
        obtain ⟨u0, hu0, rfl⟩ := List.mem_map.mp hu
        exact C02_snapped_admissible hv1 hper1 hsep1 (hus u0 hu0).1 (hus u0 hu0).2)
  rw [List.length_map] at e2 e2' h
  refine ⟨res, res', ?_, ?_, e2, e2', h⟩
  · rw [C02_evaluate_snap_curve hb hv1 htol hsep1 us true]; exact e1
  · rw [C02_evaluate_snap_curve hb' hv1 htol hsep1 us true]; exact e1'

/-- … and for surfaces. -/
theorem Bridge_C09_surface_snap {o o' : Obj K} (op : AffOp K) (hadm : op.Admissible)
    (hop : op.inplace o = .ok o') {b1 b2 : Basis K} (hb : o.bases = #[b1, b2])
    (hv1 : b1.Valid) (hv2 : b2.Valid) (hper1 : b1.periodic = -1) (hper2 : b2.periodic = -1)
    {nc : ℕ} (hs : o.cps.shape = [b1.numFunctions, b2.numFunctions, nc]) (hnc : 0 < nc)
    (hdata : o.cps.data.size = b1.numFunctions * b2.numFunctions * nc)
    (hw : o.rational = true → ∀ k, k < b1.numFunctions * b2.numFunctions →
      0 < o.cps.get (k * nc + (nc - 1)))
    {tol : K} (htol : 0 < tol) (hsep1 : b1.Separated tol) (hsep2 : b2.Separated tol)
    {us vs : List K}
    (hus : ∀ u ∈ us, b1.start ≤ snap b1 tol u ∧ snap b1 tol u ≤ b1.stop)
    (hvs : ∀ v ∈ vs, b2.start ≤ snap b2 tol v ∧ snap b2 tol v ≤ b2.stop)
    (hneA1 : b1.periodic < 0 → us ≠ [] := by (first | assumption | (simp; done) | skip))
    (hneA2 : b2.periodic < 0 → vs ≠ [] := by (first | assumption | (simp; done) | skip)) :
    ∃ res res', o.evaluate tol [us, vs] true = .ok res ∧
      o'.evaluate tol [us, vs] true = .ok res' ∧
      res.shape = [us.length, vs.length, o.dimension] ∧
      res'.shape = [us.length, vs.length, o'.dimension] ∧
      ∀ i1 i2 c, i1 < us.length → i2 < vs.length → c < o'.dimension →
        res'.get ((i1 * vs.length + i2) * o'.dimension + c)
          = (op.sem o.dimension).apply (fun c => if c < o.dimension
              then res.get ((i1 * vs.length + i2) * o.dimension + c) else 0) c := by
  obtain ⟨hwf, _, _⟩ := wf_of_shape (o := o) (pre := [b1.numFunctions, b2.numFunctions]) hs hnc
    (by rw [hdata]; simp [Tensor.prod])
  have hb' : o'.bases = #[b1, b2] := (AffOp.inplace_acts hwf op hadm hop).1.bases.trans hb
  have hneB2 : b2.periodic < 0 → List.map (snap b2 tol) vs ≠ [] := by
    intro h
    first
      | exact hneA1 h | exact hneA2 h | exact hneA3 h | exact hneA4 h
      | exact hneA5 h | exact hneA6 h | exact hneA7 h | simpa using hneA1 h
      | simpa using hneA2 h | simpa using hneA3 h | simpa using hneA4 h | simpa using hneA5 h
      | simpa using hneA6 h | simpa using hneA7 h | exact hneA1 (by omega) | exact hneA2 (by omega)
      | exact hneA3 (by omega) | exact hneA4 (by omega) | exact hneA5 (by omega) | exact hneA6 (by omega)
      | exact hneA7 (by omega) | simpa using hneA1 (by omega) | simpa using hneA2 (by omega) | simpa using hneA3 (by omega)
      | simpa using hneA4 (by omega) | simpa using hneA5 (by omega) | simpa using hneA6 (by omega) | simpa using hneA7 (by omega)
      | exact hneA1 (by simp_all) | exact hneA2 (by simp_all) | exact hneA3 (by simp_all) | exact hneA4 (by simp_all)
      | exact hneA5 (by simp_all) | exact hneA6 (by simp_all) | exact hneA7 (by simp_all)
  have hneB1 : b1.periodic < 0 → List.map (snap b1 tol) us ≠ [] := by
    intro h
    first
      | exact hneA1 h | exact hneA2 h | exact hneA3 h | exact hneA4 h
      | exact hneA5 h | exact hneA6 h | exact hneA7 h | simpa using hneA1 h
      | simpa using hneA2 h | simpa using hneA3 h | simpa using hneA4 h | simpa using hneA5 h
      | simpa using hneA6 h | simpa using hneA7 h | exact hneA1 (by omega) | exact hneA2 (by omega)
      | exact hneA3 (by omega) | exact hneA4 (by omega) | exact hneA5 (by omega) | exact hneA6 (by omega)
      | exact hneA7 (by omega) | simpa using hneA1 (by omega) | simpa using hneA2 (by omega) | simpa using hneA3 (by omega)
      | simpa using hneA4 (by omega) | simpa using hneA5 (by omega) | simpa using hneA6 (by omega) | simpa using hneA7 (by omega)
      | exact hneA1 (by simp_all) | exact hneA2 (by simp_all) | exact hneA3 (by simp_all) | exact hneA4 (by simp_all)
      | exact hneA5 (by simp_all) | exact hneA6 (by simp_all) | exact hneA7 (by simp_all)
  obtain ⟨_, _, res, res', e1, e1', e2, e2', h⟩ :=
    Bridge_C09_surface op hadm hop hb hv1 hv2 hs hnc hdata hw htol
      (us := us.map (snap b1 tol)) (vs := vs.map (snap b2 tol))
      (fun u hu => by
        obtain ⟨u0, hu0, rfl⟩ := List.mem_map.mp hu
        exact C02_snapped_admissible hv1 hper1 hsep1 (hus u0 hu0).1 (hus u0 hu0).2)
      (fun v hv => by
        obtain ⟨v0, hv0, rfl⟩ := List.mem_map.mp hv
        exact C02_snapped_admissible hv2 hper2 hsep2 (hvs v0 hv0).1 (hvs v0 hv0).2)
  rw [List.length_map, List.length_map] at e2 e2' h
  refine ⟨res, res', ?_, ?_, e2, e2', h⟩
  · rw [C02_evaluate_snap_surface hb hv1 hv2 htol hsep1 hsep2 us vs true]; exact e1
  · rw [C02_evaluate_snap_surface hb' hv1 hv2 htol hsep1 hsep2 us vs true]; exact e1'

/-! ## C07 — pieces of `split` -/

/-- **C07 (`split`, one piece) ⇒ evaluate.**  Curves: the object `splitPieces`
builds from the control points `lo .. hi-1` of the (already refined) object `so` — basis
`BSplineBasis(p, knots[lo : hi+p]) = b1.piece lo hi` (`C07_split_open`: `Basis.mk?` returns it),
control net `cps[lo:hi]` — evaluates to what `so` evaluates to, at admissible parameters of
`[kn (lo+p-1), kn hi)`, and at `kn hi` when that is the end of the whole domain.
`_partial`: at the right end `kn hi` of an interior piece the piece returns the limit from the
left and `so` the limit from the right; they agree only if the spline of `so` is continuous
there, which is not a property of `so`'s knot vector (the split value has multiplicity `p`). -/
theorem Bridge_C07_piece_curve_partial {so : Obj K} {b1 : Basis K}
    (hb : so.bases = #[b1])
    (hv1 : b1.Valid) (hper : b1.periodic = -1)
    {nc : ℕ} (hs : so.cps.shape = [b1.numFunctions, nc])
    (hnc : so.rational = true → 1 ≤ nc)
    (lo hi : ℕ) (h1 : lo + b1.order ≤ hi) (h2 : hi ≤ b1.numFunctions)
    (hlt : b1.kn (lo + b1.order - 1) < b1.kn hi) {tol : K} (htol : 0 < tol)
    {us : List K} (hus : ∀ u ∈ us, b1.Admissible tol u)
    (hdom : ∀ u ∈ us, b1.kn (lo + b1.order - 1) ≤ u ∧
      (u < b1.kn hi ∨ (u = b1.kn hi ∧ b1.kn hi = b1.stop)))
    (hneA1 : b1.periodic < 0 → us ≠ [] := by (first | assumption | (simp; done) | skip)) :
    ∃ res, so.evaluate tol [us] true = .ok res ∧
      res.shape = [us.length, so.dimension] ∧
      (⟨#[b1.piece lo hi], so.cps.sliceAxis 0 lo hi, so.rational⟩ : Obj K).evaluate tol [us] true = .ok res ∧
      (⟨#[b1.piece lo hi], so.cps.sliceAxis 0 lo hi, so.rational⟩ : Obj K).evaluate tol [us] false = so.evaluate tol [us] false := by
  have hb0 : so.basis 0 = b1 := by simp [Obj.basis, hb]
  have key := piece_along so 0 (by rw [hs]; simp) (by rw [hb0]; exact hv1)
    (by rw [hb0]; exact hper) lo hi (by rw [hb0]; exact h1) (by rw [hb0]; exact h2)
    (by rw [hb0]; exact hlt)
  rw [hb0] at key
  obtain ⟨hv', hper', hn', hst', hsp', hex', hsh, hsame⟩ := key
  have hpo : pieceObj so 0 lo hi = (⟨#[b1.piece lo hi], so.cps.sliceAxis 0 lo hi, so.rational⟩ : Obj K) := by
    unfold pieceObj; rw [hb0, hb]; rfl
  have hb'' : (pieceObj so 0 lo hi).bases = #[b1.piece lo hi] := by
    rw [hpo]
  have hs' : (pieceObj so 0 lo hi).cps.shape = [(b1.piece lo hi).numFunctions, nc] := by
    rw [hsh, hs, hn']; rfl
  have hrat : (pieceObj so 0 lo hi).rational = so.rational := rfl
  have hadm' : ∀ u ∈ us, (b1.piece lo hi).Admissible tol u := fun u hu =>
    ⟨hex' tol u (hus u hu).1, fun _ => by
      rw [hst', hsp']
      rcases (hdom u hu).2 with h | ⟨h, _⟩
      · exact ⟨(hdom u hu).1, le_of_lt h⟩
      · exact ⟨(hdom u hu).1, le_of_eq h⟩,
    fun h0 => by rw [hper'] at h0; exact absurd h0 (by decide)⟩
  have hneB1 : (b1.piece lo hi).periodic < 0 → us ≠ [] := by
    intro h
    first
      | exact hneA1 h | exact hneA2 h | exact hneA3 h | exact hneA4 h
      | exact hneA5 h | exact hneA6 h | exact hneA7 h | simpa using hneA1 h
      | simpa using hneA2 h | simpa using hneA3 h | simpa using hneA4 h | simpa using hneA5 h
      | simpa using hneA6 h | simpa using hneA7 h | exact hneA1 (by omega) | exact hneA2 (by omega)
      | exact hneA3 (by omega) | exact hneA4 (by omega) | exact hneA5 (by omega) | exact hneA6 (by omega)
      | exact hneA7 (by omega) | simpa using hneA1 (by omega) | simpa using hneA2 (by omega) | simpa using hneA3 (by omega)
      | simpa using hneA4 (by omega) | simpa using hneA5 (by omega) | simpa using hneA6 (by omega) | simpa using hneA7 (by omega)
      | exact hneA1 (by simp_all) | exact hneA2 (by simp_all) | exact hneA3 (by simp_all) | exact hneA4 (by simp_all)
      | exact hneA5 (by simp_all) | exact hneA6 (by simp_all) | exact hneA7 (by simp_all)
  obtain ⟨e, res, e1, e2⟩ := transfer_curve (o' := pieceObj so 0 lo hi) hb hb'' hv1 hv' hs hs' hrat hnc
    htol rfl
    hus
    hadm'
    (fun p hp => hsame _ (hdom _ (getD_mem_of_lt us hp 0)).1
      (hdom _ (getD_mem_of_lt us hp 0)).2)
  have epw := pointwise_curve hb hb'' hv1 hv' hs hs' hrat hnc htol rfl
    hus hadm' e
  rw [hpo] at e epw
  exact ⟨res, e1, e2, e.trans e1, epw⟩

/-- **C07 (`split`, one piece) ⇒ evaluate.**  Surfaces, direction `u` (index 0): the object `splitPieces`
builds from the control points `lo .. hi-1` of the (already refined) object `so` — basis
`BSplineBasis(p, knots[lo : hi+p]) = b1.piece lo hi` (`C07_split_open`: `Basis.mk?` returns it),
control net `cps[lo:hi]` — evaluates to what `so` evaluates to, at admissible parameters of
`[kn (lo+p-1), kn hi)`, and at `kn hi` when that is the end of the whole domain.
`_partial`: at the right end `kn hi` of an interior piece the piece returns the limit from the
left and `so` the limit from the right; they agree only if the spline of `so` is continuous
there, which is not a property of `so`'s knot vector (the split value has multiplicity `p`). -/
theorem Bridge_C07_piece_surface_u_partial {so : Obj K} {b1 b2 : Basis K}
    (hb : so.bases = #[b1, b2])
    (hv1 : b1.Valid) (hv2 : b2.Valid) (hper : b1.periodic = -1)
    {nc : ℕ} (hs : so.cps.shape = [b1.numFunctions, b2.numFunctions, nc])
    (hnc : so.rational = true → 1 ≤ nc)
    (lo hi : ℕ) (h1 : lo + b1.order ≤ hi) (h2 : hi ≤ b1.numFunctions)
    (hlt : b1.kn (lo + b1.order - 1) < b1.kn hi) {tol : K} (htol : 0 < tol)
    {us vs : List K} (hus : ∀ u ∈ us, b1.Admissible tol u) (hvs : ∀ v ∈ vs, b2.Admissible tol v)
    (hdom : ∀ u ∈ us, b1.kn (lo + b1.order - 1) ≤ u ∧
      (u < b1.kn hi ∨ (u = b1.kn hi ∧ b1.kn hi = b1.stop)))
    (hneA1 : b1.periodic < 0 → us ≠ [] := by (first | assumption | (simp; done) | skip))
    (hneA2 : b2.periodic < 0 → vs ≠ [] := by (first | assumption | (simp; done) | skip)) :
    ∃ res, so.evaluate tol [us, vs] true = .ok res ∧
      res.shape = [us.length, vs.length, so.dimension] ∧
      (⟨#[b1.piece lo hi, b2], so.cps.sliceAxis 0 lo hi, so.rational⟩ : Obj K).evaluate tol [us, vs] true = .ok res ∧
      (⟨#[b1.piece lo hi, b2], so.cps.sliceAxis 0 lo hi, so.rational⟩ : Obj K).evaluate tol [us, vs] false = so.evaluate tol [us, vs] false := by
  have hb0 : so.basis 0 = b1 := by simp [Obj.basis, hb]
  have key := piece_along so 0 (by rw [hs]; simp) (by rw [hb0]; exact hv1)
    (by rw [hb0]; exact hper) lo hi (by rw [hb0]; exact h1) (by rw [hb0]; exact h2)
    (by rw [hb0]; exact hlt)
  rw [hb0] at key
  obtain ⟨hv', hper', hn', hst', hsp', hex', hsh, hsame⟩ := key
  have hpo : pieceObj so 0 lo hi = (⟨#[b1.piece lo hi, b2], so.cps.sliceAxis 0 lo hi, so.rational⟩ : Obj K) := by
    unfold pieceObj; rw [hb0, hb]; rfl
  have hb'' : (pieceObj so 0 lo hi).bases = #[b1.piece lo hi, b2] := by
    rw [hpo]
  have hs' : (pieceObj so 0 lo hi).cps.shape = [(b1.piece lo hi).numFunctions, b2.numFunctions, nc] := by
    rw [hsh, hs, hn']; rfl
  have hrat : (pieceObj so 0 lo hi).rational = so.rational := rfl
  have hadm' : ∀ u ∈ us, (b1.piece lo hi).Admissible tol u := fun u hu =>
    ⟨hex' tol u (hus u hu).1, fun _ => by
      rw [hst', hsp']
      rcases (hdom u hu).2 with h | ⟨h, _⟩
      · exact ⟨(hdom u hu).1, le_of_lt h⟩
      · exact ⟨(hdom u hu).1, le_of_eq h⟩,
    fun h0 => by rw [hper'] at h0; exact absurd h0 (by decide)⟩
  have hneB1 : (b1.piece lo hi).periodic < 0 → us ≠ [] := by
    intro h
    first
      | exact hneA1 h | exact hneA2 h | exact hneA3 h | exact hneA4 h
      | exact hneA5 h | exact hneA6 h | exact hneA7 h | simpa using hneA1 h
      | simpa using hneA2 h | simpa using hneA3 h | simpa using hneA4 h | simpa using hneA5 h
      | simpa using hneA6 h | simpa using hneA7 h | exact hneA1 (by omega) | exact hneA2 (by omega)
      | exact hneA3 (by omega) | exact hneA4 (by omega) | exact hneA5 (by omega) | exact hneA6 (by omega)
      | exact hneA7 (by omega) | simpa using hneA1 (by omega) | simpa using hneA2 (by omega) | simpa using hneA3 (by omega)
      | simpa using hneA4 (by omega) | simpa using hneA5 (by omega) | simpa using hneA6 (by omega) | simpa using hneA7 (by omega)
      | exact hneA1 (by simp_all) | exact hneA2 (by simp_all) | exact hneA3 (by simp_all) | exact hneA4 (by simp_all)
      | exact hneA5 (by simp_all) | exact hneA6 (by simp_all) | exact hneA7 (by simp_all)
  obtain ⟨e, res, e1, e2⟩ := transfer_surface_u (o' := pieceObj so 0 lo hi) hb hb'' hv1 hv' hv2 hs hs' hrat hnc
    htol rfl
    hus
    hadm'
    hvs
    (fun p hp => hsame _ (hdom _ (getD_mem_of_lt us hp 0)).1
      (hdom _ (getD_mem_of_lt us hp 0)).2)
  have epw := pointwise_surface hb hb'' hv1 hv' hv2 hv2 hs hs' hrat hnc htol rfl rfl
    hus hadm' hvs hvs e
  rw [hpo] at e epw
  exact ⟨res, e1, e2, e.trans e1, epw⟩

/-- **C07 (`split`, one piece) ⇒ evaluate.**  Surfaces, direction `v` (index 1): the object `splitPieces`
builds from the control points `lo .. hi-1` of the (already refined) object `so` — basis
`BSplineBasis(p, knots[lo : hi+p]) = b2.piece lo hi` (`C07_split_open`: `Basis.mk?` returns it),
control net `cps[lo:hi]` — evaluates to what `so` evaluates to, at admissible parameters of
`[kn (lo+p-1), kn hi)`, and at `kn hi` when that is the end of the whole domain.
`_partial`: at the right end `kn hi` of an interior piece the piece returns the limit from the
left and `so` the limit from the right; they agree only if the spline of `so` is continuous
there, which is not a property of `so`'s knot vector (the split value has multiplicity `p`). -/
theorem Bridge_C07_piece_surface_v_partial {so : Obj K} {b1 b2 : Basis K}
    (hb : so.bases = #[b1, b2])
    (hv1 : b1.Valid) (hv2 : b2.Valid) (hper : b2.periodic = -1)
    {nc : ℕ} (hs : so.cps.shape = [b1.numFunctions, b2.numFunctions, nc])
    (hnc : so.rational = true → 1 ≤ nc)
    (lo hi : ℕ) (h1 : lo + b2.order ≤ hi) (h2 : hi ≤ b2.numFunctions)
    (hlt : b2.kn (lo + b2.order - 1) < b2.kn hi) {tol : K} (htol : 0 < tol)
    {us vs : List K} (hus : ∀ u ∈ us, b1.Admissible tol u) (hvs : ∀ v ∈ vs, b2.Admissible tol v)
    (hdom : ∀ u ∈ vs, b2.kn (lo + b2.order - 1) ≤ u ∧
      (u < b2.kn hi ∨ (u = b2.kn hi ∧ b2.kn hi = b2.stop)))
    (hneA1 : b1.periodic < 0 → us ≠ [] := by (first | assumption | (simp; done) | skip))
    (hneA2 : b2.periodic < 0 → vs ≠ [] := by (first | assumption | (simp; done) | skip)) :
    ∃ res, so.evaluate tol [us, vs] true = .ok res ∧
      res.shape = [us.length, vs.length, so.dimension] ∧
      (⟨#[b1, b2.piece lo hi], so.cps.sliceAxis 1 lo hi, so.rational⟩ : Obj K).evaluate tol [us, vs] true = .ok res ∧
      (⟨#[b1, b2.piece lo hi], so.cps.sliceAxis 1 lo hi, so.rational⟩ : Obj K).evaluate tol [us, vs] false = so.evaluate tol [us, vs] false := by
  have hb0 : so.basis 1 = b2 := by simp [Obj.basis, hb]
  have key := piece_along so 1 (by rw [hs]; simp) (by rw [hb0]; exact hv2)
    (by rw [hb0]; exact hper) lo hi (by rw [hb0]; exact h1) (by rw [hb0]; exact h2)
    (by rw [hb0]; exact hlt)
  rw [hb0] at key
  obtain ⟨hv', hper', hn', hst', hsp', hex', hsh, hsame⟩ := key
  have hpo : pieceObj so 1 lo hi = (⟨#[b1, b2.piece lo hi], so.cps.sliceAxis 1 lo hi, so.rational⟩ : Obj K) := by
    unfold pieceObj; rw [hb0, hb]; rfl
  have hb'' : (pieceObj so 1 lo hi).bases = #[b1, b2.piece lo hi] := by
    rw [hpo]
  have hs' : (pieceObj so 1 lo hi).cps.shape = [b1.numFunctions, (b2.piece lo hi).numFunctions, nc] := by
    rw [hsh, hs, hn']; rfl
  have hrat : (pieceObj so 1 lo hi).rational = so.rational := rfl
  have hadm' : ∀ u ∈ vs, (b2.piece lo hi).Admissible tol u := fun u hu =>
    ⟨hex' tol u (hvs u hu).1, fun _ => by
      rw [hst', hsp']
      rcases (hdom u hu).2 with h | ⟨h, _⟩
      · exact ⟨(hdom u hu).1, le_of_lt h⟩
      · exact ⟨(hdom u hu).1, le_of_eq h⟩,
    fun h0 => by rw [hper'] at h0; exact absurd h0 (by decide)⟩
  have hneB1 : (b2.piece lo hi).periodic < 0 → vs ≠ [] := by
    intro h
    first
      | exact hneA1 h | exact hneA2 h | exact hneA3 h | exact hneA4 h
      | exact hneA5 h | exact hneA6 h | exact hneA7 h | simpa using hneA1 h
      | simpa using hneA2 h | simpa using hneA3 h | simpa using hneA4 h | simpa using hneA5 h
      | simpa using hneA6 h | simpa using hneA7 h | exact hneA1 (by omega) | exact hneA2 (by omega)
      | exact hneA3 (by omega) | exact hneA4 (by omega) | exact hneA5 (by omega) | exact hneA6 (by omega)
      | exact hneA7 (by omega) | simpa using hneA1 (by omega) | simpa using hneA2 (by omega) | simpa using hneA3 (by omega)
      | simpa using hneA4 (by omega) | simpa using hneA5 (by omega) | simpa using hneA6 (by omega) | simpa using hneA7 (by omega)
      | exact hneA1 (by simp_all) | exact hneA2 (by simp_all) | exact hneA3 (by simp_all) | exact hneA4 (by simp_all)
      | exact hneA5 (by simp_all) | exact hneA6 (by simp_all) | exact hneA7 (by simp_all)
  obtain ⟨e, res, e1, e2⟩ := transfer_surface_v (o' := pieceObj so 1 lo hi) hb hb'' hv1 hv2 hv' hs hs' hrat hnc
    htol rfl
    hus
    hvs
    hadm'
    (fun p hp => hsame _ (hdom _ (getD_mem_of_lt vs hp 0)).1
      (hdom _ (getD_mem_of_lt vs hp 0)).2)
  have epw := pointwise_surface hb hb'' hv1 hv1 hv2 hv' hs hs' hrat hnc htol rfl rfl
    hus hus hvs hadm' e
  rw [hpo] at e epw
  exact ⟨res, e1, e2, e.trans e1, epw⟩

/-- **C07 (`split`, one piece) ⇒ evaluate.**  Volumes, direction `u` (index 0): the object `splitPieces`
builds from the control points `lo .. hi-1` of the (already refined) object `so` — basis
`BSplineBasis(p, knots[lo : hi+p]) = b1.piece lo hi` (`C07_split_open`: `Basis.mk?` returns it),
control net `cps[lo:hi]` — evaluates to what `so` evaluates to, at admissible parameters of
`[kn (lo+p-1), kn hi)`, and at `kn hi` when that is the end of the whole domain.
`_partial`: at the right end `kn hi` of an interior piece the piece returns the limit from the
left and `so` the limit from the right; they agree only if the spline of `so` is continuous
there, which is not a property of `so`'s knot vector (the split value has multiplicity `p`). -/
theorem Bridge_C07_piece_volume_u_partial {so : Obj K} {b1 b2 b3 : Basis K}
    (hb : so.bases = #[b1, b2, b3])
    (hv1 : b1.Valid) (hv2 : b2.Valid) (hv3 : b3.Valid) (hper : b1.periodic = -1)
    {nc : ℕ} (hs : so.cps.shape = [b1.numFunctions, b2.numFunctions, b3.numFunctions, nc])
    (hnc : so.rational = true → 1 ≤ nc)
    (lo hi : ℕ) (h1 : lo + b1.order ≤ hi) (h2 : hi ≤ b1.numFunctions)
    (hlt : b1.kn (lo + b1.order - 1) < b1.kn hi) {tol : K} (htol : 0 < tol)
    {us vs ws : List K} (hus : ∀ u ∈ us, b1.Admissible tol u) (hvs : ∀ v ∈ vs, b2.Admissible tol v) (hws : ∀ w ∈ ws, b3.Admissible tol w)
    (hdom : ∀ u ∈ us, b1.kn (lo + b1.order - 1) ≤ u ∧
      (u < b1.kn hi ∨ (u = b1.kn hi ∧ b1.kn hi = b1.stop)))
    (hneA1 : b1.periodic < 0 → us ≠ [] := by (first | assumption | (simp; done) | skip))
    (hneA2 : b2.periodic < 0 → vs ≠ [] := by (first | assumption | (simp; done) | skip))
    (hneA3 : b3.periodic < 0 → ws ≠ [] := by (first | assumption | (simp; done) | skip)) :
    ∃ res, so.evaluate tol [us, vs, ws] true = .ok res ∧
      res.shape = [us.length, vs.length, ws.length, so.dimension] ∧
      (⟨#[b1.piece lo hi, b2, b3], so.cps.sliceAxis 0 lo hi, so.rational⟩ : Obj K).evaluate tol [us, vs, ws] true = .ok res ∧
      (⟨#[b1.piece lo hi, b2, b3], so.cps.sliceAxis 0 lo hi, so.rational⟩ : Obj K).evaluate tol [us, vs, ws] false = so.evaluate tol [us, vs, ws] false := by
  have hb0 : so.basis 0 = b1 := by simp [Obj.basis, hb]
  have key := piece_along so 0 (by rw [hs]; simp) (by rw [hb0]; exact hv1)
    (by rw [hb0]; exact hper) lo hi (by rw [hb0]; exact h1) (by rw [hb0]; exact h2)
    (by rw [hb0]; exact hlt)
  rw [hb0] at key
  obtain ⟨hv', hper', hn', hst', hsp', hex', hsh, hsame⟩ := key
  have hpo : pieceObj so 0 lo hi = (⟨#[b1.piece lo hi, b2, b3], so.cps.sliceAxis 0 lo hi, so.rational⟩ : Obj K) := by
    unfold pieceObj; rw [hb0, hb]; rfl
  have hb'' : (pieceObj so 0 lo hi).bases = #[b1.piece lo hi, b2, b3] := by
    rw [hpo]
  have hs' : (pieceObj so 0 lo hi).cps.shape = [(b1.piece lo hi).numFunctions, b2.numFunctions, b3.numFunctions, nc] := by
    rw [hsh, hs, hn']; rfl
  have hrat : (pieceObj so 0 lo hi).rational = so.rational := rfl
  have hadm' : ∀ u ∈ us, (b1.piece lo hi).Admissible tol u := fun u hu =>
    ⟨hex' tol u (hus u hu).1, fun _ => by
      rw [hst', hsp']
      rcases (hdom u hu).2 with h | ⟨h, _⟩
      · exact ⟨(hdom u hu).1, le_of_lt h⟩
      · exact ⟨(hdom u hu).1, le_of_eq h⟩,
    fun h0 => by rw [hper'] at h0; exact absurd h0 (by decide)⟩
  have hneB1 : (b1.piece lo hi).periodic < 0 → us ≠ [] := by
    intro h
    first
      | exact hneA1 h | exact hneA2 h | exact hneA3 h | exact hneA4 h
      | exact hneA5 h | exact hneA6 h | exact hneA7 h | simpa using hneA1 h
      | simpa using hneA2 h | simpa using hneA3 h | simpa using hneA4 h | simpa using hneA5 h
      | simpa using hneA6 h | simpa using hneA7 h | exact hneA1 (by omega) | exact hneA2 (by omega)
      | exact hneA3 (by omega) | exact hneA4 (by omega) | exact hneA5 (by omega) | exact hneA6 (by omega)
      | exact hneA7 (by omega) | simpa using hneA1 (by omega) | simpa using hneA2 (by omega) | simpa using hneA3 (by omega)
      | simpa using hneA4 (by omega) | simpa using hneA5 (by omega) | simpa using hneA6 (by omega) | simpa using hneA7 (by omega)
      | exact hneA1 (by simp_all) | exact hneA2 (by simp_all) | exact hneA3 (by simp_all) | exact hneA4 (by simp_all)
      | exact hneA5 (by simp_all) | exact hneA6 (by simp_all) | exact hneA7 (by simp_all)
  obtain ⟨e, res, e1, e2⟩ := transfer_volume_u (o' := pieceObj so 0 lo hi) hb hb'' hv1 hv' hv2 hv3 hs hs' hrat hnc
    htol rfl
    hus
    hadm'
    hvs
    hws
    (fun p hp => hsame _ (hdom _ (getD_mem_of_lt us hp 0)).1
      (hdom _ (getD_mem_of_lt us hp 0)).2)
  have epw := pointwise_volume hb hb'' hv1 hv' hv2 hv2 hv3 hv3 hs hs' hrat hnc htol rfl rfl rfl
    hus hadm' hvs hvs hws hws e
  rw [hpo] at e epw
  exact ⟨res, e1, e2, e.trans e1, epw⟩

/-- **C07 (`split`, one piece) ⇒ evaluate.**  Volumes, direction `v` (index 1): the object `splitPieces`
builds from the control points `lo .. hi-1` of the (already refined) object `so` — basis
`BSplineBasis(p, knots[lo : hi+p]) = b2.piece lo hi` (`C07_split_open`: `Basis.mk?` returns it),
control net `cps[lo:hi]` — evaluates to what `so` evaluates to, at admissible parameters of
`[kn (lo+p-1), kn hi)`, and at `kn hi` when that is the end of the whole domain.
`_partial`: at the right end `kn hi` of an interior piece the piece returns the limit from the
left and `so` the limit from the right; they agree only if the spline of `so` is continuous
there, which is not a property of `so`'s knot vector (the split value has multiplicity `p`). -/
theorem Bridge_C07_piece_volume_v_partial {so : Obj K} {b1 b2 b3 : Basis K}
    (hb : so.bases = #[b1, b2, b3])
    (hv1 : b1.Valid) (hv2 : b2.Valid) (hv3 : b3.Valid) (hper : b2.periodic = -1)
    {nc : ℕ} (hs : so.cps.shape = [b1.numFunctions, b2.numFunctions, b3.numFunctions, nc])
    (hnc : so.rational = true → 1 ≤ nc)
    (lo hi : ℕ) (h1 : lo + b2.order ≤ hi) (h2 : hi ≤ b2.numFunctions)
    (hlt : b2.kn (lo + b2.order - 1) < b2.kn hi) {tol : K} (htol : 0 < tol)
    {us vs ws : List K} (hus : ∀ u ∈ us, b1.Admissible tol u) (hvs : ∀ v ∈ vs, b2.Admissible tol v) (hws : ∀ w ∈ ws, b3.Admissible tol w)
    (hdom : ∀ u ∈ vs, b2.kn (lo + b2.order - 1) ≤ u ∧
      (u < b2.kn hi ∨ (u = b2.kn hi ∧ b2.kn hi = b2.stop)))
    (hneA1 : b1.periodic < 0 → us ≠ [] := by (first | assumption | (simp; done) | skip))
    (hneA2 : b2.periodic < 0 → vs ≠ [] := by (first | assumption | (simp; done) | skip))
    (hneA3 : b3.periodic < 0 → ws ≠ [] := by (first | assumption | (simp; done) | skip)) :
    ∃ res, so.evaluate tol [us, vs, ws] true = .ok res ∧
      res.shape = [us.length, vs.length, ws.length, so.dimension] ∧
      (⟨#[b1, b2.piece lo hi, b3], so.cps.sliceAxis 1 lo hi, so.rational⟩ : Obj K).evaluate tol [us, vs, ws] true = .ok res ∧
      (⟨#[b1, b2.piece lo hi, b3], so.cps.sliceAxis 1 lo hi, so.rational⟩ : Obj K).evaluate tol [us, vs, ws] false = so.evaluate tol [us, vs, ws] false := by
  have hb0 : so.basis 1 = b2 := by simp [Obj.basis, hb]
  have key := piece_along so 1 (by rw [hs]; simp) (by rw [hb0]; exact hv2)
    (by rw [hb0]; exact hper) lo hi (by rw [hb0]; exact h1) (by rw [hb0]; exact h2)
    (by rw [hb0]; exact hlt)
  rw [hb0] at key
  obtain ⟨hv', hper', hn', hst', hsp', hex', hsh, hsame⟩ := key
  have hpo : pieceObj so 1 lo hi = (⟨#[b1, b2.piece lo hi, b3], so.cps.sliceAxis 1 lo hi, so.rational⟩ : Obj K) := by
    unfold pieceObj; rw [hb0, hb]; rfl
  have hb'' : (pieceObj so 1 lo hi).bases = #[b1, b2.piece lo hi, b3] := by
    rw [hpo]
  have hs' : (pieceObj so 1 lo hi).cps.shape = [b1.numFunctions, (b2.piece lo hi).numFunctions, b3.numFunctions, nc] := by
    rw [hsh, hs, hn']; rfl
  have hrat : (pieceObj so 1 lo hi).rational = so.rational := rfl
  have hadm' : ∀ u ∈ vs, (b2.piece lo hi).Admissible tol u := fun u hu =>
    ⟨hex' tol u (hvs u hu).1, fun _ => by
      rw [hst', hsp']
      rcases (hdom u hu).2 with h | ⟨h, _⟩
      · exact ⟨(hdom u hu).1, le_of_lt h⟩
      · exact ⟨(hdom u hu).1, le_of_eq h⟩,
    fun h0 => by rw [hper'] at h0; exact absurd h0 (by decide)⟩
  have hneB1 : (b2.piece lo hi).periodic < 0 → vs ≠ [] := by
    intro h
    first
      | exact hneA1 h | exact hneA2 h | exact hneA3 h | exact hneA4 h
      | exact hneA5 h | exact hneA6 h | exact hneA7 h | simpa using hneA1 h
      | simpa using hneA2 h | simpa using hneA3 h | simpa using hneA4 h | simpa using hneA5 h
      | simpa using hneA6 h | simpa using hneA7 h | exact hneA1 (by omega) | exact hneA2 (by omega)
      | exact hneA3 (by omega) | exact hneA4 (by omega) | exact hneA5 (by omega) | exact hneA6 (by omega)
      | exact hneA7 (by omega) | simpa using hneA1 (by omega) | simpa using hneA2 (by omega) | simpa using hneA3 (by omega)
      | simpa using hneA4 (by omega) | simpa using hneA5 (by omega) | simpa using hneA6 (by omega) | simpa using hneA7 (by omega)
      | exact hneA1 (by simp_all) | exact hneA2 (by simp_all) | exact hneA3 (by simp_all) | exact hneA4 (by simp_all)
      | exact hneA5 (by simp_all) | exact hneA6 (by simp_all) | exact hneA7 (by simp_all)
  obtain ⟨e, res, e1, e2⟩ := transfer_volume_v (o' := pieceObj so 1 lo hi) hb hb'' hv1 hv2 hv' hv3 hs hs' hrat hnc
    htol rfl
    hus
    hvs
    hadm'
    hws
    (fun p hp => hsame _ (hdom _ (getD_mem_of_lt vs hp 0)).1
      (hdom _ (getD_mem_of_lt vs hp 0)).2)
  have epw := pointwise_volume hb hb'' hv1 hv1 hv2 hv' hv3 hv3 hs hs' hrat hnc htol rfl rfl rfl
    hus hus hvs hadm' hws hws e
  rw [hpo] at e epw
  exact ⟨res, e1, e2, e.trans e1, epw⟩

/-- **C07 (`split`, one piece) ⇒ evaluate.**  Volumes, direction `w` (index 2): the object `splitPieces`
builds from the control points `lo .. hi-1` of the (already refined) object `so` — basis
`BSplineBasis(p, knots[lo : hi+p]) = b3.piece lo hi` (`C07_split_open`: `Basis.mk?` returns it),
control net `cps[lo:hi]` — evaluates to what `so` evaluates to, at admissible parameters of
`[kn (lo+p-1), kn hi)`, and at `kn hi` when that is the end of the whole domain.
`_partial`: at the right end `kn hi` of an interior piece the piece returns the limit from the
left and `so` the limit from the right; they agree only if the spline of `so` is continuous
there, which is not a property of `so`'s knot vector (the split value has multiplicity `p`). -/
theorem Bridge_C07_piece_volume_w_partial {so : Obj K} {b1 b2 b3 : Basis K}
    (hb : so.bases = #[b1, b2, b3])
    (hv1 : b1.Valid) (hv2 : b2.Valid) (hv3 : b3.Valid) (hper : b3.periodic = -1)
    {nc : ℕ} (hs : so.cps.shape = [b1.numFunctions, b2.numFunctions, b3.numFunctions, nc])
    (hnc : so.rational = true → 1 ≤ nc)
    (lo hi : ℕ) (h1 : lo + b3.order ≤ hi) (h2 : hi ≤ b3.numFunctions)
    (hlt : b3.kn (lo + b3.order - 1) < b3.kn hi) {tol : K} (htol : 0 < tol)
    {us vs ws : List K} (hus : ∀ u ∈ us, b1.Admissible tol u) (hvs : ∀ v ∈ vs, b2.Admissible tol v) (hws : ∀ w ∈ ws, b3.Admissible tol w)
    (hdom : ∀ u ∈ ws, b3.kn (lo + b3.order - 1) ≤ u ∧
      (u < b3.kn hi ∨ (u = b3.kn hi ∧ b3.kn hi = b3.stop)))
    (hneA1 : b1.periodic < 0 → us ≠ [] := by (first | assumption | (simp; done) | skip))
    (hneA2 : b2.periodic < 0 → vs ≠ [] := by (first | assumption | (simp; done) | skip))
    (hneA3 : b3.periodic < 0 → ws ≠ [] := by (first | assumption | (simp; done) | skip)) :
    ∃ res, so.evaluate tol [us, vs, ws] true = .ok res ∧
      res.shape = [us.length, vs.length, ws.length, so.dimension] ∧
      (⟨#[b1, b2, b3.piece lo hi], so.cps.sliceAxis 2 lo hi, so.rational⟩ : Obj K).evaluate tol [us, vs, ws] true = .ok res ∧
      (⟨#[b1, b2, b3.piece lo hi], so.cps.sliceAxis 2 lo hi, so.rational⟩ : Obj K).evaluate tol [us, vs, ws] false = so.evaluate tol [us, vs, ws] false := by
  have hb0 : so.basis 2 = b3 := by simp [Obj.basis, hb]
  have key := piece_along so 2 (by rw [hs]; simp) (by rw [hb0]; exact hv3)
    (by rw [hb0]; exact hper) lo hi (by rw [hb0]; exact h1) (by rw [hb0]; exact h2)
    (by rw [hb0]; exact hlt)
  rw [hb0] at key
  obtain ⟨hv', hper', hn', hst', hsp', hex', hsh, hsame⟩ := key
  have hpo : pieceObj so 2 lo hi = (⟨#[b1, b2, b3.piece lo hi], so.cps.sliceAxis 2 lo hi, so.rational⟩ : Obj K) := by
    unfold pieceObj; rw [hb0, hb]; rfl
  have hb'' : (pieceObj so 2 lo hi).bases = #[b1, b2, b3.piece lo hi] := by
    rw [hpo]
  have hs' : (pieceObj so 2 lo hi).cps.shape = [b1.numFunctions, b2.numFunctions, (b3.piece lo hi).numFunctions, nc] := by
    rw [hsh, hs, hn']; rfl
  have hrat : (pieceObj so 2 lo hi).rational = so.rational := rfl
  have hadm' : ∀ u ∈ ws, (b3.piece lo hi).Admissible tol u := fun u hu =>
    ⟨hex' tol u (hws u hu).1, fun _ => by
      rw [hst', hsp']
      rcases (hdom u hu).2 with h | ⟨h, _⟩
      · exact ⟨(hdom u hu).1, le_of_lt h⟩
      · exact ⟨(hdom u hu).1, le_of_eq h⟩,
    fun h0 => by rw [hper'] at h0; exact absurd h0 (by decide)⟩
  have hneB1 : (b3.piece lo hi).periodic < 0 → ws ≠ [] := by
    intro h
    first
      | exact hneA1 h | exact hneA2 h | exact hneA3 h | exact hneA4 h
      | exact hneA5 h | exact hneA6 h | exact hneA7 h | simpa using hneA1 h
      | simpa using hneA2 h | simpa using hneA3 h | simpa using hneA4 h | simpa using hneA5 h
      | simpa using hneA6 h | simpa using hneA7 h | exact hneA1 (by omega) | exact hneA2 (by omega)
      | exact hneA3 (by omega) | exact hneA4 (by omega) | exact hneA5 (by omega) | exact hneA6 (by omega)
      | exact hneA7 (by omega) | simpa using hneA1 (by omega) | simpa using hneA2 (by omega) | simpa using hneA3 (by omega)
      | simpa using hneA4 (by omega) | simpa using hneA5 (by omega) | simpa using hneA6 (by omega) | simpa using hneA7 (by omega)
      | exact hneA1 (by simp_all) | exact hneA2 (by simp_all) | exact hneA3 (by simp_all) | exact hneA4 (by simp_all)
      | exact hneA5 (by simp_all) | exact hneA6 (by simp_all) | exact hneA7 (by simp_all)
  obtain ⟨e, res, e1, e2⟩ := transfer_volume_w (o' := pieceObj so 2 lo hi) hb hb'' hv1 hv2 hv3 hv' hs hs' hrat hnc
    htol rfl
    hus
    hvs
    hws
    hadm'
    (fun p hp => hsame _ (hdom _ (getD_mem_of_lt ws hp 0)).1
      (hdom _ (getD_mem_of_lt ws hp 0)).2)
  have epw := pointwise_volume hb hb'' hv1 hv1 hv2 hv2 hv3 hv' hs hs' hrat hnc htol rfl rfl rfl
    hus hus hvs hvs hws hadm' e
  rw [hpo] at e epw
  exact ⟨res, e1, e2, e.trans e1, epw⟩

/-! ## C05 — order elevation (curves, surfaces, volumes; clamped and periodic) -/

/-- **C05 ⇒ evaluate.**  Curves: if `o'` is `ElevatedFrom tol b b' nc o ·` (the conclusion of
`C05_geometry_clamped(_full)` for `raise_order_implicit`, `SplineObject.raise_order`,
`Curve.raise_order`), then `o'` and `o` evaluate to the same tensor at parameters admissible for
both bases (`Bridge.SameEvalCurve`). -/
theorem Bridge_C05_curve {o o' : Obj K} {b b' : Basis K} (hb : o.bases = #[b]) (hv : b.Valid)
    (hv' : b'.Valid) {nc : ℕ} (hs : o.cps.shape = [b.numFunctions, nc])
    (hnc : o.rational = true → 1 ≤ nc) {tol : K}
    (htol : 0 < tol) (hE : ElevatedFrom tol b b' nc o o') {us : List K}
    (hus : ∀ u ∈ us, b.Admissible tol u) (hus' : ∀ u ∈ us, b'.Admissible tol u)
    (hneA1 : b.periodic < 0 → us ≠ [] := by (first | assumption | (simp; done) | skip))
    (hneA2 : b'.periodic < 0 → us ≠ [] := by (first | assumption | (simp; done) | skip)) :
    ∃ res, o.evaluate tol [us] true = .ok res ∧ res.shape = [us.length, o.dimension] ∧
      o'.evaluate tol [us] true = .ok res ∧
      o'.evaluate tol [us] false = o.evaluate tol [us] false := by
  have hs' := hE.2.2.1
  obtain ⟨e, res, e1, e2⟩ := transfer_curve hb hE.1 hv hv' hs hs' hE.2.1 hnc htol rfl hus hus'
    (fun p hp => elevated_along htol hv hv' hs hE (hus _ (getD_mem_of_lt us hp 0))
      (hus' _ (getD_mem_of_lt us hp 0)))
  exact ⟨res, e1, e2, e.trans e1,
    pointwise_curve hb hE.1 hv hv' hs hs' hE.2.1 hnc htol rfl hus hus' e⟩

/-- **C05 ⇒ evaluate, clamped non-periodic bases, under `H_sw`.**  With the hypotheses of
`C05_geometry_clamped` and Schoenberg–Whitney at the Greville points in the form "the model's
certified inverse exists", each of `raise_order_implicit(a)`, `SplineObject.raise_order(a)`,
`Curve.raise_order(a)` (the latter two for `a ≥ 1`) succeeds and returns a curve that evaluates to
the same tensor as the original at every list of parameters admissible for both bases. -/
theorem Bridge_C05_clamped_curve (tol : K) (htol : 0 < tol) (q a : ℕ) (hqa : 1 ≤ q + a)
    (x0 xl : K) (umid : List K) (mmid : List ℕ) (hlen : umid.length = mmid.length)
    (hsep : Separated tol (clampedU x0 xl umid)) (hm : ∀ j ∈ mmid, 1 ≤ j) (o : Obj K) (nc : ℕ)
    (hb : o.bases = #[openBasis (q+1) (clampedU x0 xl umid) (clampedM (q+1) mmid)])
    (hs : o.cps.shape
      = [(openBasis (q+1) (clampedU x0 xl umid) (clampedM (q+1) mmid)).numFunctions, nc])
    (hnc : o.rational = true → 1 ≤ nc) :
    let b := openBasis (q+1) (clampedU x0 xl umid) (clampedM (q+1) mmid)
    let b' := openBasis (q+1+a) (clampedU x0 xl umid) (clampedM (q+1+a) (mmid.map (· + a)))
    ∃ pts, b'.greville = .ok pts ∧
      ∀ Ni, Mat.invChecked (Obj.basisMat b' tol pts.toList 0 true) = .ok Ni →
        (∃ o', o.raiseOrderImplicit tol [a] = .ok o' ∧ SameEvalCurve tol b b' o o') ∧
        (1 ≤ a → ∃ o', o.raiseOrder tol [(a : Int)] none = .ok (.self, o') ∧
          SameEvalCurve tol b b' o o') ∧
        (1 ≤ a → ∃ o', o.curveRaiseOrder tol (a : Int) = .ok (.self, o') ∧
          SameEvalCurve tol b b' o o') := by
  intro b b'
  obtain ⟨_, pts, hg, H⟩ :=
    C05_geometry_clamped tol htol q a hqa x0 xl umid mmid hlen hsep hm o nc hb hs
  have hv : b.Valid :=
    openBasis_clamped_valid tol (le_of_lt htol) (q+1) (by omega) x0 xl umid mmid hlen hsep
  have hv' : b'.Valid :=
    openBasis_clamped_valid tol (le_of_lt htol) (q+1+a) (by omega) x0 xl umid _
      (by simpa using hlen) hsep
  have key : ∀ o', ElevatedFrom tol b b' nc o o' → SameEvalCurve tol b b' o o' :=
    fun o' hE us hus hus' hne => Bridge_C05_curve hb hv hv' hs hnc htol hE hus hus'
      (fun h => hne (Or.inl h)) (fun h => hne (Or.inr h))
  refine ⟨pts, hg, fun Ni hsw => ?_⟩
  obtain ⟨⟨o1, h1, E1⟩, h2, h3⟩ := H Ni hsw
  refine ⟨⟨o1, h1, key o1 E1⟩, fun ha => ?_, fun ha => ?_⟩
  · obtain ⟨o2, h2', E2⟩ := h2 ha
    exact ⟨o2, h2', key o2 E2⟩
  · obtain ⟨o3, h3', E3⟩ := h3 ha
    exact ⟨o3, h3', key o3 E3⟩

/-- **C05 ⇒ evaluate, clamped continuous bases — no analytic hypothesis.**  With the hypotheses of
`C05_geometry_clamped_full` (interior multiplicities `1 ≤ m ≤ q`; GUARD beyond validity of the basis,
`hknots`: distinct knots more than `2·(q+a)·tol = 2(p'−1)·tol` apart, or more than `tol` apart with
exact Greville points) all three `raise_order` paths succeed and return a curve that evaluates to
the same tensor as the original at every list of parameters admissible for both bases.  The guard is
necessary in some form: `evaluate` snaps parameters to knots closer than `tol`, so on a merely valid
(even `Separated tol`) basis two Greville points can collapse and the code raises `LinAlgError` —
order 3 on `0,0,0,3/2,3,3,3` with `tol = 1`, kernel-checked at the end of
`Lemmas/SchoenbergWhitney.lean`. -/
theorem Bridge_C05_clamped_full_curve (tol : K) (htol : 0 < tol) (q a : ℕ) (ha : 1 ≤ a)
    (x0 xl : K) (umid : List K) (mmid : List ℕ) (hlen : umid.length = mmid.length)
    (hm : ∀ j ∈ mmid, 1 ≤ j ∧ j ≤ q)
    (hknots : Separated (2 * ((q + a : ℕ) : K) * tol) (clampedU x0 xl umid) ∨
      (Separated tol (clampedU x0 xl umid) ∧
        ∀ pts, (openBasis (q+1+a) (clampedU x0 xl umid)
            (clampedM (q+1+a) (mmid.map (· + a)))).greville = .ok pts →
          ∀ t ∈ pts.toList, (openBasis (q+1+a) (clampedU x0 xl umid)
            (clampedM (q+1+a) (mmid.map (· + a)))).ExactAt tol t))
    (o : Obj K) (nc : ℕ)
    (hb : o.bases = #[openBasis (q+1) (clampedU x0 xl umid) (clampedM (q+1) mmid)])
    (hs : o.cps.shape
      = [(openBasis (q+1) (clampedU x0 xl umid) (clampedM (q+1) mmid)).numFunctions, nc])
    (hnc : o.rational = true → 1 ≤ nc) :
    let b := openBasis (q+1) (clampedU x0 xl umid) (clampedM (q+1) mmid)
    let b' := openBasis (q+1+a) (clampedU x0 xl umid) (clampedM (q+1+a) (mmid.map (· + a)))
    (∃ o', o.raiseOrderImplicit tol [a] = .ok o' ∧ SameEvalCurve tol b b' o o') ∧
    (∃ o', o.raiseOrder tol [(a : Int)] none = .ok (.self, o') ∧ SameEvalCurve tol b b' o o') ∧
    (∃ o', o.curveRaiseOrder tol (a : Int) = .ok (.self, o') ∧ SameEvalCurve tol b b' o o') := by
  intro b b'
  have hfac : tol ≤ 2 * ((q + a : ℕ) : K) * tol := by
    have h1 : (1 : K) ≤ ((q + a : ℕ) : K) := by exact_mod_cast (by omega : 1 ≤ q + a)
    nlinarith
  have hsep : Separated tol (clampedU x0 xl umid) := by
    rcases hknots with h | h
    · exact separated_mono hfac h
    · exact h.1
  have hv : b.Valid :=
    openBasis_clamped_valid tol (le_of_lt htol) (q+1) (by omega) x0 xl umid mmid hlen hsep
  have hv' : b'.Valid :=
    openBasis_clamped_valid tol (le_of_lt htol) (q+1+a) (by omega) x0 xl umid _
      (by simpa using hlen) hsep
  have key : ∀ o', ElevatedFrom tol b b' nc o o' → SameEvalCurve tol b b' o o' :=
    fun o' hE us hus hus' hne => Bridge_C05_curve hb hv hv' hs hnc htol hE hus hus'
      (fun h => hne (Or.inl h)) (fun h => hne (Or.inr h))
  obtain ⟨⟨o1, h1, E1⟩, ⟨o2, h2, E2⟩, ⟨o3, h3, E3⟩⟩ :=
    C05_geometry_clamped_full tol htol q a ha x0 xl umid mmid hlen hm hknots o nc hb hs
  exact ⟨⟨o1, h1, key o1 E1⟩, ⟨o2, h2, key o2 E2⟩, ⟨o3, h3, key o3 E3⟩⟩

/-- **C05 ⇒ evaluate, SURFACES on clamped continuous bases — no analytic hypothesis.**  With the
hypotheses of `C05_geometry_clamped_surface` (both bases clamped continuous in the form of
`C05_knots`, amounts `a_u, a_v ≥ 0` not both `0`, no order-1 result)
the public `raise_order(a_u, a_v)` succeeds, returns the receiver, and the result evaluates to the
same tensor as the original at every pair of parameter lists admissible for the old and the new
bases (`SameEvalSurface`: `tensor=True` and `tensor=False`).
GUARD beyond validity of the bases (inherited from the C05 theorem): in every direction the distinct
knots are more than `2·(q+a)·tol = 2·(p'−1)·tol` apart, `p'` the new order.  It is necessary in some
form: `evaluate` snaps parameters to knots closer than `tol`, so on a merely valid (even
`Separated tol`) basis two Greville points can collapse and the code raises `LinAlgError` — order 3 on
`0,0,0,3/2,3,3,3` with `tol = 1`, kernel-checked at the end of `Lemmas/SchoenbergWhitney.lean`.
All hypotheses are instantiated on `c05Surf` in the non-vacuity section. -/
theorem Bridge_C05_clamped_surface (tol : K) (htol : 0 < tol)
    (qu au : ℕ) (hqu : 1 ≤ qu + au) (x0u xlu : K) (umidu : List K) (mmidu : List ℕ)
    (hlenu : umidu.length = mmidu.length) (hmu : ∀ j ∈ mmidu, 1 ≤ j ∧ j ≤ qu)
    (hgapu : Separated (2 * ((qu + au : ℕ) : K) * tol) (clampedU x0u xlu umidu))
    (qv av : ℕ) (hqv : 1 ≤ qv + av) (x0v xlv : K) (umidv : List K) (mmidv : List ℕ)
    (hlenv : umidv.length = mmidv.length) (hmv : ∀ j ∈ mmidv, 1 ≤ j ∧ j ≤ qv)
    (hgapv : Separated (2 * ((qv + av : ℕ) : K) * tol) (clampedU x0v xlv umidv))
    (hnz : au ≠ 0 ∨ av ≠ 0)
    (o : Obj K) (hw : C06.WF o 2)
    (hb0 : o.basis 0 = openBasis (qu+1) (clampedU x0u xlu umidu) (clampedM (qu+1) mmidu))
    (hb1 : o.basis 1 = openBasis (qv+1) (clampedU x0v xlv umidv) (clampedM (qv+1) mmidv))
    (hnc : o.rational = true → 1 ≤ o.ncomp) :
    ∃ o', o.raiseOrder tol [(au : Int), (av : Int)] none = .ok (.self, o')
      ∧ o.raiseOrderImplicit tol [au, av] = .ok o'
      ∧ SameEvalSurface tol
          (openBasis (qu+1) (clampedU x0u xlu umidu) (clampedM (qu+1) mmidu))
          (openBasis (qu+1+au) (clampedU x0u xlu umidu) (clampedM (qu+1+au) (mmidu.map (· + au))))
          (openBasis (qv+1) (clampedU x0v xlv umidv) (clampedM (qv+1) mmidv))
          (openBasis (qv+1+av) (clampedU x0v xlv umidv) (clampedM (qv+1+av) (mmidv.map (· + av)))) o o' :=
  bridge_C05_clamped_surface tol htol qu au hqu x0u xlu umidu mmidu hlenu hmu hgapu
    qv av hqv x0v xlv umidv mmidv hlenv hmv hgapv hnz o hw hb0 hb1 hnc

/-- **C05 ⇒ evaluate, VOLUMES on clamped continuous bases — no analytic hypothesis.**  With the
hypotheses of `C05_geometry_clamped_volume` the public `raise_order(a_u, a_v, a_w)` succeeds, returns
the receiver, and the result evaluates to the same tensor as the original at every triple of
parameter lists admissible for the old and the new bases (`SameEvalVolume`).
GUARD beyond validity of the bases (inherited from the C05 theorem): in every direction the distinct
knots are more than `2·(q+a)·tol = 2·(p'−1)·tol` apart, `p'` the new order.  It is necessary in some
form: `evaluate` snaps parameters to knots closer than `tol`, so on a merely valid (even
`Separated tol`) basis two Greville points can collapse and the code raises `LinAlgError` — order 3 on
`0,0,0,3/2,3,3,3` with `tol = 1`, kernel-checked at the end of `Lemmas/SchoenbergWhitney.lean`.
All hypotheses are instantiated on the rational volume `c05Vol` in the non-vacuity section. -/
theorem Bridge_C05_clamped_volume (tol : K) (htol : 0 < tol)
    (qu au : ℕ) (hqu : 1 ≤ qu + au) (x0u xlu : K) (umidu : List K) (mmidu : List ℕ)
    (hlenu : umidu.length = mmidu.length) (hmu : ∀ j ∈ mmidu, 1 ≤ j ∧ j ≤ qu)
    (hgapu : Separated (2 * ((qu + au : ℕ) : K) * tol) (clampedU x0u xlu umidu))
    (qv av : ℕ) (hqv : 1 ≤ qv + av) (x0v xlv : K) (umidv : List K) (mmidv : List ℕ)
    (hlenv : umidv.length = mmidv.length) (hmv : ∀ j ∈ mmidv, 1 ≤ j ∧ j ≤ qv)
    (hgapv : Separated (2 * ((qv + av : ℕ) : K) * tol) (clampedU x0v xlv umidv))
    (qw aw : ℕ) (hqw : 1 ≤ qw + aw) (x0w xlw : K) (umidw : List K) (mmidw : List ℕ)
    (hlenw : umidw.length = mmidw.length) (hmw : ∀ j ∈ mmidw, 1 ≤ j ∧ j ≤ qw)
    (hgapw : Separated (2 * ((qw + aw : ℕ) : K) * tol) (clampedU x0w xlw umidw))
    (hnz : au ≠ 0 ∨ av ≠ 0 ∨ aw ≠ 0)
    (o : Obj K) (hw : C06.WF o 3)
    (hb0 : o.basis 0 = openBasis (qu+1) (clampedU x0u xlu umidu) (clampedM (qu+1) mmidu))
    (hb1 : o.basis 1 = openBasis (qv+1) (clampedU x0v xlv umidv) (clampedM (qv+1) mmidv))
    (hb2 : o.basis 2 = openBasis (qw+1) (clampedU x0w xlw umidw) (clampedM (qw+1) mmidw))
    (hnc : o.rational = true → 1 ≤ o.ncomp) :
    ∃ o', o.raiseOrder tol [(au : Int), (av : Int), (aw : Int)] none = .ok (.self, o')
      ∧ o.raiseOrderImplicit tol [au, av, aw] = .ok o'
      ∧ SameEvalVolume tol
          (openBasis (qu+1) (clampedU x0u xlu umidu) (clampedM (qu+1) mmidu))
          (openBasis (qu+1+au) (clampedU x0u xlu umidu) (clampedM (qu+1+au) (mmidu.map (· + au))))
          (openBasis (qv+1) (clampedU x0v xlv umidv) (clampedM (qv+1) mmidv))
          (openBasis (qv+1+av) (clampedU x0v xlv umidv) (clampedM (qv+1+av) (mmidv.map (· + av))))
          (openBasis (qw+1) (clampedU x0w xlw umidw) (clampedM (qw+1) mmidw))
          (openBasis (qw+1+aw) (clampedU x0w xlw umidw) (clampedM (qw+1+aw) (mmidw.map (· + aw)))) o o' :=
  bridge_C05_clamped_volume tol htol qu au hqu x0u xlu umidu mmidu hlenu hmu hgapu
    qv av hqv x0v xlv umidv mmidv hlenv hmv hgapv qw aw hqw x0w xlw umidw mmidw hlenw hmw hgapw
    hnz o hw hb0 hb1 hb2 hnc

/-- **C05 ⇒ evaluate, PERIODIC curves (partial: relative to `H_sw` only).**  With the hypotheses of
`C05_geometry_periodic_partial` (standard periodic basis `PerData`, `a ≥ 1`, the periodic Greville
collocation matrix has the model's certified inverse, the Greville points are admissible for both
bases; degree-elevation inclusion for periodic bases is proved, `C05_elevation_periodic`) each of
`raise_order_implicit(a)`, `SplineObject.raise_order(a)`, `Curve.raise_order(a)` succeeds and returns a
curve that evaluates to the same tensor as the original at every list of parameters admissible for
both bases (`tensor=True` and `tensor=False`; parameters outside the domain are wrapped). -/
theorem Bridge_C05_periodic_curve_partial {tol : K} {p k : ℕ} {w0 : K} {wr : List K} {μ0 : ℕ}
    {μr : List ℕ} {T : K} (h : PerData tol p k w0 wr μ0 μr T) (htol : 0 < tol) (a : ℕ) (ha : 1 ≤ a)
    (o : Obj K) (nc : ℕ)
    (hb : o.bases = #[perBasis p k (w0 :: wr) (μ0 :: μr) T])
    (hs : o.cps.shape = [(perBasis p k (w0 :: wr) (μ0 :: μr) T).numFunctions, nc])
    (hnc : o.rational = true → 1 ≤ nc)
    (pts : Array K)
    (hg : (perBasis (p + a) k (w0 :: wr) ((μ0 :: μr).map (· + a)) T).greville = .ok pts)
    (hadm : ∀ t ∈ pts.toList, (perBasis p k (w0 :: wr) (μ0 :: μr) T).Admissible tol t ∧
      (perBasis (p + a) k (w0 :: wr) ((μ0 :: μr).map (· + a)) T).Admissible tol t)
    (Ni : Mat K)
    (H_sw : Mat.invChecked (Obj.basisMat (perBasis (p + a) k (w0 :: wr) ((μ0 :: μr).map (· + a)) T)
      tol pts.toList 0 true) = .ok Ni) :
    let b := perBasis p k (w0 :: wr) (μ0 :: μr) T
    let b' := perBasis (p + a) k (w0 :: wr) ((μ0 :: μr).map (· + a)) T
    (∃ o', o.raiseOrderImplicit tol [a] = .ok o' ∧ SameEvalCurve tol b b' o o') ∧
    (∃ o', o.raiseOrder tol [(a : Int)] none = .ok (.self, o') ∧ SameEvalCurve tol b b' o o') ∧
    (∃ o', o.curveRaiseOrder tol (a : Int) = .ok (.self, o') ∧ SameEvalCurve tol b b' o o') := by
  intro b b'
  have hv : b.Valid := h.valid htol.le
  have hv' : b'.Valid := by
    have := (h.raise a).valid htol.le
    have hmap : (μ0 :: μr).map (· + a) = (μ0 + a) :: μr.map (· + a) := by simp
    show (perBasis (p + a) k (w0 :: wr) ((μ0 :: μr).map (· + a)) T).Valid
    rw [hmap]; exact this
  obtain ⟨⟨o1, h1, E1⟩, ⟨o2, h2, E2⟩, ⟨o3, h3, E3⟩⟩ :=
    C05_geometry_periodic_partial h htol a ha o nc hb hs pts hg hadm Ni H_sw
  exact ⟨⟨o1, h1, sameEvalCurve_of_elevatedOn hb hv hv' hs hnc htol E1⟩,
    ⟨o2, h2, sameEvalCurve_of_elevatedOn hb hv hv' hs hnc htol E2⟩,
    ⟨o3, h3, sameEvalCurve_of_elevatedOn hb hv hv' hs hnc htol E3⟩⟩

/-- **C05 ⇒ evaluate, periodic curves — a hypothesis-free family.**  Uniform periodic quadratic
(`BSplineBasis(3, s0 + h*arange(-2, m+4), periodic=1)`, `m + 1 ≥ 3` knots per period) raised by 1, any
`0 < tol ≤ h/3`: `H_sw` and the admissibility of the Greville points are proved
(`C05_geometry_periodic_uniform_cubic`), so each of the three `raise_order` paths succeeds and returns a
curve that evaluates to the same tensor as the original at every list of parameters admissible for
both bases — no analytic hypothesis. -/
theorem Bridge_C05_periodic_uniform_cubic (tol s0 h : K) (htol : 0 < tol) (htolh : tol ≤ h / 3)
    (m : ℕ) (hm : 2 ≤ m) (o : Obj K) (nc : ℕ)
    (hb : o.bases = #[perBasis 3 1 (s0 :: uwr s0 h m) (1 :: List.replicate m 1) (h * ((m : K) + 1))])
    (hs : o.cps.shape
      = [(perBasis 3 1 (s0 :: uwr s0 h m) (1 :: List.replicate m 1) (h * ((m : K) + 1))).numFunctions, nc])
    (hnc : o.rational = true → 1 ≤ nc) :
    let b := perBasis 3 1 (s0 :: uwr s0 h m) (1 :: List.replicate m 1) (h * ((m : K) + 1))
    let b' := perBasis (3 + 1) 1 (s0 :: uwr s0 h m) ((1 :: List.replicate m 1).map (· + 1)) (h * ((m : K) + 1))
    (∃ o', o.raiseOrderImplicit tol [1] = .ok o' ∧ SameEvalCurve tol b b' o o') ∧
    (∃ o', o.raiseOrder tol [((1 : ℕ) : Int)] none = .ok (.self, o') ∧ SameEvalCurve tol b b' o o') ∧
    (∃ o', o.curveRaiseOrder tol ((1 : ℕ) : Int) = .ok (.self, o') ∧ SameEvalCurve tol b b' o o') := by
  obtain ⟨hd, pts, Ni, hg, hadm, hNi⟩ := uniform_quadratic_raise_hsw tol s0 h htol htolh m hm
  exact Bridge_C05_periodic_curve_partial hd htol 1 le_rfl o nc hb hs hnc pts hg hadm Ni hNi

/-- **C05 ⇒ evaluate, SURFACES with periodic directions (partial: relative to `H_sw` of the periodic
directions).**  `o` is a well-formed surface whose two directions are `DirOKw` — clamped continuous
(`dirOK_clamped` + `DirOK.weak`, no hypothesis), unchanged (`dirOK_unchanged`), or standard periodic
(`C05_periodic_direction_partial`, relative to `H_sw` and admissible Greville points) — and the guard
of `raise_order` evaluates.  Then the public `raise_order(a_u, a_v)` succeeds, returns the receiver, and
the result evaluates to the same tensor as the original at every pair of parameter lists admissible
for the old and new bases (`tensor=True` and `tensor=False`). -/
theorem Bridge_C05_weak_surface_partial (o : Obj K) (tol : K) (htol : 0 < tol) (hw : C06.WF o 2)
    (au av : ℕ) (bu' bv' : Basis K) (Eu Ev : ℕ → ℕ → K) (hu : DirOKw tol (o.basis 0) au bu' Eu)
    (hv : DirOKw tol (o.basis 1) av bv' Ev) (hnc : o.rational = true → 1 ≤ o.ncomp)
    (hnz : au ≠ 0 ∨ av ≠ 0) (hguard : Obj.raiseGuard tol o.bases.toList = .ok true) :
    ∃ o', o.raiseOrder tol [(au : Int), (av : Int)] none = .ok (.self, o')
      ∧ o.raiseOrderImplicit tol [au, av] = .ok o'
      ∧ SameEvalSurface tol (o.basis 0) bu' (o.basis 1) bv' o o' :=
  raiseOrder_surface_sameEval_w o tol htol hw au av bu' bv' Eu Ev hu hv hnc hnz hguard

/-- **C05 ⇒ evaluate, VOLUMES with periodic directions (partial: relative to `H_sw` of the periodic
directions).**  As `Bridge_C05_weak_surface_partial` for three directions. -/
theorem Bridge_C05_weak_volume_partial (o : Obj K) (tol : K) (htol : 0 < tol) (hw : C06.WF o 3)
    (au av aw : ℕ) (bu' bv' bw' : Basis K) (Eu Ev Ew : ℕ → ℕ → K)
    (hu : DirOKw tol (o.basis 0) au bu' Eu) (hv : DirOKw tol (o.basis 1) av bv' Ev)
    (hw2 : DirOKw tol (o.basis 2) aw bw' Ew) (hnc : o.rational = true → 1 ≤ o.ncomp)
    (hnz : au ≠ 0 ∨ av ≠ 0 ∨ aw ≠ 0) (hguard : Obj.raiseGuard tol o.bases.toList = .ok true) :
    ∃ o', o.raiseOrder tol [(au : Int), (av : Int), (aw : Int)] none = .ok (.self, o')
      ∧ o.raiseOrderImplicit tol [au, av, aw] = .ok o'
      ∧ SameEvalVolume tol (o.basis 0) bu' (o.basis 1) bv' (o.basis 2) bw' o o' :=
  raiseOrder_volume_sameEval_w o tol htol hw au av aw bu' bv' bw' Eu Ev Ew hu hv hw2 hnc hnz hguard

/-- **C05 ⇒ evaluate, a surface periodic in `u` and clamped continuous in `v` (partial: relative to
`H_sw` of the periodic direction only).**  Concrete instance of `Bridge_C05_weak_surface_partial`:
`u` on a standard periodic basis (`PerData`), `v` on a clamped continuous basis in the form of
`C05_knots`; the only hypotheses beyond the knot-vector forms are the certified inverse of the periodic
Greville collocation matrix and admissibility of the periodic Greville points. -/
theorem Bridge_C05_periodic_surface_partial {tol : K} {p k : ℕ} {w0 : K} {wr : List K} {μ0 : ℕ}
    {μr : List ℕ} {T : K} (h : PerData tol p k w0 wr μ0 μr T) (htol : 0 < tol) (au : ℕ)
    (pts : Array K)
    (hg : (perBasis (p + au) k (w0 :: wr) ((μ0 :: μr).map (· + au)) T).greville = .ok pts)
    (hadm : ∀ t ∈ pts.toList, (perBasis p k (w0 :: wr) (μ0 :: μr) T).Admissible tol t ∧
      (perBasis (p + au) k (w0 :: wr) ((μ0 :: μr).map (· + au)) T).Admissible tol t)
    (Ni : Mat K)
    (H_sw : Mat.invChecked (Obj.basisMat (perBasis (p + au) k (w0 :: wr) ((μ0 :: μr).map (· + au)) T)
      tol pts.toList 0 true) = .ok Ni)
    (qv av : ℕ) (hqv : 1 ≤ qv + av) (x0v xlv : K) (umidv : List K) (mmidv : List ℕ)
    (hlenv : umidv.length = mmidv.length) (hmv : ∀ j ∈ mmidv, 1 ≤ j ∧ j ≤ qv)
    (hgapv : Separated (2 * ((qv + av : ℕ) : K) * tol) (clampedU x0v xlv umidv))
    (hnz : au ≠ 0 ∨ av ≠ 0)
    (o : Obj K) (hw : C06.WF o 2)
    (hb0 : o.basis 0 = perBasis p k (w0 :: wr) (μ0 :: μr) T)
    (hb1 : o.basis 1 = openBasis (qv+1) (clampedU x0v xlv umidv) (clampedM (qv+1) mmidv))
    (hnc : o.rational = true → 1 ≤ o.ncomp) :
    ∃ o', o.raiseOrder tol [(au : Int), (av : Int)] none = .ok (.self, o')
      ∧ o.raiseOrderImplicit tol [au, av] = .ok o'
      ∧ SameEvalSurface tol
          (perBasis p k (w0 :: wr) (μ0 :: μr) T)
          (perBasis (p + au) k (w0 :: wr) ((μ0 :: μr).map (· + au)) T)
          (openBasis (qv+1) (clampedU x0v xlv umidv) (clampedM (qv+1) mmidv))
          (openBasis (qv+1+av) (clampedU x0v xlv umidv) (clampedM (qv+1+av) (mmidv.map (· + av)))) o o' :=
  bridge_C05_periodic_surface h htol au pts hg hadm Ni H_sw qv av hqv x0v xlv umidv mmidv hlenv hmv hgapv
    hnz o hw hb0 hb1 hnc

/-! ## The continuity hypothesis of `reverse` cannot be dropped -/

/-- Piecewise constant basis (order 1) on `[0, 2]` with the interior knot `1` of full
multiplicity. -/
def Bridge_exStep : Basis ℚ := ⟨1, #[0, 1, 2], -1⟩

/-- The step curve `0` on `[0,1)`, `1` on `[1,2]`. -/
def Bridge_exStepCurve : Obj ℚ := ⟨#[Bridge_exStep], ⟨[2, 1], #[0, 1]⟩, false⟩

theorem Bridge_exStep_valid : Bridge_exStep.Valid where
  order_pos := by decide
  size_ge := by decide
  sorted := by
    intro i hi
    have hi' : i + 1 < 3 := hi
    have hi'' : i < 2 := by omega
    interval_cases i <;> norm_num [Basis.kn, Bridge_exStep]
  periodic_ge := by decide
  periodic_le := by decide
  start_lt_stop := by norm_num [Basis.start, Basis.stop, Basis.kn, Bridge_exStep]
  ghosts := fun h => absurd h (by decide)

theorem Bridge_exStep_adm : ∀ u ∈ [(1 : ℚ)], Bridge_exStep.Admissible (1/1000) u := by
  intro u hu
  simp only [List.mem_cons, List.not_mem_nil, or_false] at hu
  subst hu
  refine ⟨?_, fun _ => by norm_num [Basis.start, Basis.stop, Basis.kn, Bridge_exStep],
    fun h => absurd h (by decide)⟩
  intro i hi
  have hi' : i < 3 := hi
  interval_cases i <;> norm_num [Basis.kn, Bridge_exStep, abs_of_nonneg, abs_of_neg]

/-- **The continuity hypothesis of `Bridge_C06_reverse_*` is necessary.**  The step curve
(order 1, knots `0, 1, 2`, control points `0, 1`) at the interior knot `u = 1` of full
multiplicity: `start + end - u = 1`, the parameter is admissible for both bases, and the reversed
curve evaluates to `0` there whereas the original evaluates to `1` (`evaluate` takes the limit from
the right on both sides of the identity). -/
theorem Bridge_C06_reverse_jump :
    Bridge_exStep.start + Bridge_exStep.stop - 1 = 1 ∧
    (Bridge_exStepCurve.reverse 0).evaluate (1/1000)
        [[Bridge_exStep.start + Bridge_exStep.stop - 1]] true
      ≠ Bridge_exStepCurve.evaluate (1/1000) [[1]] true := by
  have hst : Bridge_exStep.start = 0 := by norm_num [Basis.start, Basis.kn, Bridge_exStep]
  have hsp : Bridge_exStep.stop = 2 := by norm_num [Basis.stop, Basis.kn, Bridge_exStep]
  have h1 : Bridge_exStep.start + Bridge_exStep.stop - 1 = 1 := by rw [hst, hsp]; norm_num
  refine ⟨h1, ?_⟩
  rw [h1]
  obtain ⟨res, e1, _, e3⟩ := eval_curve (o := Bridge_exStepCurve) rfl Bridge_exStep_valid
    (nc := 1) rfl (fun h => absurd h (by decide)) (tol := 1/1000) (by norm_num) Bridge_exStep_adm
  have hadm' : ∀ u ∈ [(1 : ℚ)], Bridge_exStep.reverse.Admissible (1/1000) u := by
    intro u hu
    have := admissible_reverse Bridge_exStep_valid rfl (Bridge_exStep_adm u hu)
    simp only [List.mem_cons, List.not_mem_nil, or_false] at hu
    subst hu
    rw [h1] at this
    exact this
  have hshape : (Bridge_exStepCurve.reverse 0).cps.shape
      = [Bridge_exStep.reverse.numFunctions, 1] := by
    rw [C06.reverse_numFunctions]
    exact (reverse_along Bridge_exStepCurve 0 (by decide) Bridge_exStep_valid rfl rfl).2.2.1
  obtain ⟨res', e1', _, e3'⟩ := eval_curve (o := Bridge_exStepCurve.reverse 0)
    (b1 := Bridge_exStep.reverse) rfl (C06.reverse_valid Bridge_exStep_valid)
    (nc := 1) hshape (fun h => absurd h (by decide)) (tol := 1/1000) (by norm_num) hadm'
  have hk : ∀ j, Bridge_exStep.reverse.kn j = Bridge_exStep.kn j := by
    intro j
    rw [C06_reverse_knots Bridge_exStep_valid, hst, hsp]
    rcases j with _ | _ | _ | j <;> norm_num [Basis.kn, Bridge_exStep]
  have hnc' : (Bridge_exStepCurve.reverse 0).ncomp = 1 := (Obj.dimension_of_shape
    (pre := [Bridge_exStep.reverse.numFunctions]) hshape).1
  have hr' : (Bridge_exStepCurve.reverse 0).rational = false := rfl
  have hd' : (Bridge_exStepCurve.reverse 0).dimension = 1 := by
    unfold Obj.dimension; rw [hnc', hr']; rfl
  have hc0 : (Bridge_exStepCurve.reverse 0).cps.get 0 = 1 := by decide
  have hc1 : (Bridge_exStepCurve.reverse 0).cps.get 1 = 0 := by decide
  have a1 : res.get 0 = 1 := by
    have := e3.entry 0 0 (by decide) (by decide)
    rw [show Bridge_exStepCurve.dimension = 1 from rfl,
      show Bridge_exStepCurve.rational = false from rfl,
      show Bridge_exStepCurve.ncomp = 1 from rfl] at this
    rw [this]
    simp only [num, Basis.specRow_nonperiodic (b := Bridge_exStep) rfl, effSide, hsp]
    norm_num [Finset.sum_range_succ, B, ind, Basis.kn, Bridge_exStep, Basis.numFunctions,
      Bridge_exStepCurve, Tensor.get]
  have a2 : res'.get 0 = 0 := by
    have := e3'.entry 0 0 (by decide) (by rw [hd']; decide)
    rw [hd', hr', hnc'] at this
    rw [this]
    simp only [num, Basis.specRow_nonperiodic (b := Bridge_exStep.reverse) rfl, effSide,
      C06.reverse_stop Bridge_exStep_valid, hsp, funext hk, C06.reverse_numFunctions,
      C06.reverse_order]
    norm_num [Finset.sum_range_succ, B, ind, Basis.kn, Bridge_exStep, Basis.numFunctions, hc0, hc1]
  rw [e1, e1']
  intro h
  injection h with h
  rw [h, a1] at a2
  exact one_ne_zero a2

/-! ## Non-vacuity: concrete objects over `ℚ` meeting the hypotheses -/

/-- C04 on a rational curve. -/
example := Bridge_C04_curve (o := C02_exCurveRat) rfl C01_exOpen_valid rfl (nc := 3) rfl
  (fun _ => by decide) [1, 2]
  (by
    intro x hx
    rw [C01_exOpen_start, C01_exOpen_stop]
    simp only [List.mem_cons, List.not_mem_nil, or_false] at hx
    rcases hx with rfl | rfl <;> norm_num)
  (tol := 1/1000) (by norm_num) C02_exOpen_adm
  (by
    intro u hu x hx
    simp only [List.mem_cons, List.not_mem_nil, or_false] at hu hx
    rcases hu with rfl | rfl <;> rcases hx with rfl | rfl <;> right <;>
      norm_num [abs_of_nonneg, abs_of_neg])

private theorem exLin_not_knot (u : ℚ) (h0 : u ≠ 0) (h1 : u ≠ 1) (j : ℕ) : C02_exLin.kn j ≠ u := by
  intro h
  rcases j with _ | _ | _ | _ | j <;> simp [Basis.kn, C02_exLin] at h <;> simp_all

example := Bridge_C06_reverse_surface_u (o := C02_exSurfRat) rfl C02_exLin_valid C02_exLin_valid rfl
  (nc := 3) rfl (fun _ => by decide) (tol := 1/1000) (by norm_num) C02_exLin_adm C02_exLin_adm
  (by
    intro u hu
    simp only [List.mem_cons, List.not_mem_nil, or_false] at hu
    rcases hu with rfl | rfl
    · right; right
      intro j hj
      exact absurd hj (exLin_not_knot _ (by norm_num) (by norm_num) j)
    · right; left; rw [C02_exLin_stop])

/-- C04 along `v` of a non-rational surface and along `w` of a rational volume. -/
example := Bridge_C04_surface_v (o := C02_exSurf) rfl C02_exLin_valid C02_exLin_valid rfl
  (nc := 3) rfl (fun h => absurd h (by decide)) [1/4]
  (by
    intro x hx
    rw [C02_exLin_start, C02_exLin_stop]
    simp only [List.mem_cons, List.not_mem_nil, or_false] at hx
    subst hx; norm_num)
  (tol := 1/1000) (by norm_num) C02_exLin_adm C02_exLin_adm
  (by
    intro u hu x hx
    simp only [List.mem_cons, List.not_mem_nil, or_false] at hu hx
    subst hx
    rcases hu with rfl | rfl <;> right <;> norm_num [abs_of_nonneg, abs_of_neg])

example := Bridge_C04_volume_w (o := C02_exVolRat) rfl C02_exLin_valid C02_exLin_valid
  C02_exLin_valid rfl (nc := 2) rfl (fun _ => by decide) [1/4]
  (by
    intro x hx
    rw [C02_exLin_start, C02_exLin_stop]
    simp only [List.mem_cons, List.not_mem_nil, or_false] at hx
    subst hx; norm_num)
  (tol := 1/1000) (by norm_num) C02_exLin_adm C02_exLin_adm C02_exLin_adm
  (by
    intro u hu x hx
    simp only [List.mem_cons, List.not_mem_nil, or_false] at hu hx
    subst hx
    rcases hu with rfl | rfl <;> right <;> norm_num [abs_of_nonneg, abs_of_neg])

/-- C07: the last piece `[2, 3]` (control points 3..5) of the rational curve, at the domain end. -/
example := Bridge_C07_piece_curve_partial (so := C02_exCurveRat) rfl C01_exOpen_valid rfl
  (nc := 3) rfl (fun _ => by decide) 3 6 (by decide) (by decide)
  (by norm_num [Basis.kn, C01_exOpen]) (tol := 1/1000) (by norm_num) (us := [3])
  (fun u hu => C02_exOpen_adm u (by simp at hu ⊢; right; exact hu))
  (by
    intro u hu
    simp only [List.mem_cons, List.not_mem_nil, or_false] at hu
    subst hu
    refine ⟨by norm_num [Basis.kn, C01_exOpen], Or.inr ⟨?_, ?_⟩⟩
    · norm_num [Basis.kn, C01_exOpen]
    · rw [C01_exOpen_stop]; norm_num [Basis.kn, C01_exOpen])

/-- C09: explicit translation of a rational curve. -/
example := Bridge_C09_translate_curve (o := C02_exCurveRat) [1, 2] (by decide) rfl
  C01_exOpen_valid (nc := 3) rfl (by decide) rfl
  (by
    intro _ k hk
    have hk' : k < 6 := hk
    interval_cases k <;> norm_num [Tensor.get, C02_exCurveRat])
  (tol := 1/1000) (by norm_num) C02_exOpen_adm

example := Bridge_C09_volume (o := C02_exVolRat) (.scale [.scalar 2]) trivial rfl rfl
  C02_exLin_valid C02_exLin_valid C02_exLin_valid (nc := 2) rfl (by decide) rfl
  (by
    intro _ k hk
    have hk' : k < 8 := hk
    interval_cases k <;> norm_num [Tensor.get, C02_exVolRat])
  (tol := 1/1000) (by norm_num) C02_exLin_adm C02_exLin_adm C02_exLin_adm

/-- reparam of the `v` direction of a rational surface to `[0, 2]`. -/
example := Bridge_C06_reparam_surface_v (o := C02_exSurfRat) rfl C02_exLin_valid C02_exLin_valid rfl
  (nc := 3) rfl (fun _ => by decide) (s := 0) (e := 2)
  (C06.reparam_ok C02_exLin (by norm_num)) (tol := 1/1000) (by norm_num)
  C02_exLin_adm C02_exLin_adm
  (by
    intro u hu
    refine admissible_reparam C02_exLin_valid rfl (by norm_num) ?_ ((C02_exLin_adm u hu).2.1 rfl)
    intro i hi
    rcases (C02_exLin_adm u hu).1 i hi with h | h
    · left; exact h
    · right
      rw [C02_exLin_start, C02_exLin_stop]
      have := abs_nonneg (C02_exLin.kn i - u)
      linarith)

example := Bridge_C09_curve (o := C02_exCurveRat) (.translate [1, 2]) trivial rfl rfl
  C01_exOpen_valid (nc := 3) rfl (by decide) rfl
  (by
    intro _ k hk
    have hk' : k < 6 := hk
    interval_cases k <;> norm_num [Tensor.get, C02_exCurveRat])
  (tol := 1/1000) (by norm_num) C02_exOpen_adm

example := Bridge_C09_surface_run (o := C02_exSurf)
  [.rotate (3/5) (4/5) [1, 2, 2] [1/3, 2/3, 2/3], .mirror [2/3, -1/3, 2/3],
    .scale [.scalar 2, .scalar 3, .scalar (-1)], .translate [1, 2, 3]]
  (by simp [AffOp.Admissible]) rfl rfl
  C02_exLin_valid C02_exLin_valid (nc := 3) rfl (by decide) rfl
  (by intro h; exact absurd h (by decide))
  (tol := 1/1000) (by norm_num) C02_exLin_adm C02_exLin_adm

attribute [local instance] c05BasisDecEq

private theorem c05B2_adm : ∀ u ∈ [(1/2 : ℚ)], c05B2.Admissible (1/100) u := by
  intro u hu
  simp only [List.mem_cons, List.not_mem_nil, or_false] at hu
  subst hu
  refine ⟨?_, fun _ => by
      norm_num [Basis.start, Basis.stop, Basis.kn, c05B2, openBasis, expand, clampedU, clampedM],
    fun h => absurd h (by decide)⟩
  intro i hi
  have hi' : i < 4 := hi
  interval_cases i <;>
    norm_num [Basis.kn, c05B2, openBasis, expand, clampedU, clampedM, abs_of_nonneg, abs_of_neg]

private theorem c05B3_adm : ∀ u ∈ [(1/2 : ℚ)], c05B3.Admissible (1/100) u := by
  intro u hu
  simp only [List.mem_cons, List.not_mem_nil, or_false] at hu
  subst hu
  refine ⟨?_, fun _ => by
      norm_num [Basis.start, Basis.stop, Basis.kn, c05B3, openBasis, expand, clampedU, clampedM],
    fun h => absurd h (by decide)⟩
  intro i hi
  have hi' : i < 6 := hi
  interval_cases i <;>
    norm_num [Basis.kn, c05B3, openBasis, expand, clampedU, clampedM, abs_of_nonneg, abs_of_neg]

/-- The segment `(0,0) → (2,4)` of order 2. -/
def Bridge_exSeg : Obj ℚ := ⟨#[c05B2], ⟨[2, 2], #[0, 0, 2, 4]⟩, false⟩

/-- C05: the segment raised from order 2 to order 3 evaluates to the same point at `u = 1/2`
(`H_sw` evaluated by the kernel) … -/
example : ∃ o' res, Bridge_exSeg.raiseOrderImplicit (1/100) [1] = .ok o' ∧
    Bridge_exSeg.evaluate (1/100) [[1/2]] true = .ok res ∧
    o'.evaluate (1/100) [[1/2]] true = .ok res := by
  obtain ⟨pts, hg, h⟩ := Bridge_C05_clamped_curve (K := ℚ) (1/100) (by norm_num) 1 1 (by norm_num)
    0 1 [] [] rfl (by simp [Separated, clampedU]; norm_num) (by simp) Bridge_exSeg 2 rfl
    (by decide +kernel) (fun h => absurd h (by decide))
  have hpts : pts = #[0, 1/2, 1] := by
    have h2 : c05B3.greville = .ok #[0, 1/2, 1] := by decide +kernel
    have : Except.ok pts = (Except.ok #[0, 1/2, 1] : PyM (Array ℚ)) := hg.symm.trans h2
    injection this
  subst hpts
  obtain ⟨⟨o', h1, h2⟩, _, _⟩ := h #[#[1,0,0],#[-1/2,2,-1/2],#[0,0,1]] (by decide +kernel)
  obtain ⟨res, e1, _, e2, _⟩ := h2 [1/2] c05B2_adm c05B3_adm (by simp)
  exact ⟨o', res, h1, e1, e2⟩

/-- … and without any analytic hypothesis (`Curve.raise_order(1)`, knot spacing `1 > 2·2·(1/100)`). -/
example : ∃ o' res, Bridge_exSeg.curveRaiseOrder (1/100) 1 = .ok (.self, o') ∧
    Bridge_exSeg.evaluate (1/100) [[1/2]] true = .ok res ∧
    o'.evaluate (1/100) [[1/2]] true = .ok res := by
  obtain ⟨_, _, o', h1, h2⟩ := Bridge_C05_clamped_full_curve (K := ℚ) (1/100) (by norm_num) 1 1
    (by norm_num) 0 1 [] [] rfl (by simp)
    (Or.inl (by simp [Separated, clampedU]; norm_num)) Bridge_exSeg 2 rfl
    (by decide +kernel) (fun h => absurd h (by decide))
  obtain ⟨res, e1, _, e2, _⟩ := h2 [1/2] c05B2_adm c05B3_adm (by simp)
  exact ⟨o', res, h1, e1, e2⟩

attribute [local instance] c05AdmissibleDec in
/-- `Bridge_C05_clamped_surface` with ALL hypotheses instantiated: the surface `c05Surf` raised by
    `(1, 1)` evaluates to the same `1 × 2` grid of points at `u ∈ {1/2}`, `v ∈ {1/2, 1}` (the interior
    knot of `v` included); admissibility of the parameters is decided by the kernel. -/
example : ∃ o' res, c05Surf.raiseOrder (1/100) [1, 1] none = .ok (.self, o') ∧
    c05Surf.evaluate (1/100) [[1/2], [1/2, 1]] true = .ok res ∧
    o'.evaluate (1/100) [[1/2], [1/2, 1]] true = .ok res := by
  obtain ⟨o', h1, _, h2⟩ := Bridge_C05_clamped_surface (K := ℚ) (1/100) (by norm_num)
    1 1 (by norm_num) 0 1 [] [] rfl (by simp) (by simp [Separated, clampedU]; norm_num)
    2 1 (by norm_num) 0 2 [1] [1] rfl (by simp) (by simp [Separated, clampedU]; norm_num)
    (Or.inl (by norm_num)) c05Surf c05Surf_wf rfl rfl (fun h => absurd h (by decide))
  obtain ⟨res, e1, _, e2, _⟩ := h2 [1/2] [1/2, 1] (by decide +kernel) (by decide +kernel) (by decide +kernel)
    (by decide +kernel) (by simp) (by simp)
  exact ⟨o', res, h1, e1, e2⟩

attribute [local instance] c05AdmissibleDec in
/-- `Bridge_C05_clamped_volume` with ALL hypotheses instantiated: the RATIONAL volume `c05Vol` raised
    by `(1, 0, 1)` evaluates to the same tensor at `(1/2; 1/3, 1; 1/2, 1)`. -/
example : ∃ o' res, c05Vol.raiseOrder (1/100) [1, 0, 1] none = .ok (.self, o') ∧
    c05Vol.evaluate (1/100) [[1/2], [1/3, 1], [1/2, 1]] true = .ok res ∧
    o'.evaluate (1/100) [[1/2], [1/3, 1], [1/2, 1]] true = .ok res := by
  obtain ⟨o', h1, _, h2⟩ := Bridge_C05_clamped_volume (K := ℚ) (1/100) (by norm_num)
    1 1 (by norm_num) 0 1 [] [] rfl (by simp) (by simp [Separated, clampedU]; norm_num)
    1 0 (by norm_num) 0 1 [] [] rfl (by simp) (by simp [Separated, clampedU]; norm_num)
    1 1 (by norm_num) 0 2 [1] [1] rfl (by simp) (by simp [Separated, clampedU]; norm_num)
    (Or.inl (by norm_num)) c05Vol c05Vol_wf rfl rfl rfl (fun _ => by decide)
  obtain ⟨res, e1, _, e2, _⟩ := h2 [1/2] [1/3, 1] [1/2, 1] (by decide +kernel) (by decide +kernel)
    (by decide +kernel) (by decide +kernel) (by decide +kernel) (by decide +kernel) (by simp) (by simp) (by simp)
  exact ⟨o', res, h1, e1, e2⟩

attribute [local instance] c05AdmissibleDec in
/-- `Bridge_C05_periodic_surface_partial` with ALL hypotheses instantiated: the tube `c05Tube`
    (periodic in `u`) raised by `(1, 1)` evaluates to the same tensor at `u ∈ {1/2, 5/2}` (the second
    parameter is outside the domain and is wrapped), `v ∈ {1/3}`.  `H_sw` of the periodic direction,
    its Greville points and all admissibility conditions are evaluated by the kernel. -/
example : ∃ o' res, c05Tube.raiseOrder (1/100) [1, 1] none = .ok (.self, o') ∧
    c05Tube.evaluate (1/100) [[1/2, 5/2], [1/3]] true = .ok res ∧
    o'.evaluate (1/100) [[1/2, 5/2], [1/3]] true = .ok res := by
  obtain ⟨o', h1, _, h2⟩ := Bridge_C05_periodic_surface_partial c05PerData (by norm_num) 1
    #[0, 1/3, 2/3, 4/3, 5/3] (by decide +kernel) (by decide +kernel)
    #[#[1, 0, 0, 0, 0], #[-17/22, 63/22, -27/22, 3/11, -3/22], #[2/11, -51/44, 51/22, -15/22, 15/44],
      #[2/11, 15/44, -15/22, 51/22, -51/44], #[-17/22, -3/22, 3/11, -27/22, 63/22]] (by decide +kernel)
    1 1 (by norm_num) 0 1 [] [] rfl (by simp) (by simp [Separated, clampedU]; norm_num)
    (Or.inl (by norm_num)) c05Tube c05Tube_wf rfl rfl (fun h => absurd h (by decide))
  obtain ⟨res, e1, _, e2, _⟩ := h2 [1/2, 5/2] [1/3] (by decide +kernel) (by decide +kernel) (by decide +kernel)
    (by decide +kernel) (by simp) (by simp)
  exact ⟨o', res, h1, e1, e2⟩

/-- `refine(1)` of the rational curve: the new knots are the span midpoints `1/2, 3/2, 5/2`. -/
example := Bridge_C04_refine_curve (o := C02_exCurveRat) rfl C01_exOpen_valid rfl (nc := 3) rfl
  (fun _ => by decide) 1 (tol := 1/1000) (by norm_num) C02_exOpen_adm
  (by
    have hx : refineValues ((C01_exOpen.knotSpans (1/1000) false).toList) 1 = [1/2, 3/2, 5/2] := by
      decide +kernel
    rw [hx]
    intro u hu x hx
    simp only [List.mem_cons, List.not_mem_nil, or_false] at hu hx
    rcases hu with rfl | rfl <;> rcases hx with rfl | rfl | rfl <;>
      first
        | (left; rfl)
        | (right; norm_num [abs_of_nonneg, abs_of_neg]))

/-- C09, `tensor=False`, on a rational surface. -/
example := Bridge_C09_surface_pointwise (o := C02_exSurfRat) (.translate [1, 2]) trivial rfl rfl
  C02_exLin_valid C02_exLin_valid (nc := 3) rfl (by decide) rfl
  (by
    intro _ k hk
    have hk' : k < 4 := hk
    interval_cases k <;> norm_num [Tensor.get, C02_exSurfRat])
  (tol := 1/1000) (by norm_num) (us := [1/2, 1]) (vs := [1/2, 1]) rfl C02_exLin_adm C02_exLin_adm
