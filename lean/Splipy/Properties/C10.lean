import Splipy.Lemmas.C10Reach
import Splipy.Lemmas.C10Access
import Mathlib.Data.Rat.Floor

/-!
# Property C10 — every reachable object is structurally well formed

Model.  `Obj.WellFormed` (`Model/WellFormed.lean`) is exactly the conjunction of the property: one
basis per parametric direction, control-point array shape = function counts ++ [dimension + rational]
(dimension ≥ 1) with a flat array of that size, every basis `Basis.Valid` (order ≥ 1, ≥ 2p non-decreasing
knots, `start < end`, periodicity in range, periodic ghost knots repeating the interior spacing), positive
weights.  `Obj.wfB` is its executable form.  `History.step tol o op` (`Model/History.lean`) dispatches one
call of the public API to the operation models of C04–C09/C15 and returns the receiver afterwards followed
by the objects the call created; `History.run` executes a list of instructions on a pool of objects.
(`Obj.WF` is the name of C09's much weaker predicate; this file's predicate is `Obj.WellFormed`.)

What is proved.
* `C10_wfB_iff`: the executable check decides `WellFormed`.
* `C10_accessors_consistent`, `C10_reconstructible`, `C10_evaluable_on_domain`: for every well-formed object the
  accessors `len / shape / order / knots / start / end`, flat (first-index-fastest) and multi-index `__getitem__` /
  `__setitem__` (`Model/Accessors.lean`) are mutually consistent, `clone()` and
  `cls(*bases, controlpoints, rational, raw=True)` give an equal well-formed object, and `evaluate` succeeds with the
  right shape on every parameter grid of the closed domain.
* Constructor: `C10_constructor_rejects` (the exact rejection condition of `BSplineBasis.__init__`),
  `C10_constructor_accepts_otherwise`, `C10_valid_accepted` (no false rejection), and the known gap
  `C10_constructor_gap` (vectors that are accepted although they are not periodic knot vectors).
* One lemma per operation family `C10_step_preserves_WF_<op>`; complete for clone, reverse, swap, reparam
  (both conventions), the affine family incl. set_dimension (≥ 1) / force_rational and the operator forms,
  section, extrude, refine (every direction, periodic ones of ANY size) and lower_periodic (every call that
  completes); `_partial` — under the hypotheses stated in the docstring, and WITHOUT assuming anything about the
  result — for insert_knot (only condition: values in `[start, end)` along NON-periodic directions; periodic
  directions of any size need nothing), raise_order and lower_order (clamped directions with C05's spacing; lower
  only as left inverse of raise), split (open; periodic of any size under C07's exact-tolerance hypotheses),
  make_periodic (`order + continuity ≤ n`), Curve.append (any orders), make_splines_identical (stage-wise guard
  consisting of the raise_order and open-direction insert_knot conditions only).
  No theorem of this file carries a `n ≥ p + k` guard any more.
  New facts proved for this: open insertion matrices are row-stochastic; periodic insertion matrices of EVERY valid
  periodic basis (wrapping writes and the covering construction for `n < p + k` included) have entries ≥ 0 and row
  sums ≥ 1 (`C10_periodic_insertion_matrix_positive`; = 1 unless the wrapped value is the domain end,
  `C10_periodic_insertion_matrix_convex`; a row sum 2 at the domain end is exhibited), so weights stay strictly
  positive; every column of the degree-elevation matrix sums to 1 (weights stay strictly positive under
  raise_order); `BSplineBasis.make_periodic` of any valid open basis with enough functions is an exactly periodic
  valid basis.
* `C10_make_periodic_short_refuted`: `make_periodic` on a direction with fewer than `order + continuity`
  functions returns an object that is NOT well formed — in the model, and (correspondence run / oracle) in
  the real code.
* `C10_reachable_partial`: induction over any finite history — the operation alphabet is the whole API of the
  property — whose calls satisfy their guards at the moment they are executed.
* `C10_step_preserves_WF_checked_partial`: outside the guards (knots of multiplicity ≥ order under raise_order,
  general lower_order of rational objects, make_periodic of short directions — known findings of the real code;
  periodic split with other knots within the tolerance of the split value) nothing is proved; there the successor
  state is decided by evaluating `wfB`, which is what the correspondence run compares with the real object.
-/

open Splipy Splipy.History

set_option linter.unusedSectionVars false

variable {K : Type} [Field K] [LinearOrder K]

/-! ## The executable check -/

/-- `wfB o = true ↔ WellFormed o`. -/
theorem C10_wfB_iff (o : Obj K) : o.wfB = true ↔ o.WellFormed := Obj.wfB_iff o

/-- The same for a basis. -/
theorem C10_validB_iff (b : Basis K) : b.validB = true ↔ b.Valid := Basis.validB_iff b

/-! ## Accessors, clone / re-construction, evaluation on the whole domain -/

open FileIO (IdxOk ravelC ravelF unravelF) in
/-- **The accessors of a well-formed object are mutually consistent** (`Model/Accessors.lean` mirrors
    `shape`, `__len__`, `order()`, `knots()`, `start()`, `end()`, `__getitem__`, `__setitem__` of `splineobject.py`):
    (1) `shape` (read off the control array) is the list of `num_functions()` of the bases, `len` (computed from the
    bases) is its product, `order/knots/start/end` read the bases, one entry per parametric direction, and
    `shape[d] = len(knots(d, True)) - order(d) - (periodic+1)`;
    (2) for a flat index `i < len`: its multi-index is `unravelF shape i` — FIRST index fastest
    (`unravelF (n :: s) i = (i % n) :: unravelF s (i / n)`, `np.unravel_index(i, shape, order='F')`), a valid index whose
    first-index-fastest position is `i` again; `obj[i]` is the control point with that multi-index: point number
    `p = ravelC shape (unravelF shape i)` of the C-order array, `ncomp` numbers read at `p·ncomp + c`;
    `obj[i - len] = obj[i]`; `obj[multi-index] = obj[i]`; assignment through the multi-index equals assignment through
    the flat index, is read back by `obj[i]` and leaves every other control point alone;
    (3) flat indices outside `[-len, len)` raise `IndexError`;  (4) `i ↦ p` is a bijection of `[0, len)`. -/
theorem C10_accessors_consistent {o : Obj K} (h : o.WellFormed) :
    (o.shapeAcc = o.counts ∧ o.len = o.shapeAcc.prod ∧
      o.shapeAcc.length = o.pardim ∧ o.orderAcc.length = o.pardim ∧ o.knotsAcc.length = o.pardim ∧
      o.startAcc.length = o.pardim ∧ o.endAcc.length = o.pardim ∧
      ∀ d, d < o.pardim →
        o.shapeAcc[d]? = some (o.basis d).numFunctions ∧ o.orderAcc[d]? = some (o.basis d).order ∧
        o.knotsAcc[d]? = some (o.basis d).knots ∧ o.startAcc[d]? = some (o.basis d).start ∧
        o.endAcc[d]? = some (o.basis d).stop ∧
        o.shapeAcc.getD d 0
          = (o.knotsAcc.getD d #[]).size - o.orderAcc.getD d 0 - ((o.basis d).periodic + 1).toNat ∧
        (d < 3 → o.orderDir d = .ok (o.basis d).order ∧ o.knotsDir d = .ok (o.basis d).knots ∧
          o.startDir d = .ok (o.basis d).start ∧ o.endDir d = .ok (o.basis d).stop)) ∧
    (∀ i : ℕ, i < o.len →
      IdxOk o.shapeAcc (unravelF o.shapeAcc i) ∧
      ravelF o.shapeAcc (unravelF o.shapeAcc i) = i ∧
      ravelC o.shapeAcc (unravelF o.shapeAcc i) < o.len ∧
      o.getFlat (i : Int) = .ok (o.pointRow (ravelC o.shapeAcc (unravelF o.shapeAcc i))) ∧
      (o.pointRow (ravelC o.shapeAcc (unravelF o.shapeAcc i))).size = o.ncomp ∧
      (∀ c, c < o.ncomp → (o.pointRow (ravelC o.shapeAcc (unravelF o.shapeAcc i))).getD c 0
          = o.cps.get (ravelC o.shapeAcc (unravelF o.shapeAcc i) * o.ncomp + c)) ∧
      o.getFlat ((i : Int) - o.len) = o.getFlat (i : Int) ∧
      o.getMulti ((unravelF o.shapeAcc i).map (fun j : ℕ => (j : Int)))
        = .ok { shape := [o.ncomp], data := o.pointRow (ravelC o.shapeAcc (unravelF o.shapeAcc i)) } ∧
      (∀ cp : Array K, o.setMulti ((unravelF o.shapeAcc i).map (fun j : ℕ => (j : Int))) cp
        = o.setFlat (i : Int) cp) ∧
      (∀ cp : Array K, cp.size = o.ncomp →
        ∃ o', o.setFlat (i : Int) cp = .ok o' ∧ o'.bases = o.bases ∧ o'.cps.shape = o.cps.shape ∧
          o'.rational = o.rational ∧ o'.cps.data.size = o.cps.data.size ∧ o'.getFlat (i : Int) = .ok cp ∧
          ∀ j : ℕ, j < o.len → j ≠ i → o'.getFlat (j : Int) = o.getFlat (j : Int))) ∧
    (∀ i : Int, i < -(o.len : Int) ∨ (o.len : Int) ≤ i → o.getFlat i = .error .index) ∧
    (∀ i i' : ℕ, i < o.len → i' < o.len →
      ravelC o.shapeAcc (unravelF o.shapeAcc i) = ravelC o.shapeAcc (unravelF o.shapeAcc i') → i = i') ∧
    (∀ p, p < o.len → ∃ i, i < o.len ∧ ravelC o.shapeAcc (unravelF o.shapeAcc i) = p) :=
  h.accessors_consistent

/-- First index fastest, spelled out for a surface: flat index `i` of an `n₁ × n₂` net is the point
    `(i mod n₁, (i / n₁) mod n₂)`. -/
example (n1 n2 i : ℕ) : FileIO.unravelF [n1, n2] i = [i % n1, i / n1 % n2] := rfl

/-- **Clone and re-construction**: `cls(*bases, controlpoints, rational, raw=True)` applied to the object's own bases,
    control points and rational flag succeeds and returns an equal (hence well-formed) object; `clone()` is equal and
    well formed.  (With `raw=True` the constructor neither validates nor reshapes — the content of this clause is that
    nothing more than `bases`, `controlpoints`, `rational` makes up the state of an object.) -/
theorem C10_reconstructible {o : Obj K} (h : o.WellFormed) :
    (∃ o', Obj.construct o.bases o.cps o.rational = .ok o' ∧ o' = o ∧ o'.WellFormed) ∧
    (∃ o', Obj.construct o.clone.bases o.clone.cps o.clone.rational = .ok o' ∧ o' = o ∧ o'.WellFormed) ∧
    o.clone = o ∧ o.clone.WellFormed :=
  ⟨h.construct, h.construct_clone, Obj.clone_eq o, h.clone⟩

/-- **Evaluation on the whole domain**: for every tensor grid of parameters of the closed domain (`start ≤ t ≤ end` in
    the non-periodic directions and at least one parameter there — `hne`: the real code raises `ValueError` for an
    empty list in a non-periodic direction —, any real in the periodic ones) `evaluate` returns a value — an array of shape
    `(len(p₁), …, len(p_d), dimension)` with exactly that many entries — for every parametric dimension.
    `hsnap` (`Basis.SnapSafe`): no knot lies strictly outside the domain within `tol` of its ends — `evaluate` snaps
    parameters to knots within the tolerance BEFORE its range test, so without it a parameter of the domain can be
    snapped outside and rejected; it holds for every clamped knot vector at any tolerance
    (`Basis.SnapSafe.of_knots_in_domain`), and `C10_evaluable_at_knots` needs no such hypothesis.  The VALUES are
    property C02's business (`C02_tensor_eval_obj_*`, `C02_rational_*`). -/
theorem C10_evaluable_on_domain [IsStrictOrderedRing K] [FloorRing K] {o : Obj K} (h : o.WellFormed) (tol : K)
    (params : List (List K)) (hlen : params.length = o.bases.size)
    (hdom : ∀ d, d < o.bases.size → (o.basis d).periodic = -1 →
      ∀ t ∈ params.getD d [], (o.basis d).start ≤ t ∧ t ≤ (o.basis d).stop)
    (hsnap : ∀ d, d < o.bases.size → (o.basis d).periodic = -1 → (o.basis d).SnapSafe tol)
    (hne : ∀ d, d < o.bases.size → (o.basis d).periodic = -1 → params.getD d [] ≠ []) :
    ∃ res, o.evaluate tol params true = .ok res ∧
      res.shape = params.map List.length ++ [o.dimension] ∧ res.data.size = Tensor.prod res.shape :=
  h.evaluable tol params hlen hdom hsnap hne

/-- Evaluation at knots of the domain (in particular at the corners `start`, `end`): no hypothesis on the tolerance. -/
theorem C10_evaluable_at_knots [IsStrictOrderedRing K] [FloorRing K] {o : Obj K} (h : o.WellFormed) (tol : K)
    (params : List (List K)) (hlen : params.length = o.bases.size)
    (hdom : ∀ d, d < o.bases.size → (o.basis d).periodic = -1 → ∀ t ∈ params.getD d [],
      (∃ k, k < (o.basis d).knots.size ∧ t = (o.basis d).kn k) ∧
      (o.basis d).start ≤ t ∧ t ≤ (o.basis d).stop)
    (hne : ∀ d, d < o.bases.size → (o.basis d).periodic = -1 → params.getD d [] ≠ []) :
    ∃ res, o.evaluate tol params true = .ok res ∧
      res.shape = params.map List.length ++ [o.dimension] ∧ res.data.size = Tensor.prod res.shape :=
  h.evaluable_at_knots tol params hlen hdom hne

/-! ## The basis constructor -/

/-- **The constructor rejects exactly**: order `< 1`, fewer than `2p` knots, a periodic vector with fewer than
    the `p + k + 1` entries the end comparison reads (`CtorShortPeriodic`; since the fix of finding
    `constructor-indexerror-short-periodic` a `ValueError` like the others, before it an `IndexError`), a
    periodic vector one of whose `p + k - 1` compared end spacings differs by more than the tolerance
    (`CtorPerMismatch`: the test AS CODED, `|(τ[i+1]-τ[i]) - (τ[-p-k+i]-τ[-p-k-1+i])| > tol` for `i < p+k-1`),
    or a spacing that decreases by more than the tolerance (`CtorDecreasing`); the exception is always
    `ValueError`. -/
theorem C10_constructor_rejects (p : ℕ) (τ : Array K) (k : Int) (tol : K) :
    Basis.mk? p τ k tol = .error .value ↔
      p < 1 ∨ τ.size < 2 * p ∨ Basis.CtorShortPeriodic p τ (max k (-1)) ∨
        Basis.CtorPerMismatch p τ (max k (-1)) tol ∨ Basis.CtorDecreasing τ tol :=
  Basis.mk?_error_iff p τ k tol

/-- Every other input is accepted; `periodic` is clipped at `-1` and the knots are stored as their running maximum
    `Basis.cummax τ` (`np.maximum.accumulate`: the vector itself when it is non-decreasing — `Basis.cummax_of_sorted` —
    and otherwise the vector with the decreases inside the tolerance, which the test lets through, taken out);
    there is no third outcome. -/
theorem C10_constructor_accepts_otherwise (p : ℕ) (τ : Array K) (k : Int) (tol : K) :
    (Basis.mk? p τ k tol = .ok { order := p, knots := Basis.cummax τ, periodic := max k (-1) } ↔
      ¬ (p < 1 ∨ τ.size < 2 * p ∨ Basis.CtorShortPeriodic p τ (max k (-1)) ∨
          Basis.CtorPerMismatch p τ (max k (-1)) tol ∨ Basis.CtorDecreasing τ tol))
    ∧ (Basis.mk? p τ k tol = .error .value ∨
        Basis.mk? p τ k tol = .ok { order := p, knots := Basis.cummax τ, periodic := max k (-1) }) :=
  ⟨Basis.mk?_ok_iff p τ k tol, Basis.mk?_cases p τ k tol⟩

/-- **Accepted ⇒ exactly non-decreasing** (closes the gap between "accepted" and "sorted"; repair of finding
    `constructor-accepts-tolerance-inversion-evaluate-segfault`): every basis the constructor returns — also for an
    input with decreases inside the tolerance — has as many knots as were given, stores their running maximum, and
    that vector is non-decreasing (pairwise on the array, and in the adjacent form of `Basis.Valid.sorted`); for a
    non-decreasing input the stored knots are the input. -/
theorem C10_constructor_accepted_sorted (p : ℕ) (τ : Array K) (k : Int) (tol : K) (b : Basis K)
    (h : Basis.mk? p τ k tol = .ok b) :
    b.knots = Basis.cummax τ ∧ b.knots.size = τ.size ∧
    (∀ i j, i ≤ j → j < b.knots.size → b.knots.getD i 0 ≤ b.knots.getD j 0) ∧
    (∀ i, i + 1 < b.knots.size → b.kn i ≤ b.kn (i + 1)) ∧
    ((∀ i, i + 1 < τ.size → τ.getD i 0 ≤ τ.getD (i + 1) 0) → b.knots = τ) := by
  obtain ⟨h1, h2, h3, h4⟩ := Basis.mk?_ok_sorted p τ k tol b h
  exact ⟨h1, h2, h3, h4, fun hs => by rw [h1, Basis.cummax_of_sorted τ hs]⟩

/-- **No false rejection**: a semantically valid basis passes the constructor for every tolerance `≥ 0`. -/
theorem C10_valid_accepted [IsStrictOrderedRing K] {b : Basis K} (hv : b.Valid) (tol : K) (htol : 0 ≤ tol) :
    Basis.mk? b.order b.knots b.periodic tol = .ok b := Basis.mk?_of_valid hv tol htol

/-- **The known gap** between the code's acceptance test and `Valid`: the constructor compares one spacing
    fewer than a periodic knot vector has and does not look at the seam multiplicity.  Both vectors are
    accepted (tolerance `1e-10`) and are not `Valid`: order 3, `[-1,0,1,2,3,4,5]`, `periodic = 0` (uniform
    knots but seam multiplicity 1 instead of `p-1-k = 2`), and order 2, `[-1,0,1,2,7/2]`, `periodic = 0`
    (only the last ghost knot is wrong; it is never compared). -/
theorem C10_constructor_gap :
    (Basis.mk? 3 #[-1,0,1,2,3,4,5] 0 (1/10000000000 : ℚ) = .ok Basis.gapBasis ∧ ¬ Basis.gapBasis.Valid) ∧
    (Basis.mk? 2 #[-1,0,1,2,7/2] 0 (1/10000000000 : ℚ) = .ok Basis.gapBasis2 ∧ ¬ Basis.gapBasis2.Valid) :=
  ⟨⟨Basis.gap_accepted, Basis.gap_not_valid⟩, ⟨Basis.gap2_accepted, Basis.gap2_not_valid⟩⟩

example : ∃ b : Basis ℚ, Basis.mk? 3 #[-1,0,1,2,3,4,5] 0 (1/10000000000 : ℚ) = .ok b ∧ ¬ b.Valid :=
  ⟨_, C10_constructor_gap.1⟩

/-! ## One lemma per operation family -/

section ops

variable [IsStrictOrderedRing K] [FloorRing K]

/-- `clone()`: the object and its copy. -/
theorem C10_step_preserves_WF_clone {o : Obj K} (h : o.WellFormed) (tol : K) {os : List (Obj K)}
    (hs : step tol o .clone = .ok os) : ∀ o' ∈ os, o'.WellFormed :=
  wf_of_stepOut hs (fun _ h1 => stepOut_clone_wf h tol h1)

/-- `reverse(direction)` — open and periodic directions (knots mirrored; control points flipped and, on a
    periodic direction, rolled by `k+1`). -/
theorem C10_step_preserves_WF_reverse {o : Obj K} (h : o.WellFormed) (tol : K) (dir : ℕ) {os : List (Obj K)}
    (hs : step tol o (.reverse dir) = .ok os) : ∀ o' ∈ os, o'.WellFormed :=
  wf_of_stepOut hs (fun _ h1 => of_nil (stepOut_reverse_wf h tol dir h1))

/-- `swap(dir1, dir2)`. -/
theorem C10_step_preserves_WF_swap {o : Obj K} (h : o.WellFormed) (tol : K) (d1 d2 : ℕ) {os : List (Obj K)}
    (hs : step tol o (.swap d1 d2) = .ok os) : ∀ o' ∈ os, o'.WellFormed :=
  wf_of_stepOut hs (fun _ h1 => of_nil (stepOut_swap_wf h tol d1 d2 h1))

/-- `reparam((s, e), direction=dir)`. -/
theorem C10_step_preserves_WF_reparam {o : Obj K} (h : o.WellFormed) (tol : K) (dir : ℕ) (s e : K)
    {os : List (Obj K)} (hs : step tol o (.reparam dir s e) = .ok os) : ∀ o' ∈ os, o'.WellFormed :=
  wf_of_stepOut hs (fun _ h1 => of_nil (stepOut_reparam_wf h tol dir s e h1))

/-- `reparam(*intervals)` (every direction, missing ones default to `(0, 1)`). -/
theorem C10_step_preserves_WF_reparam_all {o : Obj K} (h : o.WellFormed) (tol : K) (args : List (List K))
    {os : List (Obj K)} (hs : step tol o (.reparamAll args) = .ok os) : ∀ o' ∈ os, o'.WellFormed :=
  wf_of_stepOut hs (fun _ h1 => of_nil (stepOut_reparamAll_wf h tol args h1))

/-- The affine family: `translate`, `scale`, `rotate`, `mirror`, `project`, `set_dimension(n)` with `n ≥ 1`
    (`AffOp.Admissible`; dimension ≥ 1 is part of well-formedness), `force_rational`, and the operator forms
    `+= -= *= /= + - * /` (the infix forms return a new object).  Weights are untouched
    (`C10_affine_weights_untouched`), so they stay positive; `force_rational` introduces the weight `1`. -/
theorem C10_step_preserves_WF_affine {o : Obj K} (h : o.WellFormed) (tol : K) (op : AffOp K)
    (hadm : op.Admissible) {os : List (Obj K)} (hs : step tol o (.affine op) = .ok os) :
    ∀ o' ∈ os, o'.WellFormed :=
  wf_of_stepOut hs (fun _ h1 => stepOut_affine_wf h tol op hadm h1)

/-- `set_dimension(n)`, `n ≥ 1`. -/
theorem C10_step_preserves_WF_set_dimension {o : Obj K} (h : o.WellFormed) (tol : K) (n : ℕ) (hn : 1 ≤ n)
    {os : List (Obj K)} (hs : step tol o (.affine (.setDimension n)) = .ok os) : ∀ o' ∈ os, o'.WellFormed :=
  C10_step_preserves_WF_affine h tol (.setDimension n) hn hs

/-- `force_rational()`. -/
theorem C10_step_preserves_WF_force_rational {o : Obj K} (h : o.WellFormed) (tol : K) {os : List (Obj K)}
    (hs : step tol o (.affine .forceRational) = .ok os) : ∀ o' ∈ os, o'.WellFormed :=
  C10_step_preserves_WF_affine h tol .forceRational trivial hs

/-- **Affine operations never touch the weights**: same number of control points and literally the same
    weight at every control point of a rational object (cf. `C09_weights_untouched_ops`). -/
theorem C10_affine_weights_untouched {o o' : Obj K} (h : o.WellFormed) (op : AffOp K) (hadm : op.Admissible)
    (hs : op.inplace o = .ok o') (hr : o.rational = true) :
    o'.rational = true ∧ o'.len = o.len ∧ ∀ pI < o.len, o'.wt pI = o.wt pI :=
  AffOp.weights_untouched_wf h op hadm hs hr

/-- `section(*selectors)` (at least one free direction gives an object; a point gives nothing). -/
theorem C10_step_preserves_WF_section {o : Obj K} (h : o.WellFormed) (tol : K) (sec : Sections.Sec)
    {os : List (Obj K)} (hs : step tol o (.section sec) = .ok os) : ∀ o' ∈ os, o'.WellFormed :=
  wf_of_stepOut hs (fun _ h1 => stepOut_section_wf h tol sec h1)

/-- `surface_factory.extrude(curve, amount)` / `volume_factory.extrude(surface, amount)` applied to a
    well-formed object. -/
theorem C10_step_preserves_WF_extrude {o : Obj K} (h : o.WellFormed) (tol : K) (amount : List K)
    {os : List (Obj K)} (hs : step tol o (.extrude amount) = .ok os) : ∀ o' ∈ os, o'.WellFormed :=
  wf_of_stepOut hs (fun _ h1 => stepOut_extrude_wf h tol amount h1)

/-- **The insertion matrix is row-stochastic**: inserting `x ∈ [start, end)` into a valid non-periodic
    basis returns an `(n+1) × n` matrix with non-negative entries and row sums 1 — every new control point
    (and weight) is a convex combination of old ones. -/
theorem C10_insertion_matrix_convex (b : Basis K) (hv : b.Valid) (hper : b.periodic = -1) (x : K)
    (hx : b.start ≤ x ∧ x < b.stop) {b' : Basis K} {C : Mat K} (h : b.insertKnot x = .ok (b', C)) :
    C10.RowStochastic (b.numFunctions + 1) b.numFunctions C :=
  C10.insertKnot_stochastic b hv hper x hx h

/-- `insert_knot(knots, direction)`.
    `_partial`: the direction is NON-PERIODIC and the values lie in `[start, end)` (outside `[start, end]`
    the call raises `ValueError`; at `end` of a clamped direction it raises `IndexError`).  Periodic
    directions: `C10_step_preserves_WF_insert_knot_any_partial`. -/
theorem C10_step_preserves_WF_insert_knot_partial {o : Obj K} (h : o.WellFormed) (tol : K) (knots : List K)
    (dir : ℕ) (hper : (o.basis dir).periodic = -1)
    (hxs : ∀ x ∈ knots, (o.basis dir).start ≤ x ∧ x < (o.basis dir).stop) {os : List (Obj K)}
    (hs : step tol o (.insertKnot knots dir) = .ok os) : ∀ o' ∈ os, o'.WellFormed :=
  wf_of_stepOut hs (fun _ h1 => of_nil (stepOut_insertKnot_wf h tol knots dir hper hxs h1))

/-- **`refine(*ns, direction=…)` keeps every well-formed object well formed** — all directions, periodic ones of
    any size included (the inserted values lie strictly inside the knot spans for any tolerance `≥ 0`; periodic
    insertion needs no guard, `C10_periodic_insertion_matrix_positive`).  The only hypothesis is that the
    tolerance is not negative (`state.knot_tolerance = 1e-10`). -/
theorem C10_step_preserves_WF_refine {o : Obj K} (h : o.WellFormed) (tol : K) (htol : 0 ≤ tol)
    (ns : List ℕ) (direction : Option ℕ)
    {os : List (Obj K)} (hs : step tol o (.refine ns direction) = .ok os) : ∀ o' ∈ os, o'.WellFormed :=
  wf_of_stepOut hs (fun _ h1 => of_nil (stepOut_refine_wf_all h tol htol ns direction h1))

/-- `split(knots, direction)`.  `_partial`: non-periodic direction, split values in `[start, end)`, and the end
    knot of the direction has multiplicity at most `p` (`hend`: the knot before the last `p` knots is smaller
    than `end`), from which `start < end` of the last piece follows; every other piece needs no hypothesis.
    Not proved: periodic directions. -/
theorem C10_step_preserves_WF_split_partial {o : Obj K} (h : o.WellFormed) (tol : K) (knots : List K) (dir : ℕ)
    (hper : (o.basis dir).periodic = -1)
    (hk : ∀ k ∈ knots, (o.basis dir).start ≤ k ∧ k < (o.basis dir).stop)
    (hend : (o.basis dir).kn ((o.basis dir).knots.size - (o.basis dir).order - 1) < (o.basis dir).stop)
    {os : List (Obj K)} (hs : step tol o (.split knots dir) = .ok os) : ∀ o' ∈ os, o'.WellFormed :=
  wf_of_stepOut hs (fun _ h1 => stepOut_split_wf_end_partial h tol knots dir hper hk hend h1)

/-- `make_periodic(continuity, direction)`.  `_partial`: (`hlong`) the direction has at least
    `order + continuity` functions — without it the statement is false, `C10_make_periodic_short_refuted`.
    Everything else is proved: the periodic basis built by `BSplineBasis.make_periodic` from ANY valid
    non-periodic basis is `Valid` (exactly periodic ghost knots, `Basis.makePeriodic_valid`), shapes, sizes,
    positivity of the merged weights (the merge is a convex combination). -/
theorem C10_step_preserves_WF_make_periodic_partial {o : Obj K} (h : o.WellFormed) (tol : K) (c : Option Int)
    (dir : ℕ) {os : List (Obj K)} (hs : step tol o (.makePeriodic c dir) = .ok os)
    (hlong : ((o.basis dir).order : Int) + c.getD (((o.basis dir).order : Int) - 2)
      ≤ (o.basis dir).numFunctions) : ∀ o' ∈ os, o'.WellFormed :=
  wf_of_stepOut hs (fun _ h1 => stepOut_makePeriodic_wf_long_partial h tol c dir h1 hlong)

/-- `Curve.append(other)`.  `_partial`: `AppendGuard` — the orders are equal, or the curve of LOWER order
    satisfies C05's clamped guard (`ClampedDir`: clamped knot vector, interior multiplicities below the order,
    distinct knots more than `2·(new degree)·tol` apart) for the amount by which `Curve.raise_order` raises it.
    Positivity of the raised weights is proved (every column of the degree-elevation matrix sums to 1). -/
theorem C10_step_preserves_WF_append_partial {o other : Obj K} (h : o.WellFormed) (ho : other.WellFormed)
    (tol : K) (htol : 0 < tol) (hg : AppendGuard tol o other) {os : List (Obj K)}
    (hs : step tol o (.append other) = .ok os) : ∀ o' ∈ os, o'.WellFormed :=
  wf_of_stepOut hs (fun _ h1 => of_nil (stepOut_append_any_wf_partial h ho tol htol hg h1))

/-- `raise_order(*raises, direction=…)` (incl. the `Curve` override).  `_partial`: `RaiseGuard` — the call
    pattern is one of `[a]`, `[a]`+direction, one amount per direction (amounts ≥ 0), and unless all amounts are 0
    the object has at most three directions, each a clamped basis in C05's form (`ClampedDir`: interior
    multiplicities `1 ≤ m ≤ degree`, distinct knots more than `2·(new degree)·tol` apart, new order ≥ 2).
    Proved on top of C05 (`C05_geometry_clamped_full/_surface/_volume`): the result array has the right size and
    the weights of a rational object stay STRICTLY positive (`C10R.colsum_one`: every column of the non-negative
    degree-elevation matrix sums to 1).  Not covered: periodic directions, interior knots of multiplicity = order
    (there the real code returns NaN — known finding `curve-raise-order-singular-nan`). -/
theorem C10_step_preserves_WF_raise_order_partial {o : Obj K} (h : o.WellFormed) (tol : K) (htol : 0 < tol)
    (raises : List Int) (direction : Option Int) (hg : RaiseGuard tol o raises direction) {os : List (Obj K)}
    (hs : step tol o (.raiseOrder raises direction) = .ok os) : ∀ o' ∈ os, o'.WellFormed :=
  wf_of_stepOut hs (fun _ h1 => of_nil (stepOut_raiseOrder_wf_partial h tol htol raises direction hg h1))

/-- `lower_order(*lowers)`.  `_partial`: either all amounts are 0 (a clone), or the receiver is the result of
    `raise_order` with the same amounts on a well-formed clamped object of orders ≥ 2 (`LowerGuard`; then
    `lower_order` returns an object with the original bases, shape and control points —
    `C05_lower_left_inverse_clamped*`).  A guard on rational objects is unavoidable: in general `lower_order` does
    NOT keep the weights positive (known finding `lower-order-nonpositive-weights`). -/
theorem C10_step_preserves_WF_lower_order_partial {o : Obj K} (h : o.WellFormed) (tol : K) (htol : 0 < tol)
    (lowers : List Int)
    (hg : (∀ l ∈ lowers, l = 0) ∨
      ∃ (o0 : Obj K) (raises : List Int) (direction : Option Int) (out0 : Out K),
        o0.WellFormed ∧ LowerGuard tol o0 raises direction lowers ∧
        stepOut tol o0 (.raiseOrder raises direction) = .ok out0 ∧ out0.recv = o)
    {os : List (Obj K)} (hs : step tol o (.lowerOrder lowers) = .ok os) : ∀ o' ∈ os, o'.WellFormed :=
  step_covered_wf h tol htol (.lowerOrder lowers) hg (fun _ ho => by cases ho) hs

/-- **`lower_periodic(periodic, direction)`: every call that completes leaves a well-formed object** — no
    hypothesis on the direction (any valid periodic basis, `n < p + k` included), on the seam multiplicity or on
    the target (`t > periodic` and `t < -1` raise, `t = periodic` is the identity).  Bases: C08; here array sizes
    and positive weights through every round (`C10_periodic_insertion_matrix_positive`). -/
theorem C10_step_preserves_WF_lower_periodic {o : Obj K} (h : o.WellFormed) (tol : K) (t : Int) (dir : ℕ)
    {os : List (Obj K)} (hs : step tol o (.lowerPeriodic t dir) = .ok os) : ∀ o' ∈ os, o'.WellFormed :=
  wf_of_stepOut hs (fun _ h1 => of_nil (stepOut_lowerPeriodic_wf h tol t dir h1))

/-- **The insertion matrix of EVERY valid periodic basis, any real `x0`: `(n+1) × n`, entries `≥ 0`, every row
    sums to at least 1** — no `n ≥ p + k` guard: wrapping writes (`mu > n`) and the covering construction of small
    bases (the matrix is `n+1` rows of a product of row-stochastic matrices of the tiled basis times the tiling
    matrix) included.  Hence positive weights stay positive (`C10.RowPositive.mulVec_pos`).  Row sums are not
    always 1: `C10_periodic_insertion_row_sum_two`. -/
theorem C10_periodic_insertion_matrix_positive (b : Basis K) (hv : b.Valid) (k : ℕ) (hk : b.periodic = (k : Int))
    (x0 : K) {b' : Basis K} {C : Mat K} (h : b.insertKnot x0 = .ok (b', C)) :
    C10.RowPositive (b.numFunctions + 1) b.numFunctions C :=
  C10.insertKnot_rowPositive_periodic_all b hv k hk x0 h

/-- **The periodic insertion matrix is row-stochastic** (every valid periodic basis, no `n ≥ p + k` guard) whenever
    the wrapped value is not the end of the domain.  The hypothesis `hne` cannot be dropped
    (`C10_periodic_insertion_row_sum_two`); without it `C10_periodic_insertion_matrix_positive` holds. -/
theorem C10_periodic_insertion_matrix_convex (b : Basis K) (hv : b.Valid) (k : ℕ) (hk : b.periodic = (k : Int))
    (x0 : K) (hne : C04.wrapVal b x0 ≠ b.stop) {b' : Basis K} {C : Mat K}
    (h : b.insertKnot x0 = .ok (b', C)) : C10.RowStochastic (b.numFunctions + 1) b.numFunctions C :=
  C10.insertKnot_stochastic_periodic_all_partial b hv k hk x0 hne h

/-- `insert_knot(knots, direction)` on ANY direction.  `_partial`: `Obj.OpenKnotsOK` — along a NON-periodic
    direction the values lie in `[start, end)` (outside `[start, end]` the call raises `ValueError`, at `end` of a
    clamped direction `IndexError`).  Nothing is asked along a periodic direction: any valid periodic basis
    (`n < p + k` included), any real values. -/
theorem C10_step_preserves_WF_insert_knot_any_partial {o : Obj K} (h : o.WellFormed) (tol : K) (knots : List K)
    (dir : ℕ) (hok : Obj.OpenKnotsOK (o.basis dir) knots) {os : List (Obj K)}
    (hs : step tol o (.insertKnot knots dir) = .ok os) : ∀ o' ∈ os, o'.WellFormed :=
  wf_of_stepOut hs (fun _ h1 => of_nil (stepOut_insertKnot_all_wf_partial h tol knots dir hok h1))

/-- `insert_knot(knots, direction)` along a PERIODIC direction: no condition at all. -/
theorem C10_step_preserves_WF_insert_knot_periodic {o : Obj K} (h : o.WellFormed) (tol : K) (knots : List K)
    (dir : ℕ) (k : ℕ) (hk : (o.basis dir).periodic = (k : Int)) {os : List (Obj K)}
    (hs : step tol o (.insertKnot knots dir) = .ok os) : ∀ o' ∈ os, o'.WellFormed :=
  C10_step_preserves_WF_insert_knot_any_partial h tol knots dir
    (fun hper => by rw [hk] at hper; omega) hs

/-- `split(knots, direction)` on ANY direction.  `_partial`: `SplitOKAll` — the non-periodic hypotheses of
    `C10_step_preserves_WF_split_partial`, or ANY periodic direction (no `n ≥ p + k` guard) with first value in
    `[start, end)`, later values in `[x0, x0 + T)`, `start < x0` when there are later values, and (`hMult`) after
    the insertion loop the first value has multiplicity ≥ p at `bisect_left` — which is PROVED under the
    exact-tolerance hypotheses of `C07_split_periodic_partial` (`SplitOKAll.of_exact`, `SplitOKAll.of_exact_cons`;
    `C10_step_preserves_WF_split_periodic_partial`, `…_split_periodic_many_partial`). -/
theorem C10_step_preserves_WF_split_any_partial {o : Obj K} (h : o.WellFormed) (tol : K) (knots : List K) (dir : ℕ)
    (hok : SplitOKAll o tol knots dir) {os : List (Obj K)} (hs : step tol o (.split knots dir) = .ok os) :
    ∀ o' ∈ os, o'.WellFormed :=
  wf_of_stepOut hs (fun _ h1 => stepOut_split_all_wf_partial h tol knots dir hok h1)

/-- `split(x0, direction)` of a PERIODIC direction (the opened object) — every valid periodic direction, no
    `n ≥ p + k` guard.  `_partial`: `x0 ∈ [start, end)`, and no knot other than copies of `x0` within the tolerance
    of `x0` (`hexR`, `hexL`: the tolerance comparison of `continuity` is exact) — the hypotheses of
    `C07_split_periodic_partial`. -/
theorem C10_step_preserves_WF_split_periodic_partial {o : Obj K} (h : o.WellFormed) (tol : K) (htol : 0 < tol)
    (x0 : K) (dir : ℕ) (k : ℕ) (hk : (o.basis dir).periodic = (k : Int))
    (hx : (o.basis dir).start ≤ x0 ∧ x0 < (o.basis dir).stop)
    (hexR : ∀ i, i < (o.basis dir).knots.size → (o.basis dir).kn i ≤ x0 ∨ x0 + tol ≤ (o.basis dir).kn i)
    (hexL : ∀ i, i < (o.basis dir).knots.size → (o.basis dir).kn i < x0 - tol ∨ x0 ≤ (o.basis dir).kn i)
    {os : List (Obj K)} (hs : step tol o (.split [x0] dir) = .ok os) : ∀ o' ∈ os, o'.WellFormed :=
  wf_of_stepOut hs (fun _ h1 =>
    stepOut_split_periodic_single_wf_all_partial h tol htol x0 dir k hk hx hexR hexL h1)

/-- `split([x0, y1, …], direction)` of a PERIODIC direction (the pieces) — every valid periodic direction, no
    guard.  `_partial`: as above for `x0`, the later values lie in `[x0, x0 + T)`, and `x0` is not the start of
    the domain when there are later values. -/
theorem C10_step_preserves_WF_split_periodic_many_partial {o : Obj K} (h : o.WellFormed) (tol : K)
    (htol : 0 < tol) (x0 : K) (rest : List K) (dir : ℕ) (k : ℕ) (hk : (o.basis dir).periodic = (k : Int))
    (hx : (o.basis dir).start ≤ x0 ∧ x0 < (o.basis dir).stop)
    (hexR : ∀ i, i < (o.basis dir).knots.size → (o.basis dir).kn i ≤ x0 ∨ x0 + tol ≤ (o.basis dir).kn i)
    (hexL : ∀ i, i < (o.basis dir).knots.size → (o.basis dir).kn i < x0 - tol ∨ x0 ≤ (o.basis dir).kn i)
    (hrest : ∀ y ∈ rest, x0 ≤ y ∧ y < x0 + ((o.basis dir).stop - (o.basis dir).start))
    (hpos : rest ≠ [] → (o.basis dir).start < x0)
    {os : List (Obj K)} (hs : step tol o (.split (x0 :: rest) dir) = .ok os) : ∀ o' ∈ os, o'.WellFormed :=
  wf_of_stepOut hs (fun _ h1 =>
    stepOut_split_periodic_wf_all_partial h tol htol x0 rest dir k hk hx hexR hexL hrest hpos h1)

/-- `SplineObject.make_splines_identical(a, b, direction)` — both objects stay well formed.  `_partial`:
    `Obj.IdenticalGuardAll`, the stage-wise guard over the intermediate states of C12's model: after
    `make_splines_compatible` (no guard), `reparam` (no guard) and the lowering of the periodicity (no guard: any
    periodic direction), both objects satisfy `RaiseGuard` for the raise to the common order, and — only along a
    NON-periodic direction — the two lists of merged knots lie in `[start, end)` of the basis that receives them
    (`Obj.OpenKnotsOK`). -/
theorem C10_step_preserves_WF_make_splines_identical_partial {s1 s2 r1 r2 : Obj K} (h1 : s1.WellFormed)
    (h2 : s2.WellFormed) (tol : K) (htol : 0 < tol) (direction : Option DirTok)
    (hg : Obj.IdenticalGuardAll tol s1 s2 direction)
    (hs : Obj.makeIdentical tol (s1.bases.size == 1) (s2.bases.size == 1) s1 s2 direction = .ok (r1, r2)) :
    r1.WellFormed ∧ r2.WellFormed ∧ r1.bases.size = s1.bases.size ∧ r2.bases.size = s2.bases.size :=
  Obj.makeIdentical_wf_all_partial h1 h2 tol htol direction hg hs

/-- **Any operation, checked**: where no preservation proof applies (`raise_order` with knots of multiplicity
    ≥ order, general `lower_order`, `make_periodic` of short directions, periodic `split` outside the
    exact-tolerance hypotheses) the successor state is decided by evaluating the executable check; by
    `C10_wfB_iff` its verdict is `WellFormed`.
    `_partial`: the verdict `wfB = true` is a hypothesis, nothing about the operation itself is proved. -/
theorem C10_step_preserves_WF_checked_partial {o : Obj K} (tol : K) (op : Op K) {os : List (Obj K)}
    (_hs : step tol o op = .ok os) (hchk : os.all (fun o' => o'.wfB) = true) : ∀ o' ∈ os, o'.WellFormed := by
  intro o' ho'
  exact (C10_wfB_iff o').1 (List.all_eq_true.1 hchk o' ho')

/-! ## Reachability -/

/-- **Reachable objects are well formed** — induction over any finite history on a pool of objects; the
    alphabet is the whole API of the property: insert_knot, refine, raise_order, lower_order, reverse, swap, reparam
    (both forms), split, append, make_periodic, lower_periodic, the affine family with its operator forms, section,
    extrude, clone and the two-object instruction make_splines_identical.
    `_partial`: every instruction must satisfy its guard at the moment it is executed (`History.CoveredRun`;
    `History.Covered tol o op` is, per family, exactly the hypothesis of the lemma above: NOTHING for clone /
    reverse / swap / reparam / section / extrude / refine / lower_periodic, `Admissible` for the affine family,
    `OpenKnotsOK` for insert_knot (values in `[start, end)` along a non-periodic direction, nothing along a
    periodic one), `RaiseGuard` / `LowerGuard` for raise_order / lower_order, `SplitOKAll` for split,
    `AppendGuard` for append, `order + continuity ≤ n` for make_periodic, `Obj.IdenticalGuardAll` for
    make_splines_identical — no guard mentions `n ≥ p + k`), and a literal `append` argument must be well formed
    (`Instr.ArgsWF`; arguments taken from the pool are well formed anyway). -/
theorem C10_reachable_partial (tol : K) (htol : 0 < tol) (ops : List (Instr K)) (pool pool' : List (Obj K))
    (hpool : ∀ o ∈ pool, o.WellFormed) (hcov : CoveredRun tol pool ops)
    (hs : run tol pool ops = .ok pool') : ∀ o ∈ pool', o.WellFormed :=
  run_wf tol htol ops pool pool' hpool hcov hs

/-- One covered call (the step of the induction), in the `step` form. -/
theorem C10_step_preserves_WF_covered {o : Obj K} (h : o.WellFormed) (tol : K) (htol : 0 < tol) (op : Op K)
    (hc : Covered tol o op) (hoth : ∀ other, op = .append other → other.WellFormed) {os : List (Obj K)}
    (hs : step tol o op = .ok os) : ∀ o' ∈ os, o'.WellFormed :=
  step_covered_wf h tol htol op hc hoth hs

end ops

/-! ## A defect the proof attempt exposed -/

/-- **`make_periodic` can return a malformed object.**  Order 5, knots `[0,0,0,0,0,1,2,3,3,3,3,3]`
    (7 functions, fewer than `order + continuity = 8`), `make_periodic(3)`: the call succeeds, the new basis
    is a VALID periodic basis with one function, the control net keeps three points — the result is not
    well formed.  The real code behaves the same way (evaluation then raises `ValueError`). -/
theorem C10_make_periodic_short_refuted :
    ∃ (o : Obj ℚ) (tol : ℚ) (c : Option Int) (dir : ℕ) (out : Out ℚ),
      o.WellFormed ∧ stepOut tol o (.makePeriodic c dir) = .ok out
        ∧ (∀ n ∈ out.news, (n.basis dir).Valid) ∧ ¬ (∀ n ∈ out.news, n.WellFormed) :=
  History.makePeriodic_short_counterexample

/-! ## Non-vacuity: concrete instances at `ℚ` -/

/-- A rational cubic curve with a double interior knot (6 control points in the plane). -/
def C10_exCurve : Obj ℚ :=
  { bases := #[⟨3, #[0, 0, 0, 1, 2, 2, 3, 3, 3], -1⟩],
    cps := ⟨[6, 3], #[0, 0, 1, 1, 2, 1, 2, 1, 2, 3, 0, 1, 4, 1, 1, 5, 5, 3]⟩, rational := true }

/-- A non-rational surface, periodic (`C^0`, 4 functions) × linear. -/
def C10_exSurf : Obj ℚ :=
  { bases := #[⟨3, #[-1, 0, 0, 1, 2, 3, 3, 4], 0⟩, ⟨2, #[0, 0, 1, 1], -1⟩],
    cps := ⟨[4, 2, 2], #[0, 0, 0, 1, 1, 0, 1, 1, 2, 0, 2, 1, 3, 0, 3, 1]⟩, rational := false }

theorem C10_exCurve_wf : C10_exCurve.WellFormed := (C10_wfB_iff _).1 (by decide +kernel)

theorem C10_exSurf_wf : C10_exSurf.WellFormed := (C10_wfB_iff _).1 (by decide +kernel)

/-- The tolerance `state.knot_tolerance = 1e-10`. -/
def C10_tol : ℚ := 1 / 10000000000

/-- A history over the covered families on the pool `[curve, surface]`: insert two knots into the curve,
    reverse the periodic direction of the surface, swap its directions, take the section `u = last`
    (a curve), translate the curve, extrude it, split it, make it rational (already is), clone. -/
def C10_exHistory : List (Instr ℚ) :=
  [.on 0 (.insertKnot [1/2, 2] 0), .on 1 (.reverse 0), .on 1 (.swap 0 1), .on 1 (.section [some (-1), none]),
   .on 0 (.affine (.translate [1, 2])), .on 0 (.extrude [0, 0, 1]), .on 0 (.split [3/2] 0),
   .on 0 (.affine .forceRational), .on 2 .clone]

/-- The history runs and every object of the final pool passes the executable check. -/
def C10_exCheck : Bool :=
  match run C10_tol [C10_exCurve, C10_exSurf] C10_exHistory with
  | .ok pool => pool.length == 7 && pool.all (fun o => o.wfB)
  | .error _ => false

theorem C10_exCheck_true : C10_exCheck = true := by decide +kernel

/-- Hypotheses of `C10_step_preserves_WF_insert_knot_partial` are satisfiable, and its conclusion is
    reached (the insertion succeeds). -/
example : ∃ os, step C10_tol C10_exCurve (.insertKnot [1/2, 2] 0) = .ok os ∧ ∀ o' ∈ os, o'.WellFormed := by
  have hb : C10_exCurve.basis 0 = ⟨3, #[0, 0, 0, 1, 2, 2, 3, 3, 3], -1⟩ := rfl
  have hstart : (C10_exCurve.basis 0).start = 0 := by rw [hb]; norm_num [Basis.start, Basis.kn]
  have hstop : (C10_exCurve.basis 0).stop = 3 := by rw [hb]; norm_num [Basis.stop, Basis.kn]
  cases hs : step C10_tol C10_exCurve (.insertKnot [1/2, 2] 0) with
  | error e =>
    exfalso
    have : (match step C10_tol C10_exCurve (.insertKnot [1/2, 2] 0) with
      | .ok _ => true | .error _ => false) = true := by decide +kernel
    rw [hs] at this
    cases this
  | ok os =>
    refine ⟨os, rfl, C10_step_preserves_WF_insert_knot_partial C10_exCurve_wf C10_tol [1/2, 2] 0 rfl ?_ hs⟩
    intro x hx
    rw [hstart, hstop]
    simp only [List.mem_cons, List.not_mem_nil, or_false] at hx
    rcases hx with rfl | rfl <;> norm_num

/-- `C10_step_preserves_WF_reverse` on a periodic direction, `C10_step_preserves_WF_section`,
    `C10_step_preserves_WF_affine`. -/
example : ∀ os, step C10_tol C10_exSurf (.reverse 0) = .ok os → ∀ o' ∈ os, o'.WellFormed :=
  fun _ hs => C10_step_preserves_WF_reverse C10_exSurf_wf C10_tol 0 hs

example : ∀ os, step C10_tol C10_exSurf (.section [some (-1), none]) = .ok os → ∀ o' ∈ os, o'.WellFormed :=
  fun _ hs => C10_step_preserves_WF_section C10_exSurf_wf C10_tol _ hs

example : ∀ os, step C10_tol C10_exCurve (.affine (.setDimension 3)) = .ok os → ∀ o' ∈ os, o'.WellFormed :=
  fun _ hs => C10_step_preserves_WF_set_dimension C10_exCurve_wf C10_tol 3 (by decide) hs

/-- `C10_reachable_partial`: a history of calls that need no side condition is covered whatever the
    states are. -/
example (pool' : List (Obj ℚ))
    (hs : run C10_tol [C10_exCurve, C10_exSurf]
      [.on 1 (.reverse 0), .on 1 (.swap 0 1), .on 1 (.section [some 0, none]), .on 0 .clone] = .ok pool') :
    ∀ o ∈ pool', o.WellFormed := by
  refine C10_reachable_partial C10_tol (by norm_num [C10_tol]) _ _ pool' ?_ ?_ hs
  · intro o ho
    simp only [List.mem_cons, List.not_mem_nil, or_false] at ho
    rcases ho with rfl | rfl
    · exact C10_exCurve_wf
    · exact C10_exSurf_wf
  · refine ⟨trivial, trivial, fun i op h => ?_, fun p1 _ => ⟨trivial, trivial, fun i op h => ?_, fun p2 _ =>
      ⟨trivial, trivial, fun i op h => ?_, fun p3 _ => ⟨trivial, trivial, fun i op h => ?_, fun _ _ => trivial⟩⟩⟩⟩
    all_goals
      simp only [Instr.resolve] at h
      split_ifs at h
      injection h with h
      injection h with h1 h2
      subst h2
      trivial

/-- `C10_step_preserves_WF_raise_order_partial` / `_lower_order_partial`: the guards are satisfiable by calls that
    succeed (rational quadratic curve, rational bilinear surface; `Lemmas/C10Raise.lean`). -/
example := @History.exCurve_runs
example := @History.exSurf_runs
example : RaiseGuard (1/100 : ℚ) History.exCurve [1] none := History.exCurve_raiseGuard

/-- `C10_step_preserves_WF_make_periodic_partial`: the guard on the concrete object (the open quadratic
    `C10_exCurve` has 6 ≥ 3 + 1 functions). -/
example : ((C10_exCurve.basis 0).order : Int) + (some (1 : Int)).getD (((C10_exCurve.basis 0).order : Int) - 2)
    ≤ (C10_exCurve.basis 0).numFunctions := by decide

/-- The extended history runs: periodic insertion, lower_periodic, make_periodic, periodic split on the pool
    (raise_order / lower_order: `History.exCurve_runs`, `History.exSurf_runs`). -/
def C10_exCheck2 : Bool :=
  match run C10_tol [C10_exCurve, C10_exSurf]
      [.on 1 (.insertKnot [1/2] 0), .on 1 (.lowerPeriodic (-1) 0), .on 0 (.makePeriodic (some 1) 0),
       .on 2 (.split [1/2] 0)] with
  | .ok pool => pool.all (fun o => o.wfB)
  | .error _ => false

theorem C10_exCheck2_true : C10_exCheck2 = true := by decide +kernel

/-- A SMALL periodic curve: order 3, `C^1`-periodic, 3 functions (`n = 3 < p + k = 4`), rational. -/
def C10_exSmall : Obj ℚ :=
  { bases := #[⟨3, #[-2, -1, 0, 1, 2, 3, 4, 5], 1⟩],
    cps := ⟨[3, 3], #[0, 0, 1, 2, 0, 2, 1, 3, 1]⟩, rational := true }

theorem C10_exSmall_wf : C10_exSmall.WellFormed := (C10_wfB_iff _).1 (by decide +kernel)

example : (C10_exSmall.basis 0).numFunctions < (C10_exSmall.basis 0).order + 1 := by decide +kernel

/-- Below the former guard the guard-free theorems apply and their conclusions are reached: insertion (also of a
    value outside the base period and of the domain end), refine, lower_periodic and split of the small periodic
    curve run and give well-formed objects. -/
def C10_exCheck3 : Bool :=
  match run C10_tol [C10_exSmall, C10_exSmall, C10_exSmall, C10_exSmall]
      [.on 0 (.insertKnot [1/2, 7/2, 3] 0), .on 1 (.refine [1] none), .on 2 (.lowerPeriodic (-1) 0),
       .on 3 (.split [1] 0), .on 0 (.lowerPeriodic 0 0), .on 1 (.split [1/2, 2] 0)] with
  | .ok pool => pool.length == 7 && pool.all (fun o => o.wfB)
  | .error _ => false

theorem C10_exCheck3_true : C10_exCheck3 = true := by decide +kernel

example : ∀ os, step C10_tol C10_exSmall (.insertKnot [1/2, 7/2, 3] 0) = .ok os → ∀ o' ∈ os, o'.WellFormed :=
  fun _ hs => C10_step_preserves_WF_insert_knot_periodic C10_exSmall_wf C10_tol _ 0 1 rfl hs

example : ∀ os, step C10_tol C10_exSmall (.lowerPeriodic (-1) 0) = .ok os → ∀ o' ∈ os, o'.WellFormed :=
  fun _ hs => C10_step_preserves_WF_lower_periodic C10_exSmall_wf C10_tol (-1) 0 hs

/-- **Row sums of a periodic insertion matrix can exceed 1**: order 2, knots `[0,0,1,1,2]`, `C^0`-periodic
    (2 functions), `insert_knot(1)` — the value is the end of the domain; the third row of the matrix is `[1, 1]`.
    (So `hne` of `C10_periodic_insertion_matrix_convex` is needed; positivity of weights is not affected.) -/
theorem C10_periodic_insertion_row_sum_two :
    (⟨2, #[0, 0, 1, 1, 2], 0⟩ : Basis ℚ).Valid ∧
    ((⟨2, #[0, 0, 1, 1, 2], 0⟩ : Basis ℚ).insertKnot 1).map (fun r => r.2) =
      .ok #[#[1, 0], #[0, 1], #[1, 1]] :=
  ⟨(C10_validB_iff _).1 (by decide +kernel), by decide +kernel⟩

/-- `C10_valid_accepted` / `C10_constructor_rejects` on concrete vectors. -/
example : Basis.mk? 3 #[0, 0, 0, 1, 2, 2, 3, 3, 3] (-1) C10_tol = .ok ⟨3, #[0, 0, 0, 1, 2, 2, 3, 3, 3], -1⟩ :=
  C10_valid_accepted (C10_exCurve_wf.valid 0 (by decide)) C10_tol (by norm_num [C10_tol])

example : Basis.mk? 0 #[(0 : ℚ), 1] (-1) C10_tol = .error .value :=
  (C10_constructor_rejects 0 _ _ _).2 (Or.inl (by decide))

example : Basis.mk? 2 #[(0 : ℚ), 0, 1] (-1) C10_tol = .error .value :=
  (C10_constructor_rejects 2 _ _ _).2 (Or.inr (Or.inl (by decide)))

example : Basis.mk? 2 #[(0 : ℚ), 1, 1/2, 2] (-1) C10_tol = .error .value :=
  (C10_constructor_rejects 2 _ _ _).2 (Or.inr (Or.inr (Or.inr (Or.inr ⟨1, by decide, by norm_num [C10_tol]⟩))))

/-- the vector of the evaluator-crash reproducer `BSplineBasis(3, [0, 1e-17, 0, 0.5, 1, 1, 1])`: accepted (the decrease
    is inside the tolerance) and stored as its running maximum. -/
example : Basis.cummax (#[0, 1/100000000000000000, 0, 1/2, 1, 1, 1] : Array ℚ)
    = #[0, 1/100000000000000000, 1/100000000000000000, 1/2, 1, 1, 1] := by decide +kernel

example : ∃ b, Basis.mk? 3 (#[0, 1/100000000000000000, 0, 1/2, 1, 1, 1] : Array ℚ) (-1) C10_tol = .ok b ∧
    b.knots = #[0, 1/100000000000000000, 1/100000000000000000, 1/2, 1, 1, 1] := by
  refine ⟨_, ((C10_constructor_accepts_otherwise 3 _ (-1) C10_tol).1).2 ?_, by decide +kernel⟩
  rintro (h | h | h | h | h)
  · omega
  · exact absurd h (by decide)
  · exact absurd h.1 (by decide)
  · exact absurd h.1 (by decide)
  · obtain ⟨i, hi, h⟩ := h
    have hi' : i < 6 := hi
    interval_cases i <;> norm_num [C10_tol] at h

/-- the repaired corner: `BSplineBasis(2, [0,0,1,1], 5)` is rejected with `ValueError` (`CtorShortPeriodic`). -/
example : Basis.mk? 2 #[(0 : ℚ), 0, 1, 1] 5 C10_tol = .error .value :=
  (C10_constructor_rejects 2 _ _ _).2 (Or.inr (Or.inr (Or.inl ⟨by decide, by decide⟩)))

/-- `C10_accessors_consistent`, `C10_reconstructible`, `C10_evaluable_at_knots` on the concrete rational curve
    (6 control points; evaluation at the corners `start = 0`, `end = 3` and at the double knot `2`). -/
example : C10_exCurve.getFlat (-1) = C10_exCurve.getFlat 5 :=
  ((C10_accessors_consistent C10_exCurve_wf).2.1 5 (by decide)).2.2.2.2.2.2.1

example : ∃ o', Obj.construct C10_exCurve.bases C10_exCurve.cps C10_exCurve.rational = .ok o' ∧ o' = C10_exCurve :=
  let ⟨o', h1, h2, _⟩ := (C10_reconstructible C10_exCurve_wf).1
  ⟨o', h1, h2⟩

example : ∃ res, C10_exCurve.evaluate C10_tol [[0, 2, 3]] true = .ok res ∧ res.shape = [3, 2] := by
  obtain ⟨res, h1, h2, _⟩ := C10_evaluable_at_knots C10_exCurve_wf C10_tol [[0, 2, 3]] rfl (by
    intro d hd _ t ht
    have hd0 : d = 0 := by
      have : d < 1 := hd
      omega
    subst hd0
    have hb : C10_exCurve.basis 0 = ⟨3, #[0, 0, 0, 1, 2, 2, 3, 3, 3], -1⟩ := rfl
    rw [hb]
    simp only [List.getD_cons_zero, List.mem_cons, List.not_mem_nil, or_false] at ht
    rcases ht with rfl | rfl | rfl
    · exact ⟨⟨0, by decide, by norm_num [Basis.kn]⟩, by norm_num [Basis.start, Basis.kn], by norm_num [Basis.stop, Basis.kn]⟩
    · exact ⟨⟨4, by decide, by norm_num [Basis.kn]⟩, by norm_num [Basis.start, Basis.kn], by norm_num [Basis.stop, Basis.kn]⟩
    · exact ⟨⟨8, by decide, by norm_num [Basis.kn]⟩, by norm_num [Basis.start, Basis.kn], by norm_num [Basis.stop, Basis.kn]⟩)
    (by
      intro d hd _
      have hd0 : d = 0 := by
        have : d < 1 := hd
        omega
      subst hd0
      simp)
  exact ⟨res, h1, h2⟩
