import Splipy.Lemmas.C10Reach
import Mathlib.Data.Rat.Floor

/-!
# Property C10 — every reachable object is structurally well formed

Model.  `Obj.WellFormed` (`Model/WellFormed.lean`) is exactly the conjunction of the property: one
basis per parametric direction, control-point array shape = function counts ++ [dimension + rational]
(dimension ≥ 1) with a flat array of that size, every basis `Basis.Valid` (order ≥ 1, ≥ 2p non-decreasing
knots, `start < end`, periodicity in range, periodic ghost knots repeating the interior spacing), positive
weights.  `Obj.wfB` is its executable form.  `History.step tol o op` (`Model/History.lean`) dispatches one
call of the public API to the operation models of C04–C09/C15 and returns the receiver afterwards followed
by the objects the call created; `History.run` executes a list of instructions on a pool of objects.
(`Obj.WF` is the name of C09's much weaker predicate; this file's predicate is `Obj.WellFormed`.)

What is proved.
* `C10_wfB_iff`: the executable check decides `WellFormed`.
* Constructor: `C10_constructor_rejects` (the exact rejection condition of `BSplineBasis.__init__`),
  `C10_constructor_accepts_otherwise`, `C10_valid_accepted` (no false rejection), and the known gap
  `C10_constructor_gap` (vectors that are accepted although they are not periodic knot vectors).
* One lemma per operation family `C10_step_preserves_WF_<op>`; complete for clone, reverse, swap, reparam
  (both conventions), the affine family incl. set_dimension (≥ 1) / force_rational and the operator forms,
  section, extrude; `_partial` (hypotheses named in the docstrings) for insert_knot / refine / split on
  non-periodic directions, make_periodic, Curve.append.
* `C10_make_periodic_short_refuted`: `make_periodic` on a direction with fewer than `order + continuity`
  functions returns an object that is NOT well formed — in the model, and (correspondence run / oracle) in
  the real code.
* `C10_reachable_partial`: induction over any finite history whose calls are covered by the lemmas above.
* `C10_step_preserves_WF_checked_partial`: for the remaining families (raise_order, lower_order,
  lower_periodic, periodic insertion/split, append of unequal orders, make_splines_identical) nothing is
  proved; the successor state
  is decided by evaluating `wfB`, which is what the correspondence run compares with the real object.
-/

open Splipy Splipy.History

set_option linter.unusedSectionVars false

variable {K : Type} [Field K] [LinearOrder K]

/-! ## The executable check -/

/-- `wfB o = true ↔ WellFormed o`. -/
theorem C10_wfB_iff (o : Obj K) : o.wfB = true ↔ o.WellFormed := Obj.wfB_iff o

/-- The same for a basis. -/
theorem C10_validB_iff (b : Basis K) : b.validB = true ↔ b.Valid := Basis.validB_iff b

/-! ## The basis constructor -/

/-- **The constructor rejects exactly**: order `< 1`, fewer than `2p` knots, a periodic vector one of whose
    `p + k - 1` compared end spacings differs by more than the tolerance (`CtorPerMismatch`: the test AS
    CODED, `|(τ[i+1]-τ[i]) - (τ[-p-k+i]-τ[-p-k-1+i])| > tol` for `i < p+k-1`), or a spacing that decreases
    by more than the tolerance (`CtorDecreasing`); the exception is always `ValueError`. -/
theorem C10_constructor_rejects (p : ℕ) (τ : Array K) (k : Int) (tol : K) :
    Basis.mk? p τ k tol = .error .value ↔
      p < 1 ∨ τ.size < 2 * p ∨ Basis.CtorPerMismatch p τ (max k (-1)) tol ∨ Basis.CtorDecreasing τ tol :=
  Basis.mk?_error_iff p τ k tol

/-- Every other input is accepted and stored unchanged (`periodic` clipped at `-1`); there is no third
    outcome. -/
theorem C10_constructor_accepts_otherwise (p : ℕ) (τ : Array K) (k : Int) (tol : K) :
    (Basis.mk? p τ k tol = .ok { order := p, knots := τ, periodic := max k (-1) } ↔
      ¬ (p < 1 ∨ τ.size < 2 * p ∨ Basis.CtorPerMismatch p τ (max k (-1)) tol ∨ Basis.CtorDecreasing τ tol))
    ∧ (Basis.mk? p τ k tol = .error .value ∨
        Basis.mk? p τ k tol = .ok { order := p, knots := τ, periodic := max k (-1) }) :=
  ⟨Basis.mk?_ok_iff p τ k tol, Basis.mk?_cases p τ k tol⟩

/-- **No false rejection**: a semantically valid basis passes the constructor for every tolerance `≥ 0`. -/
theorem C10_valid_accepted [IsStrictOrderedRing K] {b : Basis K} (hv : b.Valid) (tol : K) (htol : 0 ≤ tol) :
    Basis.mk? b.order b.knots b.periodic tol = .ok b := Basis.mk?_of_valid hv tol htol

/-- **The known gap** between the code's acceptance test and `Valid`: the constructor compares one spacing
    fewer than a periodic knot vector has and does not look at the seam multiplicity.  Both vectors are
    accepted (tolerance `1e-10`) and are not `Valid`: order 3, `[-1,0,1,2,3,4,5]`, `periodic = 0` (uniform
    knots but seam multiplicity 1 instead of `p-1-k = 2`), and order 2, `[-1,0,1,2,7/2]`, `periodic = 0`
    (only the last ghost knot is wrong; it is never compared). -/
theorem C10_constructor_gap :
    (Basis.mk? 3 #[-1,0,1,2,3,4,5] 0 (1/10000000000 : ℚ) = .ok Basis.gapBasis ∧ ¬ Basis.gapBasis.Valid) ∧
    (Basis.mk? 2 #[-1,0,1,2,7/2] 0 (1/10000000000 : ℚ) = .ok Basis.gapBasis2 ∧ ¬ Basis.gapBasis2.Valid) :=
  ⟨⟨Basis.gap_accepted, Basis.gap_not_valid⟩, ⟨Basis.gap2_accepted, Basis.gap2_not_valid⟩⟩

example : ∃ b : Basis ℚ, Basis.mk? 3 #[-1,0,1,2,3,4,5] 0 (1/10000000000 : ℚ) = .ok b ∧ ¬ b.Valid :=
  ⟨_, C10_constructor_gap.1⟩

/-! ## One lemma per operation family -/

section ops

variable [IsStrictOrderedRing K] [FloorRing K]

/-- `clone()`: the object and its copy. -/
theorem C10_step_preserves_WF_clone {o : Obj K} (h : o.WellFormed) (tol : K) {os : List (Obj K)}
    (hs : step tol o .clone = .ok os) : ∀ o' ∈ os, o'.WellFormed :=
  wf_of_stepOut hs (fun _ h1 => stepOut_clone_wf h tol h1)

/-- `reverse(direction)` — open and periodic directions (knots mirrored; control points flipped and, on a
    periodic direction, rolled by `k+1`). -/
theorem C10_step_preserves_WF_reverse {o : Obj K} (h : o.WellFormed) (tol : K) (dir : ℕ) {os : List (Obj K)}
    (hs : step tol o (.reverse dir) = .ok os) : ∀ o' ∈ os, o'.WellFormed :=
  wf_of_stepOut hs (fun _ h1 => of_nil (stepOut_reverse_wf h tol dir h1))

/-- `swap(dir1, dir2)`. -/
theorem C10_step_preserves_WF_swap {o : Obj K} (h : o.WellFormed) (tol : K) (d1 d2 : ℕ) {os : List (Obj K)}
    (hs : step tol o (.swap d1 d2) = .ok os) : ∀ o' ∈ os, o'.WellFormed :=
  wf_of_stepOut hs (fun _ h1 => of_nil (stepOut_swap_wf h tol d1 d2 h1))

/-- `reparam((s, e), direction=dir)`. -/
theorem C10_step_preserves_WF_reparam {o : Obj K} (h : o.WellFormed) (tol : K) (dir : ℕ) (s e : K)
    {os : List (Obj K)} (hs : step tol o (.reparam dir s e) = .ok os) : ∀ o' ∈ os, o'.WellFormed :=
  wf_of_stepOut hs (fun _ h1 => of_nil (stepOut_reparam_wf h tol dir s e h1))

/-- `reparam(*intervals)` (every direction, missing ones default to `(0, 1)`). -/
theorem C10_step_preserves_WF_reparam_all {o : Obj K} (h : o.WellFormed) (tol : K) (args : List (List K))
    {os : List (Obj K)} (hs : step tol o (.reparamAll args) = .ok os) : ∀ o' ∈ os, o'.WellFormed :=
  wf_of_stepOut hs (fun _ h1 => of_nil (stepOut_reparamAll_wf h tol args h1))

/-- The affine family: `translate`, `scale`, `rotate`, `mirror`, `project`, `set_dimension(n)` with `n ≥ 1`
    (`AffOp.Admissible`; dimension ≥ 1 is part of well-formedness), `force_rational`, and the operator forms
    `+= -= *= /= + - * /` (the infix forms return a new object).  Weights are untouched
    (`C10_affine_weights_untouched`), so they stay positive; `force_rational` introduces the weight `1`. -/
theorem C10_step_preserves_WF_affine {o : Obj K} (h : o.WellFormed) (tol : K) (op : AffOp K)
    (hadm : op.Admissible) {os : List (Obj K)} (hs : step tol o (.affine op) = .ok os) :
    ∀ o' ∈ os, o'.WellFormed :=
  wf_of_stepOut hs (fun _ h1 => stepOut_affine_wf h tol op hadm h1)

/-- `set_dimension(n)`, `n ≥ 1`. -/
theorem C10_step_preserves_WF_set_dimension {o : Obj K} (h : o.WellFormed) (tol : K) (n : ℕ) (hn : 1 ≤ n)
    {os : List (Obj K)} (hs : step tol o (.affine (.setDimension n)) = .ok os) : ∀ o' ∈ os, o'.WellFormed :=
  C10_step_preserves_WF_affine h tol (.setDimension n) hn hs

/-- `force_rational()`. -/
theorem C10_step_preserves_WF_force_rational {o : Obj K} (h : o.WellFormed) (tol : K) {os : List (Obj K)}
    (hs : step tol o (.affine .forceRational) = .ok os) : ∀ o' ∈ os, o'.WellFormed :=
  C10_step_preserves_WF_affine h tol .forceRational trivial hs

/-- **Affine operations never touch the weights**: same number of control points and literally the same
    weight at every control point of a rational object (cf. `C09_weights_untouched_ops`). -/
theorem C10_affine_weights_untouched {o o' : Obj K} (h : o.WellFormed) (op : AffOp K) (hadm : op.Admissible)
    (hs : op.inplace o = .ok o') (hr : o.rational = true) :
    o'.rational = true ∧ o'.len = o.len ∧ ∀ pI < o.len, o'.wt pI = o.wt pI :=
  AffOp.weights_untouched_wf h op hadm hs hr

/-- `section(*selectors)` (at least one free direction gives an object; a point gives nothing). -/
theorem C10_step_preserves_WF_section {o : Obj K} (h : o.WellFormed) (tol : K) (sec : Sections.Sec)
    {os : List (Obj K)} (hs : step tol o (.section sec) = .ok os) : ∀ o' ∈ os, o'.WellFormed :=
  wf_of_stepOut hs (fun _ h1 => stepOut_section_wf h tol sec h1)

/-- `surface_factory.extrude(curve, amount)` / `volume_factory.extrude(surface, amount)` applied to a
    well-formed object. -/
theorem C10_step_preserves_WF_extrude {o : Obj K} (h : o.WellFormed) (tol : K) (amount : List K)
    {os : List (Obj K)} (hs : step tol o (.extrude amount) = .ok os) : ∀ o' ∈ os, o'.WellFormed :=
  wf_of_stepOut hs (fun _ h1 => stepOut_extrude_wf h tol amount h1)

/-- **The insertion matrix is row-stochastic**: inserting `x ∈ [start, end)` into a valid non-periodic
    basis returns an `(n+1) × n` matrix with non-negative entries and row sums 1 — every new control point
    (and weight) is a convex combination of old ones. -/
theorem C10_insertion_matrix_convex (b : Basis K) (hv : b.Valid) (hper : b.periodic = -1) (x : K)
    (hx : b.start ≤ x ∧ x < b.stop) {b' : Basis K} {C : Mat K} (h : b.insertKnot x = .ok (b', C)) :
    C10.RowStochastic (b.numFunctions + 1) b.numFunctions C :=
  C10.insertKnot_stochastic b hv hper x hx h

/-- `insert_knot(knots, direction)`.
    `_partial`: the direction is NON-PERIODIC and the values lie in `[start, end)` (outside `[start, end]`
    the call raises `ValueError`; at `end` of a clamped direction it raises `IndexError`).  Not proved:
    periodic directions (C04 proves validity of the new knot vector only for `n ≥ p + k`; for smaller bases
    the real code breaks the knot vector — known finding `periodic-small-basis-geometry`). -/
theorem C10_step_preserves_WF_insert_knot_partial {o : Obj K} (h : o.WellFormed) (tol : K) (knots : List K)
    (dir : ℕ) (hper : (o.basis dir).periodic = -1)
    (hxs : ∀ x ∈ knots, (o.basis dir).start ≤ x ∧ x < (o.basis dir).stop) {os : List (Obj K)}
    (hs : step tol o (.insertKnot knots dir) = .ok os) : ∀ o' ∈ os, o'.WellFormed :=
  wf_of_stepOut hs (fun _ h1 => of_nil (stepOut_insertKnot_wf h tol knots dir hper hxs h1))

/-- `refine(*ns, direction=…)`.  `_partial`: every direction is non-periodic (the inserted values lie strictly
    inside the knot spans for any tolerance `≥ 0`, this is proved). -/
theorem C10_step_preserves_WF_refine_partial {o : Obj K} (h : o.WellFormed) (tol : K) (htol : 0 ≤ tol)
    (ns : List ℕ) (direction : Option ℕ) (hper : ∀ d, d < o.bases.size → (o.basis d).periodic = -1)
    {os : List (Obj K)} (hs : step tol o (.refine ns direction) = .ok os) : ∀ o' ∈ os, o'.WellFormed :=
  wf_of_stepOut hs (fun _ h1 => of_nil (stepOut_refine_wf h tol htol ns direction hper h1))

/-- `split(knots, direction)`.  `_partial`: non-periodic direction, split values in `[start, end)`, and the end
    knot of the direction has multiplicity at most `p` (`hend`: the knot before the last `p` knots is smaller
    than `end`), from which `start < end` of the last piece follows; every other piece needs no hypothesis.
    Not proved: periodic directions. -/
theorem C10_step_preserves_WF_split_partial {o : Obj K} (h : o.WellFormed) (tol : K) (knots : List K) (dir : ℕ)
    (hper : (o.basis dir).periodic = -1)
    (hk : ∀ k ∈ knots, (o.basis dir).start ≤ k ∧ k < (o.basis dir).stop)
    (hend : (o.basis dir).kn ((o.basis dir).knots.size - (o.basis dir).order - 1) < (o.basis dir).stop)
    {os : List (Obj K)} (hs : step tol o (.split knots dir) = .ok os) : ∀ o' ∈ os, o'.WellFormed :=
  wf_of_stepOut hs (fun _ h1 => stepOut_split_wf_end_partial h tol knots dir hper hk hend h1)

/-- `make_periodic(continuity, direction)`.  `_partial`: (`hb`) validity of the periodic basis built by
    `BSplineBasis.make_periodic` is a hypothesis (the constructor compares `p+k-1` spacings up to the
    tolerance only); (`hlong`) the direction has at least `order + continuity` functions — without it the
    statement is false, `C10_make_periodic_short_refuted`.  Proved: shapes, sizes, positivity of the merged
    weights (the merge is a convex combination). -/
theorem C10_step_preserves_WF_make_periodic_partial {o : Obj K} (h : o.WellFormed) (tol : K) (c : Option Int)
    (dir : ℕ) {os : List (Obj K)} (hs : step tol o (.makePeriodic c dir) = .ok os)
    (hb : ∀ out : Out K, stepOut tol o (.makePeriodic c dir) = .ok out → ∀ n ∈ out.news, (n.basis dir).Valid)
    (hlong : ((o.basis dir).order : Int) + c.getD (((o.basis dir).order : Int) - 2)
      ≤ (o.basis dir).numFunctions) : ∀ o' ∈ os, o'.WellFormed :=
  wf_of_stepOut hs (fun out h1 => stepOut_makePeriodic_wf_partial h tol c dir h1 (hb out h1) hlong)

/-- `Curve.append(other)`.  `_partial`: both curves have the same order (otherwise `Curve.raise_order` is
    called, whose well-formedness is not proved). -/
theorem C10_step_preserves_WF_append_partial {o other : Obj K} (h : o.WellFormed) (ho : other.WellFormed)
    (tol : K) (htol : 0 ≤ tol) (hord : (o.basis 0).order = (other.basis 0).order) {os : List (Obj K)}
    (hs : step tol o (.append other) = .ok os) : ∀ o' ∈ os, o'.WellFormed :=
  wf_of_stepOut hs (fun _ h1 => of_nil (stepOut_append_wf_partial h ho tol htol hord h1))

/-- **Any operation, checked**: for the families without a preservation proof (`raise_order`, `lower_order`,
    `lower_periodic`, periodic `insert_knot` / `split`, `append` of unequal orders) the successor state is
    decided by evaluating the executable check; by `C10_wfB_iff` its verdict is `WellFormed`.
    `_partial`: the verdict `wfB = true` is a hypothesis, nothing about the operation itself is proved
    (raise_order: positivity of the weights needs the degree-elevation coefficients, cf.
    `C05_geometry_partial`; periodic insertion into small bases is a known defect). -/
theorem C10_step_preserves_WF_checked_partial {o : Obj K} (tol : K) (op : Op K) {os : List (Obj K)}
    (_hs : step tol o op = .ok os) (hchk : os.all (fun o' => o'.wfB) = true) : ∀ o' ∈ os, o'.WellFormed := by
  intro o' ho'
  exact (C10_wfB_iff o').1 (List.all_eq_true.1 hchk o' ho')

/-! ## Reachability -/

/-- **Reachable objects are well formed** — induction over any finite history on a pool of objects.
    `_partial`: every instruction must be *covered* at the moment it is executed (`History.CoveredRun`;
    `History.Covered tol o op` lists, per family, exactly the hypotheses of the lemmas above: nothing for
    clone / reverse / swap / reparam / section / extrude, `Admissible` for the affine family, non-periodic
    direction and values in `[start, end)` for insert_knot / refine / split (+ end multiplicity ≤ p), equal
    orders for append, `hb`/`hlong` for make_periodic; `False` for raise_order, lower_order,
    lower_periodic), a literal `append` argument must be well formed and the pool instruction
    `make_splines_identical` (which calls raise_order / lower_periodic) does not occur (`Instr.ArgsWF`;
    arguments taken from the pool are well formed anyway). -/
theorem C10_reachable_partial (tol : K) (htol : 0 ≤ tol) (ops : List (Instr K)) (pool pool' : List (Obj K))
    (hpool : ∀ o ∈ pool, o.WellFormed) (hcov : CoveredRun tol pool ops)
    (hs : run tol pool ops = .ok pool') : ∀ o ∈ pool', o.WellFormed :=
  run_wf tol htol ops pool pool' hpool hcov hs

/-- One covered call (the step of the induction), in the `step` form. -/
theorem C10_step_preserves_WF_covered {o : Obj K} (h : o.WellFormed) (tol : K) (htol : 0 ≤ tol) (op : Op K)
    (hc : Covered tol o op) (hoth : ∀ other, op = .append other → other.WellFormed) {os : List (Obj K)}
    (hs : step tol o op = .ok os) : ∀ o' ∈ os, o'.WellFormed :=
  step_covered_wf h tol htol op hc hoth hs

end ops

/-! ## A defect the proof attempt exposed -/

/-- **`make_periodic` can return a malformed object.**  Order 5, knots `[0,0,0,0,0,1,2,3,3,3,3,3]`
    (7 functions, fewer than `order + continuity = 8`), `make_periodic(3)`: the call succeeds, the new basis
    is a VALID periodic basis with one function, the control net keeps three points — the result is not
    well formed.  The real code behaves the same way (evaluation then raises `ValueError`). -/
theorem C10_make_periodic_short_refuted :
    ∃ (o : Obj ℚ) (tol : ℚ) (c : Option Int) (dir : ℕ) (out : Out ℚ),
      o.WellFormed ∧ stepOut tol o (.makePeriodic c dir) = .ok out
        ∧ (∀ n ∈ out.news, (n.basis dir).Valid) ∧ ¬ (∀ n ∈ out.news, n.WellFormed) :=
  History.makePeriodic_short_counterexample

/-! ## Non-vacuity: concrete instances at `ℚ` -/

/-- A rational cubic curve with a double interior knot (6 control points in the plane). -/
def C10_exCurve : Obj ℚ :=
  { bases := #[⟨3, #[0, 0, 0, 1, 2, 2, 3, 3, 3], -1⟩],
    cps := ⟨[6, 3], #[0, 0, 1, 1, 2, 1, 2, 1, 2, 3, 0, 1, 4, 1, 1, 5, 5, 3]⟩, rational := true }

/-- A non-rational surface, periodic (`C^0`, 4 functions) × linear. -/
def C10_exSurf : Obj ℚ :=
  { bases := #[⟨3, #[-1, 0, 0, 1, 2, 3, 3, 4], 0⟩, ⟨2, #[0, 0, 1, 1], -1⟩],
    cps := ⟨[4, 2, 2], #[0, 0, 0, 1, 1, 0, 1, 1, 2, 0, 2, 1, 3, 0, 3, 1]⟩, rational := false }

theorem C10_exCurve_wf : C10_exCurve.WellFormed := (C10_wfB_iff _).1 (by decide +kernel)

theorem C10_exSurf_wf : C10_exSurf.WellFormed := (C10_wfB_iff _).1 (by decide +kernel)

/-- The tolerance `state.knot_tolerance = 1e-10`. -/
def C10_tol : ℚ := 1 / 10000000000

/-- A history over the covered families on the pool `[curve, surface]`: insert two knots into the curve,
    reverse the periodic direction of the surface, swap its directions, take the section `u = last`
    (a curve), translate the curve, extrude it, split it, make it rational (already is), clone. -/
def C10_exHistory : List (Instr ℚ) :=
  [.on 0 (.insertKnot [1/2, 2] 0), .on 1 (.reverse 0), .on 1 (.swap 0 1), .on 1 (.section [some (-1), none]),
   .on 0 (.affine (.translate [1, 2])), .on 0 (.extrude [0, 0, 1]), .on 0 (.split [3/2] 0),
   .on 0 (.affine .forceRational), .on 2 .clone]

/-- The history runs and every object of the final pool passes the executable check. -/
def C10_exCheck : Bool :=
  match run C10_tol [C10_exCurve, C10_exSurf] C10_exHistory with
  | .ok pool => pool.length == 7 && pool.all (fun o => o.wfB)
  | .error _ => false

theorem C10_exCheck_true : C10_exCheck = true := by decide +kernel

/-- Hypotheses of `C10_step_preserves_WF_insert_knot_partial` are satisfiable, and its conclusion is
    reached (the insertion succeeds). -/
example : ∃ os, step C10_tol C10_exCurve (.insertKnot [1/2, 2] 0) = .ok os ∧ ∀ o' ∈ os, o'.WellFormed := by
  have hb : C10_exCurve.basis 0 = ⟨3, #[0, 0, 0, 1, 2, 2, 3, 3, 3], -1⟩ := rfl
  have hstart : (C10_exCurve.basis 0).start = 0 := by rw [hb]; norm_num [Basis.start, Basis.kn]
  have hstop : (C10_exCurve.basis 0).stop = 3 := by rw [hb]; norm_num [Basis.stop, Basis.kn]
  cases hs : step C10_tol C10_exCurve (.insertKnot [1/2, 2] 0) with
  | error e =>
    exfalso
    have : (match step C10_tol C10_exCurve (.insertKnot [1/2, 2] 0) with
      | .ok _ => true | .error _ => false) = true := by decide +kernel
    rw [hs] at this
    cases this
  | ok os =>
    refine ⟨os, rfl, C10_step_preserves_WF_insert_knot_partial C10_exCurve_wf C10_tol [1/2, 2] 0 rfl ?_ hs⟩
    intro x hx
    rw [hstart, hstop]
    simp only [List.mem_cons, List.not_mem_nil, or_false] at hx
    rcases hx with rfl | rfl <;> norm_num

/-- `C10_step_preserves_WF_reverse` on a periodic direction, `C10_step_preserves_WF_section`,
    `C10_step_preserves_WF_affine`. -/
example : ∀ os, step C10_tol C10_exSurf (.reverse 0) = .ok os → ∀ o' ∈ os, o'.WellFormed :=
  fun _ hs => C10_step_preserves_WF_reverse C10_exSurf_wf C10_tol 0 hs

example : ∀ os, step C10_tol C10_exSurf (.section [some (-1), none]) = .ok os → ∀ o' ∈ os, o'.WellFormed :=
  fun _ hs => C10_step_preserves_WF_section C10_exSurf_wf C10_tol _ hs

example : ∀ os, step C10_tol C10_exCurve (.affine (.setDimension 3)) = .ok os → ∀ o' ∈ os, o'.WellFormed :=
  fun _ hs => C10_step_preserves_WF_set_dimension C10_exCurve_wf C10_tol 3 (by decide) hs

/-- `C10_reachable_partial`: a history of calls that need no side condition is covered whatever the
    states are. -/
example (pool' : List (Obj ℚ))
    (hs : run C10_tol [C10_exCurve, C10_exSurf]
      [.on 1 (.reverse 0), .on 1 (.swap 0 1), .on 1 (.section [some 0, none]), .on 0 .clone] = .ok pool') :
    ∀ o ∈ pool', o.WellFormed := by
  refine C10_reachable_partial C10_tol (by norm_num [C10_tol]) _ _ pool' ?_ ?_ hs
  · intro o ho
    simp only [List.mem_cons, List.not_mem_nil, or_false] at ho
    rcases ho with rfl | rfl
    · exact C10_exCurve_wf
    · exact C10_exSurf_wf
  · refine ⟨trivial, fun i op h => ?_, fun p1 _ => ⟨trivial, fun i op h => ?_, fun p2 _ =>
      ⟨trivial, fun i op h => ?_, fun p3 _ => ⟨trivial, fun i op h => ?_, fun _ _ => trivial⟩⟩⟩⟩
    all_goals
      simp only [Instr.resolve] at h
      split_ifs at h
      injection h with h
      injection h with h1 h2
      subst h2
      trivial

/-- `C10_valid_accepted` / `C10_constructor_rejects` on concrete vectors. -/
example : Basis.mk? 3 #[0, 0, 0, 1, 2, 2, 3, 3, 3] (-1) C10_tol = .ok ⟨3, #[0, 0, 0, 1, 2, 2, 3, 3, 3], -1⟩ :=
  C10_valid_accepted (C10_exCurve_wf.valid 0 (by decide)) C10_tol (by norm_num [C10_tol])

example : Basis.mk? 0 #[(0 : ℚ), 1] (-1) C10_tol = .error .value :=
  (C10_constructor_rejects 0 _ _ _).2 (Or.inl (by decide))

example : Basis.mk? 2 #[(0 : ℚ), 0, 1] (-1) C10_tol = .error .value :=
  (C10_constructor_rejects 2 _ _ _).2 (Or.inr (Or.inl (by decide)))

example : Basis.mk? 2 #[(0 : ℚ), 1, 1/2, 2] (-1) C10_tol = .error .value :=
  (C10_constructor_rejects 2 _ _ _).2 (Or.inr (Or.inr (Or.inr ⟨1, by decide, by norm_num [C10_tol]⟩)))
