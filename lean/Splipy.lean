-- Root of the `Splipy` verification library (generated: imports every module).
import Splipy.Driver.All
import Splipy.Driver.C01
import Splipy.Driver.Common
import Splipy.Model.Basis
import Splipy.Properties.C01
import Splipy.Proto.Val
import Splipy.Spec.BSpline
