-- Root of the `Splipy` verification library.
import Splipy.Proto.Val
import Splipy.Spec.BSpline
