import Splipy.Model.Object

/-!
# Executable model of the boundary-extraction and boundary-filling code (property C15)

Python sources mirrored here:

* `splipy/utils/__init__.py`: `sections`, `section_from_index`, `section_to_index`, `check_section`,
  `check_direction`;
* `splipy/splineobject.py`: `SplineObject.section`, `SplineObject.corners`;
* `splipy/surface.py`: `Surface.edges`, `Surface.const_par_curve`;
* `splipy/volume.py`: `Volume.edges`, `Volume.faces`;
* `splipy/surface_factory.py`: `edge_curves` (2 and 4 curves, incl. the loop re-ordering search),
  `coons_patch`, `extrude`;
* `splipy/volume_factory.py`: `edge_surfaces` (2 and 6 faces), `extrude`.

Scope notes.
* `make_splines_identical` (degree elevation + knot refinement of two objects to a common basis) is
  property C12's model.  The factories are modelled for inputs whose bases are *already identical
  after reparametrisation to `[0,1]`* (orders ≥ 2, open knot vectors); for such inputs the only work
  `make_splines_identical` performs on the auxiliary (bi/tri)linear blending objects is to express
  the linear functions `1-v`, `v` in the target basis, whose coefficients are the Greville abscissae
  (linear precision, `Lemmas/LinearPrecision.lean`).  Inputs outside that scope give `none`
  ("unsupported"), never a default.
* `thicken` normalises the velocity with a square root and is not modelled (oracle only).
-/

namespace Splipy

namespace Sections

/-- One selector of a section: `None` (direction stays free) or a control-point index. -/
abbrev Sel := Option Int
abbrev Sec := List Sel

/-- `itertools.combinations(xs, r)` (lexicographic in the positions). -/
def combos : List ℕ → ℕ → List (List ℕ)
  | _, 0 => [[]]
  | [], _+1 => []
  | x :: xs, r+1 => (combos xs r).map (x :: ·) ++ combos xs (r+1)

/-- `itertools.product([0,-1], repeat=n)` (first entry slowest). -/
def prodIdx : ℕ → List (List Int)
  | 0 => [[]]
  | n+1 => (prodIdx n).map ((0 : Int) :: ·) ++ (prodIdx n).map ((-1 : Int) :: ·)

/-- `args[f] = i for f, i in zip(fixed, indices)`. -/
def assign : Sec → List ℕ → List Int → Sec
  | a, f :: fs, i :: is => assign (a.set f (some i)) fs is
  | a, _, _ => a

/-- `utils.sections(src_dim, tgt_dim)` for `tgt_dim ≤ src_dim`. -/
def sections (src tgt : ℕ) : List Sec :=
  let nfixed := src - tgt
  (combos (List.range src) nfixed).flatMap (fun fixed =>
    (prodIdx nfixed).map (fun indices => assign (List.replicate src none) fixed indices.reverse))

/-- `utils.sections` with the error of `itertools.combinations` for a negative `r`. -/
def sectionsPy (src tgt : ℕ) : PyM (List Sec) :=
  if src < tgt then .error .value else .ok (sections src tgt)

/-- Position of the first element equal to `x` (`None` when absent). -/
def indexOf? (x : Sec) : List Sec → Option ℕ
  | [] => none
  | y :: ys => if x = y then some 0 else (indexOf? x ys).map (· + 1)

/-- `utils.section_to_index(section)` (`None` when the section is not in the table). -/
def sectionToIndex (s : Sec) : Option ℕ :=
  indexOf? s (sections s.length (s.filter Option.isNone).length)

/-- `utils.section_from_index(src_dim, tgt_dim, i)`. -/
def sectionFromIndex (src tgt i : ℕ) : Option Sec := (sections src tgt)[i]?

/-- `utils.check_section(*args, pardim=…, u=…, v=…, w=…)`; `kw` = keyword selectors as
    (direction index, value). -/
def checkSection (pardim : ℕ) (args : Sec) (kw : List (ℕ × Sel)) : PyM Sec :=
  let a := args ++ List.replicate (pardim - args.length) none
  kw.foldlM (fun a (idx, v) => if idx < a.length then .ok (a.set idx v) else .error .index) a

/-- `utils.check_direction(direction, pardim)`; the argument is an int or one of `uvwUVW`. -/
def checkDirection (d : Int ⊕ String) (pardim : ℕ) : PyM ℕ :=
  let is (k : Int) (l u : String) : Bool :=
    match d with
    | .inl i => i == k
    | .inr s => s == l || s == u
  if is 0 "u" "U" ∧ 0 < pardim then .ok 0
  else if is 1 "v" "V" ∧ 1 < pardim then .ok 1
  else if is 2 "w" "W" ∧ 2 < pardim then .ok 2
  else .error .value

/-- numpy integer indexing of an axis of length `n`. -/
def pyIndex (n : ℕ) (i : Int) : PyM ℕ :=
  let j := if i < 0 then i + n else i
  if 0 ≤ j ∧ j < n then .ok j.toNat else .error .index

end Sections

open Sections

namespace Tensor

variable {K : Type} [Zero K]

/-- C-order multi-index of a flat index. -/
def unravel : List ℕ → ℕ → List ℕ
  | [], _ => []
  | _ :: rest, k => (k / prod rest) :: unravel rest (k % prod rest)

def ravel : List ℕ → List ℕ → ℕ
  | _ :: rest, i :: is => i * prod rest + ravel rest is
  | _, _ => 0

/-- Build a tensor from a function of the multi-index. -/
def tabulate (shape : List ℕ) (f : List ℕ → K) : Tensor K :=
  { shape := shape, data := Array.ofFn (n := prod shape) (fun k => f (unravel shape k.val)) }

def getIdx (t : Tensor K) (idx : List ℕ) : K := t.get (ravel t.shape idx)

end Tensor

variable {K : Type} [Field K] [LinearOrder K] [FloorRing K]

/-- What `SplineObject.section` returns: an object of the class chosen by the number of free
    directions, or (for a point with `unwrap_points=True`) the bare control point. -/
inductive SecResult (K : Type) where
  | obj (cls : String) (o : Obj K)
  | point (a : Array K)
  deriving Inhabited

namespace Obj

/-- Class picked by `[c for c in SplineObject.__subclasses__() if c._intended_pardim == n]`. -/
def className (n : ℕ) : String :=
  match n with
  | 1 => "Curve" | 2 => "Surface" | 3 => "Volume" | _ => "SplineObject"

/-- The control-net slicing of `section`: fix the selected indices, last direction first so that
    the remaining axis numbers stay valid (`d` = axis number of the head selector). -/
def sliceSecFrom (d : ℕ) : List (Option ℕ) → Tensor K → Tensor K
  | [], t => t
  | none :: r, t => sliceSecFrom (d + 1) r t
  | some j :: r, t => (sliceSecFrom (d + 1) r t).takeAxis d j

def sliceSec (t : Tensor K) (sec : List (Option ℕ)) : Tensor K := sliceSecFrom 0 sec t

/-- numpy's resolution of the integer selectors against the axis lengths (`zip(shape, section)`,
    left to right, `IndexError` at the first index out of range). -/
def resolveSel : List ℕ → Sec → PyM (List (Option ℕ))
  | _, [] => .ok []
  | [], _ :: _ => .ok []
  | _ :: ns, none :: r => (resolveSel ns r).map (none :: ·)
  | n :: ns, some i :: r =>
    match pyIndex n i with
    | .error e => .error e
    | .ok j => (resolveSel ns r).map (some j :: ·)

/-- The bases of the free directions. -/
def freeBases : List (Basis K) → Sec → List (Basis K)
  | b :: bs, none :: r => b :: freeBases bs r
  | _ :: bs, some _ :: r => freeBases bs r
  | _, _ => []

/-- `SplineObject.section(*args, unwrap_points=…)` after `check_section` (selectors for exactly
    `pardim` directions). -/
def sectionSel (o : Obj K) (sec : Sec) (unwrap : Bool) : PyM (SecResult K) :=
  match resolveSel o.cps.shape sec with
  | .error e => .error e
  | .ok idx =>
    let cps := sliceSec o.cps idx
    let bases := freeBases o.bases.toList sec
    if !bases.isEmpty ∨ !unwrap then
      .ok (.obj (className bases.length) { bases := bases.toArray, cps := cps, rational := o.rational })
    else .ok (.point cps.data)

/-- `obj.section(*args, **kwargs)`. -/
def «section» (o : Obj K) (args : Sec) (kw : List (ℕ × Sel)) (unwrap : Bool) : PyM (SecResult K) := do
  let sec ← checkSection o.pardim args kw
  o.sectionSel sec unwrap

/-- `corners(order)`: `orderF = true` for `'F'`.  Result shape `2^pardim × ncomp`. -/
def corners (o : Obj K) (orderF : Bool) : PyM (Tensor K) := do
  let rows ← (sections o.pardim 0).mapM (fun args => do
    let r ← o.sectionSel (if orderF then args.reverse else args) true
    match r with
    | .point a => pure a
    | .obj _ ob => pure ob.cps.data)
  pure { shape := [2 ^ o.pardim, o.ncomp], data := rows.foldl (· ++ ·) #[] }

/-- `Surface.edges()` / `Volume.edges()`: `tuple(self.section(*args) for args in sections(pardim, 1))`. -/
def edges (o : Obj K) : PyM (List (SecResult K)) :=
  (sections o.pardim 1).mapM (fun args => o.sectionSel args true)

/-- `Volume.faces()`: the six faces, `None` in both slots of a periodic direction. -/
def faces (o : Obj K) : PyM (List (Option (SecResult K))) := do
  let fs ← (sections 3 2).mapM (fun args => o.sectionSel args true)
  pure ((List.zip (List.range fs.length) fs).map (fun (k, f) =>
    if (o.basis (k / 2)).periodic > -1 then none else some f))

/-- Number of insertions of `const_par_curve`: `min(b.continuity(knot), b.order-1)` as a loop count
    (`range` of a negative number is empty; `cont = none` is `np.inf`). -/
def cpcCount (b : Basis K) (cont : Option Int) : ℕ :=
  let p1 : Int := (b.order : Int) - 1
  (match cont with
    | none => p1
    | some c => min c p1).toNat

/-- The tail of `const_par_curve`: row `i = max(bisect_left(b.knots, knot) - 1, 0) % b.num_functions()`
    of the refined net (`C[i,:] · cps`; `ZeroDivisionError` for a basis without functions, `IndexError`
    when `C` has no such row), wrapped as a `Curve` on the other basis. -/
def cpcPick (o o' : Obj K) (dir : ℕ) (knot : K) : PyM (Obj K) :=
  if (o'.basis dir).numFunctions = 0 then .error .zeroDiv else
  let i := ((o'.basis dir).bisectL knot - 1) % (o'.basis dir).numFunctions
  if o'.cps.shape.getD dir 0 ≤ i then .error .index else
  .ok { bases := #[o.basis (1 - dir)], cps := o'.cps.takeAxis dir i, rational := o.rational }

/-- `Surface.const_par_curve(knot, direction)`. -/
def constParCurve (o : Obj K) (tol knot : K) (direction : Int ⊕ String) : PyM (Obj K) := do
  let dir ← checkDirection direction 2
  let cont ← (o.basis dir).continuity tol knot
  -- `for i in range(mult): C = b.insert_knot(knot) @ C`
  let o' ← o.insertKnots (List.replicate (cpcCount (o.basis dir) cont) knot) dir
  cpcPick o o' dir knot

/-! ## Factories -/

/-- `BSplineBasis(2)`. -/
def linearBasis : Basis K := { order := 2, knots := #[0, 0, 1, 1], periodic := -1 }

/-- `make_splines_compatible(a, b)` (both possibly modified). -/
def compatible (a b : Obj K) : Obj K × Obj K :=
  let (a, b) := if a.rational then (a, b.forceRational) else if b.rational then (a.forceRational, b) else (a, b)
  if a.dimension > b.dimension then (a, b.setDimension a.dimension) else (a.setDimension b.dimension, b)

/-- `reparam()` of every direction to `[0,1]`. -/
def reparamUnit (o : Obj K) : PyM (Obj K) :=
  (List.range o.bases.size).foldlM (fun o d => o.reparamDir d 0 1) o

def sameBasis (a b : Basis K) : Bool :=
  a.order == b.order && a.periodic == b.periodic && a.knots.toList == b.knots.toList

/-- Is this pair inside the modelled scope of `make_splines_identical`: equal open bases of order
    ≥ 2 in every direction (after the reparametrisation)? -/
def identicalBases (a b : Obj K) : Bool :=
  a.bases.size == b.bases.size &&
  (List.zip a.bases.toList b.bases.toList).all (fun (x, y) => sameBasis x y && x.periodic == -1 && decide (2 ≤ x.order))

/-- The part of `make_splines_identical(a, b)` that is modelled: compatibility + reparametrisation;
    `none` when the bases are then not identical (C12's territory). -/
def identical? (a b : Obj K) : PyM (Option (Obj K × Obj K)) := do
  let (a, b) := compatible a b
  let a ← a.reparamUnit
  let b ← b.reparamUnit
  pure (if identicalBases a b then some (a, b) else none)

/-- Stack two control nets along a new last parametric axis of length 2. -/
def stack2 (a b : Tensor K) : Tensor K :=
  let nc := a.shape.getLastD 1
  let sh := a.shape.dropLast ++ [2, nc]
  { shape := sh,
    data := Array.ofFn (n := Tensor.prod sh) (fun k =>
      let c := k.val % nc
      let j := (k.val / nc) % 2
      let pI := k.val / (2 * nc)
      (if j = 0 then a else b).get (pI * nc + c)) }

/-- `edge_curves(c1, c2)` / `edge_surfaces(s1, s2)`: the ruled object between two inputs. -/
def ruled (a b : Obj K) : PyM (Option (Obj K)) := do
  let some (a, b) ← identical? a b | pure none
  pure (some { bases := a.bases.push linearBasis, cps := stack2 a.cps b.cps, rational := a.rational })

/-- Homogeneous control point `curve[i]` (python index). -/
def cpRow (o : Obj K) (i : Int) : Array K :=
  let n := o.cps.shape.headD 0
  let j := (if i < 0 then i + n else i).toNat
  let nc := o.ncomp
  o.cps.data.extract (j * nc) (j * nc + nc)

/-- `np.allclose(a, b, rtol, atol)`. -/
def allclose (rtol atol : K) (a b : Array K) : Bool :=
  (List.zip a.toList b.toList).all (fun (x, y) => decide (|x - y| ≤ atol + rtol * |y|))

end Obj

namespace Sections

/-- Inner loop of the re-ordering search of `edge_curves`: the first remaining curve whose start
    (kept) or end (then reversed) matches `cur`; returns it and the remaining list. -/
def findNext {C α : Type} (close : α → α → Bool) (startp endp : C → α) (rev : C → C) (cur : α) :
    List C → Option (C × List C)
  | [] => none
  | c :: cs =>
    if close cur (startp c) then some (c, cs)
    else if close cur (endp c) then some (rev c, cs)
    else (findNext close startp endp rev cur cs).map (fun (x, r) => (x, c :: r))

/-- `for j in range(k)`: extend the chain `k` times; `RuntimeError` when no curve matches. -/
def loopGo {C α : Type} (close : α → α → Bool) (startp endp : C → α) (rev : C → C) :
    ℕ → C → List C → PyM (List C)
  | 0, _, _ => .ok []
  | k+1, cur, rest =>
    match findNext close startp endp rev (endp cur) rest with
    | none => .error .runtime
    | some (x, r) => (loopGo close startp endp rev k x r).map (x :: ·)

/-- The closure test `allclose(c0[-1], c1[0]) and … and allclose(c3[-1], c0[0])`. -/
def isLoop {C α : Type} (close : α → α → Bool) (startp endp : C → α) : List C → Bool
  | [c0, c1, c2, c3] => close (endp c0) (startp c1) && close (endp c1) (startp c2) &&
                         close (endp c2) (startp c3) && close (endp c3) (startp c0)
  | _ => false

/-- The whole re-organisation step of the four-curve branch. -/
def loopOrder {C α : Type} (close : α → α → Bool) (startp endp : C → α) (rev : C → C) :
    List C → PyM (List C)
  | c0 :: rest =>
    if isLoop close startp endp (c0 :: rest) then .ok (c0 :: rest)
    else (loopGo close startp endp rev 3 c0 rest).map (c0 :: ·)
  | [] => .ok []

end Sections

namespace Obj

/-- Pairwise `make_splines_compatible(mycurves[i], mycurves[j])` for `i < j`. -/
def compatAll (cs : Array (Obj K)) : Array (Obj K) :=
  (List.range cs.size).foldl (fun cs i =>
    (List.range' (i+1) (cs.size - (i+1))).foldl (fun (cs : Array (Obj K)) j =>
      let (a, b) := compatible (cs.getD i Inhabited.default) (cs.getD j Inhabited.default)
      (cs.set! i a).set! j b) cs) cs

/-- Normalised Greville abscissae of an (already `[0,1]`) basis. -/
def grev (b : Basis K) : PyM (Array K) := b.greville

/-- One entry of the Coons net: `s1 + s2 - s3` at blending abscissae `x` (direction `u`) and `y`
    (direction `v`); `bi, ti` bottom/top control points `i`, `lj, rj` left/right control points `j`,
    `c..` the corner points `bottom[0], bottom[-1], top[0], top[-1]`. -/
def coonsEntry (x y bi ti lj rj c00 c10 c01 c11 : K) : K :=
  (bi * (1 - y) + ti * y) + (lj * (1 - x) + rj * x)
    - (c00 * (1 - x) * (1 - y) + c10 * x * (1 - y) + c01 * (1 - x) * y + c11 * x * y)

/-- `coons_patch(bottom, right, top, left)` for curves that are pairwise compatible (same
    rationality and dimension). `none` = outside the modelled scope. -/
def coonsPatch (bottom right top left : Obj K) : PyM (Option (Obj K)) := do
  let top := top.reverse 0
  let left := left.reverse 0
  if !(bottom.rational == top.rational && left.rational == right.rational && bottom.rational == left.rational
       && bottom.ncomp == top.ncomp && left.ncomp == right.ncomp && bottom.ncomp == left.ncomp) then return none
  let some s1 ← ruled bottom top | return none      -- bases (B1, lin)
  let some s2 ← ruled left right | return none      -- bases (B2, lin), swapped below
  let b1 := s1.basis 0
  let b2 := s2.basis 0
  let xi ← grev b1
  let eta ← grev b2
  let n := xi.size
  let m := eta.size
  let nc := s1.ncomp
  -- corner surface `[bottom[0], bottom[-1], top[0], top[-1]]`
  let c00 := cpRow bottom 0
  let c10 := cpRow bottom (-1)
  let c01 := cpRow top 0
  let c11 := cpRow top (-1)
  let cps : Tensor K := Tensor.tabulate [n, m, nc] (fun idx =>
    let i := idx.getD 0 0
    let j := idx.getD 1 0
    let c := idx.getD 2 0
    let x := xi.getD i 0
    let y := eta.getD j 0
    coonsEntry x y (s1.cps.getIdx [i, 0, c]) (s1.cps.getIdx [i, 1, c]) (s2.cps.getIdx [j, 0, c])
      (s2.cps.getIdx [j, 1, c]) (c00.getD c 0) (c10.getD c 0) (c01.getD c 0) (c11.getD c 0))
  pure (some { bases := #[b1, b2], cps := cps, rational := s1.rational })

/-- `edge_curves(*curves)` with `type='coons'`. -/
def edgeCurves (curves : List (Obj K)) (rtol atol : K) : PyM (Option (Obj K)) :=
  match curves with
  | [c1, c2] => ruled c1 c2
  | [_, _, _, _] => do
    let cs := (compatAll curves.toArray).toList
    let ordered ← loopOrder (allclose rtol atol) (fun c => cpRow c 0) (fun c => cpRow c (-1))
      (fun c => c.reverse 0) cs
    match ordered with
    | [a, b, c, d] => coonsPatch a b c d
    | _ => pure none
  | _ => .error .value

/-- `surface_factory.extrude(curve, amount)` and `volume_factory.extrude(surf, amount)`. -/
def extrude (o : Obj K) (amount : List K) : PyM (Obj K) :=
  let o3 := o.setDimension 3
  -- `translate`: `x[i] for i in range(dim)` / shape mismatch when the dimension grows again
  if amount.length < 3 then .error .index
  else if amount.length > 3 then .error .value
  else
    let top := o3.translate amount
    .ok { bases := o3.bases.push linearBasis, cps := stack2 o3.cps top.cps, rational := o3.rational }

/-- One entry of the six-face volume net, exactly as `edge_surfaces` assembles it
    (`vol1 + vol2 + vol3 + vol4 − vol_u_edges − vol_v_edges − vol_w_edges`) for blending abscissae
    `ξ, η, ζ` and the six face nets (one component): `f a` faces `u = a` indexed `(j,k)`, `g b` faces
    `v = b` indexed `(i,k)`, `h c` faces `w = c` indexed `(i,j)`. -/
def triNetModel (ξ η ζ : ℕ → K) (nu nv nw : ℕ) (f0 f1 g0 g1 h0 h1 : ℕ → ℕ → K) (i j k : ℕ) : K :=
  -- weight of end `a ∈ {0,1}` at abscissa `g`
  let w (a : ℕ) (g : K) : K := if a = 0 then 1 - g else g
  let last (a n : ℕ) : ℕ := if a = 0 then 0 else n - 1
  -- the three ruled volumes in (u,v,w) index order
  let Fu (i j k : ℕ) : K := f0 j k * (1 - ξ i) + f1 j k * ξ i
  let Fv (i j k : ℕ) : K := g0 i k * (1 - η j) + g1 i k * η j
  let Fw (i j k : ℕ) : K := h0 i j * (1 - ζ k) + h1 i j * ζ k
  let ab : List (ℕ × ℕ) := [(0,0), (0,1), (1,0), (1,1)]
  let abc : List (ℕ × ℕ × ℕ) := [(0,0,0), (0,0,1), (0,1,0), (0,1,1), (1,0,0), (1,0,1), (1,1,0), (1,1,1)]
  -- corner (u=a, v=b, w=c) from `vol1.corners()` (before its swaps): the faces `umin`, `umax`
  let corner (a b c : ℕ) : K := (if a = 0 then f0 else f1) (last b nv) (last c nw)
  let vol4 := abc.foldl (fun acc (a, b, d) => acc + w a (ξ i) * w b (η j) * w d (ζ k) * corner a b d) 0
  -- vol_u_edges: w-direction edges of vol1, bilinear in (u,v)
  let eW := ab.foldl (fun acc (a, b) => acc + w a (ξ i) * w b (η j) * Fu (last a nu) (last b nv) k) 0
  -- vol_v_edges: u-direction edges of vol2, bilinear in (v,w)
  let eU := ab.foldl (fun acc (b, d) => acc + w b (η j) * w d (ζ k) * Fv i (last b nv) (last d nw)) 0
  -- vol_w_edges: v-direction edges of vol3, bilinear in (u,w)
  let eV := ab.foldl (fun acc (a, d) => acc + w a (ξ i) * w d (ζ k) * Fw (last a nu) j (last d nw)) 0
  Fu i j k + Fv i j k + Fw i j k + vol4 - eW - eU - eV

/-- `edge_surfaces(*surfaces)`. -/
def edgeSurfaces (surfs : List (Obj K)) : PyM (Option (Obj K)) :=
  match surfs with
  | [s1, s2] => ruled s1 s2
  | [umin, umax, vmin, vmax, wmin, wmax] => do
    if surfs.any (·.rational) then throw .runtime
    if !(surfs.all (fun s => s.ncomp == umin.ncomp)) then return none
    let some v1 ← ruled umin umax | return none     -- (v, w, lin)
    let some v2 ← ruled vmin vmax | return none     -- (u, w, lin)
    let some v3 ← ruled wmin wmax | return none     -- (u, v, lin)
    let bu := v2.basis 0
    let bv := v1.basis 0
    let bw := v1.basis 1
    if !(sameBasis (v3.basis 0) bu && sameBasis (v3.basis 1) bv && sameBasis (v2.basis 1) bw) then return none
    let xi ← grev bu
    let eta ← grev bv
    let zeta ← grev bw
    let nu := xi.size
    let nv := eta.size
    let nw := zeta.size
    let nc := umin.ncomp
    let cps : Tensor K := Tensor.tabulate [nu, nv, nw, nc] (fun idx =>
      let c := idx.getD 3 0
      triNetModel (fun i => xi.getD i 0) (fun j => eta.getD j 0) (fun k => zeta.getD k 0) nu nv nw
        (fun j k => v1.cps.getIdx [j, k, 0, c]) (fun j k => v1.cps.getIdx [j, k, 1, c])
        (fun i k => v2.cps.getIdx [i, k, 0, c]) (fun i k => v2.cps.getIdx [i, k, 1, c])
        (fun i j => v3.cps.getIdx [i, j, 0, c]) (fun i j => v3.cps.getIdx [i, j, 1, c])
        (idx.getD 0 0) (idx.getD 1 0) (idx.getD 2 0))
    pure (some { bases := #[bu, bv, bw], cps := cps, rational := false })
  | _ => .error .value

end Obj

end Splipy
