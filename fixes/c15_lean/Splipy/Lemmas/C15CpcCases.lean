import Splipy.Lemmas.C15CpcCore
import Splipy.Lemmas.C04Seq

/-!
# `Obj.constParCurve`: the selected row interpolates the fibre splines
-/

set_option linter.unusedSectionVars false

namespace Splipy
namespace C15

open C04 Sections

variable {K : Type} [Field K] [LinearOrder K] [IsStrictOrderedRing K] [FloorRing K]

/-- Interpolation at a parameter `x` that sits in the knot sequence as
    `τ i < x (i < l)`, `τ i = x (l ≤ i < l+q)`, `x < τ (l+q)`: the spline takes the value of
    coefficient `l - 1`, from either side (`q ≥ 1`: a knot of multiplicity `q`; `q = 0`: the open
    span). -/
theorem interior_interp (τ : ℕ → K) (hτ : Monotone τ) (q n l : ℕ) (c : ℕ → K) (x : K)
    (hl : q + 1 ≤ l) (hn : l - 1 < n) (hlt : τ (l - 1) < x)
    (heq : ∀ i, l ≤ i → i < l + q → τ i = x) (hgt : x < τ (l + q)) (s : Side) :
    splineVal s τ q n c x = c (l - 1) := by
  obtain ⟨j, rfl⟩ : ∃ j, l = j + 1 := ⟨l - 1, by omega⟩
  simp only [Nat.add_sub_cancel] at hn hlt ⊢
  rcases Nat.eq_zero_or_pos q with h0 | hq
  · subst h0
    have hB : B s τ 0 j x = 1 := by
      rw [B_zero]
      apply ind_eq_one
      cases s
      · exact ⟨le_of_lt hlt, by simpa using hgt⟩
      · exact ⟨hlt, le_of_lt (by simpa using hgt)⟩
    have hmem : s.mem (τ j) (τ (j+1)) x := by
      cases s
      · exact ⟨le_of_lt hlt, by simpa using hgt⟩
      · exact ⟨hlt, le_of_lt (by simpa using hgt)⟩
    exact c15_splineVal_of_one s τ hτ 0 j j n c x (Nat.zero_le _) hmem le_rfl hn hB
  · have e1 : τ (j+1) = x := heq (j+1) le_rfl (by omega)
    have e2 : τ (j+q) = x := heq (j+q) (by omega) (by omega)
    have e3 : j + 1 + q = j + q + 1 := by omega
    rw [e3] at hgt
    have heq' : τ (j+1) = τ (j+q) := by rw [e1, e2]
    have hlo : τ j < τ (j+1) := by rw [e1]; exact hlt
    have hhi : τ (j+q) < τ (j+q+1) := by rw [e2]; exact hgt
    cases s
    · have := c15_splineVal_at_C0_knot_right τ hτ q j n c hq hn heq' hlo hhi
      rwa [e1] at this
    · have := c15_splineVal_at_C0_knot_left τ hτ q j n c hq (by omega) hn heq' hlo hhi
      rwa [e1] at this

theorem numFunctions_open (b : Basis K) (hper : b.periodic = -1) :
    b.numFunctions = b.knots.size - b.order := by
  unfold Basis.numFunctions
  rw [hper]
  simp

/-- Read-back of the curve built by `cpcPick`. -/
theorem cpcPick_ok (o o' : Obj K) (dir : ℕ) (x : K) (m : ℕ) (hax : dir < o.cps.shape.length)
    (hsh : o'.cps.shape = o.cps.shape.set dir m) (hout : outerN o' dir = outerN o dir)
    (hinn : innerN o' dir = innerN o dir) (hrow : (o'.basis dir).bisectL x - 1 < m)
    (hnf : (o'.basis dir).numFunctions = m) :
    ∃ crv, Obj.cpcPick o o' dir x = .ok crv ∧ crv.bases = #[o.basis (1 - dir)] ∧
      crv.rational = o.rational ∧ crv.cps.shape = o.cps.shape.eraseIdx dir ∧
      ∀ a i, a < outerN o dir → i < innerN o dir →
        crv.cps.get (a * innerN o dir + i) = fibre o' dir a i ((o'.basis dir).bisectL x - 1) := by
  have hget : o'.cps.shape.getD dir 0 = m := by
    rw [hsh]
    simp [List.getD_eq_getElem?_getD, hax]
  refine ⟨{ bases := #[o.basis (1 - dir)],
            cps := o'.cps.takeAxis dir ((o'.basis dir).bisectL x - 1), rational := o.rational },
    ?_, rfl, rfl, ?_, ?_⟩
  · unfold Obj.cpcPick
    simp only []
    rw [hnf, if_neg (by omega), Nat.mod_eq_of_lt hrow, hget, if_neg (by omega)]
  · show ((o'.cps.shape.set dir 1).eraseIdx dir) = _
    rw [hsh]
    simp [List.eraseIdx_set_eq]
  · intro a i ha hi
    have := Tensor.takeAxis_get o'.cps dir ((o'.basis dir).bisectL x - 1) (a := a) (i := i)
      (by rw [← hout] at ha; exact ha) (by rw [← hinn] at hi; exact hi)
    have e : Tensor.prod (o'.cps.shape.drop (dir + 1)) = innerN o dir := hinn
    rw [e] at this
    exact this

/-- The hypotheses shared by the three cases. -/
structure CpcSetup (o : Obj K) (direction : Int ⊕ String) (dir : ℕ) (tol x : K) : Prop where
  hdirn : checkDirection direction 2 = .ok dir
  hdir : dir < o.bases.size
  hax : dir < o.cps.shape.length
  hv : (o.basis dir).Valid
  hper : (o.basis dir).periodic = -1
  hshape : o.cps.shape.getD dir 0 = (o.basis dir).numFunctions
  htol : 0 < tol
  hsep : Separated (o.basis dir) tol x

/-- What all three cases conclude (side `s`). -/
def CpcResult (o : Obj K) (direction : Int ⊕ String) (dir : ℕ) (tol x : K) (s : Side) : Prop :=
  ∃ crv, o.constParCurve tol x direction = .ok crv ∧ crv.bases = #[o.basis (1 - dir)] ∧
    crv.rational = o.rational ∧ crv.cps.shape = o.cps.shape.eraseIdx dir ∧
    ∀ a i, a < outerN o dir → i < innerN o dir →
      crv.cps.get (a * innerN o dir + i)
        = splineVal s (o.basis dir).kn ((o.basis dir).order - 1) (o.basis dir).numFunctions
            (fibre o dir a i) x

/-- Interior parameter `start < x < end` whose multiplicity is at most `p - 1` (the surface is
    continuous across the line): both one-sided values. -/
theorem cpc_interior (o : Obj K) (direction : Int ⊕ String) (dir : ℕ) (tol x : K)
    (h : CpcSetup o direction dir tol x)
    (hx : (o.basis dir).start < x ∧ x < (o.basis dir).stop)
    (hmult : (o.basis dir).bisectR x - (o.basis dir).bisectL x ≤ (o.basis dir).order - 1) (s : Side) :
    CpcResult o direction dir tol x s := by
  obtain ⟨hdirn, hdir, hax, hv, hper, hshape, htol, hsep⟩ := h
  obtain ⟨hlr, hrN, l2, l3, r2, r3⟩ := bisect_facts (o.basis dir) hv x
  obtain ⟨o', C, hR, hsh, hout, hinn, hsame, eL, eR, _, hcall⟩ :=
    constParCurve_core o direction dir hdirn hdir hax hv hper hshape tol x htol
      ⟨le_of_lt hx.1, le_of_lt hx.2⟩ hsep _ rfl (Or.inr hx.2)
  have hv' := hR.valid
  have hp := hv.order_pos
  have hm' := kn_mono hv'.sorted
  obtain ⟨hlr', hrN', l2', l3', r2', r3'⟩ := bisect_facts (o'.basis dir) hv' x
  rw [eL] at l2' l3' hlr'
  rw [eR] at r2' r3' hlr' hrN'
  have hper' : (o'.basis dir).periodic = -1 := hR.periodic_eq.trans hper
  have hn' : (o'.basis dir).numFunctions = (o'.basis dir).knots.size - (o'.basis dir).order := numFunctions_open (o'.basis dir) hper'
  have hnum' : (o'.basis dir).numFunctions = (o.basis dir).numFunctions + ((o.basis dir).order - 1 - ((o.basis dir).bisectR x - (o.basis dir).bisectL x)) := hR.num_eq
  have hord' : (o'.basis dir).order = (o.basis dir).order := hR.order_eq
  have hsz' : 2 * (o'.basis dir).order ≤ (o'.basis dir).knots.size := hv'.size_ge
  -- l ≥ p
  have hlp : (o.basis dir).order ≤ (o.basis dir).bisectL x := by
    by_contra hc
    have : x ≤ (o'.basis dir).kn ((o'.basis dir).order - 1) := l3' _ (by omega) (by omega)
    have e : (o'.basis dir).kn ((o'.basis dir).order - 1) = (o.basis dir).start := hR.start_eq
    rw [e] at this
    exact absurd hx.1 (not_lt.2 this)
  -- r' ≤ n'
  have hrn : (o.basis dir).bisectR x + ((o.basis dir).order - 1 - ((o.basis dir).bisectR x - (o.basis dir).bisectL x)) ≤ (o.basis dir).numFunctions + ((o.basis dir).order - 1 - ((o.basis dir).bisectR x - (o.basis dir).bisectL x)) := by
    by_contra hc
    have : (o'.basis dir).kn ((o'.basis dir).knots.size - (o'.basis dir).order) ≤ x := r2' _ (by omega)
    have e : (o'.basis dir).kn ((o'.basis dir).knots.size - (o'.basis dir).order) = (o.basis dir).stop := hR.stop_eq
    rw [e] at this
    exact absurd hx.2 (not_lt.2 this)
  have hrl : (o.basis dir).bisectR x + ((o.basis dir).order - 1 - ((o.basis dir).bisectR x - (o.basis dir).bisectL x)) = (o.basis dir).bisectL x + ((o.basis dir).order - 1) := by omega
  obtain ⟨crv, c1, c2, c3, c4, c5⟩ := cpcPick_ok o o' dir x ((o.basis dir).numFunctions + ((o.basis dir).order - 1 - ((o.basis dir).bisectR x - (o.basis dir).bisectL x))) hax hsh hout hinn
    (by rw [eL]; omega) hR.num_eq
  refine ⟨crv, hcall.trans c1, c2, c3, c4, fun a i ha hi => ?_⟩
  rw [c5 a i ha hi, eL, ← hsame a i ha hi s x]
  symm
  apply interior_interp (o'.basis dir).kn hm' ((o.basis dir).order - 1) ((o.basis dir).numFunctions + ((o.basis dir).order - 1 - ((o.basis dir).bisectR x - (o.basis dir).bisectL x))) ((o.basis dir).bisectL x)
  · omega
  · omega
  · exact l2' _ (by omega)
  · intro i' h1 h2
    exact le_antisymm (r2' i' (by omega)) (l3' i' h1 (by omega))
  · exact r3' _ (by omega) (by omega)

/-- `x = start` of a direction clamped at the start: the value from the right. -/
theorem cpc_start (o : Obj K) (direction : Int ⊕ String) (dir : ℕ) (tol x : K)
    (h : CpcSetup o direction dir tol x) (hx : x = (o.basis dir).start)
    (hc0 : (o.basis dir).kn 0 = (o.basis dir).kn ((o.basis dir).order - 1))
    (hc1 : (o.basis dir).kn ((o.basis dir).order - 1) < (o.basis dir).kn (o.basis dir).order) :
    CpcResult o direction dir tol x .right := by
  obtain ⟨hdirn, hdir, hax, hv, hper, hshape, htol, hsep⟩ := h
  have hm := kn_mono hv.sorted
  have hp := hv.order_pos
  have hsz := hv.size_ge
  have hxs : x = (o.basis dir).kn ((o.basis dir).order - 1) := hx
  obtain ⟨hlr, hrN, l2, l3, r2, r3⟩ := bisect_facts (o.basis dir) hv x
  have hl0 : (o.basis dir).bisectL x = 0 := by
    apply bisectLeft_unique (o.basis dir).kn hm x _ 0 (Nat.zero_le _) (fun i hi => absurd hi (Nat.not_lt_zero _))
    intro i _ _
    rw [hxs, ← hc0]
    exact hm (Nat.zero_le i)
  have hrp : (o.basis dir).order ≤ (o.basis dir).bisectR x := by
    by_contra hc
    have := r3 ((o.basis dir).order - 1) (by omega) (by omega)
    rw [hxs] at this
    exact absurd this (lt_irrefl _)
  have hk0 : (o.basis dir).order - 1 - ((o.basis dir).bisectR x - (o.basis dir).bisectL x) = 0 := by omega
  obtain ⟨o', C, hR, hsh, hout, hinn, hsame, eL, eR, hsameb, hcall⟩ :=
    constParCurve_core o direction dir hdirn hdir hax hv hper hshape tol x htol
      ⟨le_of_eq hx.symm, by rw [hx]; exact le_of_lt hv.start_lt_stop⟩ hsep _ rfl (Or.inl hk0)
  rw [hk0] at hR hsh hsame hsameb
  have hbb : o'.basis dir = o.basis dir := hsameb rfl
  have hn1 := numFunctions_pos hv
  obtain ⟨crv, c1, c2, c3, c4, c5⟩ := cpcPick_ok o o' dir x ((o.basis dir).numFunctions + 0) hax hsh hout hinn
    (by rw [hbb, hl0]; omega) hR.num_eq
  refine ⟨crv, hcall.trans c1, c2, c3, c4, fun a i ha hi => ?_⟩
  rw [c5 a i ha hi, hbb, hl0, ← hsame a i ha hi .right x, hbb]
  have := c15_clamped_start (o.basis dir).kn hm ((o.basis dir).order - 1) ((o.basis dir).numFunctions + 0) (by omega) (fibre o' dir a i)
    hc0 (by have e : (o.basis dir).order - 1 + 1 = (o.basis dir).order := by omega
            rw [e]; exact hc1)
  rw [← hxs] at this
  exact this.symm

/-- `x = end` of a direction clamped at the end: the value from the left. -/
theorem cpc_stop (o : Obj K) (direction : Int ⊕ String) (dir : ℕ) (tol x : K)
    (h : CpcSetup o direction dir tol x) (hx : x = (o.basis dir).stop)
    (hc0 : (o.basis dir).kn (o.basis dir).numFunctions
      = (o.basis dir).kn ((o.basis dir).numFunctions + ((o.basis dir).order - 1)))
    (hc1 : (o.basis dir).kn ((o.basis dir).numFunctions - 1) < (o.basis dir).kn (o.basis dir).numFunctions) :
    CpcResult o direction dir tol x .left := by
  obtain ⟨hdirn, hdir, hax, hv, hper, hshape, htol, hsep⟩ := h
  have hm := kn_mono hv.sorted
  have hp := hv.order_pos
  have hsz := hv.size_ge
  have hn : (o.basis dir).numFunctions = (o.basis dir).knots.size - (o.basis dir).order := numFunctions_open (o.basis dir) hper
  have hxs : x = (o.basis dir).kn (o.basis dir).numFunctions := by rw [hx, hn]; rfl
  obtain ⟨hlr, hrN, l2, l3, r2, r3⟩ := bisect_facts (o.basis dir) hv x
  have hln : (o.basis dir).bisectL x = (o.basis dir).numFunctions := by
    apply bisectLeft_unique (o.basis dir).kn hm x _ _ (by omega)
    · intro i hi
      rw [hxs]
      exact lt_of_le_of_lt (hm (by omega : i ≤ (o.basis dir).numFunctions - 1)) hc1
    · intro i hi _
      rw [hxs]
      exact hm hi
  have hrs : (o.basis dir).bisectR x = (o.basis dir).knots.size := by
    apply bisectRight_unique (o.basis dir).kn hm x _ _ le_rfl
    · intro i hi
      rw [hxs, hc0]
      exact hm (by omega)
    · intro i h1 h2
      omega
  have hk0 : (o.basis dir).order - 1 - ((o.basis dir).bisectR x - (o.basis dir).bisectL x) = 0 := by omega
  obtain ⟨o', C, hR, hsh, hout, hinn, hsame, eL, eR, hsameb, hcall⟩ :=
    constParCurve_core o direction dir hdirn hdir hax hv hper hshape tol x htol
      ⟨by rw [hx]; exact le_of_lt hv.start_lt_stop, le_of_eq hx⟩ hsep _ rfl (Or.inl hk0)
  rw [hk0] at hR hsh hsame hsameb
  have hbb : o'.basis dir = o.basis dir := hsameb rfl
  obtain ⟨crv, c1, c2, c3, c4, c5⟩ := cpcPick_ok o o' dir x ((o.basis dir).numFunctions + 0) hax hsh hout hinn
    (by rw [hbb, hln]; omega) hR.num_eq
  refine ⟨crv, hcall.trans c1, c2, c3, c4, fun a i ha hi => ?_⟩
  rw [c5 a i ha hi, hbb, hln, ← hsame a i ha hi .left x, hbb]
  have := c15_clamped_end (o.basis dir).kn hm ((o.basis dir).order - 1) ((o.basis dir).numFunctions + 0) (by omega) (fibre o' dir a i)
    hc0 hc1
  simp only [Nat.add_zero] at this ⊢
  rw [← hxs] at this
  exact this.symm

end C15
end Splipy
