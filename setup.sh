#!/bin/sh
# Offline setup: rebuild the implementation overlay (warms the compiled-extension cache), run the
# translators once (generated Lean modules), build the whole Lean library (model, lemmas, property
# theorems, driver modules).  Everything comes from files on disk.
cd "$(dirname "$0")" || exit 2
export OMP_NUM_THREADS=1 OPENBLAS_NUM_THREADS=1 MKL_NUM_THREADS=1
mkdir -p lean/Splipy/Generated
# generated modules imported by driver files need the model built first (hooks call `lake build`)
( cd lean && lake build Splipy.Model.Object Splipy.Proto.Val ) || exit 1
/venv/bin/python harness/regen_all.py || echo "warning: a translator hook failed (reported by the property's own check)"
( cd lean && lake build Splipy.Driver.All ) || exit 1
( cd lean && lake build Splipy ) || echo "warning: some library modules failed to build (each property's check reports its own)"
exit 0
