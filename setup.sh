#!/bin/sh
# Offline setup: build the Lean library (model, lemmas, property theorems, driver modules) and warm
# the compiled-extension cache for the current basis_eval.pyx.  Everything comes from files on disk.
cd "$(dirname "$0")" || exit 2
export OMP_NUM_THREADS=1 OPENBLAS_NUM_THREADS=1
/venv/bin/python -c "import sys; sys.path.insert(0,'harness'); from vlib import leanproof; leanproof.write_driver_all(); leanproof.write_root()" || exit 1
( cd lean && lake build Splipy ) || exit 1
/venv/bin/python - <<'PY' || exit 1
import sys
sys.path.insert(0, 'harness')
from vlib import impl
sp, info = impl.load()
print('overlay ok', info)
PY
