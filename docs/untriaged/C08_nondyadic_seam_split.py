"""Observed on the UNCHANGED tree (/repo HEAD 3b9bc69) at the very end of the last session; not triaged,
not yet produced by any registered check (the C08 generator uses dyadic knots).

A C^1-periodic cubic (order 4) with 3 control points on NON-DYADIC knots, opened at its seam:
the result has domain [0.8, 1.0) instead of [0, 1] and cannot be evaluated on the original domain.
With dyadic knots (e.g. 0.75 in place of 0.8) the same call is correct, so the cause is round-off in
the size-dependent branches of the periodic insert_knot (start + period != ghost knot exactly).
Property C08 (opening at the seam keeps the map) / C07 / C04.  Run: /venv/bin/python this_file.py
"""
import numpy as np
from splipy import BSplineBasis, Curve

b = BSplineBasis(4, [-1.0, -0.2, 0.0, 0.0, 0.8, 1.0, 1.0, 1.8, 2.0], 1)
c = Curve(b, [[-1.5, -4.0, -1.0], [2.5, -2.0, 3.0], [3.75, 0.0, 4.0]])
o = c.clone().split(0.0)
print('opened domain', o.start(0), o.end(0), 'knots', o.knots(0, True))
t = np.linspace(0, 1, 9)[:-1] + 0.01
print('max deviation', np.abs(o(t) - c(t)).max())   # raises: Evaluation outside parametric domain
