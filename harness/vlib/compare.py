"""Canonical comparison of implementation results (floats, ints, arrays, exceptions) with
exact model results (Fractions, words, lists)."""
from fractions import Fraction
import math
import numbers

import numpy as np

from .val import Word, is_err, err_kind


class Err:
    """An exception raised by the implementation, reduced to its class name."""

    def __init__(self, kind, msg=''):
        self.kind = kind
        self.msg = msg

    def __repr__(self):
        return 'Err(%s)' % self.kind

    def __eq__(self, other):
        return isinstance(other, Err) and other.kind == self.kind


# Exception classes that the protocol distinguishes; everything else is its own class name.
def exc_kind(e):
    n = type(e).__name__
    if n == 'NotImplementedType' or isinstance(e, NotImplementedError):
        return 'NotImplementedError'
    return n


def call(f, *a, **k):
    """Run f, mapping exceptions to Err."""
    try:
        return f(*a, **k)
    except Exception as e:  # noqa: BLE001 - the class is the observable
        return Err(exc_kind(e), str(e)[:200])


def to_plain(x):
    """numpy -> nested lists / python scalars."""
    if isinstance(x, np.ndarray):
        return x.tolist()
    if isinstance(x, (np.floating,)):
        return float(x)
    if isinstance(x, (np.integer,)):
        return int(x)
    if isinstance(x, (np.bool_,)):
        return bool(x)
    if isinstance(x, (list, tuple)):
        return [to_plain(y) for y in x]
    return x


def scale_of(v):
    """Largest magnitude among the numbers of a nested model value (for relative tolerances)."""
    if isinstance(v, Fraction):
        return abs(float(v))
    if isinstance(v, (list, tuple)):
        return max([scale_of(y) for y in v] + [0.0])
    return 0.0


def diff(impl, model, rtol=1e-9, atol=1e-11, scale=None, path='$'):
    """Returns None when they agree, else a short description of the first difference.

    impl: python value from the real library (after to_plain), or Err
    model: parsed protocol value (Fraction / Word / list)
    Numbers: |impl - model| <= atol + rtol*scale where scale defaults to the largest magnitude
    in the whole model value (so cancellation inside a row is judged against the row).
    """
    if scale is None:
        scale = max(scale_of(model), 1.0)
    if isinstance(impl, Err) or is_err(model):
        if isinstance(impl, Err) and is_err(model):
            return None if impl.kind == err_kind(model) else '%s: impl raised %s, model %s' % (path, impl.kind, err_kind(model))
        return '%s: impl %r vs model %r' % (path, impl, _short(model))
    impl = to_plain(impl)
    if isinstance(model, list):
        if not isinstance(impl, list):
            return '%s: impl is %r, model a list of %d' % (path, _short(impl), len(model))
        if len(impl) != len(model):
            return '%s: length impl %d vs model %d' % (path, len(impl), len(model))
        for i, (a, b) in enumerate(zip(impl, model)):
            d = diff(a, b, rtol, atol, scale, '%s[%d]' % (path, i))
            if d:
                return d
        return None
    if isinstance(model, Fraction):
        if isinstance(impl, bool):
            impl = int(impl)
        if isinstance(impl, numbers.Integral):
            return None if Fraction(int(impl)) == model else '%s: impl %d vs model %s' % (path, impl, model)
        if isinstance(impl, numbers.Real):
            f = float(impl)
            m = float(model)
            if math.isnan(f) or math.isinf(f):
                return '%s: impl %r vs model %s' % (path, f, model)
            if abs(f - m) <= atol + rtol * scale:
                return None
            return '%s: impl %.17g vs model %.17g (|diff| %.3g, scale %.3g)' % (path, f, m, abs(f - m), scale)
        return '%s: impl %r vs model number %s' % (path, _short(impl), model)
    if isinstance(model, str):
        if isinstance(impl, bool):
            impl = 'true' if impl else 'false'
        return None if str(impl) == str(model) else '%s: impl %r vs model %r' % (path, _short(impl), str(model))
    return '%s: unsupported model value %r' % (path, model)


def _short(x):
    s = repr(x)
    return s if len(s) < 160 else s[:157] + '...'
