"""Seeded structured generators shared by the property modules.

Every value is a Python float with a short dyadic mantissa unless stated otherwise, so knot
differences are exact in double precision and the model (exact rationals) sees the same numbers.
Specs are plain JSON-serialisable dicts:

  basis  = {'order': p, 'knots': [...], 'periodic': k}
  object = {'bases': [basis...], 'cps': nested list with shape n1 x .. x nd x ncomp, 'rational': bool}
"""
import itertools
import math

import numpy as np

TOL = 1e-10  # splipy.state.knot_tolerance default


def dyadic(rng, lo, hi, bits=3):
    """Random multiple of 2^-bits in [lo, hi]."""
    s = 1 << bits
    return rng.randint(int(math.ceil(lo * s)), int(math.floor(hi * s))) / s


def increasing(rng, count, start=0.0, uniform=None, bits=2):
    """`count` strictly increasing dyadic values beginning at `start`."""
    if uniform is None:
        uniform = rng.random() < 0.35
    vals = [start]
    step = rng.choice([0.5, 1.0, 2.0, 0.25])
    for _ in range(count - 1):
        if uniform:
            vals.append(vals[-1] + step)
        else:
            vals.append(vals[-1] + rng.randint(1, 3 << bits) / (1 << bits))
    return vals


def affine_place(rng, knots, wide=False):
    """Random affine placement a*t+b with a>0 a power of two (exact), b dyadic."""
    r = rng.random()
    if r < 0.4:
        return list(knots)
    a = rng.choice([0.25, 0.5, 1.0, 2.0, 4.0] + ([1024.0, 2.0 ** -10] if wide else []))
    b = rng.choice([0.0, -1.0, -2.5, 3.0, 10.0, -7.25] + ([1e6, -1e6] if wide else []))
    return [a * t + b for t in knots]


def open_basis(rng, p, n_interior=None, max_mult=None, wide=False, clamped=True):
    """Open (clamped) basis of order p.  Interior knots with multiplicities 1..max_mult (<= p)."""
    if n_interior is None:
        n_interior = rng.choice([0, 0, 1, 1, 2, 3, 4])
    if max_mult is None:
        max_mult = p
    max_mult = max(1, min(max_mult, p))
    uniq = increasing(rng, n_interior + 2)
    knots = [uniq[0]] * p
    for u in uniq[1:-1]:
        m = 1 if rng.random() < 0.5 else rng.randint(1, max_mult)
        knots += [u] * m
    knots += [uniq[-1]] * p
    if not clamped and p >= 2:
        # non-open: spread the end knots (still non-decreasing, domain is [knots[p-1], knots[-p]])
        kk = list(knots)
        for i in range(p - 1):
            if rng.random() < 0.7:
                d = (p - 1 - i) * rng.choice([0.25, 0.5, 1.0])
                kk[i] = knots[0] - d
            if rng.random() < 0.7:
                d = (p - 1 - i) * rng.choice([0.25, 0.5, 1.0])
                kk[-1 - i] = knots[-1] + d
        kk[:p] = sorted(kk[:p])
        kk[-p:] = sorted(kk[-p:])
        knots = kk
    return {'order': p, 'knots': affine_place(rng, knots, wide), 'periodic': -1}


def periodic_basis(rng, p, k, n_interior=None, max_mult=None, wide=False):
    """Periodic basis of order p >= 2 with continuity k in 0..p-2 built from the bi-infinite
    periodic knot sequence (seam multiplicity p-1-k, k+1 ghost knots on either side)."""
    assert p >= 2 and 0 <= k <= p - 2
    mu0 = p - 1 - k
    if n_interior is None:
        n_interior = rng.choice([0, 1, 1, 2, 3, 4, 5])
    if max_mult is None:
        max_mult = p - 1
    max_mult = max(1, min(max_mult, p))
    uniq = increasing(rng, n_interior + 2)
    a, bnd = uniq[0], uniq[-1]
    T = bnd - a
    pattern = [a] * mu0
    for u in uniq[1:-1]:
        m = 1 if rng.random() < 0.6 else rng.randint(1, max_mult)
        pattern += [u] * m
    L = len(pattern)

    def s(j):
        return pattern[j % L] + T * (j // L)

    knots = [s(j) for j in range(-(k + 1), L + mu0 + k + 1)]
    return {'order': p, 'knots': affine_place(rng, knots, wide), 'periodic': k}


def any_basis(rng, pmax=5, periodic_prob=0.35, nonopen_prob=0.0, wide=False, pmin=1, max_mult=None, n_interior=None):
    p = rng.randint(pmin, pmax)
    if p >= 2 and rng.random() < periodic_prob:
        return periodic_basis(rng, p, rng.randint(0, p - 2), n_interior=n_interior, max_mult=max_mult, wide=wide)
    return open_basis(rng, p, n_interior=n_interior, max_mult=max_mult, wide=wide, clamped=not (rng.random() < nonopen_prob))


def basis_info(b):
    p, kn, k = b['order'], b['knots'], b['periodic']
    n_all = len(kn) - p
    n = n_all - (k + 1)
    return {'p': p, 'k': k, 'n': n, 'n_all': n_all, 'start': kn[p - 1], 'end': kn[n_all]}


def distinct_knots(b, tol=TOL):
    out = []
    for x in b['knots']:
        if not out or abs(x - out[-1]) > tol:
            out.append(x)
    return out


def eval_points(rng, b, per_span=2, outside=True, tolfuzz=False):
    """Evaluation parameters for a basis: every distinct knot in the domain, interior points of
    every span, (periodic: points far outside; non-periodic: the ends exactly)."""
    info = basis_info(b)
    a, e = info['start'], info['end']
    ks = [x for x in distinct_knots(b) if a <= x <= e]
    pts = list(ks)
    for x, y in zip(ks[:-1], ks[1:]):
        for j in range(per_span):
            f = rng.choice([0.5, 0.25, 0.75, 0.125, 0.875, 0.0625])
            pts.append(x + (y - x) * f)
    if b['periodic'] >= 0 and outside:
        T = e - a
        for t in list(rng.sample(pts, min(3, len(pts)))):
            pts.append(t + rng.choice([-3, -2, -1, 1, 2, 5]) * T)
    if tolfuzz:
        for x in ks:
            for f in (0.25, -0.25, 0.5, -0.5):
                pts.append(x + f * TOL)
    return pts


def rand_cps(rng, shape, ncomp, rational, bits=2, spread=4.0):
    """Random control net (nested list) of the given shape; the last of `ncomp` components is a
    positive weight when rational.  Non-symmetric on purpose."""
    total = int(np.prod(shape)) if shape else 1
    rows = []
    for _ in range(total):
        row = [dyadic(rng, -spread, spread, bits) for _ in range(ncomp)]
        if rational:
            row[-1] = rng.choice([0.5, 0.75, 1.0, 1.0, 1.25, 1.5, 2.0, 3.0])
        rows.append(row)
    arr = np.array(rows).reshape(tuple(shape) + (ncomp,))
    return arr.tolist()


def rand_object(rng, pardim=None, dim=None, rational=None, pmax=4, periodic_prob=0.3, max_interior=2,
                wide=False, max_mult=None, pmin=1):
    if pardim is None:
        pardim = rng.choice([1, 1, 2, 2, 3])
    if dim is None:
        dim = rng.choice([2, 3, 3] if pardim < 3 else [3])
    if rational is None:
        rational = rng.random() < 0.4
    bases = []
    for _ in range(pardim):
        bases.append(any_basis(rng, pmax=pmax, periodic_prob=periodic_prob, wide=wide, pmin=pmin,
                               max_mult=max_mult, n_interior=rng.randint(0, max_interior)))
    shape = [basis_info(b)['n'] for b in bases]
    ncomp = dim + (1 if rational else 0)
    return {'bases': bases, 'cps': rand_cps(rng, shape, ncomp, rational), 'rational': bool(rational)}


# ---------------------------------------------------------------------------------------------
# building real Splipy objects from specs, and model encodings

def mk_basis(sp, b):
    return sp.BSplineBasis(b['order'], list(b['knots']), b['periodic'])


def mk_object(sp, o):
    bases = [mk_basis(sp, b) for b in o['bases']]
    cps = np.array(o['cps'], dtype=float)
    cls = {1: sp.Curve, 2: sp.Surface, 3: sp.Volume}[len(bases)]
    return cls(*bases, cps, o['rational'], raw=True)


def spec_of_basis(b):
    """Spec dict from a real BSplineBasis."""
    return {'order': int(b.order), 'knots': [float(x) for x in b.knots], 'periodic': int(b.periodic)}


def spec_of_object(obj):
    return {'bases': [spec_of_basis(b) for b in obj.bases], 'cps': np.asarray(obj.controlpoints, dtype=float).tolist(),
            'rational': bool(obj.rational)}


def enc_basis(b):
    """Protocol encoding `[order,[knots],periodic]`."""
    return [b['order'], list(b['knots']), b['periodic']]


def enc_object(o):
    """Protocol encoding `[[bases],[shape incl. ncomp],[flat C-order],rational]`."""
    cps = np.array(o['cps'], dtype=float)
    return [[enc_basis(b) for b in o['bases']], list(cps.shape), cps.reshape(-1).tolist(), bool(o['rational'])]


def obj_observables(obj):
    """Plain observable state of a real object, in the same layout as the model's encoding."""
    cps = np.asarray(obj.controlpoints, dtype=float)
    return [[[int(b.order), [float(x) for x in b.knots], int(b.periodic)] for b in obj.bases],
            list(cps.shape), cps.reshape(-1).tolist(), bool(obj.rational)]


def all_sides(pardim):
    return list(itertools.product([True, False], repeat=pardim))
