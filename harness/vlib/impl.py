"""Rebuild the implementation from /repo's *working tree* into a scratch overlay and import it.

The overlay lives outside /repo and /verif (a fresh temp dir, removed at exit).  The Cython
extension is recompiled from the current basis_eval.pyx; the compiled .so is cached under
/verif/.cache keyed by the SHA-256 of the .pyx so unchanged sources cost nothing.
"""
import atexit
import hashlib
import importlib
import os
import shutil
import subprocess
import sys
import tempfile

REPO = os.environ.get('VERIF_REPO', '/repo')
VERIF = os.path.dirname(os.path.dirname(os.path.dirname(os.path.abspath(__file__))))
CACHE = os.path.join(VERIF, '.cache')
GUARD = 'SPLIPY_VERIF'

_BUILD_SNIPPET = r'''
import sys
from Cython.Build import cythonize
from setuptools import Extension, Distribution
from setuptools.command.build_ext import build_ext
import numpy as np
ext = cythonize([Extension('splipy.basis_eval', ['splipy/basis_eval.pyx'],
                           include_dirs=[np.get_include()])], quiet=True)
d = Distribution({'ext_modules': ext})
cmd = build_ext(d); cmd.inplace = 1; cmd.ensure_finalized(); cmd.run()
'''


def _sha(path):
    h = hashlib.sha256()
    with open(path, 'rb') as f:
        h.update(f.read())
    return h.hexdigest()[:24]


def build_overlay():
    """Returns (overlay_root, info dict)."""
    root = tempfile.mkdtemp(prefix='splipy-overlay-')
    atexit.register(shutil.rmtree, root, ignore_errors=True)
    dst = os.path.join(root, 'splipy')
    shutil.copytree(os.path.join(REPO, 'splipy'), dst,
                    ignore=shutil.ignore_patterns('*.so', '*.c', '__pycache__', '*.pyc'))
    pyx = os.path.join(dst, 'basis_eval.pyx')
    info = {'repo': REPO, 'pyx_sha': None, 'so_cached': False}
    if os.path.exists(pyx):
        sha = _sha(pyx)
        info['pyx_sha'] = sha
        cdir = os.path.join(CACHE, 'pyx', sha)
        sos = [f for f in os.listdir(cdir)] if os.path.isdir(cdir) else []
        sos = [f for f in sos if f.endswith('.so')]
        if sos:
            shutil.copy(os.path.join(cdir, sos[0]), os.path.join(dst, sos[0]))
            info['so_cached'] = True
        else:
            r = subprocess.run([sys.executable, '-c', _BUILD_SNIPPET], cwd=root,
                               stdout=subprocess.PIPE, stderr=subprocess.STDOUT, text=True)
            built = [f for f in os.listdir(dst) if f.endswith('.so')]
            if r.returncode != 0 or not built:
                raise RuntimeError('cython build of basis_eval.pyx failed:\n' + r.stdout[-3000:])
            tmp = cdir + '.tmp%d' % os.getpid()
            os.makedirs(tmp, exist_ok=True)
            shutil.copy(os.path.join(dst, built[0]), os.path.join(tmp, built[0]))
            try:
                os.makedirs(os.path.dirname(cdir), exist_ok=True)
                os.rename(tmp, cdir)
            except OSError:
                shutil.rmtree(tmp, ignore_errors=True)
            shutil.rmtree(os.path.join(root, 'build'), ignore_errors=True)
    return root, info


_loaded = None


def load():
    """Build the overlay once per process and import splipy from it."""
    global _loaded
    if _loaded is not None:
        return _loaded
    os.environ[GUARD] = '1'
    root, info = build_overlay()
    for m in [m for m in sys.modules if m == 'splipy' or m.startswith('splipy.')]:
        del sys.modules[m]
    sys.path.insert(0, root)
    sp = importlib.import_module('splipy')
    assert os.path.abspath(sp.__file__).startswith(root), sp.__file__
    info['overlay'] = root
    _loaded = (sp, info)
    return _loaded
