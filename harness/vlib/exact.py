"""Exact (fractions.Fraction) re-implementations of the *definitions* — Cox–de Boor, its derivative
recursion, the defining sums of spline/NURBS evaluation.  Used only by the failing-input search
oracles, never derived from Splipy's algorithms nor from the Lean model."""
from fractions import Fraction as F
import itertools

import numpy as np


def fr(x):
    return x if isinstance(x, F) else F(float(x)) if not isinstance(x, int) else F(x)


def frs(xs):
    return [fr(x) for x in xs]


def B(tau, q, i, t, right=True):
    """Cox–de Boor, degree q, function i, right- (default) or left-continuous. 0/0 := 0."""
    if q == 0:
        a, b = tau[i], tau[i + 1]
        if right:
            return F(1) if a <= t < b else F(0)
        return F(1) if a < t <= b else F(0)
    r = F(0)
    d1 = tau[i + q] - tau[i]
    if d1 != 0:
        r += (t - tau[i]) / d1 * B(tau, q - 1, i, t, right)
    d2 = tau[i + q + 1] - tau[i + 1]
    if d2 != 0:
        r += (tau[i + q + 1] - t) / d2 * B(tau, q - 1, i + 1, t, right)
    return r


def dB(tau, q, i, d, t, right=True):
    """d-th derivative by the classical recursion."""
    if d == 0:
        return B(tau, q, i, t, right)
    if q == 0:
        return F(0)
    r = F(0)
    d1 = tau[i + q] - tau[i]
    if d1 != 0:
        r += dB(tau, q - 1, i, d - 1, t, right) / d1
    d2 = tau[i + q + 1] - tau[i + 1]
    if d2 != 0:
        r -= dB(tau, q - 1, i + 1, d - 1, t, right) / d2
    return q * r


def basis_row(b, t, d=0, right=True, tol=F(1, 10 ** 10)):
    """The row the *property* C01 demands from BSplineBasis.evaluate for one point:
    effective point/side rules + sum of wrapped images.  b is a basis spec dict."""
    p, k = b['order'], b['periodic']
    tau = frs(b['knots'])
    t = fr(t)
    n_all = len(tau) - p
    n = n_all - (k + 1)
    start, end = tau[p - 1], tau[n_all]
    # knots within tolerance are the knot
    for x in tau:
        if abs(x - t) < tol:
            t = x
            break
    if k >= 0:
        if t < start or t > end:
            T = end - start
            t = (t - start) % T + start
        if t == start and not right:
            t = end
    if t == end:
        right = False
    if t < start or t > end or (t == start and not right):
        return [F(0)] * n
    row = [F(0)] * n
    if d >= p:
        return row
    for i in range(n_all):
        row[i % n] += dB(tau, p - 1, i, d, t, right)
    return row


def basis_row_mag(b, t, d=0, right=True, tol=F(1, 10 ** 10)):
    """Magnitude of the terms that are summed into the row of `basis_row` (sum of |dB| over the
    wrapped images, maximum over the columns): the float kernel cannot be more accurate than a few ulp
    of THIS number when the images cancel (high derivatives on tiny periodic bases)."""
    p, k = b['order'], b['periodic']
    tau = frs(b['knots'])
    t = fr(t)
    n_all = len(tau) - p
    n = n_all - (k + 1)
    start, end = tau[p - 1], tau[n_all]
    for x in tau:
        if abs(x - t) < tol:
            t = x
            break
    if k >= 0:
        if t < start or t > end:
            t = (t - start) % (end - start) + start
        if t == start and not right:
            t = end
    if t == end:
        right = False
    if t < start or t > end or (t == start and not right) or d >= p:
        return 0.0
    row = [F(0)] * n
    for i in range(n_all):
        row[i % n] += abs(dB(tau, p - 1, i, d, t, right))
    return float(max(row)) if row else 0.0


def obj_arrays(o):
    """(list of basis specs, numpy object array of Fractions with shape n1..nd x ncomp)."""
    cps = np.array(o['cps'], dtype=float)
    fc = np.empty(cps.shape, dtype=object)
    for idx in np.ndindex(cps.shape):
        fc[idx] = F(float(cps[idx]))
    return o['bases'], fc


def eval_point(o, params, derivs=None, rights=None):
    """Defining sum  Σ Π_k dB_k(u_k) P  at one parameter tuple (homogeneous coordinates kept)."""
    bases, fc = obj_arrays(o)
    pardim = len(bases)
    derivs = derivs or [0] * pardim
    rights = rights or [True] * pardim
    rows = [basis_row(b, u, d, r) for b, u, d, r in zip(bases, params, derivs, rights)]
    ncomp = fc.shape[-1]
    out = [F(0)] * ncomp
    for idx in itertools.product(*[range(len(r)) for r in rows]):
        w = F(1)
        for r, i in zip(rows, idx):
            w *= r[i]
            if w == 0:
                break
        if w == 0:
            continue
        for c in range(ncomp):
            out[c] += w * fc[idx + (c,)]
    return out


def nurbs_point(o, params, rights=None):
    """Evaluated point per the NURBS definition (weights divided out when rational)."""
    h = eval_point(o, params, None, rights)
    if o['rational']:
        return [x / h[-1] for x in h[:-1]]
    return h


def close(a, b, rtol=1e-9, atol=1e-11):
    """float(s) a vs exact b."""
    a = np.asarray(a, dtype=float).reshape(-1)
    bf = np.array([float(x) for x in np.asarray(b, dtype=object).reshape(-1)])
    if a.shape != bf.shape:
        return False
    scale = max(1.0, float(np.max(np.abs(bf))) if bf.size else 1.0)
    return bool(np.all(np.abs(a - bf) <= atol + rtol * scale))
