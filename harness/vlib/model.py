"""Run protocol lines through the Lean model driver (`lake env lean --run Driver.lean`)."""
import os
import subprocess
import concurrent.futures as cf

from . import val

VERIF = os.path.dirname(os.path.dirname(os.path.dirname(os.path.abspath(__file__))))
LEAN_DIR = os.environ.get('VERIF_LEAN_DIR', os.path.join(VERIF, 'lean'))
NPROC = int(os.environ.get('VERIF_JOBS', str(min(16, os.cpu_count() or 4))))


class ModelError(RuntimeError):
    pass


_env_cache = None


def _lean_env():
    """Environment of `lake env` (computed once)."""
    global _env_cache
    if _env_cache is None:
        r = subprocess.run(['lake', 'env', 'printenv'], cwd=LEAN_DIR, stdout=subprocess.PIPE,
                           stderr=subprocess.PIPE, text=True)
        if r.returncode != 0:
            raise ModelError('lake env failed: ' + r.stderr[-2000:])
        env = {}
        for ln in r.stdout.splitlines():
            if '=' in ln:
                k, v = ln.split('=', 1)
                env[k] = v
        _env_cache = env
    return _env_cache


def _run_chunk(lines, timeout):
    if not lines:
        return []
    inp = '\n'.join(lines) + '\n'
    r = subprocess.run(['lean', '--run', 'Driver.lean'], cwd=LEAN_DIR, input=inp, env=_lean_env(),
                       stdout=subprocess.PIPE, stderr=subprocess.PIPE, text=True, timeout=timeout)
    out = r.stdout.splitlines()
    if r.returncode != 0 or len(out) != len(lines):
        raise ModelError('driver failed (rc=%s, %d/%d lines)\nstderr: %s\nlast out: %s' % (
            r.returncode, len(out), len(lines), r.stderr[-3000:], out[-1:] if out else ''))
    return out


def run_lines(lines, timeout=3000, jobs=None):
    """Returns the raw response strings, one per request line, order preserved."""
    jobs = jobs or NPROC
    n = len(lines)
    if n == 0:
        return []
    jobs = max(1, min(jobs, (n + 7) // 8))
    # interleave so every shard gets a similar mix of cheap and expensive cases
    shards = [list(range(i, n, jobs)) for i in range(jobs)]
    res = [None] * n
    with cf.ThreadPoolExecutor(max_workers=jobs) as ex:
        futs = {ex.submit(_run_chunk, [lines[i] for i in idx], timeout): idx for idx in shards}
        for f in cf.as_completed(futs):
            idx = futs[f]
            out = f.result()
            for i, o in zip(idx, out):
                res[i] = o
    return res


def run(lines, **kw):
    """Parsed responses."""
    return [val.parse(o) for o in run_lines(lines, **kw)]
