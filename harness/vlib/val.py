"""Line-protocol values: encode Python data for the Lean driver and parse its replies.

Numbers cross the protocol as exact rationals `num/den` (a float is converted with
fractions.Fraction(float), which is exact).  Nothing on the Lean side parses decimals.
"""
from fractions import Fraction
import numbers

try:
    import numpy as _np
except Exception:  # pragma: no cover
    _np = None


class Word(str):
    """A bare protocol word (side names, error kinds, ...)."""


def enc(x):
    if isinstance(x, Word):
        return str(x)
    if isinstance(x, bool):
        return 'true' if x else 'false'
    if isinstance(x, str):
        return x
    if _np is not None and isinstance(x, _np.ndarray):
        return enc(x.tolist())
    if _np is not None and isinstance(x, (_np.bool_,)):
        return 'true' if bool(x) else 'false'
    if isinstance(x, numbers.Integral):
        return str(int(x))
    if isinstance(x, Fraction):
        return str(x.numerator) if x.denominator == 1 else '%d/%d' % (x.numerator, x.denominator)
    if isinstance(x, numbers.Real):
        f = Fraction(float(x))
        return str(f.numerator) if f.denominator == 1 else '%d/%d' % (f.numerator, f.denominator)
    if isinstance(x, (list, tuple)):
        return '[' + ','.join(enc(y) for y in x) + ']'
    raise TypeError('cannot encode %r' % (x,))


def line(op, *args):
    return op + ''.join(' ' + enc(a) for a in args)


def _atom(s):
    try:
        if '/' in s:
            a, b = s.split('/')
            return Fraction(int(a), int(b))
        return Fraction(int(s))
    except ValueError:
        return Word(s)


def parse(s):
    """Parse one response value."""
    s = s.strip()
    pos = 0
    n = len(s)

    def val():
        nonlocal pos
        if pos < n and s[pos] == '[':
            pos += 1
            items = []
            while True:
                if pos >= n:
                    raise ValueError('unterminated list in %r' % s[:80])
                if s[pos] == ']':
                    pos += 1
                    return items
                if s[pos] == ',':
                    pos += 1
                    continue
                items.append(val())
        start = pos
        while pos < n and s[pos] not in '[],':
            pos += 1
        return _atom(s[start:pos])

    v = val()
    if pos != n:
        raise ValueError('trailing data in %r' % s[:80])
    return v


def is_err(v):
    return isinstance(v, str) and v.startswith('err:')


def err_kind(v):
    return v[4:]
