"""Proof obligations: build the property module, audit it (forbidden tokens, #print axioms)."""
import os
import re
import subprocess
import tempfile
import time

from .model import LEAN_DIR, _lean_env

ALLOWED_AXIOMS = {'propext', 'Classical.choice', 'Quot.sound'}
FORBIDDEN = re.compile(r'\b(sorry|admit|native_decide|bv_decide|implemented_by|unsafe)\b|^\s*axiom\s|maxHeartbeats\s+0\b')


def strip_comments(src):
    """Remove `--` line comments and (nested) `/- -/` block comments."""
    out = []
    i, n, depth = 0, len(src), 0
    while i < n:
        if src.startswith('/-', i):
            depth += 1
            i += 2
        elif depth and src.startswith('-/', i):
            depth -= 1
            i += 2
        elif depth:
            if src[i] == '\n':
                out.append('\n')
            i += 1
        elif src.startswith('--', i):
            while i < n and src[i] != '\n':
                i += 1
        else:
            out.append(src[i])
            i += 1
    return ''.join(out)


def lean_sources():
    res = []
    for root, _, files in os.walk(os.path.join(LEAN_DIR, 'Splipy')):
        for f in files:
            if f.endswith('.lean'):
                res.append(os.path.join(root, f))
    res.append(os.path.join(LEAN_DIR, 'Driver.lean'))
    return sorted(res)


def forbidden_hits():
    hits = []
    for p in lean_sources():
        src = strip_comments(open(p, encoding='utf-8').read())
        for ln_no, ln in enumerate(src.splitlines(), 1):
            # string literals may legitimately contain words like "unsafe"; drop them
            ln2 = re.sub(r'"(\\.|[^"\\])*"', '""', ln)
            if FORBIDDEN.search(ln2):
                hits.append('%s:%d: %s' % (os.path.relpath(p, LEAN_DIR), ln_no, ln.strip()[:120]))
    return hits


def theorems_in(relpath):
    """Names of the `theorem`s declared in a Properties file (root namespace by convention)."""
    p = os.path.join(LEAN_DIR, relpath)
    if not os.path.exists(p):
        return []
    src = strip_comments(open(p, encoding='utf-8').read())
    return re.findall(r'^theorem\s+([A-Za-z_][\w\.\']*)', src, flags=re.M)


def lake_build(targets, timeout=3600):
    t0 = time.time()
    r = subprocess.run(['lake', 'build'] + list(targets), cwd=LEAN_DIR, stdout=subprocess.PIPE,
                       stderr=subprocess.STDOUT, text=True, timeout=timeout)
    return r.returncode == 0, r.stdout, time.time() - t0


def print_axioms(module, names, timeout=1200):
    """Returns {name: sorted list of axioms} (or {name: None} when the name did not check)."""
    if not names:
        return {}
    src = 'import %s\n' % module + ''.join('#print axioms %s\n' % n for n in names)
    with tempfile.NamedTemporaryFile('w', suffix='.lean', delete=False, dir=tempfile.gettempdir()) as f:
        f.write(src)
        path = f.name
    try:
        r = subprocess.run(['lean', path], cwd=LEAN_DIR, env=_lean_env(), stdout=subprocess.PIPE,
                           stderr=subprocess.STDOUT, text=True, timeout=timeout)
    finally:
        os.unlink(path)
    out = r.stdout
    res = {n: None for n in names}
    for m in re.finditer(r"'([^']+)' depends on axioms: \[([^\]]*)\]", out, flags=re.S):
        res[m.group(1)] = sorted(a.strip() for a in m.group(2).replace('\n', ' ').split(',') if a.strip())
    for m in re.finditer(r"'([^']+)' does not depend on any axioms", out):
        res[m.group(1)] = []
    return res


def check_obligations(prop_id, extra_modules=()):
    """Build + audit the property module.  Returns a dict describing every obligation."""
    module = 'Splipy.Properties.%s' % prop_id
    rel = os.path.join('Splipy', 'Properties', prop_id + '.lean')
    names = theorems_in(rel)
    ok, log, secs = lake_build([module] + list(extra_modules))
    res = {'module': module, 'theorems': names, 'build_ok': ok, 'build_s': round(secs, 1),
           'build_log_tail': '' if ok else log[-4000:], 'axioms': {}, 'failed': [], 'forbidden': []}
    if not ok:
        res['failed'] = ['build:' + module]
        return res
    res['forbidden'] = forbidden_hits()
    ax = print_axioms(module, names)
    res['axioms'] = ax
    for n in names:
        if ax.get(n) is None:
            res['failed'].append('unchecked:' + n)
        elif not set(ax[n]) <= ALLOWED_AXIOMS:
            res['failed'].append('axioms:' + n + ':' + ','.join(sorted(set(ax[n]) - ALLOWED_AXIOMS)))
    res['failed'] += ['forbidden:' + h for h in res['forbidden']]
    return res
