#!/venv/bin/python
"""Run every property's translator hook (`regenerate`) once, so that the generated Lean modules the
library imports exist before the first `lake build` (used by setup.sh)."""
import importlib
import os
import sys
import traceback

HERE = os.path.dirname(os.path.abspath(__file__))
sys.path.insert(0, HERE)
from vlib import impl, model, leanproof  # noqa: E402

sp, info = impl.load()
os.makedirs(os.path.join(model.LEAN_DIR, 'Splipy', 'Generated'), exist_ok=True)
rc = 0
for f in sorted(os.listdir(os.path.join(HERE, 'props'))):
    if f.startswith('C') and f.endswith('.py'):
        try:
            mod = importlib.import_module('props.' + f[:-3])
        except Exception:
            traceback.print_exc()
            rc = 1
            continue
        if hasattr(mod, 'regenerate'):
            try:
                r = mod.regenerate(sp, model.LEAN_DIR)
                print('regenerated', f[:-3], [(o.get('name'), o.get('ok')) for o in (r or {}).get('obligations', [])] if isinstance(r, dict) else '')
            except Exception:
                traceback.print_exc()
                rc = 1
try:
    from props import _pybasis
    r = _pybasis.regenerate_pybasis(sp, model.LEAN_DIR)
    print('regenerated pybasis', [(o.get('name'), o.get('ok')) for o in r])
except Exception:
    traceback.print_exc()
    rc = 1
try:
    from props import _pyobject
    r = _pyobject.regenerate_pyobject(sp, model.LEAN_DIR)
    print('regenerated pyobject', [(o.get('name'), o.get('ok')) for o in r])
except Exception:
    traceback.print_exc()
    rc = 1
try:
    from props import _pyoverride
    r = _pyoverride.regenerate_pyoverride(sp, model.LEAN_DIR)
    print('regenerated pyoverride', [(o.get('name'), o.get('ok')) for o in r])
except Exception:
    traceback.print_exc()
    rc = 1
leanproof.write_driver_all()
leanproof.write_root()
sys.exit(rc)
