#!/venv/bin/python
"""Run the registered checks against the seeded property-breaking changes in /verif/seeded/<name>/.

For every seeded change: a scratch worktree of /repo's HEAD is created outside /repo and /verif,
patch.diff is applied there, the property's quick check is run with VERIF_REPO pointing at the
worktree (so /repo itself is never touched), and the worktree is removed again.  The demonstration
script is run on both trees as well.  Results go to /verif/seeded/RESULTS.json.

usage: seeded_run.py [name ...]     (default: all)
"""
import json
import os
import shutil
import subprocess
import sys
import tempfile

VERIF = os.path.dirname(os.path.dirname(os.path.abspath(__file__)))
REPO = '/repo'


def sh(cmd, **kw):
    return subprocess.run(cmd, shell=isinstance(cmd, str), stdout=subprocess.PIPE, stderr=subprocess.STDOUT, text=True, **kw)


def run_one(name):
    d = os.path.join(VERIF, 'seeded', name)
    meta = json.load(open(os.path.join(d, 'meta.json')))
    prop = meta['property']
    props = meta.get('check_properties', [prop])
    wt = tempfile.mkdtemp(prefix='seeded-wt-')
    os.rmdir(wt)
    res = {'name': name, 'property': prop}
    try:
        r = sh(['git', '-C', REPO, 'worktree', 'add', '--detach', wt, 'HEAD'])
        assert r.returncode == 0, r.stdout
        so = [f for f in os.listdir(os.path.join(REPO, 'splipy')) if f.endswith('.so')]
        for f in so:
            shutil.copy(os.path.join(REPO, 'splipy', f), os.path.join(wt, 'splipy', f))
        r = sh(['git', '-C', wt, 'apply', os.path.join(d, 'patch.diff')])
        res['patch_applies'] = r.returncode == 0
        if r.returncode != 0:
            res['error'] = r.stdout[-500:]
            return res
        evd = tempfile.mkdtemp(prefix='seeded-ev-')
        res['checks'] = {}
        for p in props:
            env = dict(os.environ, VERIF_REPO=wt, VERIF_EVIDENCE_DIR=evd)
            r = sh([os.path.join(VERIF, 'check'), p, '--tier', 'quick'], env=env, cwd=VERIF)
            lines = [l for l in r.stdout.splitlines() if l.startswith(('VIOLATION', 'KNOWN-FINDING', p))]
            res['checks'][p] = {'exit': r.returncode, 'lines': lines[:8]}
        shutil.rmtree(evd, ignore_errors=True)
        res['detected'] = any(c['exit'] == 1 for c in res['checks'].values())
        res['detected_with_failing_input'] = any(
            c['exit'] == 1 and any(l.startswith('VIOLATION') and 'no-failing-input-found' not in l for l in c['lines'])
            for c in res['checks'].values())
    finally:
        sh(['git', '-C', REPO, 'worktree', 'remove', '--force', wt])
        shutil.rmtree(wt, ignore_errors=True)
    return res


def private_lean_dir():
    """The seeded runs regenerate `Generated/*.lean` from the MUTATED sources; do that in a private copy
    of the lake project so that the project of record (and concurrent checks) is never disturbed."""
    if os.environ.get('VERIF_LEAN_DIR'):
        return os.environ['VERIF_LEAN_DIR']
    dst = os.path.join(VERIF, '.cache', 'seeded-lean-%d' % os.getpid())   # one private copy per sweep process
    os.makedirs(dst, exist_ok=True)
    r = sh(['rsync', '-a', '--delete', os.path.join(VERIF, 'lean') + '/', dst + '/'])
    assert r.returncode == 0, r.stdout
    return dst


def main():
    os.environ['VERIF_LEAN_DIR'] = private_lean_dir()
    sd = os.path.join(VERIF, 'seeded')
    names = sys.argv[1:] or sorted(n for n in os.listdir(sd) if os.path.isdir(os.path.join(sd, n)))
    out_path = os.path.join(sd, 'RESULTS.json')
    results = json.load(open(out_path)) if os.path.exists(out_path) else {}
    for n in names:
        r = run_one(n)
        results[n] = r
        print(n, 'DETECTED' if r.get('detected') else 'MISSED', json.dumps(r.get('checks', r.get('error')))[:400])
    # merge into the file as it is NOW (several sweeps may run side by side)
    latest = json.load(open(out_path)) if os.path.exists(out_path) else {}
    latest.update({n: results[n] for n in names})
    with open(out_path, 'w') as f:
        json.dump(latest, f, indent=1, sort_keys=True)
    d = os.environ.get('VERIF_LEAN_DIR', '')
    if d.startswith(os.path.join(VERIF, '.cache', 'seeded-lean-')):
        shutil.rmtree(d, ignore_errors=True)


if __name__ == '__main__':
    main()
