#!/venv/bin/python
"""Writes /verif/MANIFEST.json from the table below.  A property is claimed only when its
Properties/Cxx.lean, Driver/Cxx.lean and harness/props/Cxx.py exist."""
import json
import os

VERIF = os.path.dirname(os.path.dirname(os.path.abspath(__file__)))
props = [json.loads(l) for l in open(os.path.join(VERIF, 'properties.jsonl'))]

COMMON_NOTE = ('Trusted: Lean 4.33 kernel + Mathlib; axioms propext, Classical.choice, Quot.sound only (audited by #print axioms every run, '
               'leanchecker in the thorough tier); the hand-written Lean model of the Python/Cython code, tied to /repo only by the differential '
               'correspondence run of this check (and by the translator where stated); the Python harness, generators, tolerances and oracle; '
               'IEEE-754 rounding, numpy/scipy primitives, LAPACK solves and libm are modelled (exact arithmetic over Q), not verified. ')

T = {
 'C01': ('Theorems (all orders, all valid knot vectors, all derivative orders, both sides, periodic wrap): the model of basis_eval.pyx/BSplineBasis.evaluate returns exactly the Cox-de Boor values/derivatives (C01_value_deriv_open/periodic), start-from-left and outside rows are zero, non-negativity, partition of unity, high derivatives vanish, sparse = dense, periodic shift invariance. Correspondence: whole rows, dense and sparse, against the recompiled extension.',
         'Full theorems on the model; the derivative recursion dB is additionally proved to be the derivative of the polynomial pieces (Lemmas/Deriv, DerivReal).'),
 'C02': ('Theorems: tensor evaluation = defining sums for pardim 1-3 (index algebra of the array model), rational division with positive denominator, pointwise = grid diagonal, error iff outside a non-periodic direction, periodic wrap, identity map of default control points (linear precision), bounding box. Correspondence over all calling forms.',
         'Scalar/squeeze/__call__ glue is outside the Lean model and covered by the correspondence and oracle only; generic-pardim statement not proved (pardim 1,2,3 separately).'),
 'C03': ('Theorems: non-rational derivative = contraction with dB rows (= spec sums under C01); rational first order and the curve/surface closed forms of order 2-3 equal the jet of n/W under the Leibniz relations; dispatch soundness; derivative-spline identity incl. periodic; tangent algebra. Source-derived: the dispatch tables of Curve/Surface.derivative are re-extracted from the Python AST every run and 16 obligations re-checked.',
         'Partial: tensor=False entry formulas for pardim>1 and the step "closed form = derivative of the quotient" keep the Leibniz relations as hypotheses; seven known defect classes of the pinned code are listed findings.'),
 'C04': ('Theorems: for every valid non-periodic basis and x in [start,stop) the model of insert_knot returns the Boehm matrix: new basis valid, knots = old + x, every spline value and derivative unchanged (both sides); sequences by induction; object level fibre-wise for any pardim; refine values lie inside spans; periodic case: knot-vector half under the guard n >= p+k.',
         'Partial: geometric half of the periodic case, x = end, and n < p+k are not proved (the last two are listed defects of the code); graded-refinement placement (tan/atan) is oracle-only.'),
 'C05': ('Theorems: raise_order knot bookkeeping (order, domain, multiplicities, continuity, lower∘raise = id on knots) for clamped bases; geometry under two named hypotheses (degree-elevation inclusion H_incl, Greville collocation invertible H_sw): the reinterpolation returns exactly the elevated coefficients; API contract; explicit branch dead. The Gauss-Jordan model of np.linalg.inv/solve is proved sound and complete (Lemmas/SolveSound).',
         'Partial by design: H_incl and H_sw are hypotheses (classical theorems not proved here); every generated instance is additionally decided exactly over Q by the model (exact-same). Periodic ghost-knot trimming has correspondence only.'),
 'C06': ('Theorems (30): reversed/reparametrised knot vectors in closed form, domain/periodicity preserved, reverse of curves and objects equals the reflected map (periodic: with the roll by k+1 the code omits - refuted for flip-only by a concrete instance), swap index algebra and evaluation, reparam exact domain and affine invariance, compositions and image invariance by induction over op lists; check_direction table re-extracted from the AST every run.',
         'Object bodies of reverse/swap/reparam are tied by correspondence only; three listed defect classes.'),
 'C07': ('Theorems: every piece cut from the Boehm-refined vector is a valid open basis whose spline equals the original on its sub-interval (values and all derivatives, both sides); pieces tile; periodic split as shifted sequence (under the periodic-insertion hypothesis); append for equal orders; _splitvector arithmetic.',
         'Partial: periodic branch assumes periodic insertion correct (known defective for n < p+k); roll/rollAxis link is tested, not proved; append with differing orders is oracle-only.'),
 'C08': ('Theorems: evaluation invariant under shifts by multiples of the period (lifted from C01), seam smoothness up to order k (from L9), make_periodic∘openAtSeam = id on knots and every valid periodic basis is accepted, round trip exact for k <= 1, REFUTED for k >= 2 by a kernel-evaluated instance replayed on the real code, lower_periodic roll/decrement step.',
         'Partial: domain end excluded in the shift theorem; k<=1 round trip and lower_periodic assume the insertion step (C04).'),
 'C09': ('Theorems (16): linear maps and translations commute with the evaluated (projective) point for any finite weight family; every model op is affineCp with the stated matrix; weights literally untouched; rotation matrix orthogonal/det 1/Rodrigues +theta, 2-D = 3-D about e_z; mirror involution; embedding changes; operator forms; compositions by induction.',
         'The identification of Obj.evaluate with the weighted sum is C02; three listed defect classes (infix /, 2-D rotate ignores axis sign, numpy left operands).'),
 'C10': ('Theorems: constructor accepts/rejects exactly as coded and never rejects a Valid basis; per-operation preservation of well-formedness; reachable objects WF by induction over op lists. Correspondence: random op histories on a pool of objects, Lean wfB vs a Python transcription on the real objects.',
         'Partial for operations whose WF-preservation rests on unproved facts (raise_order weights, periodic insertion on small bases).'),
 'C11': ('Theorems on an explicit heap model (buffers, basis records, objects): separation invariant preserved by every contract-respecting step, isolation of in-place writes, in-place returns receiver, predicted sharing graph empty - for all histories. The operation/contract table (193 entries) is regenerated from the live API every run and totality re-proved; the real sharing graph (numpy.shares_memory), write set and isolation experiment are compared with the model.',
         'Partial: the per-operation contracts are premises validated dynamically, not proved from the Python source. Six listed defect classes.'),
 'C12': ('Theorems: compatibility (dimension/rationality), knot-merge insertion counts = max multiplicity under a separation hypothesis, geometry preserved as composition of the C06/C08/C05/C04 step theorems, directions touch only their basis.',
         'Partial exactly to the extent C05 (H_incl/H_sw) and periodic insertion are.'),
 'C13': ('Theorems: every rational quadratic arc span lies on the circle and runs counter-clockwise, p2C0 circle, p4C1 quartic Bezier identity, ellipse, placement rotation maps e_z to n and e_x to the x-axis, revolve/extrude sections, linear primitives, sphere/torus equations; control nets of all factories compared with the model (trig supplied as exact rational points on the circle).',
         'Partial: B-spline-to-Bezier identification of the p4C1 spans and "passes through x1" are oracle-only; six listed defect classes.'),
 'C14': ('Theorems (13): certified solve correct, interpolation rows reproduced for curves, non-square surfaces (both layouts) and volumes, projection/uniqueness for interpolation and least squares, cubic_curve system square for all six boundary types with each type\'s end rows satisfied.',
         'Under the property\'s own hypothesis that the collocation is solvable; loft/bezier/rebuild by correspondence, manipulate/fit oracle-only; four listed defect classes.'),
 'C15': ('Theorems (24): clamped-end sections equal the restriction (any pardim, rational too), section table/order/indexing for src <= 3 by decide, Coons patch restricts to its inputs (function and net level, evaluated), all 384 loop arrangements accepted, ruled/extrude sections, six-face function-level identity, const_par_curve under a Boehm chain.',
         'Partial: six-face net lift and thicken oracle-only; five listed defect classes.'),
 'C16': ('Theorems: basis-integral antiderivative identity, quadrature exactness for piecewise polynomials under abstract rule hypotheses, node-wise rigid/scale invariances, Frenet algebra, centre equivariance.',
         'Partial: clauses about quadrature error (invariance for non-polynomial integrands, convergence to analytic values) are not theorems; they are checked by the oracle with a refinement-based error budget.'),
 'C17': ('Theorems (12): orientation group laws generic in n, enumeration complete (2/8/48), map_array composition, map_section/view_section commute (tables by decide +kernel for n <= 3), compute sound and complete, equivalence, vertex canonicity, single-object catalogue canonicity, twins/handedness policy.',
         'Partial: the induction over conforming complexes (catalogue canonical for whole models) is not proved; model histories are compared exactly with the real SplineModel. Three listed defect classes.'),
 'C18': ('Theorems: numbering range and codim-1 identification, counterexample to the full statement (edge/corner contact) on the model replayed on the code, cell enumeration, ifem_format injective, OpenFOAM stable-sort order, single-cell face normals.',
         'Partial: full numbering statement is false for the algorithm (listed finding).'),
 'C19': ('Theorems (8): first-index-fastest flatten/unflatten inverse for any shape, G2 write/read round trip on tokens for every well-formed non-periodic object and whole files, foreign records, SPL index algebra, STL facet count and vertices, SVG write/read is one similarity with s > 0.',
         'Number formatting (%.16g, float32) abstracted to an idempotent rounding applied by the harness; periodic split, primitive records and bezier_representation are oracle-only; listed defect classes.'),
 'C20': ('Theorems: snap/evaluate/validate/continuity honour the tolerance under a separation hypothesis; VertexDict lookups; state(): a proved decision procedure (restoresB) for the statement language, applied to the program re-translated from state.py every run; write sites of state attributes re-extracted from all sources every run.',
         'Source-derived obligations currently fail on the pinned tree for two listed defects (no try/finally in state(); g2 writes a setting).'),
}


def main():
    checks = []
    na = []
    for p in props:
        pid = p['id']
        have = all(os.path.exists(os.path.join(VERIF, f)) for f in (
            'lean/Splipy/Properties/%s.lean' % pid, 'lean/Splipy/Driver/%s.lean' % pid, 'harness/props/%s.py' % pid))
        if not have or pid not in T or os.environ.get('SKIP_' + pid):
            na.append({'property_id': pid, 'reason': 'not claimed yet: model/theorems/correspondence still under construction (DESIGN.md §13-§15)'})
            continue
        text, partial = T[pid]
        checks.append({
            'property_id': pid,
            'quick_cmd': './check %s --tier quick' % pid,
            'thorough_cmd': './check %s --tier thorough' % pid,
            'evidence_file': 'evidence/%s.json' % pid,
            'replay_cmd_template': './check %s --replay {path}' % pid,
            'engine': 'lean-proof+correspondence',
            'level_claimed': {'category': 'proof', 'text': text, 'design_ref': 'DESIGN.md §7 %s, §14-§16' % pid},
            'level_note': COMMON_NOTE + partial,
            'technique': 'Lean 4 theorems on an executable model + differential correspondence with the rebuilt implementation (+ AST translator where stated)',
        })
    m = {
        'version': 1,
        'setup_cmd': './setup.sh',
        'hooks': {'guard': 'SPLIPY_VERIF',
                  'enable': 'no hooks are compiled into /repo; checks import an overlay copy of the working tree with SPLIPY_VERIF=1 exported (unused by the library)',
                  'baseline_off_cmd': 'cd /repo && /venv/bin/python -m pytest -ra -q -p no:cacheprovider --timeout=900 --continue-on-collection-errors',
                  'source_commits': [], 'add_only': True},
        'engines': [{'name': 'lean-proof+correspondence', 'path': 'lean/ + harness/',
                     'serves_properties': [c['property_id'] for c in checks],
                     'kind_free_text': 'Lean 4 model and theorems (lake project lean/, no require); Python differential harness driving `lake env lean --run Driver.lean`; AST translators for source-derived obligations'}],
        'checks': checks,
        'notes': 'Known genuine defects of the pinned tree are listed in known_findings.json (KNOWN-FINDING lines); see DESIGN.md §15.',
        'not_applicable': na,
    }
    json.dump(m, open(os.path.join(VERIF, 'MANIFEST.json'), 'w'), indent=1)
    print('claimed:', [c['property_id'] for c in checks], 'unclaimed:', [x['property_id'] for x in na])


if __name__ == '__main__':
    main()
