#!/venv/bin/python
"""Writes /verif/MANIFEST.json from the table below.  A property is claimed only when its
Properties/Cxx.lean, Driver/Cxx.lean and harness/props/Cxx.py exist."""
import json
import os

VERIF = os.path.dirname(os.path.dirname(os.path.abspath(__file__)))
props = [json.loads(l) for l in open(os.path.join(VERIF, 'properties.jsonl'))]

COMMON_NOTE = ('Trusted: Lean 4.33 kernel + Mathlib; axioms propext, Classical.choice, Quot.sound only (audited by #print axioms every run, '
               'leanchecker in the thorough tier); the hand-written Lean model of the Python/Cython code, tied to /repo only by the differential '
               'correspondence run of this check (and by the translator where stated); the Python harness, generators, tolerances and oracle; '
               'IEEE-754 rounding, numpy/scipy primitives, LAPACK solves and libm are modelled (exact arithmetic over Q), not verified. ')

T = {
 'C01': ('Theorems (all orders, all valid knot vectors, all derivative orders, both sides, periodic wrap): the model of basis_eval.pyx/BSplineBasis.evaluate returns exactly the Cox-de Boor values/derivatives (C01_value_deriv_open/periodic), start-from-left and outside rows are zero, non-negativity, partition of unity, high derivatives vanish, sparse = dense, periodic shift invariance. Correspondence: whole rows, dense and sparse, against the recompiled extension. SOURCE TIE: basis_eval.pyx (bisect, snap, evaluate kernel) and the basis.py methods snap/num_functions/start/end are re-translated from the current source into Lean on every run and committed equality theorems generated = model (Lemmas/PyxEq, PyBasisEq) are re-checked against the fresh definitions; multi-point calls compared as well.',
         'Full theorems on the model; the derivative recursion dB is additionally proved to be the derivative of the polynomial pieces (Lemmas/Deriv, DerivReal).'),
 'C02': ('Theorems: tensor evaluation = defining sums for pardim 1-3 (index algebra of the array model), rational division with positive denominator, pointwise = grid diagonal, error iff outside a non-periodic direction, periodic wrap, identity map of default control points (linear precision), bounding box. Correspondence over all calling forms.',
         'Scalar/squeeze/__call__ glue is outside the Lean model and covered by the correspondence and oracle only; generic-pardim statement not proved (pardim 1,2,3 separately).'),
 'C03': ("Theorems (49 + 16 source-derived): non-rational derivative entries = sums of products of Cox-de Boor derivative values for curves, surfaces and volumes (tensor and pointwise forms, arbitrary parameters via snapping); rational first order and curve/surface closed forms of order 2-3 equal the jet of n/W; over R the model's derivative(d<=3) of a rational curve IS the iterated one-sided derivative of the evaluated map (Mathlib HasDerivWithinAt, no Leibniz hypothesis); dispatch sound for every spelling of d and above; derivative spline evaluates to the derivative at object level. The dispatch tables of Curve/Surface.derivative are re-extracted from the Python AST every run and 16 obligations re-checked.",
         'Second/third-order rational SURFACE closed forms keep the Leibniz relations as hypotheses (two-variable calculus not formalised); three listed defect classes.'),
 'C04': ('Theorems (20 + bridge): for every valid non-periodic basis and x in [start,stop) insert_knot returns the Boehm matrix: basis valid, knots = old + x, every spline value and derivative unchanged (both sides); sequences by induction; objects of any pardim fibre-wise and, through the bridge, Obj.evaluate itself unchanged for curves/surfaces/volumes; refine and geometric_refine values lie inside spans; PERIODIC case proved in full under the guard n >= p+k (knot vector, ghost repair, wrapped sums unchanged, sequences, objects, periodic curve evaluator). SOURCE TIE: BSplineBasis.insert_knot is re-translated from basis.py each run and proved equal to the model (PyBasis_insert_knot_eq).',
         'Partial only where the code is defective (x = end, n < p+k: listed findings); center/edge_refine placement (tan/atan) is oracle-only.'),
 'C05': ('Theorems (20 + bridge + 5 source-derived): raise_order knot bookkeeping for clamped AND standard periodic knot vectors (C05_knots, C05_knots_periodic: ghost trimming reproduces the raised period, continuity unchanged); FULL geometry theorems with no analytic hypothesis for clamped continuous bases: curves, SURFACES and VOLUMES with simultaneous amounts in every direction (C05_geometry_clamped, _surface, _volume): degree-elevation inclusion (Lemmas/Elevation) and Schoenberg-Whitney at the Greville points (Lemmas/SchoenbergWhitney) are proved, the Gauss-Jordan model of np.linalg.inv/solve is proved sound and complete, so raise_order succeeds, returns the receiver, keeps the evaluated map (rational included) and non-negative weights; lower_order returns the original bases and control points (left inverse, pardim 1-3); through the bridge Obj.evaluate itself is unchanged for curves, surfaces and volumes. SOURCE TIE: raise_order, lower_order, knot_spans, continuity, greville of basis.py are re-translated each run and proved equal to the model.',
         'Partial: periodic GEOMETRY (inclusion and collocation hypotheses for periodic bases kept as named hypotheses), periodic vectors whose ghosts span more than one period, order-1 directions and periodic lower_order (listed findings of the code).'),
 'C06': ('Theorems (30): reversed/reparametrised knot vectors in closed form, domain/periodicity preserved, reverse of curves and objects equals the reflected map (periodic: with the roll by k+1 the code omits - refuted for flip-only by a concrete instance), swap index algebra and evaluation, reparam exact domain and affine invariance, compositions and image invariance by induction over op lists; check_direction table re-extracted from the AST every run.',
         'Object bodies of reverse/swap/reparam are tied by correspondence only; three listed defect classes.'),
 'C07': ("Theorems (9 + 6 bridge): every piece cut from the Boehm-refined vector is a valid open basis whose spline equals the original on its sub-interval (values and all derivatives, both sides); pieces tile; PERIODIC split proved about the model's own Obj.split (C07_split_periodic_partial: under the guard n >= p+k the result is a valid open object on [x0, x0+T] whose map is the original at t, resp. t-T past the seam; multiplicity and roll links proved in Lemmas/C07Mult, C07Roll), later split values by composition (C07_split_periodic_pieces); append for equal orders; _splitvector arithmetic.",
         'Partial: guard n >= p+k (periodic insertion is defective below it - listed), first split value in the base period, tolerance comparisons assumed exact at the split values (hexR/hexL); append with differing orders is oracle-only; listed corner classes.'),
 'C08': ("Theorems (15 + 2 source-derived): evaluation invariant under shifts by multiples of the period INCLUDING the domain end (C08_periodicity_partial, evaluate_stop_eq_start), seam smoothness up to order k (from L9), make_periodic∘openAtSeam = id on knots and every valid periodic basis is accepted; split at the seam computed in closed form for every k (C08_open_at_seam_partial), round trip split∘make_periodic exact for k <= 1 with no insertion hypothesis (C08_roundtrip_k_le_1_partial: o' = o), REFUTED for k >= 2 by a kernel-evaluated instance replayed on the real code; lower_periodic(k') for every -1 <= k' <= k keeps every value and derivative and gives a valid basis with periodic = k' (C08_lower_periodic_partial, evaluator level for curves), raising refused with ValueError. SOURCE TIE: make_periodic and roll of basis.py re-translated each run and proved equal to the model.",
         'Partial: guard n >= p+k, seam separated from its neighbours by more than the tolerance, seam multiplicity as declared (hseam); k >= 2 merge weights, small bases, constructor gap are listed findings of the code.'),
 'C09': ('Theorems (16): linear maps and translations commute with the evaluated (projective) point for any finite weight family; every model op is affineCp with the stated matrix; weights literally untouched; rotation matrix orthogonal/det 1/Rodrigues +theta, 2-D = 3-D about e_z; mirror involution; embedding changes; operator forms; compositions by induction.',
         'The identification of Obj.evaluate with the weighted sum is C02; three listed defect classes (infix /, 2-D rotate ignores axis sign, numpy left operands).'),
 'C10': ('Theorems (30): constructor accepts/rejects exactly as coded and never rejects a Valid basis (gap to Valid exhibited); well-formedness preserved by clone, reverse, swap, reparam, section, extrude, affine family, set_dimension, force_rational (full) and by insert_knot/refine/split/make_periodic/append under named hypotheses; insertion matrix row-stochastic (weights stay positive); reachable objects well formed by induction over op lists. Correspondence: random op histories on a pool of objects, Lean wfB vs a Python transcription on the real objects.',
         'raise_order/lower_order/lower_periodic/periodic insertion/make_splines_identical are covered by checked results (wfB) and the correspondence only; four listed defect classes.'),
 'C11': ('Theorems on an explicit heap model (buffers, basis records, objects): separation invariant preserved by every contract-respecting step, isolation of in-place writes, in-place returns receiver, predicted sharing graph empty - for all histories. The operation/contract table (193 entries) is regenerated from the live API every run and totality re-proved; the real sharing graph (numpy.shares_memory), write set and isolation experiment are compared with the model.',
         'Partial: the per-operation contracts are premises validated dynamically, not proved from the Python source. Six listed defect classes.'),
 'C12': ('Theorems (10): compatibility; knot-merge insertion counts; C12_open_curves, C12_open_surfaces, C12_open_volumes: for two clamped objects of DIFFERENT orders make_splines_identical succeeds, both end with identical order and knot vector on [0,1] and both keep their map (no hypotheses on the called methods: C06 reparam, C05 full for pardim 1-3, C04); insertion geometry for any pardim; directions touch only their basis.',
         'Partial: periodic directions (lower_periodic) keep named hypotheses; five listed defect classes.'),
 'C13': ('Theorems (15): circle arcs, the p2C0 and p4C1 circles and circle_segment in B-SPLINE form lie on the circle for every parameter (spans identified with Bernstein/Bezier forms), counter-clockwise, placement rotation maps e_z to n and e_x to the x-axis and every evaluated point of a placed circle satisfies |x-c| = r and (x-c).n = 0, three-point arc ends at x2 and passes through x1 (over R), revolve/extrude sections, linear primitives, sphere/torus equations; control nets of all factories (incl. the solid sphere) compared with the model.',
         "Cobb's cube-sphere faces on the sphere not proved; two listed defect classes."),
 'C14': ('Theorems (29): the certified solve IS the Gauss-Jordan model and that model is sound and complete; interpolation in spec terms (splineVal / Obj.evaluate at t_i equals x_i) for curves, non-square surfaces (both layouts) and volumes; with Schoenberg-Whitney: interpolation at the Greville points (and at any nested parameters) of a clamped continuous basis SUCCEEDS and interpolates - no solvability hypothesis; projection for interpolation and least squares (curves, surface grids); cubic_curve square system and end rows for all six boundary types; loft through its sections; bezier; rebuild; factory transposes cancel.',
         'Solvability stays a hypothesis for periodic bases, cubic_curve systems and least-squares normal matrices; manipulate/fit oracle-only; one listed defect class.'),
 'C15': ("Theorems (41 + 1 source-derived): clamped-end sections equal the restriction for the model's section() (any pardim, rational too), section table/order/indexing by decide and re-translated from the Python AST every run, const_par_curve proved in full for non-periodic directions (insertion loop = Boehm refinement, picked row = fibre value) incl. evaluation along the parameter line, Coons patch and the six-face volume restrict to their inputs at function, net and evaluated level, all 384 loop arrangements accepted, ruled/extrude sections.",
         'Rational Coons needs equal corner weights (listed); thicken oracle-only; five listed defect classes.'),
 'C16': ('Theorems (36): BSplineBasis.integrate equals the integral of the B-spline over R for every sub-interval of the domain, from Basis.Valid alone (open and periodic); center is the exact integral mean for curves and surfaces, projective for rational, invariant under knot insertion; quadrature exactness for piecewise polynomials (midpoint, Simpson, 2- and 3-point Gauss rules proved exact), node-wise rigid/scale/reversal invariances, Frenet algebra, curvature/torsion invariances.',
         'Clauses about quadrature ERROR (invariance for non-polynomial integrands, convergence to analytic values) are not theorems; they are checked by the oracle with a refinement-based error budget.'),
 'C17': ('Theorems (16): orientation group laws generic in n, enumeration complete (2/8/48), map_array composition, map_section/view_section tables, compute sound and complete, equivalence (rational, non-rational, mixed); the catalogue invariant is preserved by SplineModel.add and C17_catalogue_canonical / C17_catalogue_counts are PROVED for pardim <= 3: one node per equivalence class of cells for any list of patches, any order, any orientation; higher_nodes = adjacent cells; boundary() = codim-1 cells with one neighbour; lookups of re-oriented copies return the same node; add never raises without twins/handedness policy.',
         "Tolerant comparison modelled as exact; entity identity is the model's equivalence, which inherits the two listed defect classes of the code (weights)."),
 'C18': ("Theorems (9): numbering range/surjectivity/injectivity under the star hypothesis, the full numbering statement REFUTED on the model by a kernel-evaluated witness (edge/corner contact) replayed on the code, cps table, cell enumeration, ifem_format injective, IFEM connection list = interfaces exactly once (from C17's catalogue theorems, no hypotheses), OpenFOAM stable-sort order and boundary blocks, single- and multi-cell face cycles with outward normals, internal/boundary faces once, six faces per cell.",
         'Partial: the full numbering statement is false for the algorithm (listed finding); assembly of faces() across patches and the plans<->catalogue ownership link are covered by the correspondence only.'),
 'C19': ("Theorems (12): first-index-fastest flatten/unflatten inverse for any shape, G2 write/read round trip on tokens for every well-formed non-periodic object and whole files, periodic objects = split at the seam then round trip, foreign records, every analytic primitive record's fields reach the modelled factory in documented order, SPL index algebra, STL facet count/vertices and sampling rule, SVG write/read is one similarity with s > 0 incl. the modelled bezier_representation.",
         'Number formatting abstracted to an idempotent rounding applied by the harness; bounded_surface and SVG path parsing not modelled; one listed defect class.'),
 'C20': ('Theorems (23 + 4 source-derived): snap/evaluate/validate/continuity honour the tolerance under a separation hypothesis, lifted to Obj.evaluate and Obj.derivative for any pardim (fuzz inside or just outside an end never raises or changes the result), Greville points, VertexDict lookups, allclose/Orientation tolerance; state(): a proved decision procedure applied to the program re-translated from state.py every run (now discharged: try/finally), write sites of state attributes re-extracted from all sources every run (now only state.py); a settings monitor around every implementation call of every property.',
         'Rational closed-form derivative overrides are covered row-wise only.'),
}


def main():
    checks = []
    na = []
    for p in props:
        pid = p['id']
        have = all(os.path.exists(os.path.join(VERIF, f)) for f in (
            'lean/Splipy/Properties/%s.lean' % pid, 'lean/Splipy/Driver/%s.lean' % pid, 'harness/props/%s.py' % pid))
        if not have or pid not in T or os.environ.get('SKIP_' + pid):
            na.append({'property_id': pid, 'reason': 'not claimed yet: model/theorems/correspondence still under construction (DESIGN.md §13-§15)'})
            continue
        text, partial = T[pid]
        checks.append({
            'property_id': pid,
            'quick_cmd': './check %s --tier quick' % pid,
            'thorough_cmd': './check %s --tier thorough' % pid,
            'evidence_file': 'evidence/%s.json' % pid,
            'replay_cmd_template': './check %s --replay {path}' % pid,
            'engine': 'lean-proof+correspondence',
            'level_claimed': {'category': 'proof', 'text': text, 'design_ref': 'DESIGN.md §7 %s, §14-§16' % pid},
            'level_note': COMMON_NOTE + partial,
            'technique': 'Lean 4 theorems on an executable model + differential correspondence with the rebuilt implementation (+ AST translator where stated)',
        })
    m = {
        'version': 1,
        'setup_cmd': './setup.sh',
        'hooks': {'guard': 'SPLIPY_VERIF',
                  'enable': 'no hooks are compiled into /repo; checks import an overlay copy of the working tree with SPLIPY_VERIF=1 exported (unused by the library)',
                  'baseline_off_cmd': 'cd /repo && /venv/bin/python -m pytest -ra -q -p no:cacheprovider --timeout=900 --continue-on-collection-errors',
                  'source_commits': [], 'add_only': True},
        'engines': [{'name': 'lean-proof+correspondence', 'path': 'lean/ + harness/',
                     'serves_properties': [c['property_id'] for c in checks],
                     'kind_free_text': 'Lean 4 model and theorems (lake project lean/, no require); Python differential harness driving `lake env lean --run Driver.lean`; AST translators for source-derived obligations'}],
        'checks': checks,
        'notes': 'Known genuine defects of the pinned tree are listed in known_findings.json (KNOWN-FINDING lines); see DESIGN.md §15.',
        'not_applicable': na,
    }
    json.dump(m, open(os.path.join(VERIF, 'MANIFEST.json'), 'w'), indent=1)
    print('claimed:', [c['property_id'] for c in checks], 'unclaimed:', [x['property_id'] for x in na])


if __name__ == '__main__':
    main()
