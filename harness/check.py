#!/venv/bin/python
"""Entry point:  check.py <Cxx> [--tier quick|thorough] [--replay file] [--seed N]

One run = rebuild implementation overlay -> (re)generate source-derived Lean -> build + audit
the property's theorems -> correspondence (corpus first, then generated cases) -> on any break,
failing-input search with the model-independent oracle -> evidence + exit code.

Exit codes: 0 held, 1 violation (a `VIOLATION property=.. replay=..` line is printed),
2 infrastructure problem / time-out (never a violation).
"""
import argparse
import collections
import hashlib
import importlib
import json
import os
import random
import sys
import time
import traceback

HERE = os.path.dirname(os.path.abspath(__file__))
VERIF = os.path.dirname(HERE)
sys.path.insert(0, HERE)

from vlib import impl as implmod  # noqa: E402
from vlib import model as modelmod  # noqa: E402
from vlib import leanproof  # noqa: E402
from vlib import val  # noqa: E402
from vlib.compare import Err, call, diff, to_plain  # noqa: E402

TRUSTED_BASE = [
    'Lean 4.33 kernel; Mathlib v4.33 as a library of kernel-checked lemmas',
    'axioms permitted in property theorems: propext, Classical.choice, Quot.sound (audited by #print axioms on every run)',
    'hand-written Lean model of the Splipy code (lean/Splipy/Model), tied to /repo by the differential correspondence run of this check',
    'correspondence harness (harness/), its generators and tolerances; the line-protocol driver (lean/Driver.lean)',
    'modelled, not verified: IEEE-754 rounding (model is exact over Q), numpy/scipy array primitives and linear solves, libm, CPython object model, Cython C semantics',
]


def load_known():
    p = os.path.join(VERIF, 'known_findings.json')
    if not os.path.exists(p):
        return {'findings': [], 'fixed': []}
    return json.load(open(p))


def jdump(o):
    return json.dumps(o, sort_keys=True, default=_jdefault)


def _jdefault(o):
    from fractions import Fraction
    import numpy as np
    if isinstance(o, Fraction):
        return str(o)
    if isinstance(o, np.ndarray):
        return o.tolist()
    if isinstance(o, (np.floating, np.integer)):
        return o.item()
    if isinstance(o, Err):
        return repr(o)
    return repr(o)


def write_replay(prop, payload):
    d = os.path.join(VERIF, 'replays')
    os.makedirs(d, exist_ok=True)
    s = jdump(payload)
    h = hashlib.sha256(s.encode()).hexdigest()[:12]
    p = os.path.join(d, '%s-%s.json' % (prop, h))
    with open(p, 'w') as f:
        f.write(json.dumps(json.loads(s), indent=1, sort_keys=True))
    return p


def run_cases(mod, sp, specs, log):
    """Run implementation, model and oracle on every spec.  Returns list of result dicts."""
    lines = [mod.model_line(s) for s in specs]
    t0 = time.time()
    mvals = modelmod.run(lines) if lines else []
    log['model_s'] = log.get('model_s', 0) + time.time() - t0
    t0 = time.time()
    results = []
    cmp_fn = getattr(mod, 'compare', None)
    oracle = getattr(mod, 'oracle', None)
    oracle_always = getattr(mod, 'ORACLE_ALWAYS', True)
    state_names = list(getattr(sp.state, 'states', []))
    for s, ln, mv in zip(specs, lines, mvals):
        before = {k: getattr(sp.state, k) for k in state_names}
        iv = call(mod.run_impl, sp, s)
        after = {k: getattr(sp.state, k) for k in state_names}
        if after != before:
            # global settings monitor (property C20): a library call changed a setting
            log.setdefault('settings_leaks', []).append(
                {'line': ln[:200], 'changed': {k: [before[k], after[k]] for k in before if before[k] != after[k]}})
            for k, v in before.items():
                setattr(sp.state, k, v)
        if cmp_fn is not None:
            d = cmp_fn(s, iv, mv)
        else:
            d = diff(iv, mv, rtol=getattr(mod, 'RTOL', 1e-9), atol=getattr(mod, 'ATOL', 1e-11))
        if isinstance(mv, str) and mv in ('bad-op', 'bad-args', 'unknown-op'):
            raise RuntimeError('protocol error %s on line %s' % (mv, ln[:300]))
        ofail = []
        if oracle is not None and (oracle_always or d):
            try:
                ofail = list(oracle(sp, s) or [])
            except Exception as e:
                # An exception that escapes from LIBRARY code (innermost frame inside the overlay or the
                # compiled kernel) while the implementation also disagrees with the model on this input is a
                # failure of the property on this input (the experiment could not be completed because the
                # code raised where the model computes a value).  Anything else is an oracle crash, i.e. an
                # infrastructure problem, not a violation.
                tb = traceback.extract_tb(e.__traceback__)
                lib_dir = os.path.dirname(os.path.abspath(sp.__file__))
                # innermost frame that belongs to the library or to the harness (frames of third-party code
                # such as numpy, reached FROM one of the two, are skipped: a numpy broadcast error raised
                # under BSplineBasis.matches is the library's exception, not the oracle's)
                harness_dir = os.path.dirname(os.path.abspath(__file__))
                last, last_fr = '', (tb[-1] if tb else None)
                for fr in reversed(tb):
                    fa = os.path.abspath(fr.filename)
                    if fa.startswith(lib_dir) or fr.filename.replace('\\', '/').endswith('splipy/basis_eval.pyx') \
                            or fa.startswith(harness_dir):
                        last, last_fr = fr.filename, fr
                        break
                in_lib = os.path.abspath(last).startswith(lib_dir) or last.replace('\\', '/').endswith('splipy/basis_eval.pyx')
                if in_lib and d:
                    ofail = ['the library raised %s (%s) inside the property experiment, at %s:%s; model and implementation '
                             'disagree on this input as well' % (type(e).__name__, str(e)[:120], os.path.basename(last), last_fr.lineno)]
                else:
                    raise RuntimeError('oracle crashed on %s: %s\n%s' % (jdump(s)[:300], e, traceback.format_exc()))
        results.append({'spec': s, 'line': ln, 'impl': iv, 'model': mv, 'diff': d, 'oracle': ofail})
    log['impl_s'] = log.get('impl_s', 0) + time.time() - t0
    return results


def main():
    ap = argparse.ArgumentParser()
    ap.add_argument('prop')
    ap.add_argument('--tier', default=os.environ.get('VERIF_TIER', 'quick'))
    ap.add_argument('--seed', type=int, default=int(os.environ.get('VERIF_SEED', '0') or 0))
    ap.add_argument('--replay', default=None)
    ap.add_argument('--no-proof', action='store_true', help='skip build/audit (development only)')
    args = ap.parse_args()
    prop, tier, seed = args.prop, args.tier, args.seed
    if tier not in ('quick', 'thorough'):
        tier = 'quick'
    t_start = time.time()
    mod = importlib.import_module('props.' + prop)
    log = {}
    violations = []      # (replay_path, suffix)
    known_lines = []

    # 1. implementation overlay (rebuilt from /repo's working tree)
    sp, info = implmod.load()

    # 2. source-derived Lean (translator), if the property has one
    gen_info = None
    if hasattr(mod, 'regenerate'):
        gen_info = mod.regenerate(sp, modelmod.LEAN_DIR)

    # 3. proof obligations
    leanproof.write_driver_all()
    if args.no_proof:
        obl = {'theorems': [], 'failed': [], 'axioms': {}, 'build_ok': True, 'module': 'skipped'}
        ok, blog, _ = leanproof.lake_build(['Splipy.Driver.All'])
        if not ok:
            print(blog[-3000:])
            return 2
    else:
        obl = leanproof.check_obligations(prop, extra_modules=['Splipy.Driver.All'],
                                         extra_theorems=getattr(mod, 'EXTRA_THEOREMS', ()))
    if tier == 'thorough' and obl['build_ok'] and not args.no_proof:
        import subprocess
        r = subprocess.run(['lake', 'env', 'leanchecker', 'Splipy.Properties.' + prop], cwd=modelmod.LEAN_DIR,
                           stdout=subprocess.PIPE, stderr=subprocess.STDOUT, text=True)
        obl['leanchecker_ok'] = (r.returncode == 0)
        if r.returncode != 0:
            obl['failed'].append('leanchecker:' + r.stdout[-500:])

    known = load_known()
    known_classes = {f['class']: f for f in known['findings'] if f['property'] == prop}

    # 3b. source-derived obligations reported by the translator hook:
    #     gen_info['obligations'] = [{'name':…, 'ok': bool, 'detail': str, 'class': optional known-finding label}]
    gen_obl = list((gen_info or {}).get('obligations', [])) if isinstance(gen_info, dict) else []
    if hasattr(mod, 'extra_obligations'):
        gen_obl += list(mod.extra_obligations(sp, modelmod.LEAN_DIR) or [])
    # basis.py methods this property's model rests on: re-translated from source on every run and
    # proved equal to the hand model (harness/translate/basis_translate.py, Lemmas/PyBasisEq.lean)
    if getattr(mod, 'PYBASIS_METHODS', None):
        from props import _pybasis
        try:
            gen_obl += list(_pybasis.obligations_for(sp, modelmod.LEAN_DIR, list(mod.PYBASIS_METHODS)))
        except Exception as e:  # fail closed
            gen_obl.append({'name': 'pybasis-translator', 'ok': False, 'detail': 'translator crashed: %r' % (e,)})
    # splineobject.py methods likewise (harness/translate/object_translate.py, Lemmas/PyObjectEq.lean)
    if getattr(mod, 'PYOBJECT_METHODS', None):
        from props import _pyobject
        try:
            gen_obl += list(_pyobject.obligations_for(sp, modelmod.LEAN_DIR, list(mod.PYOBJECT_METHODS)))
        except Exception as e:  # fail closed
            gen_obl.append({'name': 'pyobject-translator', 'ok': False, 'detail': 'translator crashed: %r' % (e,)})
    # Curve/Surface overrides (harness/translate/override_translate.py, Lemmas/PyOverrideEq.lean)
    if getattr(mod, 'PYOVERRIDE_METHODS', None):
        from props import _pyoverride
        try:
            gen_obl += list(_pyoverride.obligations_for(sp, modelmod.LEAN_DIR, list(mod.PYOVERRIDE_METHODS)))
        except Exception as e:  # fail closed
            gen_obl.append({'name': 'pyoverride-translator', 'ok': False, 'detail': 'translator crashed: %r' % (e,)})
    gen_failed_known = []
    for o in gen_obl:
        if not o.get('ok'):
            if o.get('class') in known_classes:
                gen_failed_known.append(o)
            else:
                obl['failed'].append('generated:%s: %s' % (o.get('name'), str(o.get('detail', ''))[:300]))

    # 4. correspondence: corpus first, then generated cases (or a single replay)
    rng = random.Random(seed * 1000003 + 17)
    specs = []
    if args.replay:
        rp = json.load(open(args.replay))
        specs = [rp['spec']] if 'spec' in rp else rp.get('specs', [])
    else:
        cdir = os.path.join(VERIF, 'corpus', prop)
        if os.path.isdir(cdir):
            for f in sorted(os.listdir(cdir)):
                if f.endswith('.json'):
                    c = json.load(open(os.path.join(cdir, f)))
                    specs.extend(c if isinstance(c, list) else [c.get('spec', c)])
        log['corpus_cases'] = len(specs)
        specs.extend(mod.generate(rng, tier))

    model_broken = None
    results = []
    try:
        results = run_cases(mod, sp, specs, log)
    except modelmod.ModelError as e:
        model_broken = str(e)[-1500:]

    # 5. decide
    disagreements = [r for r in results if r['diff']]
    oracle_fail = [r for r in results if r['oracle']]
    classify = getattr(mod, 'classify', lambda spec, res=None: None)
    seen_known = collections.OrderedDict()
    reported = 0
    MAXREP = 5

    def report(payload, suffix=''):
        nonlocal reported
        if reported < MAXREP:
            p = write_replay(prop, payload)
            violations.append((p, suffix))
            reported += 1

    # 5a. confirmed failing inputs (oracle says the real code breaks the property)
    for r in oracle_fail:
        cls = classify(r['spec'], r)
        if cls in known_classes:
            seen_known.setdefault(cls, r)
            continue
        report({'property': prop, 'kind': 'failing-input', 'spec': r['spec'], 'oracle': r['oracle'][:5],
                'model_line': r['line'][:2000], 'diff': r['diff'], 'seed': seed, 'tier': tier,
                'replay_cmd': './check %s --replay <this file>' % prop})
    # 5b. correspondence broken without a failing input
    unexplained = []
    for r in disagreements:
        if r['oracle']:
            continue
        cls = classify(r['spec'], r)
        if cls in known_classes and known_classes[cls].get('model_follows_property'):
            seen_known.setdefault(cls, r)
            continue
        unexplained.append(r)
    if unexplained:
        r = unexplained[0]
        report({'property': prop, 'kind': 'correspondence-broken', 'broken': 'correspondence op `%s`' % r['line'].split(' ')[0],
                'spec': r['spec'], 'diff': r['diff'], 'model_line': r['line'][:2000], 'n_disagreements': len(unexplained),
                'other_diffs': [x['diff'] for x in unexplained[1:6]], 'seed': seed, 'tier': tier},
               ' no-failing-input-found')
    # 5c. proof obligations broken
    if obl['failed'] or model_broken:
        if not any(not s for _, s in violations):   # no concrete failing input found so far
            report({'property': prop, 'kind': 'proof-obligation-broken',
                    'broken': obl['failed'] or ['model driver: ' + (model_broken or '')],
                    'build_log_tail': obl.get('build_log_tail', ''), 'seed': seed, 'tier': tier},
                   ' no-failing-input-found')

    for o in gen_failed_known:
        seen_known.setdefault(o['class'], {'obligation': o})
    for cls, r in seen_known.items():
        known_lines.append('KNOWN-FINDING: property=%s %s [%s]' % (prop, known_classes[cls]['what'], cls))

    # 6. evidence
    tags = collections.Counter()
    keys = set()
    nontrivial = set()
    tag_fn = getattr(mod, 'tags', None)
    nontriv_fn = getattr(mod, 'nontrivial', lambda spec, res: True)
    for r in results:
        k = hashlib.sha256(r['line'].encode()).hexdigest()
        keys.add(k)
        if nontriv_fn(r['spec'], r):
            nontrivial.add(k)
        if tag_fn:
            for t in tag_fn(r['spec'], r):
                tags[t] += 1
    missing_required = [t for t in getattr(mod, 'REQUIRED_TAGS', []) if tags[t] == 0] if results and not args.replay else []
    n_thm = len(obl['theorems'])
    n_ok = n_thm - len([f for f in obl['failed'] if f.startswith(('unchecked:', 'axioms:'))]) if obl['build_ok'] else 0
    if any(f.startswith(('forbidden:', 'build:', 'leanchecker:')) for f in obl['failed']):
        n_ok = 0
    # source-derived obligations that fail in a LISTED known-finding class are reported as
    # KNOWN-FINDING and counted separately (they are not claimed as obligations of this run)
    n_thm += len(gen_obl) - len(gen_failed_known)
    n_ok += len([o for o in gen_obl if o.get('ok')])
    samples = [{'model_line': r['line'][:600], 'impl': jdump(to_plain(r['impl']))[:300], 'model': val.enc(r['model'])[:300] if not isinstance(r['model'], str) else r['model']}
               for r in results[:: max(1, len(results) // 4)][:4]]
    ev = {
        'property_id': prop, 'tier': tier, 'seed': seed, 'level': 'proof',
        'coverage': {
            'obligations': n_thm, 'discharged': n_ok,
            'checker_cmd': 'cd lean && lake build Splipy.Properties.%s && lean (#print axioms of every theorem)%s' % (prop, ' && lake env leanchecker Splipy.Properties.' + prop if tier == 'thorough' else ''),
            'trusted_base': TRUSTED_BASE + list(getattr(mod, 'TRUSTED_EXTRA', [])),
            'theorems': obl['theorems'], 'axioms': obl['axioms'], 'failed_obligations': obl['failed'],
            'generated_obligations': gen_obl,
            'generated_obligations_failing_as_known_findings': [o.get('name') for o in gen_failed_known],
            'partial_theorems': [t for t in obl['theorems'] if t.endswith('_partial')],
            'evaluations': len(results), 'distinct_nontrivial': len(nontrivial), 'distinct': len(keys),
            'rule': getattr(mod, 'RULE', 'cases generated by harness/props/%s.py from VERIF_SEED; distinct = distinct protocol lines; non-trivial per module rule' % prop),
            'samples': samples or [{'note': 'no correspondence cases in this run'}],
            'disagreements': len(disagreements), 'oracle_failures': len(oracle_fail),
            'known_findings_hit': list(seen_known.keys()),
            'branch_histogram': dict(tags.most_common()), 'required_branches_missing': missing_required,
            'tolerances': {'rtol': getattr(mod, 'RTOL', 1e-9), 'atol': getattr(mod, 'ATOL', 1e-11)},
            'implementation': info, 'generated': gen_info,
            'timing': {k: round(v, 2) for k, v in log.items() if isinstance(v, float)},
            'settings_monitor': {'calls_monitored': len(results), 'leaks': log.get('settings_leaks', [])[:10]},
        },
        'assumptions': list(getattr(mod, 'ASSUMPTIONS', [])) + [
            'the Lean model mirrors the Python/Cython source faithfully; this is tested by the correspondence run, not proved',
            'floating-point rounding of the implementation is within the stated tolerances of the exact model'],
        'wall_s': round(time.time() - t_start, 2),
        'violations': len(violations),
    }
    evdir = os.environ.get('VERIF_EVIDENCE_DIR') or os.path.join(VERIF, 'evidence')
    if (args.no_proof or args.replay) and not os.environ.get('VERIF_EVIDENCE_DIR'):
        # development / replay runs never overwrite the evidence of record
        evdir = os.path.join(VERIF, '.cache', 'evidence-dev')
    os.makedirs(evdir, exist_ok=True)
    with open(os.path.join(evdir, prop + '.json'), 'w') as f:
        json.dump(json.loads(jdump(ev)), f, indent=1, sort_keys=True)

    for ln in known_lines:
        print(ln)
    print('%s tier=%s seed=%d theorems=%d/%d cases=%d distinct-nontrivial=%d disagreements=%d oracle-failures=%d wall=%.1fs' % (
        prop, tier, seed, n_ok, n_thm, len(results), len(nontrivial), len(disagreements), len(oracle_fail), time.time() - t_start))
    if missing_required:
        print('self-check: required branches not hit: %s' % missing_required)
        if not violations:
            return 2
    if violations:
        for p, suffix in violations:
            print('VIOLATION property=%s replay=%s%s' % (prop, p, suffix))
        return 1
    return 0


if __name__ == '__main__':
    try:
        rc = main()
    except Exception:
        traceback.print_exc()
        rc = 2
    sys.exit(rc)
