#!/venv/bin/python
"""Maintains /verif/known_findings.json from the table below (edited by hand, never at check time)."""
import json, os
F = []
def f(prop, cls, what, follows_property=False, replay=None):
    F.append({'property': prop, 'class': cls, 'what': what, 'model_follows_property': follows_property,
              'replay': replay or {}})

f('C02', 'curve-evaluate-rejects-tensor-keyword', 'Curve.evaluate(t, tensor=False) raises TypeError (the override drops the tensor keyword SplineObject.evaluate accepts)', True, {'call': 'Curve().evaluate([0.5], tensor=False)'})

f('C03', 'rational-surface-d-not-tuple-returns-zeros', 'rational Surface.derivative with d given as a list or int (e.g. d=[2,0], d=1) returns zeros: the branch table compares derivs with tuples', False, {'call': 'surface_factory.disc(type="square").derivative(.5,.5,d=[2,0])'})
f('C03', 'rational-surface-closed-form-tensor-false-indexerror', 'rational Surface.derivative of total order 2-3 with tensor=False raises IndexError', False, {'call': 'derivative([.5],[.5],d=(2,0),tensor=False)'})
f('C03', 'rational-derivative-order-zero-returns-zero', 'derivative(..., d=0) on a rational object returns 0 instead of the evaluated point (quotient rule applied with n\'=n, W\'=W)', False, {'call': 'circle().derivative(0.3, d=0)'})
f('C03', 'rational-closed-form-ignores-above-list', 'rational Curve/Surface closed-form derivatives pass the raw `above` to basis.evaluate: a list is truthy, so per-direction left limits are ignored', False, {'call': 'rational curve .derivative(knot, d=2, above=[False])'})
f('C03', 'rational-left-limit-at-discontinuity', 'rational first/closed-form derivatives with above=False take n and W (order-0 terms) from the right at a C^-1 knot', False, {'call': 'Curve(BSplineBasis(2,[0,0,1,1,2,2]),[[0,0,1],[1,0,1],[3,0,2],[4,2,1]],rational=True,raw=True).derivative(1.0,d=1,above=False)'})
f('C03', 'derivative-spline-nan-at-discontinuity', 'get_derivative_spline divides by zero (NaN control points) at a knot of multiplicity equal to the order', True, {'call': 'Curve(BSplineBasis(2,[0,0,1,1,2,2]),[[0,0],[1,0],[3,0],[4,2]]).get_derivative_spline(0)'})
f('C03', 'derivative-spline-periodic-single-controlpoint', 'get_derivative_spline in a periodic direction with one basis function overwrites C[0,0]: derivative spline evaluates to P instead of 0', False, {'call': 'Curve(BSplineBasis(2,[-1,0,1,2],periodic=0),[[1.,2.]],raw=True).get_derivative_spline(0).evaluate(.5)'})

f('C09', 'infix-truediv-undefined', 'infix division `obj / s` raises TypeError: only the Python-2 name __div__ is defined, not __truediv__ (`/=` works)', True, {'call': 'Curve() / 2'})
f('C09', 'rotate-2d-ignores-axis-sign', 'rotate(theta, (0,0,-1)) on a 2-D object turns +theta like (0,0,1); the 3-D branch turns -theta', False, {'call': 'Curve().rotate(pi/2,(0,0,-1))'})
f('C09', 'numpy-left-operand-returns-ndarray', 'np.array(x) + obj / np.float64(s) * obj return a plain ndarray (numpy iterates the object) instead of a transformed object', True, {'call': 'np.array([1.,2.]) + Curve()'})

f('C11', 'extrude-mutates-operand', 'volume_factory.extrude mutates its operand surface (set_dimension(3), in-place translation)', True, {'call': 's=Surface(); volume_factory.extrude(s,(0,0,1)); s.dimension'})
f('C11', 'section-point-view', 'section() of a single point returns a view of the operand control points: mutating it changes the operand', True, {'call': 'c=Curve(); p=c.section(0); p+=1; c[0]'})
f('C11', 'swap-curve-returns-none', 'swap() on a curve returns None instead of the receiver', True, {'call': 'Curve().swap()'})
f('C11', 'curve-raise-order-0-returns-none', 'Curve.raise_order(0) (and set_order to the same order) returns None instead of the receiver', True, {'call': 'Curve().raise_order(0)'})
f('C11', 'coons-patch-reverses-operands', 'surface_factory.coons_patch reverses two of its operand curves in place', True, {'call': 'coons_patch(b,r,t,l); t, l reversed'})
f('C11', 'splinemodel-retains-operand', 'SplineModel.add / ObjectCatalogue keep references to the added patches: later mutation of a patch changes the model', True, {'call': 'm.add(c); m.catalogue.top_nodes()[0].obj is c'})

f('C13', 'three-point-arc-wrong-end', 'circle_segment_from_three_points places the arc about cross(v0,v1): when the arc x0->x1 exceeds pi the arc does not end at x2', True, {'call': 'circle_segment_from_three_points((1,0),(0,-1),(0.6,-0.8))'})
f('C13', 'three-point-arc-nan-half-turn', 'circle_segment_from_three_points raises ValueError (NaN) when the unclipped arccos argument rounds below -1 (right angle at x1)', True, {'call': 'circle_segment_from_three_points((-2,.75,1),(-2,.75,1.5),(1.75,-1,1.5))'})
f('C13', 'arc-2pi-ignores-xaxis', 'circle_segment(2*pi, xaxis=...) ignores the requested x-axis (shortcut to circle() drops it)', True, {'call': 'circle_segment(2*pi, xaxis=(0,1,0))(0)'})
f('C13', 'near-ez-normal-misplaced', 'normals within ~1e-5 of e_z with a non-zero xy part: rotate_local_x_axis rotates back but flip_and_move skips the forward rotation (np.allclose)', True, {'call': 'circle(normal=(0,2**-30,1), xaxis=(1,0,0))(0)'})
f('C13', 'volume-revolve-negative-theta-reversed', 'volume_factory.revolve with negative theta: the section at parameter w is rotated by theta-w instead of w', True, {'call': 'volume_factory.revolve(surf, -1.0)'})
f('C13', 'cylinder-height-scaled-by-axis-norm', 'cylinder(r, h, axis) with a non-unit axis extrudes by h*axis: height is h*|axis|', True, {'call': 'cylinder(r=1,h=1,axis=(0,0,2))'})

f('C15', 'edge-curves-homogeneous-endpoint-test', 'four-curve edge_curves compares homogeneous end control points: a rational curve with rescaled weights is rejected as not closing', False, {'call': 'edge_curves(a,b,c,d) with b weights doubled'})
f('C15', 'coons-rational-unequal-corner-weights', 'rational Coons patch blends homogeneous coordinates: inputs with different corner weights are not reproduced on the boundary', False, {'call': 'coons_patch(a,b2,c,d)(0.5,0) != a(0.5)'})
f('C15', 'edge-surfaces-6-rational-refused', 'six-face edge_surfaces refuses rational input with RuntimeError', False, {'call': 'edge_surfaces(*Volume(rational=True).faces())'})
f('C15', 'const-par-curve-periodic-end', 'const_par_curve at the end of a periodic direction raises IndexError', False, {'call': 'cyl=cylinder(); cyl.const_par_curve(cyl.end("u"),"u")'})
f('C15', 'const-par-curve-periodic-few-functions', 'const_par_curve on a periodic direction with fewer than p functions returns a wrong curve (periodic knot insertion defect)', False, {'call': 'Surface(BSplineBasis(3,[-1,0,0,1,1,2],0),BSplineBasis(2),...).const_par_curve(0.25,0)'})

f('C19', 'stl-2d-surface-resize', 'STL.write_surface on a 2-D surface uses ndarray.resize to pad z: ValueError or scrambled vertices', True, {'call': 'STL("a.stl").write(Surface(), n=2)'})
f('C19', 'periodic-seam-split', 'periodic objects with few functions are written after a wrong split at the seam (root cause: periodic insert_knot, see C04/C07)', True, {'call': 'Curve(BSplineBasis(4,[-4,-4,-2.5,-2.5,-1,-1,.5,.5],1),[[0,0],[1,2]]) through G2'})
f('C19', 'g2-reversed-periodic-primitive', 'G2 circle/ellipse records with the reversed flag read to a wrong shape (root cause: reverse on periodic direction, see C06)', True, {'call': 'G2 record 130 with reversed=1'})

f('C20', 'state-not-restored-on-exception', 'state() has no try/finally: settings are not restored when the with-body raises', True, {'call': 'with state(knot_tolerance=.5): raise X'})
f('C20', 'g2-bounded-surface-writes-state', 'G2.bounded_surface assigns state.parametric_absolute_tolerance while reading a file', True, {'call': 'G2(test/io/geometries/winglet_from_step.g2).read()'})
f('C20', 'splinemodel-vertex-tolerance-not-from-state', 'ObjectCatalogue builds VertexDict with hard-coded tolerances, ignoring the configured controlpoint tolerances', True, {'call': 'SplineModel vertex merging under state(controlpoint_absolute_tolerance=1e-4)'})

f('C04', 'periodic-insert-end-indexerror', 'periodic insert_knot(end()) raises IndexError when the seam multiplicity p-1-k is >= 2', False, {'call': 'BSplineBasis(3,[-1,0,0,1,2,3,3,4],0).insert_knot(3.0)'})
f('C04', 'periodic-small-basis-geometry', 'periodic insert_knot on a basis with n < p+k functions: the ghost-knot repair reads knots it has overwritten; domain/geometry change', False, {'call': 'BSplineBasis(2,[-3,0,3,6],0).insert_knot(1.5)'})

f('C17', 'nodeview-section-wrong-frame', 'NodeView.section takes the section in the mapped frame instead of orientation.map_section(section): OrientationError for re-oriented views', True, {'call': 's=Surface(); m=SplineModel(2,2); m.add(s); m[s.clone().reverse("u")].section(0,None)'})
f('C17', 'compute-normalises-weights-only', 'Orientation.compute normalises only the weight column: rational nets with weights scaled by a factor (different geometry) are reported as matching', False, {'call': 'Orientation.compute(Curve(L,[[0,0,1],[1,0,1]],rational=True), Curve(L,[[0,0,2],[1,0,2]],rational=True))'})
f('C17', 'rational-vertex-key-ignores-weight', 'vertices of rational patches are keyed by pre-multiplied coordinates without the weight: distinct points share a vertex node', False, {'call': 'SplineModel(1,2).add([Curve(L,[[0,0,1],[2,0,1]],True), Curve(L,[[2,0,2],[3,3,1]],True)])'})

f('C14', 'manipulate-getargspec', 'curve_factory.manipulate raises AttributeError: inspect.getargspec was removed in Python 3.11', False, {'call': 'cf.manipulate(cf.line([0,0],[1,1]), lambda x: 2*x)'})
f('C14', 'manipulate-acceleration-averaged-with-d1', 'curve_factory.manipulate: the scalar path averaged the acceleration with the FIRST derivative (d=1 instead of d=2)', False, {'call': 'cf.manipulate(curve with a C0 knot, lambda x,v,a: x+a)(knot)'})
f('C14', 'manipulate-derivative-averaging', 'curve_factory.manipulate: the start point derivative is halved (continuity(start) = -1 triggers averaging with a zero row)', False, {'call': 'cf.manipulate(Curve(BSplineBasis(3),[[0,0],[1,0],[1,1]]), lambda x,v: x+v)(0)'})
f('C14', 'lsq-flat-layout-reshape', 'surface/volume least_square_fit with the flat-matrix layout reshapes with the number of basis functions instead of evaluation points: ValueError when over-determined', False, {'call': 'sf.least_square_fit(x.reshape(-1,2),[b1,b2],u)'})
f('C14', 'volume-loft-two-sections', 'volume_factory.loft with two surfaces calls surface_factory.edge_curves on surfaces: ValueError', False, {'call': 'vf.loft(Surface(), Surface()+[0,0,1])'})

f('C06', 'reverse-periodic-flip-only', 'reverse() on a periodic direction only flips the control points; the required roll by k+1 is missing, so the evaluated map changes', False, {'call': 'Curve(BSplineBasis(2,[-1,0,1,2,3],0),[[0],[1]],raw=True).reverse()'})
f('C06', 'swap-curve-returns-none', 'swap() on a curve returns None instead of the receiver', False, {'call': 'Curve().swap()'})
f('C06', 'reparam-tiny-interval-absolute-knot-tolerance', 'reparam to an interval of width <= ~1e-9 breaks evaluation: parameters are snapped with the absolute knot_tolerance 1e-10', False, {'call': 'Curve().reparam((0, 2**-34))'})

f('C05', 'periodic-lower-order-nameerror', 'BSplineBasis.lower_order on a periodic basis raises NameError (knot_spans undefined); lower_order is therefore not a left inverse of raise_order on periodic objects', False, {'call': 'BSplineBasis(3,[-1,0,0,1,2,2,3],0).raise_order(1).lower_order(1)'})
f('C05', 'curve-raise-order-zero-returns-none', 'Curve.raise_order(0) / set_order(same) returns None instead of the receiver', False, {'call': 'Curve().raise_order(0)'})
f('C05', 'order1-direction-greville-zerodivision', 'raise_order on an object with an order-1 direction raises ZeroDivisionError (greville() divides by p-1 = 0 even for untouched directions)', False, {'call': 'Surface(BSplineBasis(1,[0,1]),BSplineBasis(2),[[[0.,0.],[1.,1.]]],raw=True).raise_order(0,1)'})
f('C05', 'lower-order-to-constants-rejected', 'lower_order refuses to return to order 1: not a left inverse of raise_order on order-1 objects', False, {'call': 'Curve(BSplineBasis(1,[0,1]),[[1.,2.]]).raise_order(1).lower_order(1)'})
f('C05', 'curve-dimension1-controlpoints-flattened', 'Curve.raise_order on a 1-D curve: spsolve returns a 1-D array, controlpoints lose their last axis (pardim becomes 0)', True, {'call': 'c=Curve(BSplineBasis(2),[[1.],[2.]]); c.raise_order(1); c.controlpoints.shape'})

f('C07', 'split-periodic-small-basis', 'split on a periodic direction with n < p+k functions gives wrong domain/values or IndexError (periodic insert_knot defect, see C04)', False, {'call': 'Curve(BSplineBasis(3,[-2,-1,0,1,2,3,4],1),[[0,0],[1,2]],raw=True).split(0.5)'})
f('C07', 'split-periodic-first-point-outside-base-period', 'split of a periodic direction at a first point outside [start,end): continuity/insert_knot wrap the value but bisect_left uses it raw (garbage, ValueError or IndexError)', False, {'call': 'c.split(0.0) with periodic domain [1,5]'})
f('C07', 'append-order-1-pieces', 'Curve.append of order-1 pieces drops a control point that is not shared', False, {'call': 'c=Curve(BSplineBasis(1,[0,1,2,3]),[[1,0],[2,0],[3,0]]); ps=c.split(1.0); ps[0].append(ps[1])'})
f('C07', 'append-at-discontinuous-knot', 'split at a knot of multiplicity >= p followed by append does not reproduce the (discontinuous) original', False, {'call': 'BSplineBasis(2,[0,0,1,1,2,2]) curve split at 1 and appended'})
f('C07', 'subdivide-periodic-direction-without-split', 'refinement.subdivide on a periodic direction with n=0 raises IndexError', False, {'call': 'subdivide([periodic curve], 0)'})
f('C07', 'subdivide-periodic-direction-single-split', 'refinement.subdivide on a periodic direction with one split point: split returns a single object, indexing it fails', True, {'call': 'subdivide([periodic curve], 1)'})
f('C07', 'subdivide-periodic-direction', 'refinement.subdivide on a periodic direction whose split point is the domain end raises IndexError (periodic insert_knot(end))', False, {'call': 'subdivide([periodic surface p=4], 3)'})

f('C08', 'make-periodic-weights-continuity>=2', 'make_periodic(split(c, start), k) does not give back the control points of c for continuity k >= 2 (intermediate merge weights are wrong)', False, {'call': 'Curve(BSplineBasis(4,range(-3,10),2),[[0],[1],[4],[9],[16],[25]],raw=True).split(0).make_periodic(2)'})
f('C08', 'periodic-insert-small-basis', 'split / lower_periodic / round trip on periodic bases with n < p+k give wrong geometry or NaN (periodic insert_knot defect, see C04)', False, {'call': 'Curve(BSplineBasis(2,[-1,0,1,2],0),[[1,-1.5,1.25,1.25]],rational=True,raw=True).lower_periodic(-1)'})
f('C08', 'constructor-accepts-non-periodic-knot-vector', 'the constructor checks only p+k-1 spacings and not the seam multiplicity: accepted periodic vectors that are not periodic/continuous at the seam', False, {'call': 'Curve(BSplineBasis(3,[-1,0,1,2,3,4,5],0),[[0,0],[1,0],[0,1]])'})

f('C16', 'torsion-scalar-branch-uses-acceleration', 'Curve.torsion with scalar input uses dot(w, a) (always 0) instead of dot(w, da)', True, {'call': 'Curve(BSplineBasis(4),[[0,0,0],[1/3,0,0],[2/3,1/3,0],[1,1,1]]).torsion(0.5)'})
f('C16', 'rational-curve-one-element-list-derivative-squeezed', 'rational Curve.derivative([t], d=2|3) squeezes a one-element list to shape (dim,): torsion/binormal/normal on [t] give garbage or IndexError', True, {'call': 'rational cubic .torsion([0.3])'})
f('C16', 'integrate-periodic-collapse-single-fold', 'BSplineBasis.integrate folds periodic images only once: wrong integrals (and centre) when num_functions < periodic+1', True, {'call': 'BSplineBasis(3,[-2,-1,0,1,2,3],1).integrate(0,1)'})

f('C12', 'periodic-rounded-ghost-knots-out-of-range', 'make_splines_identical on a periodic curve with non-dyadic knot placement: after reparam/lower_periodic the end is 1+8e-15 and continuity() raises ValueError (out of range)', False, {'call': 'kn=[0.1*t+7.0 for t in [-.25,0,.125,.25,.75,1,1.125]]; make_splines_identical(Curve(BSplineBasis(2,kn,0),4 cps), Curve())'})
f('C12', 'knots-straddling-tolerance-window', 'two knots of one object more than tol apart but both within the tolerance window of one knot of the other: no insertion, knot vectors end up different', False, {'call': 'd=2**-34; knots [0,0,0,.5,1,1,1] vs [0,0,0,.5-d,.5+d,1,1,1]'})
f('C12', 'periodic-small-basis-geometry', 'make_splines_identical with a periodic basis of n < p+k functions: wrong map/domain or ValueError (periodic insert_knot defect, see C04)', False, {'call': 'BSplineBasis(2,[-1,0,1,2],0) curve against an open partner'})
f('C12', 'periodic-insert-small-basis', 'make_splines_identical lowering the periodicity of a small periodic basis (n < p+k): wrong geometry (see C08)', False, {'call': 'small periodic partner'})
f('C12', 'order1-direction-greville-zerodivision', 'make_splines_identical on objects with an order-1 direction and differing orders elsewhere raises ZeroDivisionError (see C05)', False, {'call': 'surface with an order-1 direction'})

f('C18', 'numbering-ignores-edge-and-corner-contact', 'global control-point numbering reads numbers only through codimension-1 sections: patches meeting (at the time they are added) only in an edge or corner get duplicate numbers for shared points', False, {'call': 'SplineModel(3,3,[Volume(), Volume()+(1,1,0)]) -> 16 numbers for 14 points'})
f('C18', 'numbering-self-connected-seam', 'a self-connected patch (closed ring added as one patch) owns both copies of its seam: seam points numbered twice; faces() raises', False, {'call': 'ring surface added as a single patch'})
f('C18', 'cps-rational-valueerror', 'SplineModel.cps() raises ValueError for rational patches (reshape(-1, dimension) on dimension+1 components)', False, {'call': 'SplineModel with a rational patch; m.generate_cp_numbers(); m.cps()'})
f('C18', 'openfoam-boundary-count-without-internal-faces', 'OpenFOAM.write declares len(set(names))-1 boundary patches: one too few when the mesh has no internal faces', False, {'call': 'single cube with named faces written with OpenFOAM'})
f('C11', 'nutils-patch-mutates-operands', 'poisson_patch/elasticity_patch/finitestrain_patch reversed and re-discretised their operand curves in place (found by the source-derived effect analysis; needs nutils to run)', True, {'call': 'surface_factory.poisson_patch(b,r,t,l)'})

f('C13', 'three-point-arc-half-turn-accuracy', 'circle_segment_from_three_points computed the opening angle with arccos: near half turns only sqrt(eps) accurate, arc ended ~5e-8 from x2', True, {'call': 'circle_segment_from_three_points([1.5,-2.75],[3.5,-0.75],[-0.75,3.5])'})

f('C10', 'make-periodic-short-direction-shape-mismatch', 'make_periodic on a direction with fewer than order+continuity functions returns an object whose control-net shape does not match its basis (evaluation raises)', False, {'call': 'Curve(BSplineBasis(5,[0,0,0,0,0,1,2,3,3,3,3,3]),np.arange(14.).reshape(7,2)).make_periodic(3)'})
f('C10', 'curve-raise-order-singular-nan', 'raise_order on a curve with an interior knot of multiplicity >= order (or end knots one ulp apart) returns NaN control points (singular collocation, only a MatrixRankWarning)', True, {'call': 'Curve(BSplineBasis(2,[0,0,1,1,2,2]),[[0,0],[1,0],[1,1],[2,1]]).raise_order(1)'})
f('C10', 'lower-order-nonpositive-weights', 'lower_order on a rational object can return non-positive weights', False, {'call': 'Curve(BSplineBasis(4),[[0,0,3],[.5,.5,.5],[2,0,1],[6,2,2]],rational=True,raw=True).lower_order(1)'})
f('C10', 'constructor-accepts-non-periodic-knot-vector', 'the constructor checks only p+k-1 spacings and not the seam multiplicity: accepts periodic vectors that are not Valid (see C08)', False, {'call': 'BSplineBasis(3,[-1,0,1,2,3,4,5],0)'})

f('C07', 'split-periodic-point-at-end', 'split in a periodic direction with a later split point equal to end(): the insertion loop calls periodic insert_knot(end), IndexError when the seam multiplicity p-1-k is >= 2 (see C04 periodic-insert-end-indexerror)', False, {'call': 'Curve(BSplineBasis(3,[-1,0,0,1,2,3,3,4],0),[[0,0],[1,0],[1,1],[0,1]],raw=True).split([1.0,3.0])'})

f('C10', 'periodic-small-basis-structure', 'periodic insert_knot on the very smallest bases (n = 1, or n = 2 for p=5,k=2) yields a structurally invalid object: a zero weight / lost knot with ghost knots not repeating the interior spacing', False, {'call': 'Curve(BSplineBasis(2,[-1,0,1,2],0),[[1,2,1.5]],rational=True,raw=True).insert_knot(0.0)'})

f('C08', 'make-periodic-short-direction', 'split(start)+make_periodic(k) on a periodic direction with n < p+k functions: make_periodic of the short open object raises ValueError (too few elements / mis-matching) or returns other control points (split itself is correct since b253cc6; cf. C10 make-periodic-short-direction-shape-mismatch)', False, {'call': 'c=Curve(BSplineBasis(3,[-5.5,-4,-2.5,-1,0.5,2],1),[[-.25,.25]]); c.split(c.start(0)).make_periodic(1)'})
f('C10', 'constructor-indexerror-short-periodic', 'BSplineBasis constructor raises IndexError instead of ValueError for periodic knot vectors with len(knots) < order+periodic+1 (the periodic comparison loop indexes before the array)', False, {'call': 'BSplineBasis(2,[0,0,1,1],5)'})

f('C13', 'three-point-arc-small-radius-absolute-tolerance', 'circle_segment_from_three_points decided the long/short arc by comparing normal components with the ABSOLUTE controlpoint tolerance: for radii below ~1e-4 the long-arc branch was never taken and the arc ended ~2r from x2', True, {'call': 'points at angles 0, 2.5, 4.5 on a circle of radius 5e-5'})
f('C13', 'center-within-1e-8-of-origin-ignored', 'flip_and_move_plane_geometry skips the translation when np.allclose(center, 0) (absolute 1e-8): primitives of size ~1e-9 with a centre of that size are left at the origin', False, {'call': 'curve_factory.circle(r=1e-9, center=(5e-9,0,0))(0) -> (1e-9, 0) instead of (6e-9, 0)'})

f('C14', 'loft-periodic-rounded-knots-out-of-range', 'loft of sections that include periodic curves with non-dyadic knot placement raises ValueError (out of range) inside make_splines_identical: after reparam/lower_periodic a knot is 1+1ulp and BSplineBasis.continuity rejects it without tolerance (same root cause as C12 periodic-rounded-ghost-knots-out-of-range)', False, {'call': 'surface_factory.loft(six curves, two of them Curve(BSplineBasis(3,[0,1,3,4,6,7,9],1), 2 cps)) -- replay spec in DESIGN §15'})

f('C10', 'constructor-accepts-tolerance-inversion-evaluate-segfault', 'BSplineBasis accepted knot vectors with decreases inside knot_tolerance and roll/make_periodic produced them by rounding; the compiled evaluator bisects the unsorted vector and reads outside its arrays (interpreter crash)', True, {'call': 'BSplineBasis(3,[0,5.551115123125783e-17,0,0.5,1,1,1]).evaluate(0.0)'})

f('C13', 'signed-zero-normal-half-turn', 'rotate_local_x_axis took atan2(normal[1], normal[0]) = pi for a normal (-0., 0., 1.) (what np.cross gives for 2-D three-point input) while flip_and_move skipped the forward rotation: placed arcs/circles/ellipses/spheres/cylinders started half a turn off (found by the thorough tier)', True, {'call': 'circle_segment_from_three_points([-1,3.5],[1,4],[-2,3.75])'})

FIXED_COMMITS = {('C14', 'manipulate-acceleration-averaged-with-d1'): 'f7dae26', ('C13', 'signed-zero-normal-half-turn'): '3b9bc69', ('C10', 'constructor-accepts-tolerance-inversion-evaluate-segfault'): 'dd9406d', ('C10', 'constructor-indexerror-short-periodic'): '2fd5054', ('C12', 'periodic-rounded-ghost-knots-out-of-range'): '6ceb42c', ('C14', 'loft-periodic-rounded-knots-out-of-range'): '6ceb42c', ('C13', 'three-point-arc-small-radius-absolute-tolerance'): '0a30caf', ('C04', 'periodic-insert-end-indexerror'): '482ca58', ('C04', 'periodic-small-basis-geometry'): 'b253cc6', ('C07', 'split-periodic-small-basis'): 'b253cc6', ('C07', 'split-periodic-point-at-end'): '482ca58', ('C07', 'subdivide-periodic-direction'): '482ca58', ('C08', 'periodic-insert-small-basis'): 'b253cc6', ('C10', 'periodic-small-basis-structure'): 'b253cc6', ('C12', 'periodic-small-basis-geometry'): 'b253cc6', ('C12', 'periodic-insert-small-basis'): 'b253cc6', ('C15', 'const-par-curve-periodic-few-functions'): 'b253cc6', ('C15', 'const-par-curve-periodic-end'): '2c81ce6', ('C19', 'periodic-seam-split'): '482ca58+b253cc6', ('C02', 'curve-evaluate-rejects-tensor-keyword'): '3ae9973', ('C03', 'rational-surface-d-not-tuple-returns-zeros'): 'cd5762c', ('C03', 'rational-derivative-order-zero-returns-zero'): '9f6e350', ('C03', 'rational-closed-form-ignores-above-list'): 'ea90458+cd5762c', ('C03', 'rational-left-limit-at-discontinuity'): '9f6e350+ea90458', ('C05', 'curve-raise-order-zero-returns-none'): '6ca09d8', ('C05', 'curve-dimension1-controlpoints-flattened'): '2d51429', ('C06', 'reverse-periodic-flip-only'): '4fe14f6', ('C06', 'swap-curve-returns-none'): '4f754a8', ('C09', 'infix-truediv-undefined'): '6773409', ('C11', 'extrude-mutates-operand'): 'c412e04', ('C11', 'section-point-view'): 'bb6c762', ('C11', 'swap-curve-returns-none'): '4f754a8', ('C11', 'curve-raise-order-0-returns-none'): '6ca09d8', ('C11', 'coons-patch-reverses-operands'): '9b346de', ('C13', 'three-point-arc-wrong-end'): 'b23deeb', ('C13', 'three-point-arc-nan-half-turn'): 'b0aae77', ('C13', 'arc-2pi-ignores-xaxis'): 'cf8223f', ('C13', 'cylinder-height-scaled-by-axis-norm'): '1445103', ('C14', 'manipulate-getargspec'): 'e2f7e0b', ('C14', 'lsq-flat-layout-reshape'): '3534aae', ('C14', 'volume-loft-two-sections'): 'f8de1df', ('C16', 'torsion-scalar-branch-uses-acceleration'): '274e74a', ('C16', 'rational-curve-one-element-list-derivative-squeezed'): 'ea90458', ('C16', 'integrate-periodic-collapse-single-fold'): 'fc5b45b', ('C17', 'nodeview-section-wrong-frame'): '8e83d07', ('C19', 'stl-2d-surface-resize'): '932700c', ('C19', 'g2-reversed-periodic-primitive'): '4fe14f6', ('C20', 'state-not-restored-on-exception'): 'cc29465', ('C20', 'g2-bounded-surface-writes-state'): '18d24da', ('C20', 'splinemodel-vertex-tolerance-not-from-state'): '580c3fa', ('C11', 'nutils-patch-mutates-operands'): 'a44d46f', ('C13', 'three-point-arc-half-turn-accuracy'): '3370f0f', ('C18', 'openfoam-boundary-count-without-internal-faces'): '7181bd9'}
FIXED = []
if __name__ == '__main__':
    p = os.path.join(os.path.dirname(os.path.dirname(os.path.abspath(__file__))), 'known_findings.json')
    keep = []
    for e in F:
        c = FIXED_COMMITS.get((e['property'], e['class']))
        if c:
            FIXED.append('fixed: property=%s %s %s [%s]' % (e['property'], c, e['what'], e['class']))
        else:
            keep.append(e)
    F[:] = keep
    json.dump({'findings': F, 'fixed': FIXED}, open(p, 'w'), indent=1)
    print(len(F), 'findings,', len(FIXED), 'fixed')
    # tables of record inside DESIGN.md section 15 (between the FINDINGS markers)
    dm = os.path.join(os.path.dirname(p), 'DESIGN.md')
    txt = open(dm).read()
    B, E = '<!-- FINDINGS-BEGIN -->', '<!-- FINDINGS-END -->'
    if B in txt and E in txt:
        import subprocess
        log = subprocess.run(['git', '-C', '/repo', 'log', '--format=%h %s'], stdout=subprocess.PIPE, text=True).stdout.splitlines()
        subj = {l.split()[0]: l.split(' ', 1)[1] for l in log if ' fix:' in ' ' + l}
        rows = ['**Repaired in `/repo`** (%d `fix:` commits, each unguarded and minimal; the pinned suite — 539 tests — passes on HEAD):' % len(subj), '',
                '| property | class | what failed | commit(s) |', '|--|--|--|--|']
        for line in FIXED:
            # fixed: property=C02 3ae9973 what [class]
            head, rest = line.split(' ', 2)[1:3] if False else (None, None)
            parts = line.split(' ', 3)
            prop = parts[1].split('=')[1]; commit = parts[2]; what, cls = parts[3].rsplit(' [', 1)
            rows.append('| %s | `%s` | %s | %s |' % (prop, cls.rstrip(']'), what.replace('|', '/'), commit))
        rows += ['', 'Commit subjects: ' + '; '.join('`%s` %s' % (h, t[5:].strip()[:90]) for h, t in subj.items()), '',
                 '**Still listed as known findings** (%d (property, class) rows - a class that affects two properties is listed under both; each is reported as a `KNOWN-FINDING:` line when a run hits it; a failure outside these classes is a VIOLATION):' % len(F), '',
                 '| property | class | what fails | reproducer |', '|--|--|--|--|']
        for e in sorted(F, key=lambda e: (e['property'], e['class'])):
            rp = e.get('replay') or {}
            rows.append('| %s | `%s` | %s | `%s` |' % (e['property'], e['class'], e['what'].replace('|', '/'), str(rp.get('call', ''))[:160].replace('|', '/').replace('`', "'")))
        txt = txt[:txt.index(B) + len(B)] + '\n' + '\n'.join(rows) + '\n' + txt[txt.index(E):]
        open(dm, 'w').write(txt)
