#!/venv/bin/python
"""Writes docs/SEEDED.md from seeded/*/meta.json and seeded/RESULTS.json."""
import json, os
V = os.path.dirname(os.path.dirname(os.path.abspath(__file__)))
res = json.load(open(os.path.join(V, 'seeded', 'RESULTS.json'))) if os.path.exists(os.path.join(V, 'seeded', 'RESULTS.json')) else {}
rows = ['# Seeded property-breaking changes and which checks catch them',
        '',
        'Each change was written by an independent worker that saw only the property text and a scratch worktree of /repo,',
        'passes the pinned test-suite (539 tests) and comes with a demonstration that fails with it and passes without it.',
        'Results below are from `harness/seeded_run.py` (patch applied to a scratch worktree; check run with VERIF_REPO pointing there).',
        '',
        '| change | property | what it changes | needs to manifest | caught by | how |',
        '|--|--|--|--|--|--|']
for n in sorted(os.listdir(os.path.join(V, 'seeded'))):
    d = os.path.join(V, 'seeded', n)
    if not os.path.isdir(d):
        continue
    m = json.load(open(os.path.join(d, 'meta.json')))
    r = res.get(n, {})
    caught = [p for p, c in r.get('checks', {}).items() if c.get('exit') == 1]
    how = 'failing input' if r.get('detected_with_failing_input') else ('no-failing-input-found' if r.get('detected') else ('NOT RUN' if not r else 'MISSED'))
    rows.append('| %s | %s | %s | %s | %s | %s |' % (n, m.get('property'), str(m.get('summary', ''))[:260].replace('|', '/').replace('\n', ' '),
                                                   str(m.get('needs', ''))[:220].replace('|', '/').replace('\n', ' '), ', '.join(caught) or '-', how))
open(os.path.join(V, 'docs', 'SEEDED.md'), 'w').write('\n'.join(rows) + '\n')
print(len(rows) - 8, 'changes')

# --- compact table inside DESIGN.md (between the SEEDED markers of section 17) ---
STRENGTHENED = {
    'C14_1': 'fit() cases with binding tolerances and an oracle on Curve.error over all spans',
    'C02_2': 'objects with equal weights != 1 in every calling form',
    'C04_2': 'geometric_refine(reverse=True) on periodic directions',
    'C15_2': 'two-curve edge_curves with equal order/size but different knots',
    'C16_1': 'explicit sub-interval bounds equal to 0',
    'C16_2': 'non-open (unclamped) bases in center()',
    'C08_2': 'from-left evaluation at points wrapped onto the seam from outside (C08); C01 caught it from the start',
    'C10_1': 'small periodic bases with insertion index in the overlap of both ghost regions',
    'C01_3': 'several points in one evaluate call, unsorted (the pyx translator caught it from the start)',
    'C02_3': 'mixed scalar/list parameter forms',
    'C18_3': 'patches with repeated interior knots',
    'C03_3': 'multi-step histories: query, in-place op, query again (get_derivative_spline, derivative, tangent)',
    'C12_3': 'volumes periodic in the third direction with 1-3 lowering levels, square and non-square nets',
    'C01_4': '=caught by the pyx translator obligation only (no failing input); generator then extended: bases placed far from the origin (|knots| >= 2^21)',
    'C02_4': 'several evaluation calls on ONE object, checked against the object as built, control points compared bit-for-bit; rational objects with end weights != 1',
    'C01_7': '=caught by the pyx translator obligation only (no failing input); generator then extended: non-open knot vectors with arbitrary multiplicities, in particular the domain-end knot repeated inside the function range; library exceptions inside an oracle experiment count as failing inputs when model and implementation disagree',
    'C02_7': '=caught by the source translator obligation only (no failing input); generator then extended: affinely related bases in two directions evaluated with the SAME list/array object for both',
    'C07_8': 'caught by C04, C10 and C11 from the start; C07 itself then extended: objects built from ONE basis instance (raw constructor, factory ball) split in one direction, and sibling pieces re-checked after an in-place op on one piece',
    'C12_8': 'caught by C04, C10 and C11 from the start; C12 itself then extended: one partner built from ONE basis instance (raw, clone, exact scaling), all direction arguments',
    'C13_8': 'caught by C09 (translator) from the start; C13 itself then extended: the same list object for two arguments / reused across calls, tuple and (int) ndarray arguments, caller arguments compared afterwards',
    'C14_8': 'caught by C08, C10 and C12 from the start; C14 itself then extended: volume loft of surface sections periodic in v (and u) with mixed periodic continuity, periodic vs open',
    'C19_8': '=not a C19 check (sub-tolerance knot spans are collapsed by the constructor before any file is written); caught by C10: first through the translator obligation only, then with failing inputs after accepted vectors with positive spans below the tolerance were added',
    'C05_9': '=caught, but without a failing input (translator obligation for BSplineBasis.raise_order only); generator then extended: bases whose repeated interior knot has copies one ulp apart (round-off twins), with a tolerance-aware comparison of the lowered knot vector for exactly those cases',
    'C17_9': '=the check crashed (exit 2, no verdict): the mutated Orientation.compute raised a numpy broadcast ValueError under BSplineBasis.matches; the harness now attributes exceptions to the innermost library-or-harness frame (third-party frames skipped) and the C17 oracle reports any exception other than OrientationError from Orientation.compute as a failing input',
    'C08_9': '=MISSED by C08\'s own check, caught by C04 (it is the same source change as C04_9, found independently): periodic insert_knot guard `n < p + k` narrowed to `n < p`; at the seam the wrong branch misbehaves only through round-off (interior knot 0.37: opened domain collapses; dyadic knots and a 1/100 grid: no effect). The C08 generator was extended to every size p-1 <= n <= p+k and to non-dyadic copies, which did not expose it; not pursued further for lack of time',
    'C16_3': '=caught, but without a failing input; oracle then extended: volumes with mixed orders (p,q,p) and full-degree nets; independent high-order quadrature oracle',
}
dm = os.path.join(V, 'DESIGN.md')
txt = open(dm).read()
B, E = '<!-- SEEDED-BEGIN -->', '<!-- SEEDED-END -->'
if B in txt and E in txt:
    t = ['| change | site changed | caught by | decided by | first run |', '|--|--|--|--|--|']
    nd = nf = nm = 0
    for n in sorted(os.listdir(os.path.join(V, 'seeded'))):
        d = os.path.join(V, 'seeded', n)
        if not os.path.isdir(d):
            continue
        m = json.load(open(os.path.join(d, 'meta.json')))
        r = res.get(n, {})
        caught = [p_ for p_, c in r.get('checks', {}).items() if c.get('exit') == 1]
        if r.get('detected_with_failing_input'):
            how = 'oracle: failing input on the real code'; nf += 1
        elif r.get('detected'):
            how = 'correspondence/obligation broke, no-failing-input-found'; nd += 1
        else:
            how = 'MISSED' if r else 'not run'; nm += 1
        files = m.get('files_touched') or []
        if isinstance(files, str):
            files = [files]
        site = ', '.join(os.path.basename(str(f)) for f in files)[:60]
        first = (STRENGTHENED[n][1:] if STRENGTHENED[n].startswith('=') else 'missed; caught after adding: ' + STRENGTHENED[n]) if n in STRENGTHENED else 'caught'
        t.append('| %s | %s | %s | %s | %s |' % (n, site, ', '.join(caught) or '-', how, first))
    t.append('')
    t.append('Totals: %d changes; %d caught with a failing input, %d caught without one, %d missed.' % (nf + nd + nm, nf, nd, nm))
    txt = txt[:txt.index(B) + len(B)] + '\n' + '\n'.join(t) + '\n' + txt[txt.index(E):]
    open(dm, 'w').write(txt)

