#!/venv/bin/python
"""Writes docs/SEEDED.md from seeded/*/meta.json and seeded/RESULTS.json."""
import json, os
V = os.path.dirname(os.path.dirname(os.path.abspath(__file__)))
res = json.load(open(os.path.join(V, 'seeded', 'RESULTS.json'))) if os.path.exists(os.path.join(V, 'seeded', 'RESULTS.json')) else {}
rows = ['# Seeded property-breaking changes and which checks catch them',
        '',
        'Each change was written by an independent worker that saw only the property text and a scratch worktree of /repo,',
        'passes the pinned test-suite (539 tests) and comes with a demonstration that fails with it and passes without it.',
        'Results below are from `harness/seeded_run.py` (patch applied to a scratch worktree; check run with VERIF_REPO pointing there).',
        '',
        '| change | property | what it changes | needs to manifest | caught by | how |',
        '|--|--|--|--|--|--|']
for n in sorted(os.listdir(os.path.join(V, 'seeded'))):
    d = os.path.join(V, 'seeded', n)
    if not os.path.isdir(d):
        continue
    m = json.load(open(os.path.join(d, 'meta.json')))
    r = res.get(n, {})
    caught = [p for p, c in r.get('checks', {}).items() if c.get('exit') == 1]
    how = 'failing input' if r.get('detected_with_failing_input') else ('no-failing-input-found' if r.get('detected') else ('NOT RUN' if not r else 'MISSED'))
    rows.append('| %s | %s | %s | %s | %s | %s |' % (n, m.get('property'), str(m.get('summary', ''))[:260].replace('|', '/').replace('\n', ' '),
                                                   str(m.get('needs', ''))[:220].replace('|', '/').replace('\n', ' '), ', '.join(caught) or '-', how))
open(os.path.join(V, 'docs', 'SEEDED.md'), 'w').write('\n'.join(rows) + '\n')
print(len(rows) - 8, 'changes')
