#!/opt/veriftools/pyvenv/bin/python
"""Validate MANIFEST.json and every evidence/<id>.json against the given schemas (run before committing)."""
import json, os, sys
import jsonschema
V = os.path.dirname(os.path.dirname(os.path.abspath(__file__)))
bad = 0
m = json.load(open(os.path.join(V, 'MANIFEST.json')))
jsonschema.validate(m, json.load(open('/root/.vp/MANIFEST.schema.json')))
es = json.load(open('/root/.vp/EVIDENCE.schema.json'))
for c in m['checks']:
    p = os.path.join(V, c['evidence_file'])
    try:
        e = json.load(open(p))
        jsonschema.validate(e, es)
        cov = e['coverage']
        assert e['property_id'] == c['property_id']
        assert cov['obligations'] >= 1 and cov['obligations'] == cov['discharged'], (cov['obligations'], cov['discharged'])
        assert not cov.get('failed_obligations'), cov.get('failed_obligations')
        assert e.get('violations', 0) == 0
        print(c['property_id'], 'ok', cov['obligations'], e.get('tier'), 'seed', e.get('seed'))
    except Exception as ex:  # noqa: BLE001
        bad += 1
        print(c['property_id'], 'INVALID', repr(ex)[:300])
sys.exit(1 if bad else 0)
