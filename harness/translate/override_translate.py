"""AST -> Lean translator for the `Curve` / `Surface` OVERRIDES of `SplineObject` methods (work package t4).

`translate(sources)` compiles, statement by statement, the bodies of

* `splipy/curve.py::Curve.evaluate`, `Curve.derivative` (dispatch + the rational closed forms for d = 2, 3),
* `splipy/surface.py::Surface.derivative` (dispatch + the closed forms of total order 2 and 3),
  `Surface.const_par_curve`

into Lean definitions (`lean/Splipy/Generated/PyOverride.lean`) in the `PyM` monad over the numpy / Python
primitives of `lean/Splipy/Lemmas/PyObjectLib.lean` (work package t3) and the few additional ones of
`lean/Splipy/Lemmas/PyOverrideLib.lean`.  `lean/Splipy/Lemmas/PyOverrideEq.lean` proves the generated definitions
equal to the hand model (`Model/Object.lean`: `curveDerivativeRational`, `surfaceDerivativeRational`;
`Model/DerivSpline.lean`: the dispatch; `Model/Sections.lean`: `constParCurve`).

The statement / control-flow / expression machinery is the one of `object_translate.OFn` (t3), subclassed here
(`VFn`); this module adds what the overrides use: keyword-only parameters, `super(C, self).m(..)`, statically decided
`is_singleton(x)` on a statically typed argument, column / row indexing of 2-d and 3-d arrays, element-wise
arithmetic on arrays, `N @ controlpoints`, `np.zeros(shape)`, `np.sum` of an int tuple, comparison of int tuples.

Idealisations (repeated in every obligation): those of t3 (BSplineBasis methods = hand model, `utils.is_singleton` /
`ensure_listlike` = primitives, numpy shape-mismatch errors not modelled) and
* a `scipy.sparse` matrix returned by `basis.evaluate(.., sparse=True)` is its dense matrix (`N @ cps` is the same array);
* `super(C, self).m(..)` is the translated `SplineObject.m` of t3 (`Generated.PyObject.m`); an int / bool forwarded to
  its `d=` / `above=` keyword is forwarded as the one-element list (the callee pads by repetition either way);
* every method is translated for FIXED spellings of its polymorphic arguments (`SIGS`: e.g. `d` an int, `above` a
  bool for `Curve.derivative`; the `_seq` keys are the sequence spellings).
"""
import ast
import hashlib
import re

from . import basis_translate as B
from . import object_translate as O
from .basis_translate import Untranslatable, _NameErrorAt, NODEFAULT

FLOATS = O.FLOATS
LISTS = O.LISTS
ELEM = O.ELEM
LEAN_TYPE = dict(O.LEAN_TYPE)
LEAN_TYPE['optint'] = 'Option Int'

# ---------------------------------------------------------------------------------------------------
# interface table (see object_translate.SIGS).  `cls`: the class, `file`: source file key;
# `kwonly`: keyword-only parameters (name, type, default).

SIGS = {
    'Curve.evaluate': {'cls': 'Curve', 'file': 'curve', 'py': 'evaluate', 'lean': 'Curve_evaluate', 'kind': 'method',
                       'params': [], 'vararg': ('params', 'paramlist'), 'kwonly': [('tensor', 'boolv', True)],
                       'ret': 'tensor', 'mut': None},
    'Curve.derivative': {'cls': 'Curve', 'file': 'curve', 'py': 'derivative', 'lean': 'Curve_derivative', 'kind': 'method',
                         'params': [('t', 'param', NODEFAULT), ('d', 'int', 1), ('above', 'boolv', True),
                                    ('tensor', 'boolv', True)],
                         'ret': 'tensor', 'mut': None},
    'Curve.derivative_seq': {'cls': 'Curve', 'file': 'curve', 'py': 'derivative', 'lean': 'Curve_derivative_seq',
                             'kind': 'method',
                             'params': [('t', 'param', NODEFAULT), ('d', 'ilist', 1), ('above', 'blist', True),
                                        ('tensor', 'boolv', True)],
                             'ret': 'tensor', 'mut': None},
    'Surface.derivative': {'cls': 'Surface', 'file': 'surface', 'py': 'derivative', 'lean': 'Surface_derivative',
                           'kind': 'method',
                           'params': [('u', 'param', NODEFAULT), ('v', 'param', NODEFAULT), ('d', 'ilist', (1, 1)),
                                      ('above', 'boolv', True), ('tensor', 'boolv', True)],
                           'ret': 'tensor', 'mut': None},
    'Surface.derivative_seq': {'cls': 'Surface', 'file': 'surface', 'py': 'derivative', 'lean': 'Surface_derivative_seq',
                               'kind': 'method',
                               'params': [('u', 'param', NODEFAULT), ('v', 'param', NODEFAULT), ('d', 'ilist', (1, 1)),
                                          ('above', 'blist', True), ('tensor', 'boolv', True)],
                               'ret': 'tensor', 'mut': None},
    'Surface.const_par_curve': {'cls': 'Surface', 'file': 'surface', 'py': 'const_par_curve', 'lean': 'Surface_const_par_curve',
                                'kind': 'method', 'params': [('knot', 'npf', NODEFAULT), ('direction', 'dir', NODEFAULT)],
                                'ret': 'self', 'mut': None},
}
ORDER = ['Curve.evaluate', 'Curve.derivative', 'Curve.derivative_seq', 'Surface.derivative', 'Surface.derivative_seq',
         'Surface.const_par_curve']

FILES = {'curve': 'curve.py', 'surface': 'surface.py'}
BASES = {'Curve': 'SplineObject', 'Surface': 'SplineObject'}
# module-level bindings the bodies rely on: file -> {name: how it must be bound}
MODULE_ENV = {
    'curve': {'np': ('import', 'numpy'), 'SplineObject': ('from', '.splineobject', 'SplineObject'),
              'ensure_listlike': ('from', '.utils', 'ensure_listlike'), 'is_singleton': ('from', '.utils', 'is_singleton'),
              'bisect_left': ('from', 'bisect', 'bisect_left')},
    'surface': {'np': ('import', 'numpy'), 'SplineObject': ('from', '.splineobject', 'SplineObject'),
                'evaluate': ('from', '.splineobject', 'evaluate'), 'Curve': ('from', '.curve', 'Curve'),
                'ensure_listlike': ('from', '.utils', 'ensure_listlike'), 'is_singleton': ('from', '.utils', 'is_singleton'),
                'check_direction': ('from', '.utils', 'check_direction'), 'bisect_left': ('from', 'bisect', 'bisect_left')},
}
GLOBALS = set(O.GLOBALS) | {'super', 'Curve', 'Surface', 'bisect_left'}
IDEALISED = (O.IDEALISED + '; scipy.sparse result of basis.evaluate(sparse=True) = its dense matrix; super(C, self).m = '
             'translated SplineObject.m (t3); fixed spellings of polymorphic arguments (int d / bool above, `_seq` = sequences)')


# source pinned by the mapped forms `self.shape` (property of SplineObject) and `Curve(basis, cp, rational)`
PINNED_SRC = {
    ('object', 'SplineObject', 'shape'): 'def shape(self):\n    return self.controlpoints.shape[:-1]\n',
    ('curve', 'Curve', '__init__'): ('def __init__(self, basis=None, controlpoints=None, rational=False, **kwargs):\n'
                                     '    super(Curve, self).__init__([basis], controlpoints, rational, **kwargs)\n'),
}
PINNED_DIGEST = {k: O.fn_digest(ast.parse(v).body[0]) for k, v in PINNED_SRC.items()}


def py_name(key):
    return SIGS[key]['py'] if key in SIGS else O.py_name(key)


def lean_name(key):
    return SIGS[key]['lean'] if key in SIGS else 'PyObject.' + O.lean_name(key)


def _const(node, value):
    return isinstance(node, ast.Constant) and node.value == value and type(node.value) is type(value)


def _is_colon(node):
    return isinstance(node, ast.Slice) and node.lower is None and node.upper is None and node.step is None


class VFn(O.OFn):
    """One override method."""

    def __init__(self, key, node, floor_users):
        self.key = key
        self.node = node
        self.sig = SIGS[key]
        self.env = {}
        self.lines = []
        self.ntmp = 0
        self.uses_floor = False
        self.floor_users = floor_users
        self.calls = set()
        self.alias = {}
        self.prop_nodes = set()
        self.kw = {}
        self.is_method = True
        self.need_pinned = set()

    # ------------------------------------------------------------------------------------------ helpers
    def rollback(self, fn):
        """Run fn(); on NotImplemented restore the output state (emitted lines, temporaries)."""
        n, nt = len(self.lines), self.ntmp
        r = fn()
        if r is NotImplemented:
            del self.lines[n:]
            self.ntmp = nt
        return r

    def static_test(self, e):
        # `is_singleton(x)` on an argument whose spelling is fixed by the specialisation
        if isinstance(e, ast.UnaryOp) and isinstance(e.op, ast.Not):
            st = self.static_test(e.operand)
            return None if st is None else (not st)
        if (isinstance(e, ast.Call) and isinstance(e.func, ast.Name) and e.func.id == 'is_singleton'
                and 'is_singleton' not in self.env and len(e.args) == 1 and not e.keywords and isinstance(e.args[0], ast.Name)):
            ty = self.env.get(e.args[0].id)
            if ty in ('int', 'boolv', 'pyf', 'npf'):
                return True
            if ty in LISTS and ty != 'bases':
                return False
            return None
        return super().static_test(e)

    # -------------------------------------------------------------------------------------- expressions
    def ex0(self, ind, e):
        if isinstance(e, ast.UnaryOp) and isinstance(e.op, ast.Not):
            st = self.static_test(e)
            if st is not None:
                return ('True' if st else 'False'), 'bool'
        return super().ex0(ind, e)

    def seq_literal(self, ind, e):
        if e.elts and all(isinstance(x, ast.Constant) and type(x.value) is int for x in e.elts):
            return '([%s] : List Int)' % ', '.join('(%d : Int)' % x.value for x in e.elts), 'ilist'
        return super().seq_literal(ind, e)

    def compare(self, ind, e):
        if len(e.ops) == 1 and isinstance(e.ops[0], (ast.Eq, ast.NotEq)) and self.static_test(e) is None:
            def mine():
                a, ta = self.ex(ind, e.left)
                b, tb = self.ex(ind, e.comparators[0])
                if ta == tb == 'ilist':
                    # both are tuples in the code (`derivs = tuple(..)` against a tuple literal)
                    return ('(%s %s %s)' % (a, '=' if isinstance(e.ops[0], ast.Eq) else '≠', b)), 'bool'
                return NotImplemented
            r = self.rollback(mine)
            if r is not NotImplemented:
                return r
        return super().compare(ind, e)

    def binop(self, ind, e):
        op = type(e.op)

        def mine():
            a, ta = self.ex(ind, e.left)
            b, tb = self.ex(ind, e.right)
            scal = lambda t: t in ('int', 'boolv') or t in FLOATS      # noqa: E731
            if op is ast.MatMult and ta == 'mat' and tb == 'tensor':
                return self.bindm(ind, 'npMatmulMT %s %s' % (a, b)), 'tensor'
            if ta == tb == 'tensor' and op is ast.Add:
                return '(tAdd %s %s)' % (a, b), 'tensor'
            if scal(ta) and tb == 'tensor' and op is ast.Mult:
                return '(tSMul %s %s)' % (self.cast(a, ta), b), 'tensor'
            if ta == 'tensor' and scal(tb) and op is ast.Mult:
                return '(tSMul %s %s)' % (self.cast(b, tb), a), 'tensor'
            return NotImplemented
        if op is ast.Mod:
            def modi():
                a, ta = self.ex(ind, e.left)
                b, tb = self.ex(ind, e.right)
                if ta == tb == 'int':
                    return self.bindm(ind, 'pyModI %s %s' % (a, b)), 'int'
                return NotImplemented
            r = self.rollback(modi)
            if r is not NotImplemented:
                return r
        if op in (ast.MatMult, ast.Add, ast.Mult):
            r = self.rollback(mine)
            if r is not NotImplemented:
                return r
        return super().binop(ind, e)

    @staticmethod
    def last_axis_index(sl):
        """`[:, i]` / `[:, :, i]`: returns (number of axes, node of i), else None."""
        if isinstance(sl, ast.Tuple) and len(sl.elts) >= 2 and all(_is_colon(x) for x in sl.elts[:-1]) \
                and not isinstance(sl.elts[-1], ast.Slice):
            return len(sl.elts), sl.elts[-1]
        return None

    def subscript(self, ind, e):
        if not (isinstance(e.value, ast.Name) and e.value.id == 'kwargs'):
            la = self.last_axis_index(e.slice)
            row = (isinstance(e.slice, ast.Tuple) and len(e.slice.elts) == 2 and _is_colon(e.slice.elts[1])
                   and not isinstance(e.slice.elts[0], ast.Slice))
            if la is not None or row:
                def mine():
                    a, ta = self.ex(ind, e.value)
                    if ta == 'tensor' and la is not None:
                        i, ti = self.ex(ind, la[1])
                        if ti != 'int':
                            raise Untranslatable('component index of type %r' % ti)
                        return self.bindm(ind, 'getLastND %d %s %s' % (la[0], a, i)), 'tensor'
                    if ta == 'mat' and row:
                        i, ti = self.ex(ind, e.slice.elts[0])
                        if ti != 'int':
                            raise Untranslatable('row index of type %r' % ti)
                        return self.bindm(ind, 'matRow %s %s' % (a, i)), 'flist'
                    if ta == 'tensor' and row:
                        i, ti = self.ex(ind, e.slice.elts[0])
                        if ti != 'int':
                            raise Untranslatable('row index of type %r' % ti)
                        return self.bindm(ind, 'getRow2 %s %s' % (a, i)), 'tensor'
                    return NotImplemented
                r = self.rollback(mine)
                if r is not NotImplemented:
                    return r
        return super().subscript(ind, e)

    def assign_to(self, ind, t, v, tv):
        if isinstance(t, ast.Subscript) and isinstance(t.value, ast.Name) and self.env.get(t.value.id) == 'tensor':
            la = self.last_axis_index(t.slice)
            if la is not None:
                cur = O.lname(t.value.id)
                i, ti = self.ex(ind, la[1])
                if ti != 'int' or tv != 'tensor':
                    raise Untranslatable('x[:, i] = v with index %r, value %r' % (ti, tv))
                self.emit(ind, 'let %s ← setLastND %d %s %s %s' % (cur, la[0], cur, i, v))
                return None
        return super().assign_to(ind, t, v, tv)

    def attribute(self, ind, e):
        v = e.value
        if isinstance(v, ast.Name) and v.id == 'self' and 'self' in self.env and e.attr == 'shape':
            self.need_pinned.add(('object', 'SplineObject', 'shape'))
            return '(slice (npShape self_.controlpoints) none (some (-1 : Int)))', 'ilist'
        return super().attribute(ind, e)

    def basis_receiver(self, node):
        wb = super().basis_receiver(node)
        if wb is None and isinstance(node, ast.Name) and self.env.get(node.id) == 'basis' and node.id not in self.alias:
            # a local BSplineBasis object (a clone): in-place methods rebind the variable
            def wb(ind, newtext, name=node.id):
                self.emit(ind, 'let %s := %s' % (O.lname(name), newtext))
        return wb

    def assigned(self, stmts):
        out = super().assigned(stmts)
        for st in stmts:
            for n in ast.walk(st):
                if (isinstance(n, ast.Call) and isinstance(n.func, ast.Attribute) and n.func.attr in self.MUTATING_BASIS
                        and isinstance(n.func.value, ast.Name) and self.env.get(n.func.value.id) == 'basis'
                        and n.func.value.id not in self.alias and n.func.value.id not in out):
                    out.append(n.func.value.id)
        return out

    # -------------------------------------------------------------------------------------------- calls
    def fn_call(self, ind, key, args, kws, star=None):
        if key not in SIGS:
            call, sig = super().fn_call(ind, key, args, kws, star)
            # the callee lives in Splipy.Generated.PyObject
            return 'PyObject.' + call, sig
        sig = SIGS[key]
        params = sig['params'] + sig.get('kwonly', [])
        npos = len(sig['params'])
        if len(args) > npos or any(k not in [p for p, _, _ in params] for k in kws):
            raise Untranslatable('call of %s with unexpected arguments' % key)
        texts = []
        for j, (p, ty, dflt) in enumerate(params):
            if j < len(args):
                node = args[j]
            elif p in kws:
                node = kws[p]
            elif dflt is not NODEFAULT:
                node = self.default_node(dflt)
            else:
                raise Untranslatable('call of %s without argument %s' % (key, p))
            a, ta = self.ex(ind, node)
            texts.append(self.coerce(a, ta, ty, 'argument %s of %s' % (p, key)))
        if sig.get('vararg'):
            if star is None:
                raise Untranslatable('call of %s without *%s' % (key, sig['vararg'][0]))
            a, ta = self.ex(ind, star)
            texts.append(self.coerce(a, ta, sig['vararg'][1], '*%s of %s' % (sig['vararg'][0], key)))
        elif star is not None:
            raise Untranslatable('call of %s with a starred argument' % key)
        self.calls.add(key)
        if key in self.floor_users:
            self.uses_floor = True
        return ('%s self_ tol %s' % (lean_name(key), ' '.join(texts))).rstrip(), sig

    @staticmethod
    def default_node(dflt):
        if isinstance(dflt, tuple):
            return ast.Tuple(elts=[ast.Constant(x) for x in dflt], ctx=ast.Load())
        return ast.Constant(dflt)

    def super_call(self, ind, e):
        """`super(C, self).derivative(*pos, d=.., above=.., tensor=..)` -> the translated SplineObject method."""
        f = e.func
        sc = f.value
        if not (len(sc.args) == 2 and not sc.keywords and isinstance(sc.args[0], ast.Name) and sc.args[0].id == self.sig['cls']
                and isinstance(sc.args[1], ast.Name) and sc.args[1].id == 'self' and 'self' in self.env):
            raise Untranslatable('super(..) of an unsupported form')
        if BASES[self.sig['cls']] != 'SplineObject' or f.attr != 'derivative':
            raise Untranslatable('super().%s' % f.attr)
        pos, kws, star = self.split_args(e)
        if star is not None or set(kws) != {'d', 'above', 'tensor'} or not pos:
            raise Untranslatable('super().derivative(..) with other arguments than (params.., d=, above=, tensor=)')
        ps = []
        for p in pos:
            a, ta = self.ex(ind, p)
            if ta != 'param':
                raise Untranslatable('super().derivative on a %r' % ta)
            ps.append(a)
        d, td = self.ex(ind, kws['d'])
        if td == 'int':
            d = '[%s]' % d          # ensure_listlike(int, pardim) == ensure_listlike([int], pardim)
        elif td != 'ilist':
            raise Untranslatable('d= of type %r' % td)
        a, ta = self.ex(ind, kws['above'])
        if ta == 'boolv':
            a = '[%s]' % a
        elif ta != 'blist':
            raise Untranslatable('above= of type %r' % ta)
        t, tt = self.ex(ind, kws['tensor'])
        if tt != 'boolv':
            raise Untranslatable('tensor= of type %r' % tt)
        self.calls.add('derivative')
        self.uses_floor = True
        return self.bindm(ind, 'PyObject.derivative self_ tol [%s] (some %s) (some %s) (some %s)' % (', '.join(ps), d, a, t)), 'tensor'

    def call(self, ind, e):
        f = e.func
        if (isinstance(f, ast.Attribute) and isinstance(f.value, ast.Call) and isinstance(f.value.func, ast.Name)
                and f.value.func.id == 'super' and 'super' not in self.env):
            return self.super_call(ind, e)
        if (isinstance(f, ast.Attribute) and isinstance(f.value, ast.Name) and f.value.id == 'self' and 'self' in self.env):
            keys = [k for k in ORDER if SIGS[k]['py'] == f.attr and SIGS[k]['cls'] == self.sig['cls']]
            if keys:
                raise Untranslatable('call of the overriding method self.%s (dynamic dispatch)' % f.attr)
        return super().call(ind, e)

    def basis_call(self, ind, recv_node, meth, pos, kws, as_stmt):
        if meth in ('clone', 'continuity'):
            def mine():
                b, tb = self.ex(ind, recv_node)
                if tb != 'basis':
                    return NotImplemented
                if meth == 'clone' and not pos and not kws:
                    return b, 'basis'           # value semantics: a deep copy is the same value
                if meth == 'continuity' and len(pos) == 1 and not kws:
                    k, tk = self.ex(ind, pos[0])
                    self.uses_floor = True
                    return self.bindm(ind, 'Basis.continuity %s tol %s' % (b, self.cast(k, tk))), 'optint'
                return NotImplemented
            r = self.rollback(mine)
            if r is not NotImplemented:
                return r
        if meth == 'evaluate' and set(kws) == {'sparse'} and isinstance(kws['sparse'], ast.Constant) \
                and type(kws['sparse'].value) is bool:
            kws = {}        # a sparse matrix is its dense matrix
        return super().basis_call(ind, recv_node, meth, pos, kws, as_stmt)

    def name_call(self, ind, e, n, pos, kws, star):
        one = len(pos) == 1 and not kws and star is None
        if n in ('min', 'max') and len(pos) == 2 and not kws and star is None and n not in self.env:
            a, ta = self.ex(ind, pos[0])
            b, tb = self.ex(ind, pos[1])
            if ta == 'optint' and tb == 'int' and n == 'min':
                return '(minOptInt %s %s)' % (a, b), 'int'       # min(inf, k) = k
            if ta == tb == 'int':
                return '(%s %s %s)' % (n, a, b), 'int'
            raise Untranslatable('%s(%r, %r)' % (n, ta, tb))
        if n == 'bisect_left' and len(pos) == 2 and not kws and star is None and n not in self.env:
            kn = pos[0]
            if isinstance(kn, ast.Attribute) and kn.attr == 'knots':
                b, tb = self.ex(ind, kn.value)
                k, tk = self.ex(ind, pos[1])
                if tb == 'basis' and tk in FLOATS:
                    return '((Basis.bisectL %s %s : ℕ) : Int)' % (b, k), 'int'
            raise Untranslatable('bisect_left(..) of this form')
        if n == 'Curve' and len(pos) == 3 and not kws and star is None and n not in self.env:
            b, tb = self.ex(ind, pos[0])
            c, tc = self.ex(ind, pos[1])
            r, tr = self.ex(ind, pos[2])
            if tb != 'basis' or tc != 'tensor' or tr != 'boolv':
                raise Untranslatable('Curve(%r, %r, %r)' % (tb, tc, tr))
            self.need_pinned.add(('curve', 'Curve', '__init__'))
            return self.bindm(ind, 'mkCurve %s %s %s' % (b, c, r)), 'self'
        if n == 'is_singleton' and one:
            def mine():
                a, ta = self.ex(ind, pos[0])
                if ta in ('int', 'boolv', 'pyf', 'npf'):
                    return 'true', 'boolv'
                if ta in LISTS and ta != 'bases':
                    return 'false', 'boolv'
                return NotImplemented
            r = self.rollback(mine)
            if r is not NotImplemented:
                return r
        if n == 'ensure_listlike' and star is None and len(pos) == 2 and not kws:
            def mine2():
                a, ta = self.ex(ind, pos[0])
                if ta in ('int', 'boolv'):
                    d, td = self.ex(ind, pos[1])
                    if td != 'int':
                        raise Untranslatable('ensure_listlike(.., dups : %r)' % td)
                    return '(listMul [%s] %s)' % (a, d), O.LISTOF[ta]      # `[x] * dups`
                return NotImplemented
            r = self.rollback(mine2)
            if r is not NotImplemented:
                return r
        return super().name_call(ind, e, n, pos, kws, star)

    def np_call(self, ind, attr, pos, kws):
        if attr == 'zeros' and len(pos) == 1 and not kws and isinstance(pos[0], ast.Tuple) and pos[0].elts:
            parts = []
            for x in pos[0].elts:
                a, ta = self.ex(ind, x)
                parts.append(self.as_int(a, ta))
            return self.bindm(ind, 'npZeros [%s]' % ', '.join(parts)), 'tensor'
        if attr == 'tensordot' and len(pos) == 2 and set(kws) == {'axes'}:
            ax = kws['axes']
            if isinstance(ax, ast.Tuple) and len(ax.elts) == 2 and _const(ax.elts[0], 0):
                def vec():
                    v, tv = self.ex(ind, pos[0])
                    if tv != 'flist':
                        return NotImplemented
                    t, tt = self.ex(ind, pos[1])
                    i, ti = self.ex(ind, ax.elts[1])
                    if tt != 'tensor' or ti != 'int':
                        raise Untranslatable('tensordot of a vector with %r, axis %r' % (tt, ti))
                    return self.bindm(ind, 'npTensordotVec %s %s %s' % (v, t, i)), 'tensor'
                r = self.rollback(vec)
                if r is not NotImplemented:
                    return r
        if attr == 'sum' and len(pos) == 1 and not kws:
            a, ta = self.ex(ind, pos[0])
            if ta != 'ilist':
                raise Untranslatable('np.sum of a %r' % ta)
            return '(pySum %s)' % a, 'int'
        return super().np_call(ind, attr, pos, kws)

    # -------------------------------------------------------------------------------------------- loops
    def _for(self, ind, s, dry):
        """As in t3, but the loop body becomes a definition of its own, `<method>_loop<k>`, taking the variables it
        uses as parameters: the equality proofs treat one loop body at a time."""
        start = len(self.lines)
        env_before = dict(self.env)
        after = super()._for(ind, s, dry)
        if dry:
            return after
        new = self.lines[start:]
        hk = None
        for k, ln in enumerate(new):
            if re.match(r'^\s*let st\d+ ← (forRange|forEach|forEachIdx) .* => do$', ln):
                hk = k
                break
        if hk is None:
            raise Untranslatable('loop header not recognised')
        m = re.match(r'^(\s*let (st\d+) ← (?:forRange|forEach|forEachIdx) .*) \(fun ((?:\S+ )+)=> do$', new[hk])
        if not m:
            raise Untranslatable('loop header not recognised: %s' % new[hk].strip())
        head, stv, lam = m.group(1), m.group(2), m.group(3).split()
        # the body: the lines after the header up to the one that closes the lambda (deeper indentation)
        hind = len(new[hk]) - len(new[hk].lstrip())
        body = []
        k = hk + 1
        while k < len(new) and (len(new[k]) - len(new[k].lstrip())) > hind:
            body.append(new[k])
            k += 1
        if not body or not body[-1].endswith(')'):
            raise Untranslatable('loop body not recognised')
        body[-1] = body[-1][:-1]
        rest = new[k:]
        text = '\n'.join(body)
        words = set(re.findall(r"[A-Za-z_«»][A-Za-z0-9_'«»]*", text))
        bound = set(re.findall(r'let ((?:tmp|st|x|i)\d+)', text)) | set(re.findall(r'fun ((?:(?:tmp|st|x|i)\d+ ?)+)=>', text)) \
            | set(lam)
        bound = {w for b in bound for w in b.split()}
        for w in words:
            if re.fullmatch(r'(tmp|st|x|i)\d+', w) and w not in bound:
                raise Untranslatable('loop body uses the outer temporary %s' % w)
        binders, args = ['(self_ : PyObj K)', '(tol : K)'], ['self_', 'tol']
        targets_ = [n.id for n in ast.walk(s.target) if isinstance(n, ast.Name)]
        carried_ = [x for x in self.assigned(s.body) if x in env_before and x not in targets_]
        for v, ty in env_before.items():
            if v == 'self' or ty in ('none', 'emptylist') or v in carried_ or v in targets_:
                continue
            lv = O.lname(v)
            if lv in words:
                if ty not in LEAN_TYPE:
                    raise Untranslatable('loop body captures %s of type %r' % (v, ty))
                binders.append('(%s : %s)' % (lv, LEAN_TYPE[ty]))
                args.append(lv)
        self.nloops = getattr(self, 'nloops', 0) + 1
        name = '%s_loop%d' % (self.sig['lean'], self.nloops)
        carried_ty = self.loop_state_type(s, env_before)
        lam_b = []
        for j, x in enumerate(lam):
            if j == len(lam) - 1:
                lam_b.append('(%s : %s)' % (x, carried_ty))
            elif re.fullmatch(r'i\d+', x):
                lam_b.append('(%s : Int)' % x)
            else:
                lam_b.append('(%s : %s)' % (x, self.loop_elem_type(s, env_before)))
        dedent = min(len(b) - len(b.lstrip()) for b in body if b.strip())
        dbody = [b[dedent - 2:] if b.strip() else b for b in body]
        self.aux = getattr(self, 'aux', [])
        self.aux.append((name, ' '.join(binders + lam_b), carried_ty, dbody))
        del self.lines[start:]
        self.lines.extend(new[:hk])
        self.lines.append('%s (%s %s)' % (head, name, ' '.join(args)))
        self.lines.extend(rest)
        return after

    def loop_state_type(self, s, env_before):
        names = [x for x in self.assigned(s.body)]
        targets = [n.id for n in ast.walk(s.target) if isinstance(n, ast.Name)]
        carried = [x for x in names if x in env_before and x not in targets]
        if not carried:
            return 'Unit'
        tys = []
        for x in carried:
            t = 'PyObj K' if x == 'self' else LEAN_TYPE.get(env_before[x])
            if t is None:
                raise Untranslatable('loop state %s of type %r' % (x, env_before[x]))
            tys.append(t)
        return ' × '.join(tys)

    def loop_elem_type(self, s, env_before):
        is_range = (isinstance(s.iter, ast.Call) and isinstance(s.iter.func, ast.Name) and s.iter.func.id == 'range')
        if is_range:
            return 'Int'
        raise Untranslatable('a loop over a sequence as a separate definition')

    # ------------------------------------------------------------------------------------------- whole
    def run(self):
        node, sig = self.node, self.sig
        a = node.args
        if a.posonlyargs or a.kwarg:
            raise Untranslatable('%s: parameter kinds' % node.name)
        got = [x.arg for x in a.args]
        want = ['self'] + [p for p, _, _ in sig['params']]
        if got != want:
            raise Untranslatable('%s: parameters %r, expected %r' % (node.name, got, want))
        if (a.vararg.arg if a.vararg else None) != (sig['vararg'][0] if sig.get('vararg') else None):
            raise Untranslatable('%s: *%s, expected %r' % (node.name, a.vararg.arg if a.vararg else None, sig.get('vararg')))
        if [x.arg for x in a.kwonlyargs] != [p for p, _, _ in sig.get('kwonly', [])]:
            raise Untranslatable('%s: keyword-only parameters %r' % (node.name, [x.arg for x in a.kwonlyargs]))
        if node.decorator_list:
            raise Untranslatable('%s: decorators' % node.name)
        defaults = [NODEFAULT] * (len(got) - len(a.defaults)) + list(a.defaults)
        pairs = list(zip(sig['params'], defaults[1:])) + list(zip(sig.get('kwonly', []), [d if d is not None else NODEFAULT
                                                                                         for d in a.kw_defaults]))
        for (p, ty, dflt), d in pairs:
            if d is NODEFAULT:
                have = NODEFAULT
            elif isinstance(d, ast.Constant):
                have = d.value
            elif isinstance(d, ast.Tuple) and all(isinstance(x, ast.Constant) for x in d.elts):
                have = tuple(x.value for x in d.elts)
            else:
                raise Untranslatable('%s: default of %s' % (node.name, p))
            if (have is not dflt and have != dflt) or (type(have) is not type(dflt)) \
                    or (isinstance(have, tuple) and [type(x) for x in have] != [type(x) for x in dflt]):
                raise Untranslatable('%s: default of %s is %r, expected %r' % (node.name, p, have, dflt))
        binders = ['(self_ : PyObj K)', '(tol : K)']
        self.env['self'] = 'self'
        for p, ty, _ in sig['params']:
            self.env[p] = ty
            binders.append('(%s : %s)' % (O.lname(p), LEAN_TYPE[ty]))
        if sig.get('vararg'):
            p, ty = sig['vararg']
            self.env[p] = ty
            binders.append('(%s : %s)' % (O.lname(p), LEAN_TYPE[ty]))
        for p, ty, _ in sig.get('kwonly', []):
            self.env[p] = ty
            binders.append('(%s : %s)' % (O.lname(p), LEAN_TYPE[ty]))
        self.block(1, list(node.body), ('end',))
        body = '\n'.join(self.lines)
        floor = ' [FloorRing K]' if self.uses_floor else ''
        head = 'def %s%s %s : PyM (%s) := do' % (sig['lean'], floor, ' '.join(binders), O.ret_lean_type(sig))
        out = []
        for name, bnd, sty, lines in getattr(self, 'aux', []):
            out.append('/-- A loop body of `%s.%s`. -/\ndef %s%s %s : PyM (%s) := do\n%s\n' % (
                sig['cls'], sig['py'], name, floor, bnd, sty, '\n'.join(lines)))
        return '\n'.join(out) + ('\n' if out else '') + '@@DOC@@' + head + '\n' + body


HEADER = '''import Splipy.Generated.PyObject
import Splipy.Lemmas.PyOverrideLib

/-! GENERATED by harness/translate/override_translate.py from the Python AST of `splipy/curve.py` (class Curve) and
`splipy/surface.py` (class Surface): the methods that OVERRIDE `SplineObject` methods.  Do not edit: the file is
rewritten on every check; `Splipy/Lemmas/PyOverrideEq.lean` proves these definitions equal to the hand model.

`super(C, self).m(..)` is the translated `SplineObject.m` (`Splipy.Generated.PyObject.m`, work package t3); calls of
`BSplineBasis` methods are the hand model's `Basis.*` functions (t1 / t2); a `scipy.sparse` matrix is its dense matrix.
Every definition is the translation for ONE spelling of the polymorphic arguments (see the docstrings). -/

set_option linter.unusedVariables false

namespace Splipy.Generated.PyOverride
open Splipy Splipy.PyO Splipy.PyV Splipy.Generated

variable {K : Type} [Field K] [LinearOrder K]

'''
FOOTER = '\nend Splipy.Generated.PyOverride\n'


def find_class(tree, name):
    for n in tree.body:
        if isinstance(n, ast.ClassDef) and n.name == name:
            return n
    raise Untranslatable('class %s not found' % name)


def check_module_env(tree, cls, fkey, utree):
    """The module-level names the bodies use must be bound as the translation assumes."""
    if [ast.unparse(b) for b in cls.bases] != [BASES[cls.name]] or cls.keywords or cls.decorator_list:
        raise Untranslatable('class %s has other base classes / keywords / decorators' % cls.name)
    seen = {}
    for n in tree.body:
        if isinstance(n, ast.Import):
            for a in n.names:
                seen.setdefault(a.asname or a.name.split('.')[0], []).append(('import', a.name))
        elif isinstance(n, ast.ImportFrom):
            for a in n.names:
                seen.setdefault(a.asname or a.name, []).append(('from', '.' * n.level + (n.module or ''), a.name))
        elif isinstance(n, (ast.Assign, ast.AugAssign, ast.AnnAssign, ast.FunctionDef, ast.ClassDef)) and n is not cls:
            tg = [n.name] if isinstance(n, (ast.FunctionDef, ast.ClassDef)) else \
                [t.id for t in (n.targets if isinstance(n, ast.Assign) else [n.target]) if isinstance(t, ast.Name)]
            for t in tg:
                if t != '__all__':
                    seen.setdefault(t, []).append(('def', t))
        elif isinstance(n, ast.Expr) and isinstance(n.value, ast.Constant):
            continue
        elif n is cls:
            continue
        else:
            raise Untranslatable('%s: module-level statement %s' % (FILES[fkey], ast.unparse(n)[:60]))
    for k, v in MODULE_ENV[fkey].items():
        if seen.get(k) != [v]:
            raise Untranslatable('%s: module-level name %s is bound by %r, expected %r' % (FILES[fkey], k, seen.get(k), v))
    for k in ('len', 'range', 'tuple', 'all', 'any', 'min', 'max', 'super', 'abs', 'list', 'zip', 'self'):
        if k in seen:
            raise Untranslatable('%s: module-level binding of the builtin %s' % (FILES[fkey], k))
    pykeys = {SIGS[k]['py'] for k in ORDER if SIGS[k]['cls'] == cls.name}
    names = [n.name for n in cls.body if isinstance(n, ast.FunctionDef)]
    for k in pykeys:
        if names.count(k) > 1:
            raise Untranslatable('%s.%s is defined twice' % (cls.name, k))
    for n in cls.body:
        if isinstance(n, (ast.Assign, ast.AnnAssign, ast.AugAssign)):
            for t in (n.targets if isinstance(n, ast.Assign) else [n.target]):
                if isinstance(t, ast.Name) and t.id in pykeys:
                    raise Untranslatable('class-level assignment rebinds %s.%s' % (cls.name, t.id))
    # the utils helpers mapped to primitives must be the pinned ones (as in t3)
    ufuncs = {n.name: n for n in utree.body if isinstance(n, ast.FunctionDef)}
    for k in O.PINNED_UTILS:
        if k not in ufuncs or ufuncs[k].decorator_list or O.fn_digest(ufuncs[k]) != O.PINNED_DIGEST[k]:
            raise Untranslatable('utils.%s differs from the pinned source its Lean primitive models' % k)


def check_pinned(pk, sources, trees):
    fkey, cname, mname = pk
    if fkey not in trees:
        if not sources.get(fkey):
            raise Untranslatable('source %r needed to pin %s.%s is missing' % (fkey, cname, mname))
        trees[fkey] = ast.parse(sources[fkey])
    cls = find_class(trees[fkey], cname)
    fns = [n for n in cls.body if isinstance(n, ast.FunctionDef) and n.name == mname]
    if len(fns) != 1:
        raise Untranslatable('%s.%s is not defined exactly once' % (cname, mname))
    want_dec = ['property'] if mname == 'shape' else []
    if [ast.unparse(d) for d in fns[0].decorator_list] != want_dec or O.fn_digest(fns[0]) != PINNED_DIGEST[pk]:
        raise Untranslatable('%s.%s differs from the pinned source its Lean primitive models' % (cname, mname))


def translate(sources, only=None, stub=()):
    """sources: {'curve': text, 'surface': text, 'utils': text}.
    Returns {'lean': text, 'methods': {key: {'ok', 'detail', 'lean_name', 'lines', 'python', 'calls'}}, 'digest'}."""
    utree = ast.parse(sources['utils'])
    trees, classes, env_err = {}, {}, {}
    for fkey in FILES:
        trees[fkey] = ast.parse(sources[fkey])
    methods = {}
    parts = [HEADER]
    nlines = HEADER.count('\n')
    floor_users = set(['derivative', 'evaluate', 'insert_knot'])
    failed = set()
    dig = []
    for key in (only or ORDER):
        sig = SIGS[key]
        info = {'lean_name': sig['lean'], 'ok': False, 'detail': '', 'lines': None, 'python': '%s.%s' % (sig['cls'], sig['py']),
                'calls': []}
        methods[key] = info
        if key in stub:
            info['detail'] = 'generated definition left out (did not elaborate)'
            failed.add(key)
            continue
        fkey = sig['file']
        try:
            if sig['cls'] not in classes:
                classes[sig['cls']] = find_class(trees[fkey], sig['cls'])
            cls = classes[sig['cls']]
            if sig['cls'] not in env_err:
                try:
                    check_module_env(trees[fkey], cls, fkey, utree)
                    env_err[sig['cls']] = None
                except Untranslatable as e:
                    env_err[sig['cls']] = str(e)
            if env_err[sig['cls']]:
                raise Untranslatable(env_err[sig['cls']])
            fns = {n.name: n for n in cls.body if isinstance(n, ast.FunctionDef)}
            node = fns.get(sig['py'])
            if node is None:
                raise Untranslatable('%s.%s not found' % (sig['cls'], sig['py']))
            dig.append(O._strip_doc(node))
            fn = VFn(key, node, floor_users)
            text = fn.run()
            for pk in sorted(fn.need_pinned):
                check_pinned(pk, sources, trees)
            bad = sorted(fn.calls & failed)
            if bad:
                raise Untranslatable('calls %s, which could not be translated' % ', '.join(bad))
        except Untranslatable as e:
            info['detail'] = 'outside the translated subset: %s' % e
            failed.add(key)
            parts.append('-- UNTRANSLATABLE %s: %s\n\n' % (sig['lean'], str(e).replace('\n', ' ')))
            nlines += 2
            continue
        if fn.uses_floor:
            floor_users.add(key)
        spell = ', '.join('%s : %s' % (p, LEAN_TYPE[t]) for p, t, _ in sig['params'] + sig.get('kwonly', []))
        doc = '/-- `%s.%s` (spelling: %s). -/\n' % (sig['cls'], sig['py'], spell or 'positional parameters only')
        chunk = text.replace('@@DOC@@', doc) + '\n\n'
        info.update(ok=True, detail='%d statements' % (sum(1 for n in ast.walk(node) if isinstance(n, ast.stmt)) - 1),
                    lines=(nlines + 1, nlines + chunk.count('\n')), floor=fn.uses_floor, calls=sorted(fn.calls))
        parts.append(chunk)
        nlines += chunk.count('\n')
    parts.append(FOOTER)
    digest = hashlib.sha256('\n'.join(dig).encode()).hexdigest()[:16]
    return {'lean': ''.join(parts), 'methods': methods, 'digest': digest}


if __name__ == '__main__':
    import os
    import sys
    root = sys.argv[1] if len(sys.argv) > 1 else '/repo/splipy'
    srcs = {k: open(os.path.join(root, v), encoding='utf-8').read() for k, v in FILES.items()}
    srcs['utils'] = open(os.path.join(root, 'utils', '__init__.py'), encoding='utf-8').read()
    srcs['object'] = open(os.path.join(root, 'splineobject.py'), encoding='utf-8').read()
    r = translate(srcs)
    print(r['lean'])
    for k, v in r['methods'].items():
        print('--', k, v['ok'], v['detail'], file=sys.stderr)
