"""AST -> Lean translator for the section utilities of `splipy/utils/__init__.py` (property C15).

`translate(src)` parses the module source, finds `sections`, `section_from_index`,
`section_to_index`, `check_section`, `check_direction` and emits, statement by statement, a Lean
`do`-block in the `PyM` (= `Except PyErr`) monad over the built-in models of
`lean/Splipy/Lemmas/C15PyLib.lean` (`combinations`, `product`, `zip`, `enumerate`, `setItem`, ...).
Python `for` / `if` / `return` / list assignment / `yield` map to Lean `for` / `if` / `return` /
`x <- setItem ..` / `out := out ++ [..]`; nothing is taken from the hand-written model.  The
generated definitions are then proved equal to the hand model (`decide`, pardim <= 3) in
`lean/Splipy/Properties/C15.lean`.

Only the constructs that occur in these five functions are supported; anything else raises
`Untranslatable` (reported by the check as a broken source-derived obligation).  Python is untyped:
the parameter / result types below are the interface assumptions of the translation
(`int` = Int, `sel` = None-or-int selector, `tok` = int-or-str direction token).
"""
import ast
import hashlib


class Untranslatable(Exception):
    pass


SIGS = {
    'sections': {'params': [('src_dim', 'int'), ('tgt_dim', 'int')], 'kind': 'generator', 'ret': ('list', 'sel')},
    'section_from_index': {'params': [('src_dim', 'int'), ('tgt_dim', 'int'), ('i', 'int')], 'kind': 'option',
                           'ret': ('list', 'sel')},
    'section_to_index': {'params': [('section', ('list', 'sel'))], 'kind': 'option', 'ret': 'int'},
    'check_section': {'params': [], 'vararg': ('args', ('list', 'sel')), 'kwarg': ('kwargs', 'sel'),
                      'kwonly': {'pardim': 'int'}, 'kind': 'plain', 'ret': ('list', 'sel')},
    'check_direction': {'params': [('direction', 'tok'), ('pardim', 'int')], 'kind': 'plain', 'ret': 'int'},
}
ORDER = ['sections', 'section_from_index', 'section_to_index', 'check_section', 'check_direction']
KEYWORDS = {'section', 'end', 'from', 'at', 'fun', 'do', 'then', 'else', 'open', 'in', 'instance', 'class', 'namespace'}


def lname(n):
    return '«%s»' % n if n in KEYWORDS else n


def ltype(t):
    if t == 'int':
        return 'Int'
    if t == 'sel':
        return 'Sel'
    if t == 'tok':
        return 'Tok'
    if t == 'str':
        return 'String'
    if t == 'bool':
        return 'Bool'
    if isinstance(t, tuple) and t[0] == 'list':
        return 'List %s' % _paren(ltype(t[1]))
    if isinstance(t, tuple) and t[0] == 'tuple':
        return ' × '.join(_paren(ltype(x)) for x in t[1])
    raise Untranslatable('type %r' % (t,))


def _paren(s):
    return '(%s)' % s if ' ' in s else s


def coerce(text, have, want):
    """Insert the explicit coercions Python performs implicitly (int -> None-or-int, int/str -> token)."""
    if have == want or want is None:
        return text
    if have == 'int' and want == 'sel':
        return '(some %s)' % text
    if have == 'int' and want == 'tok':
        return '(.inl %s)' % text
    if have == 'str' and want == 'tok':
        return '(.inr %s)' % text
    raise Untranslatable('cannot use a %r where a %r is expected: %s' % (have, want, text))


class Fn:
    def __init__(self, node, sig, known):
        self.node = node
        self.sig = sig
        self.known = known          # names of the translated functions (calls are monadic)
        self.env = {}
        self.lines = []
        self.declared = set()
        self.mutable = self._mutated_names(node)

    # -------------------------------------------------------------------------------------- analysis
    @staticmethod
    def _mutated_names(fn):
        counts = {}
        mut = set()
        for n in ast.walk(fn):
            if isinstance(n, ast.Assign):
                for t in n.targets:
                    if isinstance(t, ast.Name):
                        counts[t.id] = counts.get(t.id, 0) + 1
                    elif isinstance(t, ast.Subscript) and isinstance(t.value, ast.Name):
                        mut.add(t.value.id)
            if isinstance(n, ast.Call) and isinstance(n.func, ast.Attribute) and n.func.attr == 'append' \
                    and isinstance(n.func.value, ast.Name):
                mut.add(n.func.value.id)
        # a name assigned inside a loop body is re-assigned on every iteration
        for n in ast.walk(fn):
            if isinstance(n, (ast.For, ast.While)):
                for m in ast.walk(n):
                    if isinstance(m, ast.Assign):
                        for t in m.targets:
                            if isinstance(t, ast.Name):
                                counts[t.id] = counts.get(t.id, 0) + 0
        return mut | {k for k, v in counts.items() if v > 1}

    # ------------------------------------------------------------------------------------ expressions
    def ex(self, e, want=None):
        t, ty = self._ex(e, want)
        return coerce(t, ty, want) if want is not None and not isinstance(want, tuple) else t, (want if want is not None and not isinstance(want, tuple) else ty)

    def _ex(self, e, want=None):
        if isinstance(e, ast.Name):
            if e.id not in self.env:
                raise Untranslatable('unbound name %s' % e.id)
            return lname(e.id), self.env[e.id]
        if isinstance(e, ast.Constant):
            if e.value is None:
                return 'none', 'sel'
            if isinstance(e.value, bool):
                raise Untranslatable('bool constant')
            if isinstance(e.value, int):
                return '(%d : Int)' % e.value, 'int'
            if isinstance(e.value, str):
                return '"%s"' % e.value, 'str'
            raise Untranslatable('constant %r' % (e.value,))
        if isinstance(e, ast.UnaryOp) and isinstance(e.op, ast.USub) and isinstance(e.operand, ast.Constant) \
                and isinstance(e.operand.value, int):
            return '(%d : Int)' % (-e.operand.value), 'int'
        if isinstance(e, ast.BinOp) and isinstance(e.op, ast.Sub):
            a, ta = self.ex(e.left)
            b, tb = self.ex(e.right)
            if ta == tb == 'int':
                return '(%s - %s)' % (a, b), 'int'
            raise Untranslatable('subtraction of %r and %r' % (ta, tb))
        if isinstance(e, ast.BinOp) and isinstance(e.op, ast.Mult):
            a, ta = self.ex(e.left)
            b, tb = self.ex(e.right)
            if isinstance(ta, tuple) and ta[0] == 'list' and tb == 'int':
                return '(listMul %s %s)' % (a, b), ta
            raise Untranslatable('product of %r and %r' % (ta, tb))
        if isinstance(e, ast.BinOp) and isinstance(e.op, ast.BitAnd):
            # set(kwargs.keys()) & set('uvw')
            l, r = e.left, e.right
            if (isinstance(l, ast.Call) and isinstance(l.func, ast.Name) and l.func.id == 'set' and len(l.args) == 1
                    and isinstance(l.args[0], ast.Call) and isinstance(l.args[0].func, ast.Attribute)
                    and l.args[0].func.attr == 'keys' and isinstance(l.args[0].func.value, ast.Name)
                    and self.env.get(l.args[0].func.value.id) == ('dict', 'sel')
                    and isinstance(r, ast.Call) and isinstance(r.func, ast.Name) and r.func.id == 'set'
                    and len(r.args) == 1 and isinstance(r.args[0], ast.Constant) and isinstance(r.args[0].value, str)):
                return '(keysIn %s "%s")' % (lname(l.args[0].func.value.id), r.args[0].value), ('list', 'str')
            raise Untranslatable('set intersection of an unsupported form')
        if isinstance(e, ast.List):
            parts = [self.ex(x) for x in e.elts]
            tys = {t for _, t in parts}
            if len(tys) != 1:
                raise Untranslatable('heterogeneous list literal')
            ty = tys.pop()
            return '[%s]' % ', '.join(p for p, _ in parts), ('list', ty)
        if isinstance(e, ast.Set):
            elem = want[1] if isinstance(want, tuple) and want[0] == 'set' else None
            parts = [self.ex(x, elem) for x in e.elts]
            tys = {t for _, t in parts}
            if len(tys) != 1:
                raise Untranslatable('heterogeneous set literal')
            return '[%s]' % ', '.join(p for p, _ in parts), ('set', tys.pop())
        if isinstance(e, ast.Compare) and len(e.ops) == 1:
            op, l, r = e.ops[0], e.left, e.comparators[0]
            if isinstance(op, ast.Is) and isinstance(r, ast.Constant) and r.value is None:
                a, ta = self.ex(l)
                if ta != 'sel':
                    raise Untranslatable('`is None` on a %r' % (ta,))
                return '%s.isNone' % a, 'bool'
            if isinstance(op, ast.In):
                a, ta = self.ex(l)
                b, tb = self._ex(r, ('set', ta))
                if not (isinstance(tb, tuple) and tb[0] in ('set', 'list') and tb[1] == ta):
                    raise Untranslatable('membership of %r in %r' % (ta, tb))
                return '(%s.contains %s)' % (b, a), 'bool'
            a, ta = self.ex(l)
            b, tb = self.ex(r)
            if ta != tb:
                raise Untranslatable('comparison of %r with %r' % (ta, tb))
            if isinstance(op, ast.Eq):
                return '(%s == %s)' % (a, b), 'bool'
            if isinstance(op, ast.Lt) and ta == 'int':
                return '(decide (%s < %s))' % (a, b), 'bool'
            raise Untranslatable('comparison operator %s' % type(op).__name__)
        if isinstance(e, ast.BoolOp) and isinstance(e.op, ast.And):
            parts = [self.ex(v) for v in e.values]
            if any(t != 'bool' for _, t in parts):
                raise Untranslatable('`and` of non-boolean operands')
            return '(%s)' % ' && '.join(p for p, _ in parts), 'bool'
        if isinstance(e, ast.Subscript):
            if isinstance(e.slice, ast.Slice):
                s = e.slice
                if s.lower is None and s.upper is None and isinstance(s.step, ast.UnaryOp) \
                        and isinstance(s.step.op, ast.USub) and isinstance(s.step.operand, ast.Constant) \
                        and s.step.operand.value == 1:
                    a, ta = self.ex(e.value)
                    return '(reversed %s)' % a, ta
                raise Untranslatable('slice other than [::-1]')
            if isinstance(e.value, ast.Name) and self.env.get(e.value.id) == ('dict', 'sel'):
                if isinstance(e.slice, ast.Constant) and e.slice.value in self.sig.get('kwonly', {}):
                    return 'kw_%s' % e.slice.value, self.sig['kwonly'][e.slice.value]
                k, tk = self.ex(e.slice)
                if tk != 'str':
                    raise Untranslatable('dict key of type %r' % (tk,))
                return '(← dictGet %s %s)' % (lname(e.value.id), k), 'sel'
            raise Untranslatable('subscript')
        if isinstance(e, ast.Call):
            return self.call(e)
        raise Untranslatable('expression %s' % ast.dump(e)[:80])

    def call(self, e):
        f = e.func
        kws = {k.arg: k.value for k in e.keywords}
        if isinstance(f, ast.Attribute) and f.attr == 'index' and isinstance(f.value, ast.Constant) \
                and isinstance(f.value.value, str) and len(e.args) == 1:
            k, tk = self.ex(e.args[0])
            if tk != 'str':
                raise Untranslatable('str.index of a %r' % (tk,))
            return '(← strIndex "%s" %s)' % (f.value.value, k), 'int'
        if not isinstance(f, ast.Name):
            raise Untranslatable('call of %s' % ast.dump(f)[:60])
        n = f.id
        if n == 'range' and len(e.args) == 1 and not kws:
            a, ta = self.ex(e.args[0])
            if ta != 'int':
                raise Untranslatable('range of %r' % (ta,))
            return '(range %s)' % a, ('list', 'int')
        if n == 'combinations' and len(e.args) == 1 and set(kws) == {'r'}:
            a, ta = self.ex(e.args[0])
            r, tr = self.ex(kws['r'])
            if tr != 'int' or not (isinstance(ta, tuple) and ta[0] == 'list'):
                raise Untranslatable('combinations arguments')
            return '(← combinations %s %s)' % (a, r), ('list', ta)
        if n == 'product' and len(e.args) == 1 and set(kws) == {'repeat'}:
            a, ta = self.ex(e.args[0])
            r, tr = self.ex(kws['repeat'])
            if tr != 'int' or not (isinstance(ta, tuple) and ta[0] == 'list'):
                raise Untranslatable('product arguments')
            return '(← product %s %s)' % (a, r), ('list', ta)
        if n == 'zip' and len(e.args) == 2 and not kws:
            a, ta = self.ex(e.args[0])
            b, tb = self.ex(e.args[1])
            return '(zip %s %s)' % (a, b), ('list', ('tuple', [ta[1], tb[1]]))
        if n == 'enumerate' and len(e.args) == 1 and not kws:
            a, ta = self.ex(e.args[0])
            return '(enumerate %s)' % a, ('list', ('tuple', ['int', ta[1]]))
        if n == 'len' and len(e.args) == 1:
            a, ta = self.ex(e.args[0])
            return '(len %s)' % a, 'int'
        if n in ('list', 'tuple') and len(e.args) == 1 and not kws:
            return self.ex(e.args[0])
        if n == 'sum' and len(e.args) == 1 and isinstance(e.args[0], ast.GeneratorExp):
            g = e.args[0]
            if (isinstance(g.elt, ast.Constant) and g.elt.value == 1 and len(g.generators) == 1
                    and isinstance(g.generators[0].target, ast.Name) and len(g.generators[0].ifs) == 1):
                c = g.generators[0]
                t = c.ifs[0]
                if (isinstance(t, ast.Compare) and isinstance(t.left, ast.Name) and t.left.id == c.target.id
                        and isinstance(t.ops[0], ast.Is) and isinstance(t.comparators[0], ast.Constant)
                        and t.comparators[0].value is None):
                    a, ta = self.ex(c.iter)
                    if ta != ('list', 'sel'):
                        raise Untranslatable('count of None over %r' % (ta,))
                    return '(countNone %s)' % a, 'int'
            raise Untranslatable('sum(...) of an unsupported generator')
        if n in self.known:
            sig = SIGS[n]
            args = [self.ex(a, ty)[0] for a, (_, ty) in zip(e.args, sig['params'])]
            if len(args) != len(sig['params']) or kws:
                raise Untranslatable('call of %s with an unexpected argument list' % n)
            ret = ('list', sig['ret']) if sig['kind'] == 'generator' else sig['ret']
            return '(← %s %s)' % (lname(n), ' '.join(args)), ret
        raise Untranslatable('call of %s' % n)

    # -------------------------------------------------------------------------------------- statements
    def emit(self, ind, s):
        self.lines.append('  ' * ind + s)

    def bind(self, name, ty):
        self.env[name] = ty

    def assign(self, ind, name, text, ty):
        ann = ' : %s' % ltype(ty) if isinstance(ty, tuple) else ''
        if name in self.declared:
            self.emit(ind, '%s := %s' % (lname(name), text))
        elif name in self.mutable:
            self.emit(ind, 'let mut %s%s := %s' % (lname(name), ann, text))
        else:
            self.emit(ind, 'let %s%s := %s' % (lname(name), ann, text))
        self.declared.add(name)
        self.bind(name, ty)

    def target(self, t, ty):
        if isinstance(t, ast.Name):
            self.bind(t.id, ty)
            self.declared.add(t.id)
            return lname(t.id)
        if isinstance(t, ast.Tuple) and isinstance(ty, tuple) and ty[0] == 'tuple' and len(t.elts) == len(ty[1]):
            return '(%s)' % ', '.join(self.target(x, y) for x, y in zip(t.elts, ty[1]))
        raise Untranslatable('loop target')

    def block(self, ind, stmts):
        for s in stmts:
            self.stmt(ind, s)

    def stmt(self, ind, s):
        if isinstance(s, ast.Expr) and isinstance(s.value, ast.Constant) and isinstance(s.value.value, str):
            return                                                     # docstring
        if isinstance(s, ast.Assign) and len(s.targets) == 1:
            t = s.targets[0]
            if isinstance(t, ast.Name):
                text, ty = self.ex(s.value)
                return self.assign(ind, t.id, text, ty)
            if isinstance(t, ast.Subscript) and isinstance(t.value, ast.Name):
                lst = t.value.id
                lty = self.env.get(lst)
                if not (isinstance(lty, tuple) and lty[0] == 'list'):
                    raise Untranslatable('item assignment into a %r' % (lty,))
                i, ti = self.ex(t.slice)
                if ti != 'int':
                    raise Untranslatable('list index of type %r' % (ti,))
                v, _ = self.ex(s.value, lty[1])
                return self.emit(ind, '%s ← setItem %s %s %s' % (lname(lst), lname(lst), i, v))
            raise Untranslatable('assignment target')
        if isinstance(s, ast.For) and not s.orelse:
            it, ty = self.ex(s.iter)
            if not (isinstance(ty, tuple) and ty[0] == 'list'):
                raise Untranslatable('iteration over %r' % (ty,))
            self.emit(ind, 'for %s in %s do' % (self.target(s.target, ty[1]), it))
            return self.block(ind + 1, s.body)
        if isinstance(s, ast.While) and not s.orelse:
            # while len(X) < N: X.append(V)
            t = s.test
            if (isinstance(t, ast.Compare) and isinstance(t.ops[0], ast.Lt) and isinstance(t.left, ast.Call)
                    and isinstance(t.left.func, ast.Name) and t.left.func.id == 'len' and len(s.body) == 1
                    and isinstance(s.body[0], ast.Expr) and isinstance(s.body[0].value, ast.Call)
                    and isinstance(s.body[0].value.func, ast.Attribute) and s.body[0].value.func.attr == 'append'
                    and isinstance(t.left.args[0], ast.Name) and isinstance(s.body[0].value.func.value, ast.Name)
                    and t.left.args[0].id == s.body[0].value.func.value.id):
                x = t.left.args[0].id
                lty = self.env.get(x)
                n, tn = self.ex(t.comparators[0])
                v, _ = self.ex(s.body[0].value.args[0], lty[1])
                if tn != 'int':
                    raise Untranslatable('while bound')
                return self.emit(ind, '%s := padTo %s %s %s' % (lname(x), lname(x), n, v))
            raise Untranslatable('while loop of an unsupported form')
        if isinstance(s, ast.If):
            c, tc = self.ex(s.test)
            if tc != 'bool':
                raise Untranslatable('condition of type %r' % (tc,))
            self.emit(ind, 'if %s then' % c)
            self.block(ind + 1, s.body)
            orelse = s.orelse
            while len(orelse) == 1 and isinstance(orelse[0], ast.If):
                c, tc = self.ex(orelse[0].test)
                self.emit(ind, 'else if %s then' % c)
                self.block(ind + 1, orelse[0].body)
                orelse = orelse[0].orelse
            if orelse:
                self.emit(ind, 'else')
                self.block(ind + 1, orelse)
            return
        if isinstance(s, ast.Return):
            if s.value is None:
                raise Untranslatable('bare return')
            want = self.sig['ret']
            v, tv = self.ex(s.value, want if not isinstance(want, tuple) else None)
            if isinstance(want, tuple) and tv != want:
                raise Untranslatable('returns %r, expected %r' % (tv, want))
            return self.emit(ind, 'return some %s' % v if self.sig['kind'] == 'option' else 'return %s' % v)
        if isinstance(s, ast.Expr) and isinstance(s.value, ast.Yield):
            v, tv = self.ex(s.value.value)
            if tv != self.sig['ret']:
                raise Untranslatable('yields %r, expected %r' % (tv, self.sig['ret']))
            return self.emit(ind, 'out := out ++ [%s]' % v)
        if isinstance(s, ast.Raise) and isinstance(s.exc, ast.Call) and isinstance(s.exc.func, ast.Name):
            kinds = {'ValueError': '.value', 'IndexError': '.index', 'RuntimeError': '.runtime', 'TypeError': '.type',
                     'KeyError': '.key'}
            if s.exc.func.id in kinds:
                return self.emit(ind, 'throw %s' % kinds[s.exc.func.id])
        raise Untranslatable('statement %s' % ast.dump(s)[:100])

    # ------------------------------------------------------------------------------------------- whole
    def run(self):
        node, sig = self.node, self.sig
        a = node.args
        got = [x.arg for x in a.args]
        if got != [p for p, _ in sig['params']] or a.kwonlyargs or a.posonlyargs or a.defaults:
            raise Untranslatable('%s: parameter list %r' % (node.name, got))
        if (a.vararg.arg if a.vararg else None) != (sig['vararg'][0] if 'vararg' in sig else None):
            raise Untranslatable('%s: *args' % node.name)
        if (a.kwarg.arg if a.kwarg else None) != (sig['kwarg'][0] if 'kwarg' in sig else None):
            raise Untranslatable('%s: **kwargs' % node.name)
        binders = []
        for p, ty in sig['params']:
            self.bind(p, ty)
            binders.append('(%s : %s)' % (lname(p), ltype(ty)))
        if 'vararg' in sig:
            self.bind(sig['vararg'][0], sig['vararg'][1])
            binders.append('(%s : %s)' % (lname(sig['vararg'][0]), ltype(sig['vararg'][1])))
        if 'kwarg' in sig:
            self.bind(sig['kwarg'][0], ('dict', sig['kwarg'][1]))
            binders.append('(%s : List (String × %s))' % (lname(sig['kwarg'][0]), ltype(sig['kwarg'][1])))
            for k, ty in sig['kwonly'].items():
                binders.append('(kw_%s : %s)' % (k, ltype(ty)))
        ret = sig['ret']
        rty = {'generator': 'List %s' % _paren(ltype(ret)), 'option': 'Option %s' % _paren(ltype(ret)),
               'plain': ltype(ret)}[sig['kind']]
        head = 'def %s %s : PyM %s := do' % (lname(node.name), ' '.join(binders), _paren(rty))
        # parameters that the body re-binds become mutable locals
        for p in [x for x, _ in sig['params']] + ([sig['vararg'][0]] if 'vararg' in sig else []):
            if p in self.mutable or any(isinstance(n, ast.Assign) and any(isinstance(t, ast.Name) and t.id == p for t in n.targets)
                                       for n in ast.walk(node)):
                self.emit(1, 'let mut %s := %s' % (lname(p), lname(p)))
                self.declared.add(p)
                self.mutable.add(p)
        if sig['kind'] == 'generator':
            self.emit(1, 'let mut out : List %s := []' % _paren(ltype(ret)))
        self.block(1, node.body)
        if sig['kind'] == 'generator':
            self.emit(1, 'return out')
        elif sig['kind'] == 'option':
            self.emit(1, 'return none')
        elif not isinstance(node.body[-1], (ast.Return, ast.Raise)):
            raise Untranslatable('%s: falls off the end' % node.name)
        return head + '\n' + '\n'.join(self.lines)


HEADER = '''import Splipy.Lemmas.C15PyLib

/-! GENERATED by harness/translate/sections_translate.py from the Python AST of
`splipy/utils/__init__.py` (functions %s).  Do not edit: the file is rewritten by every run of
`./check C15`; `Splipy/Properties/C15.lean` proves these definitions equal to the hand model. -/

set_option linter.unusedVariables false

namespace Splipy.Generated.C15
open Splipy Splipy.Sections Splipy.PyLib

'''


def translate(src):
    tree = ast.parse(src)
    fns = {n.name: n for n in tree.body if isinstance(n, ast.FunctionDef)}
    parts, notes = [], []
    for name in ORDER:
        if name not in fns:
            raise Untranslatable('function %s not found' % name)
        parts.append(Fn(fns[name], SIGS[name], set(ORDER)).run())
        notes.append('%s: %d statements' % (name, sum(1 for _ in ast.walk(fns[name]) if isinstance(_, ast.stmt)) - 1))
    text = HEADER % ', '.join(ORDER) + '\n\n'.join(parts) + '\n\nend Splipy.Generated.C15\n'
    digest = hashlib.sha256('\n'.join(ast.dump(fns[n]) for n in ORDER).encode()).hexdigest()[:16]
    return {'lean': text, 'notes': notes, 'digest': digest}


if __name__ == '__main__':
    import sys
    print(translate(open(sys.argv[1], encoding='utf-8').read())['lean'])
