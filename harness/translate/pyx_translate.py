"""Cython (.pyx) -> Lean translator for `splipy/basis_eval.pyx` (properties C01, C20; work package t2).

`translate(src)` turns the functions `my_bisect_left`, `my_bisect_right`, `evaluate` and `snap` of the
Cython evaluation kernel into Lean definitions that KEEP THE IMPERATIVE STRUCTURE of the code:

* a small preprocessor removes what is not Python syntax (`cimport`, `cdef` declarations, `cdef`
  function headers, C types in front of parameters) and RECORDS the declared C types; the result is
  parsed with Python's `ast`;
* every function gets a record `f.St K` with one field per variable the function assigns; an
  assignment is a record update, an array store is `aset`, an array load is `aget`, a `for` over
  `range` is the fold `forRange`, `while` is `whileFuel` (see `lean/Splipy/Lemmas/PyxLib.lean`, which
  also documents the reading of the C primitives);
* every loop body and every loop becomes a definition of its own, `f.L<n>_body` / `f.L<n>` (loops
  numbered in source order, outer before inner), so that `lean/Splipy/Lemmas/PyxEq.lean` can state and
  prove, per loop, that the in-place code computes the pure maps of the hand-written model
  (`lean/Splipy/Model/Basis.lean`) the property theorems are about.  Nothing is taken from that model.

The accepted subset is exactly what the four functions use.  Anything else raises `Untranslatable`
(fail closed): the caller then writes a marker into the generated file that makes every obligation
fail.  Comments, docstrings and blank lines do not reach the output (no line numbers are emitted), so
a comment-only change regenerates the identical file.
"""
import ast
import hashlib
import re

FUNCS = ['my_bisect_left', 'my_bisect_right', 'evaluate', 'snap']


class Untranslatable(Exception):
    pass


# ---------------------------------------------------------------------------------------------
# C types

# (regex of the spelling, internal type).  Longest spellings first.
_TYPE_SPELLINGS = [
    (r'np\s*\.\s*ndarray\s*\[\s*np\s*\.\s*float_t\s*,\s*ndim\s*=\s*1\s*\]', 'arrK'),
    (r'np\s*\.\s*float_t\s*\[\s*:\s*\]', 'arrK'),
    (r'np\s*\.\s*int32_t\s*\[\s*:\s*\]', 'arrN'),
    (r'np\s*\.\s*float_t\b', 'K'),
    (r'unsigned\s+int\b', 'nat'),
    (r'bint\b', 'bool'),
    (r'int\b', 'int'),
]
LEAN_TYPE = {'nat': 'ℕ', 'int': 'ℤ', 'K': 'K', 'bool': 'Bool', 'arrK': 'Array K', 'arrN': 'Array ℕ'}
LEAN_DEFAULT = {'nat': '0', 'int': '0', 'K': '0', 'bool': 'false', 'arrK': '#[]', 'arrN': '#[]'}
KEYWORDS = {'end', 'from', 'at', 'fun', 'do', 'then', 'else', 'open', 'in', 'instance', 'class', 'namespace',
            'section', 'where', 'with', 'let', 'have', 'show', 'if', 'match', 'by', 'local', 'private', 'theorem',
            'def', 'structure', 'import', 'variable', 'universe', 'example', 'axiom', 'lemma', 'abbrev', 'mutual',
            'partial', 'unsafe', 'macro', 'syntax', 'notation', 'prefix', 'infix', 'postfix', 'deriving', 'extends',
            'for', 'return', 'Type', 'Prop', 'Sort', 'K', 'fuel', 's'}


def lname(n):
    if not re.fullmatch(r'[A-Za-z_][A-Za-z0-9_]*', n):
        raise Untranslatable('identifier %r' % n)
    return '«%s»' % n if n in KEYWORDS else n


def _take_type(text):
    """Split `<C type> <rest>`; returns (type, rest) or raises."""
    t = text.lstrip()
    for rx, ty in _TYPE_SPELLINGS:
        m = re.match(rx, t)
        if m:
            return ty, t[m.end():]
    raise Untranslatable('unknown C type in declaration %r' % text.strip()[:80])


# ---------------------------------------------------------------------------------------------
# preprocessor: .pyx text -> (python text with the same line structure, recorded declarations)

def _split_top(s, sep=','):
    out, depth, cur = [], 0, []
    for ch in s:
        if ch in '([{':
            depth += 1
        elif ch in ')]}':
            depth -= 1
        if ch == sep and depth == 0:
            out.append(''.join(cur))
            cur = []
        else:
            cur.append(ch)
    out.append(''.join(cur))
    return out


def _strip_comment(line):
    """Cut a trailing `# ...` (there are no string literals containing '#' outside docstrings;
    docstring lines never start a `cdef`/`def`, which is all this helper is used for)."""
    i = line.find('#')
    return line if i < 0 else line[:i]


def preprocess(src):
    """Returns (python_source, sigs, decls, defaults):
    defaults[fname] = [(param name, default expression text)],
    sigs[fname]  = list of (param name, type) in order,
    decls[fname] = {local name: type} from `cdef` declarations inside that function."""
    sigs, decls, defaults = {}, {}, {}
    # 0. compiler directives in comments change the meaning of `%`, `//`, indexing: reject them
    for ln in src.split('\n'):
        if re.match(r'^\s*#\s*(cython|distutils)\s*:', ln):
            raise Untranslatable('compiler directive comment %r' % ln.strip()[:80])
    # 1. function headers (may span several lines)
    out = []
    pos = 0
    for m in re.finditer(r'^([ \t]*)(cdef|def|cpdef)[ \t]+([A-Za-z_]\w*)[ \t]*\(', src, flags=re.M):
        if m.start() < pos:
            continue
        kind, name = m.group(2), m.group(3)
        if kind == 'cpdef':
            raise Untranslatable('cpdef function %s' % name)
        i = m.end()
        depth = 1
        while i < len(src) and depth:
            if src[i] in '([':
                depth += 1
            elif src[i] in ')]':
                depth -= 1
            elif src[i] == '#':
                raise Untranslatable('comment inside the signature of %s' % name)
            i += 1
        if depth:
            raise Untranslatable('unbalanced signature of %s' % name)
        argtext = src[m.end():i - 1]
        tail = re.match(r'[ \t]*:', src[i:])
        if not tail:
            raise Untranslatable('signature of %s is not followed by ":" (return types / nogil are not supported)' % name)
        params, pyargs = [], []
        for a in _split_top(argtext):
            if not a.strip():
                continue
            ty, rest = _take_type(a)
            mm = re.fullmatch(r'\s*([A-Za-z_]\w*)\s*(=\s*(.*?))?\s*', rest, flags=re.S)
            if not mm:
                raise Untranslatable('parameter %r of %s' % (a.strip(), name))
            params.append((mm.group(1), ty))
            pyargs.append(mm.group(1) + ('=' + mm.group(3) if mm.group(2) else ''))
            if mm.group(2):
                defaults.setdefault(name, []).append((mm.group(1), mm.group(3).strip()))
        if name in sigs:
            raise Untranslatable('function %s defined twice' % name)
        sigs[name] = params
        out.append(src[pos:m.start()])
        out.append('%sdef %s(%s%s)' % (m.group(1), name, ', '.join(pyargs), '\n' * argtext.count('\n')))
        pos = i
    out.append(src[pos:])
    text = ''.join(out)
    # 2. line-based: cimport, cdef declarations
    lines = text.split('\n')
    cur = None
    cur_indent = 0
    res = []
    for ln in lines:
        mdef = re.match(r'^([ \t]*)def[ \t]+([A-Za-z_]\w*)', ln)
        if mdef:
            cur, cur_indent = mdef.group(2), len(mdef.group(1))
            decls.setdefault(cur, {})
            res.append(ln)
            continue
        code = _strip_comment(ln)
        if cur is not None and code.strip() and (len(code) - len(code.lstrip())) <= cur_indent and not code.lstrip().startswith(')'):
            cur = None
        if re.match(r'^[ \t]*cimport\b', code) or re.match(r'^[ \t]*from\b.*\bcimport\b', code):
            res.append('')
            continue
        m = re.match(r'^([ \t]*)cdef\b(.*)$', code)
        if m:
            if cur is None:
                raise Untranslatable('module-level cdef: %r' % code.strip()[:80])
            ty, rest = _take_type(m.group(2))
            if '=' in rest:
                nm, expr = rest.split('=', 1)
                nm = nm.strip()
                if not re.fullmatch(r'[A-Za-z_]\w*', nm) or expr.lstrip().startswith('='):
                    raise Untranslatable('cdef declaration %r' % code.strip()[:80])
                _declare(decls[cur], nm, ty, cur)
                res.append('%s%s = %s' % (m.group(1), nm, expr.strip()))
            else:
                for nm in rest.split(','):
                    nm = nm.strip()
                    if not re.fullmatch(r'[A-Za-z_]\w*', nm):
                        raise Untranslatable('cdef declaration %r' % code.strip()[:80])
                    _declare(decls[cur], nm, ty, cur)
                res.append('')
            continue
        res.append(ln)
    return '\n'.join(res), sigs, decls, defaults


def _declare(d, nm, ty, fn):
    if nm in d:
        raise Untranslatable('%s: variable %s declared twice' % (fn, nm))
    d[nm] = ty


# ---------------------------------------------------------------------------------------------
# translation of one function

class _Fn:
    def __init__(self, name, node, params, decls, all_sigs, ret_types):
        self.name = name
        self.node = node
        self.params = params                    # [(name, type)]
        self.ptype = dict(params)
        self.decls = decls                      # {local: type}
        for n in decls:
            if n in self.ptype:
                raise Untranslatable('%s: local %s shadows a parameter' % (name, n))
        self.all_sigs = all_sigs
        self.ret_types = ret_types              # {callee: type} for already translated functions
        self.assigned = self._assigned_names(node)
        for n in self.assigned:
            if n not in self.ptype and n not in decls:
                raise Untranslatable('%s: assignment to undeclared (Python object) variable %s' % (name, n))
        # state fields: mutated parameters (signature order), then assigned locals (declaration order)
        self.fields = [(n, t) for n, t in params if n in self.assigned] + [(n, t) for n, t in decls.items() if n in self.assigned]
        self.ftype = dict(self.fields)
        self.ro_params = [(n, t) for n, t in params if n not in self.assigned]
        self.loop_no = 0
        self.cont_no = {}
        self.defs = []                          # emitted auxiliary definitions (text), inner loops first
        self.uses_pmod = False
        self.uses_fuel = False
        self.callees = []
        self.ret_type = None

    # -- helpers ------------------------------------------------------------------------------
    @staticmethod
    def _assigned_names(fn):
        names = []

        def tgt(t):
            if isinstance(t, ast.Name):
                names.append(t.id)
            elif isinstance(t, ast.Subscript) and isinstance(t.value, ast.Name):
                names.append(t.value.id)
            elif isinstance(t, ast.Tuple):
                for e in t.elts:
                    tgt(e)
            else:
                raise Untranslatable('assignment target %s' % ast.dump(t)[:80])
        for n in ast.walk(fn):
            if isinstance(n, ast.Assign):
                for t in n.targets:
                    tgt(t)
            elif isinstance(n, (ast.AugAssign, ast.AnnAssign)):
                raise Untranslatable('%s: augmented/annotated assignment (line %d)' % (fn.name, n.lineno))
            elif isinstance(n, ast.For):
                tgt(n.target)
            elif isinstance(n, (ast.NamedExpr, ast.With, ast.Try, ast.Lambda, ast.ListComp, ast.GeneratorExp,
                                ast.FunctionDef, ast.ClassDef, ast.Global, ast.Nonlocal, ast.Delete,
                                ast.Import, ast.ImportFrom)) and n is not fn:
                raise Untranslatable('%s: %s (line %d)' % (fn.name, type(n).__name__, getattr(n, 'lineno', 0)))
        seen = []
        for n in names:
            if n not in seen:
                seen.append(n)
        return seen

    def vtype(self, name):
        if name in self.ftype:
            return self.ftype[name]
        if name in self.ptype:
            return self.ptype[name]
        if name in self.decls:
            raise Untranslatable('%s: %s is declared but never assigned, yet it is read' % (self.name, name))
        raise Untranslatable('%s: unknown name %s' % (self.name, name))

    def ref(self, name):
        return ('s.%s' % lname(name)) if name in self.ftype else lname(name)

    def ro_binders(self):
        return '(fuel : ℕ)' + ''.join(' (%s : %s)' % (lname(n), LEAN_TYPE[t]) for n, t in self.ro_params)

    def ro_args(self):
        return 'fuel' + ''.join(' ' + lname(n) for n, _ in self.ro_params)

    def err(self, node, what):
        return Untranslatable('%s line %d: %s' % (self.name, getattr(node, 'lineno', 0), what))

    # -- expressions ---------------------------------------------------------------------------
    @staticmethod
    def coerce(e, frm, to):
        if frm == to:
            return e
        if frm == 'lit':
            if to in ('nat', 'int', 'K'):
                return '(%s : %s)' % (e, LEAN_TYPE[to])
        if frm == 'nat' and to in ('int', 'K'):
            return '((%s : ℕ) : %s)' % (e, LEAN_TYPE[to])
        if frm == 'int' and to == 'K':
            return '((%s : ℤ) : K)' % e
        if frm == 'int' and to == 'nat':
            return '(Int.toNat %s)' % e      # assignment of a signed value to an unsigned variable
        raise Untranslatable('cannot convert %s to %s: %s' % (frm, to, e))

    @staticmethod
    def join(a, b):
        if a == 'lit':
            return b if b != 'lit' else 'nat'
        if b == 'lit':
            return a
        order = ['nat', 'int', 'K']
        if a in order and b in order:
            return order[max(order.index(a), order.index(b))]
        raise Untranslatable('arithmetic on %s and %s' % (a, b))

    def ex(self, n):
        """numeric / array / bool-valued expression -> (lean text, type)"""
        if isinstance(n, ast.Constant):
            if isinstance(n.value, bool):
                return ('true' if n.value else 'false'), 'bool'
            if isinstance(n.value, int) and n.value >= 0:
                return str(n.value), 'lit'
            raise self.err(n, 'constant %r' % (n.value,))
        if isinstance(n, ast.Name):
            if not isinstance(n.ctx, ast.Load):
                raise self.err(n, 'name context')
            return self.ref(n.id), self.vtype(n.id)
        if isinstance(n, ast.BinOp):
            a, ta = self.ex(n.left)
            b, tb = self.ex(n.right)
            op = type(n.op)
            if op in (ast.Add, ast.Sub, ast.Mult):
                t = self.join(ta, tb)
                sym = {ast.Add: '+', ast.Sub: '-', ast.Mult: '*'}[op]
                return '(%s %s %s)' % (self.coerce(a, ta, t), sym, self.coerce(b, tb, t)), t
            if op is ast.Div:
                if 'K' not in (ta, tb):
                    raise self.err(n, 'true division of integers')
                return '(%s / %s)' % (self.coerce(a, ta, 'K'), self.coerce(b, tb, 'K')), 'K'
            if op is ast.FloorDiv:
                t = self.join(ta, tb)
                if t != 'nat':
                    raise self.err(n, 'floor division on %s' % t)
                return '(%s / %s)' % (self.coerce(a, ta, t), self.coerce(b, tb, t)), 'nat'
            if op is ast.Mod:
                t = self.join(ta, tb)
                if t == 'nat':
                    return '(%s %% %s)' % (self.coerce(a, ta, t), self.coerce(b, tb, t)), 'nat'
                if t == 'K':
                    self.uses_pmod = True
                    return '(Splipy.pmod %s %s)' % (self.coerce(a, ta, t), self.coerce(b, tb, t)), 'K'
                raise self.err(n, 'modulo on %s' % t)
            raise self.err(n, 'operator %s' % op.__name__)
        if isinstance(n, ast.Subscript):
            if not isinstance(n.value, ast.Name):
                raise self.err(n, 'subscript of a non-name')
            ta = self.vtype(n.value.id)
            if ta not in ('arrK', 'arrN'):
                raise self.err(n, 'subscript of %s' % ta)
            i, ti = self.ex(n.slice)
            if ti not in ('nat', 'lit'):
                raise self.err(n, 'array index of type %s (only unsigned indices are supported)' % ti)
            return '(aget %s %s)' % (self.ref(n.value.id), self.coerce(i, ti, 'nat')), ('K' if ta == 'arrK' else 'nat')
        if isinstance(n, ast.Call):
            return self.call(n)
        if isinstance(n, (ast.Compare, ast.BoolOp)) or (isinstance(n, ast.UnaryOp) and isinstance(n.op, ast.Not)):
            return '(decide %s)' % self.cond(n), 'bool'
        if isinstance(n, ast.Tuple):
            parts = [self.ex(e) for e in n.elts]
            for _, t in parts:
                if t == 'lit':
                    raise self.err(n, 'literal in a tuple')
            return '(%s)' % ', '.join(p for p, _ in parts), ('tuple', tuple(t for _, t in parts))
        raise self.err(n, 'expression %s' % type(n).__name__)

    def _dotted(self, f):
        if isinstance(f, ast.Name):
            return f.id
        if isinstance(f, ast.Attribute):
            b = self._dotted(f.value)
            return None if b is None else b + '.' + f.attr
        return None

    def call(self, n):
        fname = self._dotted(n.func)
        kw = {k.arg: k.value for k in n.keywords}
        if None in kw:
            raise self.err(n, '**kwargs')
        args = n.args
        if any(isinstance(a, ast.Starred) for a in args):
            raise self.err(n, '*args')
        if fname == 'abs' and len(args) == 1 and not kw:
            a, t = self.ex(args[0])
            if t != 'K':
                raise self.err(n, 'abs of %s' % t)
            return '|%s|' % a, 'K'
        if fname == 'min' and len(args) == 2 and not kw:
            a, ta = self.ex(args[0])
            b, tb = self.ex(args[1])
            t = self.join(ta, tb)
            if t != 'nat':
                raise self.err(n, 'min on %s' % t)
            return '(min %s %s)' % (self.coerce(a, ta, t), self.coerce(b, tb, t)), 'nat'
        if fname == 'len' and len(args) == 1 and not kw:
            a, t = self.ex(args[0])
            if t not in ('arrK', 'arrN'):
                raise self.err(n, 'len of %s' % t)
            return '%s.size' % a, 'nat'
        if fname == 'np.zeros' and len(args) == 1 and set(kw) == {'dtype'}:
            a, t = self.ex(args[0])
            dt = self._dotted(kw['dtype'])
            if dt == 'float':
                return '(Array.replicate %s (0 : K))' % self.coerce(a, t, 'nat'), 'arrK'
            if dt == 'np.int32':
                return '(Array.replicate %s (0 : ℕ))' % self.coerce(a, t, 'nat'), 'arrN'
            raise self.err(n, 'np.zeros dtype')
        if fname == 'np.arange' and len(args) == 3 and set(kw) == {'dtype'} and self._dotted(kw['dtype']) == 'np.int32':
            parts = []
            for a in args:
                e, t = self.ex(a)
                parts.append(self.coerce(e, t, 'nat'))
            return '(npArange %s)' % ' '.join(parts), 'arrN'
        if fname is not None and fname.endswith('.copy') and not args and not kw and isinstance(n.func.value, ast.Name):
            a, t = self.ex(n.func.value)
            if t not in ('arrK', 'arrN'):
                raise self.err(n, '.copy() of %s' % t)
            return a, t                        # value semantics: a copy is the same value
        if fname in self.ret_types and not kw:
            sig = self.all_sigs[fname]
            if len(args) != len(sig):
                raise self.err(n, 'call of %s with %d arguments' % (fname, len(args)))
            parts = []
            for a, (_, pt) in zip(args, sig):
                e, t = self.ex(a)
                parts.append(self.coerce(e, t, pt))
            self.uses_fuel = True
            if fname not in self.callees:
                self.callees.append(fname)
            return '(%s fuel %s)' % (lname(fname), ' '.join(parts)), self.ret_types[fname]
        raise self.err(n, 'call of %s' % (fname or type(n.func).__name__))

    def cond(self, n):
        """boolean context -> Lean Prop text"""
        if isinstance(n, ast.BoolOp):
            sym = ' ∧ ' if isinstance(n.op, ast.And) else ' ∨ '
            return '(' + sym.join(self.cond(v) for v in n.values) + ')'
        if isinstance(n, ast.UnaryOp) and isinstance(n.op, ast.Not):
            return '(¬ %s)' % self.cond(n.operand)
        if isinstance(n, ast.Compare):
            if len(n.ops) != 1:
                raise self.err(n, 'chained comparison')
            a, ta = self.ex(n.left)
            b, tb = self.ex(n.comparators[0])
            t = self.join(ta, tb)
            sym = {ast.Lt: '<', ast.Gt: '>', ast.LtE: '≤', ast.GtE: '≥', ast.Eq: '=', ast.NotEq: '≠'}.get(type(n.ops[0]))
            if sym is None:
                raise self.err(n, 'comparison operator')
            return '(%s %s %s)' % (self.coerce(a, ta, t), sym, self.coerce(b, tb, t))
        e, t = self.ex(n)
        if t != 'bool':
            raise self.err(n, 'truth value of %s' % t)     # C truthiness of numbers is not supported
        return '(%s = true)' % e

    # -- statements ----------------------------------------------------------------------------
    def let(self):
        return 'let s : %s.St K :=' % self.name

    def upd(self, field, value):
        return '{ s with %s := %s }' % (lname(field), value)

    def block(self, stmts, ind, in_loop, top=False):
        """Translate a statement list into lines `let s := …;`; the final line is `s`.
        `in_loop` is the name of the enclosing `for` loop when the list is (the tail of) its body
        (only there `if c: continue` is accepted), else False."""
        pad = ' ' * ind
        L = []
        i = 0
        while i < len(stmts):
            st = stmts[i]
            if isinstance(st, ast.Expr) and isinstance(st.value, ast.Constant) and isinstance(st.value.value, str):
                i += 1
                continue                                           # docstring
            if isinstance(st, ast.Return):
                if not top or i != len(stmts) - 1 or st.value is None:
                    raise self.err(st, 'return that is not the last statement of the function')
                e, t = self.ex(st.value)
                if t == 'lit':
                    raise self.err(st, 'return of a literal')
                self.ret_type = t
                L.append(pad + e)
                return L
            if isinstance(st, ast.If) and len(st.body) == 1 and isinstance(st.body[0], ast.Continue) and not st.orelse:
                if not in_loop:
                    raise self.err(st, 'continue outside a for body')
                # the statements skipped by `continue` become a definition of their own, `<loop>_body_cont<n>`
                cond = self.cond(st.test)
                self.cont_no[in_loop] = self.cont_no.get(in_loop, 0) + 1
                cname = '%s_body_cont%d' % (in_loop, self.cont_no[in_loop])
                rest = self.block(stmts[i + 1:], 2, in_loop)
                d = ['def %s %s (s : %s.St K) : %s.St K :=' % (cname, self.ro_binders(), self.name, self.name)] + rest
                self.defs.append('\n'.join(d))
                L.append(pad + 'if %s then s else %s %s s' % (cond, cname, self.ro_args()))
                return L
            L.extend(self.stmt(st, ind))
            i += 1
        L.append(pad + 's')
        return L

    def stmt(self, st, ind):
        pad = ' ' * ind
        if isinstance(st, ast.Assign):
            if len(st.targets) != 1:
                raise self.err(st, 'multiple assignment targets')
            t = st.targets[0]
            if isinstance(t, ast.Name):
                tt = self.ftype[t.id]
                e, te = self.ex(st.value)
                if tt in ('arrK', 'arrN'):
                    if te != tt:
                        raise self.err(st, 'array assignment of %s to %s' % (te, tt))
                    if isinstance(st.value, ast.Name):
                        self.check_alias(st, st.value.id)
                    return [pad + self.let() + ' %s;' % self.upd(t.id, e)]
                if tt == 'bool':
                    if te != 'bool':
                        raise self.err(st, 'assignment of %s to a bint' % te)
                    return [pad + self.let() + ' %s;' % self.upd(t.id, e)]
                return [pad + self.let() + ' %s;' % self.upd(t.id, self.coerce(e, te, tt))]
            if isinstance(t, ast.Subscript) and isinstance(t.value, ast.Name):
                arr = t.value.id
                ta = self.ftype[arr]
                if ta not in ('arrK', 'arrN'):
                    raise self.err(st, 'store into %s' % ta)
                idx, ti = self.ex(t.slice)
                if ti not in ('nat', 'lit'):
                    raise self.err(st, 'array index of type %s' % ti)
                e, te = self.ex(st.value)
                elt = 'K' if ta == 'arrK' else 'nat'
                if elt == 'nat' and te not in ('nat', 'lit'):
                    raise self.err(st, 'store of %s into an int32 array (only unsigned values are supported)' % te)
                return [pad + self.let() + ' %s;' % self.upd(arr, '(aset s.%s %s %s)' % (lname(arr), self.coerce(idx, ti, 'nat'), self.coerce(e, te, elt)))]
            raise self.err(st, 'assignment target')
        if isinstance(st, ast.If):
            L = [pad + self.let() + ' if %s then (' % self.cond(st.test)]
            L.extend(self.block(st.body, ind + 4, False))
            if st.orelse:
                L.append(pad + '  ) else (')
                L.extend(self.block(st.orelse, ind + 4, False))
            else:
                L.append(pad + '  ) else (')
                L.append(pad + '    s')
            L.append(pad + '  );')
            return L
        if isinstance(st, ast.For):
            return self.for_loop(st, ind)
        if isinstance(st, ast.While):
            return self.while_loop(st, ind)
        if isinstance(st, ast.Pass):
            return []
        raise self.err(st, 'statement %s' % type(st).__name__)

    def check_alias(self, st, src_name):
        """`a = b` between arrays is an alias in Cython; it is translated as a value copy, which is
        only faithful when `b` is not used again afterwards and the statement is not in a loop."""
        for n in ast.walk(self.node):
            if isinstance(n, ast.Name) and n.id == src_name and (n.lineno, n.col_offset) > (st.lineno, st.value.col_offset):
                raise self.err(st, 'array alias %s is used again after being aliased' % src_name)
        for n in ast.walk(self.node):
            if isinstance(n, (ast.For, ast.While)) and any(x is st for x in ast.walk(n)):
                raise self.err(st, 'array alias inside a loop')

    def _range_bounds(self, call, st):
        if not (isinstance(call, ast.Call) and isinstance(call.func, ast.Name) and call.func.id == 'range' and not call.keywords):
            raise self.err(st, 'for over something that is not range(..)')
        if len(call.args) == 1:
            lo = ('0', 'lit')
            hi = self.ex(call.args[0])
        elif len(call.args) == 2:
            lo = self.ex(call.args[0])
            hi = self.ex(call.args[1])
        else:
            raise self.err(st, 'range with a step')
        for _, t in (lo, hi):
            if t not in ('nat', 'lit'):
                raise self.err(st, 'range bound of type %s' % t)
        return self.coerce(lo[0], lo[1], 'nat'), self.coerce(hi[0], hi[1], 'nat')

    def for_loop(self, st, ind):
        pad = ' ' * ind
        if st.orelse:
            raise self.err(st, 'for-else')
        self.loop_no += 1
        no = self.loop_no
        base = '%s.L%d' % (self.name, no)
        it = st.iter
        enum = (isinstance(it, ast.Call) and isinstance(it.func, ast.Name) and it.func.id == 'enumerate'
                and len(it.args) == 1 and not it.keywords)
        if enum:
            if not (isinstance(st.target, ast.Tuple) and len(st.target.elts) == 2 and all(isinstance(e, ast.Name) for e in st.target.elts)):
                raise self.err(st, 'enumerate target')
            v1, v2 = st.target.elts[0].id, st.target.elts[1].id
            if self.ftype[v1] != 'nat' or self.ftype[v2] != 'nat' or v1 == v2:
                raise self.err(st, 'loop variables must be distinct unsigned ints')
            lo, hi = self._range_bounds(it.args[0], st)
            body = self.block(st.body, 2, base)
            d = ['def %s_body %s (v1 v2 : ℕ) (s : %s.St K) : %s.St K :=' % (base, self.ro_binders(), self.name, self.name),
                 '  ' + self.let() + ' %s;' % self.upd(v1, 'v1'),
                 '  ' + self.let() + ' %s;' % self.upd(v2, 'v2')] + body
            d += ['', 'def %s %s (s : %s.St K) : %s.St K :=' % (base, self.ro_binders(), self.name, self.name),
                  '  forEnumRange %s %s (%s_body %s) s' % (lo, hi, base, self.ro_args())]
        else:
            if not isinstance(st.target, ast.Name):
                raise self.err(st, 'for target')
            v = st.target.id
            if self.ftype[v] != 'nat':
                raise self.err(st, 'loop variable %s must be an unsigned int' % v)
            lo, hi = self._range_bounds(it, st)
            body = self.block(st.body, 2, base)
            d = ['def %s_body %s (v : ℕ) (s : %s.St K) : %s.St K :=' % (base, self.ro_binders(), self.name, self.name),
                 '  ' + self.let() + ' %s;' % self.upd(v, 'v')] + body
            d += ['', 'def %s %s (s : %s.St K) : %s.St K :=' % (base, self.ro_binders(), self.name, self.name),
                  '  forRange %s %s (%s_body %s) s' % (lo, hi, base, self.ro_args())]
        self.defs.append('\n'.join(d))
        return [pad + self.let() + ' %s %s s;' % (base, self.ro_args())]

    def while_loop(self, st, ind):
        pad = ' ' * ind
        if st.orelse:
            raise self.err(st, 'while-else')
        self.loop_no += 1
        base = '%s.L%d' % (self.name, self.loop_no)
        c = self.cond(st.test)
        body = self.block(st.body, 2, False)
        self.uses_fuel = True
        d = ['def %s_body %s (s : %s.St K) : %s.St K :=' % (base, self.ro_binders(), self.name, self.name)] + body
        d += ['', 'def %s %s (s : %s.St K) : %s.St K :=' % (base, self.ro_binders(), self.name, self.name),
              '  whileFuel fuel (fun s => decide %s) (%s_body %s) s' % (c, base, self.ro_args())]
        self.defs.append('\n'.join(d))
        return [pad + self.let() + ' %s %s s;' % (base, self.ro_args())]

    # -- definite assignment (reads of C locals that may be uninitialised are rejected) ----------
    def definite(self):
        init = {n for n, _ in self.params}

        def reads(expr, have, where):
            for n in ast.walk(expr):
                if isinstance(n, ast.Name) and isinstance(n.ctx, ast.Load) and n.id in self.ftype and n.id not in have:
                    raise self.err(where, 'variable %s may be read before it is assigned' % n.id)

        def run(stmts, have):
            """returns the definitely-assigned set after the list, or None when the list ends in `continue`"""
            have = set(have)
            for st in stmts:
                if isinstance(st, ast.Assign):
                    reads(st.value, have, st)
                    t = st.targets[0]
                    if isinstance(t, ast.Name):
                        have.add(t.id)
                    else:
                        reads(t.slice, have, st)
                        if t.value.id not in have:
                            raise self.err(st, 'store into unassigned array %s' % t.value.id)
                elif isinstance(st, ast.If):
                    reads(st.test, have, st)
                    a = run(st.body, have)
                    b = run(st.orelse, have)
                    if a is None and b is None:
                        return None
                    have = b if a is None else a if b is None else (a & b)
                elif isinstance(st, ast.For):
                    reads(st.iter, have, st)
                    tv = [st.target.id] if isinstance(st.target, ast.Name) else [e.id for e in st.target.elts]
                    run(st.body, have | set(tv))
                elif isinstance(st, ast.While):
                    reads(st.test, have, st)
                    run(st.body, have)
                elif isinstance(st, ast.Return):
                    if st.value is not None:
                        reads(st.value, have, st)
                elif isinstance(st, ast.Continue):
                    return None
                elif isinstance(st, ast.Expr):
                    pass
            return have
        run(self.node.body, init)

    # -- whole function --------------------------------------------------------------------------
    def translate(self):
        fn = self.node
        a = fn.args
        if a.vararg or a.kwarg or a.kwonlyargs or a.posonlyargs:
            raise Untranslatable('%s: unsupported parameter kinds' % self.name)
        if [x.arg for x in a.args] != [n for n, _ in self.params]:
            raise Untranslatable('%s: signature mismatch after preprocessing' % self.name)
        for d in fn.decorator_list:
            if ast.unparse(d) != 'cython.boundscheck(False)':
                raise Untranslatable('%s: decorator %s' % (self.name, ast.unparse(d)))
        self.definite()
        body = self.block(fn.body, 2, False, top=True)
        inst = '{K : Type} [Field K] [LinearOrder K]' + (' [FloorRing K]' if self.uses_pmod_transitive() else '')
        out = []
        out.append('/-- State of `%s`: one field per assigned variable. -/' % self.name)
        out.append('structure %s.St (K : Type) where' % self.name)
        for n, t in self.fields:
            out.append('  %s : %s' % (lname(n), LEAN_TYPE[t]))
        out.append('')
        for d in self.defs:
            out.append(d)
            out.append('')
        if self.ret_type is None:
            rt = '%s.St K' % self.name
        else:
            rt = self.lean_ret(self.ret_type)
        allb = '(fuel : ℕ)' + ''.join(' (%s : %s)' % (lname(n), LEAN_TYPE[t]) for n, t in self.params)
        out.append('def %s %s : %s :=' % (lname(self.name), allb, rt))
        init = ', '.join('%s := %s' % (lname(n), lname(n) if n in self.ptype else LEAN_DEFAULT[t]) for n, t in self.fields)
        out.append('  let s : %s.St K := { %s };' % (self.name, init))
        out.extend(body)
        text = '\n'.join(out)
        # the instance binders go on every definition of this function
        text = re.sub(r'^def (\S+) \(fuel : ℕ\)', lambda m: 'def %s %s (fuel : ℕ)' % (m.group(1), inst), text, flags=re.M)
        return text

    def uses_pmod_transitive(self):
        return self.uses_pmod or any(self.ret_types_pmod.get(c) for c in self.callees)

    def lean_ret(self, t):
        if isinstance(t, tuple) and t[0] == 'tuple':
            return '(' + ' × '.join(self.lean_ret(x) for x in t[1]) + ')'
        return LEAN_TYPE[t]


HEADER = '''import Splipy.Lemmas.PyxLib

/-! GENERATED by harness/translate/pyx_translate.py from the Cython source `splipy/basis_eval.pyx`
(functions %s).  Do not edit: the file is rewritten on every run of `./check C01` / `./check C20`.
`Splipy/Lemmas/PyxEq.lean` proves these imperative definitions equal to the hand-written model
`Splipy/Model/Basis.lean`.  See `Splipy/Lemmas/PyxLib.lean` for the reading of the primitives. -/

set_option linter.unusedVariables false

namespace Splipy.Generated.Pyx
open Splipy Splipy.Pyx

'''
FOOTER = '\nend Splipy.Generated.Pyx\n'


def translate(src):
    """Returns {'lean': text, 'digest': sha256 prefix of the generated text, 'functions': {...}, 'notes': [...],
    'failed': {function: reason}} (functions outside the subset); raises Untranslatable when the file as a
    whole cannot be read (preprocessor, parser, missing function)."""
    try:
        py, sigs, decls, defaults = preprocess(src)
    except Untranslatable:
        raise
    try:
        mod = ast.parse(py)
    except SyntaxError as e:
        raise Untranslatable('preprocessed source does not parse as Python: %s (line %s)' % (e.msg, e.lineno))
    notes = []
    fdefs = {}
    for st in mod.body:
        if isinstance(st, (ast.Import, ast.ImportFrom)):
            continue
        if isinstance(st, ast.FunctionDef):
            if st.name in fdefs:
                raise Untranslatable('function %s defined twice' % st.name)
            fdefs[st.name] = st
            continue
        raise Untranslatable('module-level statement %s (line %d)' % (type(st).__name__, st.lineno))
    for f in FUNCS:
        if f not in fdefs:
            raise Untranslatable('function %s not found' % f)
    extra = [f for f in fdefs if f not in FUNCS]
    if extra:
        # an additional function can only matter if one of the four calls it, which is rejected below
        notes.append('functions not translated (not called by the translated ones): ' + ', '.join(extra))
    parts = []
    ret_types, ret_pmod, info, failed = {}, {}, {}, {}
    for f in FUNCS:
        # a function outside the subset is replaced by a marker (no definitions): its own equality theorems
        # and those of every function calling it then fail, the others are still checked
        try:
            fn = _Fn(f, fdefs[f], sigs[f], decls.get(f, {}), sigs, dict(ret_types))
            fn.ret_types_pmod = dict(ret_pmod)
            text = fn.translate()
        except Untranslatable as e:
            failed[f] = str(e)
            parts.append('/-! ### `%s` -/\n\n-- UNTRANSLATABLE: %s\n' % (f, str(e).replace('-/', '- /').replace('\n', ' ')))
            continue
        dflt = ', '.join('("%s", "%s")' % (n, e.replace('\\', '\\\\').replace('"', '\\"')) for n, e in defaults.get(f, []))
        text += '\n\n/-- Default values of the parameters of `%s` (source text). -/\ndef %s.defaults : List (String × String) := [%s]' % (f, f, dflt)
        parts.append('/-! ### `%s` -/\n\n%s\n' % (f, text))
        if fn.ret_type is not None and not isinstance(fn.ret_type, tuple):
            ret_types[f] = fn.ret_type            # callable from the later functions
        ret_pmod[f] = fn.uses_pmod_transitive()
        info[f] = {'params': [[n, t] for n, t in fn.params], 'state': [[n, t] for n, t in fn.fields], 'loops': fn.loop_no,
                   'returns': repr(fn.ret_type)}
    lean = (HEADER % ', '.join(FUNCS)) + '\n'.join(parts) + FOOTER
    digest = hashlib.sha256(lean.encode()).hexdigest()[:16]      # of the generated text: blind to comments/docstrings
    return {'lean': lean, 'digest': digest, 'functions': info, 'notes': notes, 'failed': failed}


def untranslatable_text(reason):
    """Generated file when the source is outside the subset: no definitions, so every equality theorem of
    `Lemmas/PyxEq.lean` fails to elaborate against it (fail closed)."""
    return (HEADER % ', '.join(FUNCS)) + '-- UNTRANSLATABLE: %s\n' % str(reason).replace('-/', '- /').replace('\n', ' ') + FOOTER


if __name__ == '__main__':   # manual use: python pyx_translate.py /repo/splipy/basis_eval.pyx
    import sys
    try:
        r = translate(open(sys.argv[1], encoding='utf-8').read())
        print(r['lean'])
        if r['failed']:
            print('UNTRANSLATABLE:', r['failed'], file=sys.stderr)
            sys.exit(1)
    except Untranslatable as e:
        print('UNTRANSLATABLE:', e)
        sys.exit(1)
