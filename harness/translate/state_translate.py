"""Translator for property C20 (DESIGN §4.5): `splipy/state.py::state` -> a term of the statement
language `Splipy.StateLang.Stmt`, and every write to an attribute of the `state` module anywhere in
`splipy/**` -> `Generated.C20.writeSites`.

The translator accepts a small fixed subset of Python and FAILS CLOSED: source outside the subset
becomes `Stmt.unknown "<text>"` (no restoring obligation can be discharged about it), dynamic ways of
reaching the state module (`sys.modules[...]`, `importlib`, `__dict__`, `vars`) outside state.py
become write sites of their own file.

Program representation on the Python side (nested tuples):
  ('skip',) ('saveAll', [keys]) ('setFrom',) ('yield',) ('restoreAll',)
  ('seq', a, b) ('tryFinally', body, fin) ('unknown', text)
"""
import ast
import hashlib
import os
import re

STATE_FILE = 'state.py'


# ---------------------------------------------------------------------------------------------
# state.py::state  ->  Stmt

def _is_name(n, ident=None):
    return isinstance(n, ast.Name) and (ident is None or n.id == ident)


def _unknown(node, why=''):
    try:
        txt = ast.unparse(node)
    except Exception:  # pragma: no cover
        txt = type(node).__name__
    txt = ' '.join(txt.split())
    return ('unknown', ('%s: %s' % (why, txt) if why else txt)[:100])


def _seq(items):
    items = [i for i in items if i != ('skip',)]
    if not items:
        return ('skip',)
    out = items[-1]
    for it in reversed(items[:-1]):
        out = ('seq', it, out)
    return out


class _StateFn:
    """Translation of one function body; `env` carries what module level established."""

    def __init__(self, fn, lists, has_sys):
        self.fn = fn
        self.lists = lists          # module-level `name = ['a', 'b', ...]`
        self.has_sys = has_sys
        self.kwname = fn.args.kwarg.arg if fn.args.kwarg else None
        self.mod = None             # local name bound to this module
        self.before = None          # local name of the snapshot dict

    def stmt(self, n):
        # docstring / pass
        if isinstance(n, ast.Expr) and isinstance(n.value, ast.Constant) and isinstance(n.value.value, str):
            return ('skip',)
        if isinstance(n, ast.Pass):
            return ('skip',)
        # module = sys.modules[__name__]
        if (isinstance(n, ast.Assign) and len(n.targets) == 1 and _is_name(n.targets[0])
                and isinstance(n.value, ast.Subscript)
                and isinstance(n.value.value, ast.Attribute) and n.value.value.attr == 'modules'
                and _is_name(n.value.value.value, 'sys') and _is_name(n.value.slice, '__name__')
                and self.has_sys and self.mod is None and self.before is None):
            self.mod = n.targets[0].id
            return ('skip',)
        # before = {k: getattr(module, k) for k in states}
        if (isinstance(n, ast.Assign) and len(n.targets) == 1 and _is_name(n.targets[0])
                and isinstance(n.value, ast.DictComp) and self.mod is not None):
            dc = n.value
            if len(dc.generators) == 1:
                g = dc.generators[0]
                if (_is_name(g.target) and not g.ifs and not g.is_async and _is_name(g.iter)
                        and g.iter.id in self.lists and _is_name(dc.key, g.target.id)
                        and isinstance(dc.value, ast.Call) and _is_name(dc.value.func, 'getattr')
                        and len(dc.value.args) == 2 and not dc.value.keywords
                        and _is_name(dc.value.args[0], self.mod) and _is_name(dc.value.args[1], g.target.id)
                        and n.targets[0].id not in (self.mod, self.kwname)):
                    if self.before is not None and self.before != n.targets[0].id:
                        return _unknown(n, 'second snapshot variable')
                    self.before = n.targets[0].id
                    return ('saveAll', list(self.lists[g.iter.id]))
            return _unknown(n)
        # for k, v in X.items(): setattr(module, k, v)
        if isinstance(n, ast.For) and not n.orelse and len(n.body) == 1 and self.mod is not None:
            t, it, b = n.target, n.iter, n.body[0]
            if (isinstance(t, ast.Tuple) and len(t.elts) == 2 and all(_is_name(e) for e in t.elts)
                    and isinstance(it, ast.Call) and not it.args and not it.keywords
                    and isinstance(it.func, ast.Attribute) and it.func.attr == 'items' and _is_name(it.func.value)
                    and isinstance(b, ast.Expr) and isinstance(b.value, ast.Call) and _is_name(b.value.func, 'setattr')
                    and len(b.value.args) == 3 and not b.value.keywords
                    and _is_name(b.value.args[0], self.mod)
                    and _is_name(b.value.args[1], t.elts[0].id) and _is_name(b.value.args[2], t.elts[1].id)
                    and t.elts[0].id != t.elts[1].id):
                src = it.func.value.id
                if src == self.kwname:
                    return ('setFrom',)
                if self.before is not None and src == self.before:
                    return ('restoreAll',)
            return _unknown(n)
        # yield
        if isinstance(n, ast.Expr) and isinstance(n.value, ast.Yield) and n.value.value is None:
            return ('yield',)
        # try: ... finally: ...
        if isinstance(n, ast.Try) and not n.handlers and not n.orelse and n.finalbody:
            return ('tryFinally', _seq([self.stmt(x) for x in n.body]), _seq([self.stmt(x) for x in n.finalbody]))
        return _unknown(n)

    def translate(self):
        fn = self.fn
        a = fn.args
        if (a.posonlyargs or a.args or a.vararg or a.kwonlyargs or a.defaults or a.kw_defaults
                or a.kwarg is None):
            return _unknown(fn.args, 'unexpected signature')
        if len(fn.decorator_list) != 1 or not _is_name(fn.decorator_list[0], 'contextmanager'):
            return ('unknown', 'decorators are not exactly @contextmanager')
        if isinstance(fn, ast.AsyncFunctionDef):
            return ('unknown', 'async def')
        ny = sum(isinstance(x, (ast.Yield, ast.YieldFrom)) for x in ast.walk(fn))
        if ny != 1:
            return ('unknown', '%d yield expressions (a context manager has exactly one)' % ny)
        if any(isinstance(x, (ast.Return, ast.Global, ast.Nonlocal, ast.Lambda, ast.FunctionDef, ast.ClassDef))
               for x in ast.walk(fn) if x is not fn):
            return ('unknown', 'return/global/nested definition inside state()')
        return _seq([self.stmt(x) for x in fn.body])


def translate_state(src):
    """Returns dict(prog, state_names, module_settings, notes) for the text of state.py."""
    tree = ast.parse(src)
    lists = {}
    settings = []
    notes = []
    has_sys = False
    has_cm = False
    fns = []
    assigned = {}
    for n in tree.body:
        if isinstance(n, ast.Import):
            for al in n.names:
                if al.name == 'sys' and al.asname in (None, 'sys'):
                    has_sys = True
        elif isinstance(n, ast.ImportFrom):
            if n.module == 'contextlib' and n.level == 0:
                for al in n.names:
                    if al.name == 'contextmanager' and al.asname in (None, 'contextmanager'):
                        has_cm = True
        elif isinstance(n, (ast.FunctionDef, ast.AsyncFunctionDef)):
            fns.append(n)
        elif isinstance(n, ast.Assign) and len(n.targets) == 1 and _is_name(n.targets[0]):
            name = n.targets[0].id
            assigned[name] = assigned.get(name, 0) + 1
            if (isinstance(n.value, ast.List)
                    and all(isinstance(e, ast.Constant) and isinstance(e.value, str) for e in n.value.elts)):
                lists[name] = [e.value for e in n.value.elts]
            elif name.startswith('__') and name.endswith('__'):
                pass
            else:
                settings.append(name)
        elif isinstance(n, ast.AnnAssign) and _is_name(n.target) and n.value is not None:
            assigned[n.target.id] = assigned.get(n.target.id, 0) + 1
            settings.append(n.target.id)
        elif isinstance(n, ast.Expr) and isinstance(n.value, ast.Constant):
            pass  # docstrings
        else:
            notes.append('module-level statement not understood: ' + ' '.join(ast.unparse(n).split())[:80])
    # a list that is rebound or mutated anywhere is not a constant
    for name in list(lists):
        loads = [x for x in ast.walk(tree) if isinstance(x, ast.Attribute) and _is_name(x.value, name)]
        if assigned.get(name, 0) != 1 or loads:
            notes.append('list `%s` is rebound or used through an attribute' % name)
            del lists[name]
    cands = [f for f in fns if f.name == 'state']
    if len(cands) != 1:
        prog = ('unknown', 'expected exactly one top-level def state, found %d' % len(cands))
    elif not has_cm:
        prog = ('unknown', 'contextmanager is not imported from contextlib')
    elif notes:
        prog = ('unknown', notes[0])
    else:
        prog = _StateFn(cands[0], lists, has_sys).translate()
    save_keys = []
    for node in _walk_prog(prog):
        if node[0] == 'saveAll':
            save_keys = node[1]
    return {'prog': prog, 'state_names': save_keys, 'module_settings': settings, 'notes': notes}


def _walk_prog(p):
    yield p
    if p[0] in ('seq', 'tryFinally'):
        yield from _walk_prog(p[1])
        yield from _walk_prog(p[2])


def has_unknown(p):
    return any(n[0] == 'unknown' for n in _walk_prog(p))


# ---------------------------------------------------------------------------------------------
# write sites

def _target_leaves(t):
    if isinstance(t, (ast.Tuple, ast.List)):
        for e in t.elts:
            yield from _target_leaves(e)
    elif isinstance(t, ast.Starred):
        yield from _target_leaves(t.value)
    else:
        yield t


def _pkg_of(relpath):
    """Package (list of names below `splipy`) that contains the module at relpath."""
    parts = relpath.split('/')[:-1]
    return parts


class _Writes(ast.NodeVisitor):
    def __init__(self, relpath):
        self.rel = relpath
        self.is_state = (relpath == STATE_FILE)
        self.aliases = set()        # names bound to the state module
        self.pkg_aliases = set()    # names bound to the splipy package (so that X.state is the module)
        self.sites = []

    # -- which expressions denote the state module
    def is_state_mod(self, e):
        if isinstance(e, ast.Name):
            return e.id in self.aliases
        if isinstance(e, ast.Attribute) and e.attr == 'state':
            v = e.value
            if isinstance(v, ast.Name) and v.id in self.pkg_aliases:
                return True
        return False

    def collect_imports(self, tree):
        pkg = _pkg_of(self.rel)
        for n in ast.walk(tree):
            if isinstance(n, ast.ImportFrom):
                if n.level > 0:
                    base = pkg[:len(pkg) - (n.level - 1)] if n.level - 1 <= len(pkg) else None
                    if base is None:
                        continue
                    mod = ['splipy'] + base + (n.module.split('.') if n.module else [])
                else:
                    mod = n.module.split('.') if n.module else []
                for al in n.names:
                    full = mod + [al.name]
                    if full == ['splipy', 'state']:
                        self.aliases.add(al.asname or al.name)
                    if al.name == '*' and mod == ['splipy']:
                        self.aliases.add('state')   # `from splipy import *` may bind it
            elif isinstance(n, ast.Import):
                for al in n.names:
                    if al.name == 'splipy.state':
                        if al.asname:
                            self.aliases.add(al.asname)
                        else:
                            self.pkg_aliases.add('splipy')
                    elif al.name == 'splipy' or al.name.startswith('splipy.'):
                        if al.asname and al.name == 'splipy':
                            self.pkg_aliases.add(al.asname)
                        elif not al.asname:
                            self.pkg_aliases.add('splipy')
        # flow-insensitive aliasing: x = <state module>
        changed = True
        while changed:
            changed = False
            for n in ast.walk(tree):
                if isinstance(n, ast.Assign) and self.is_state_mod(n.value):
                    for t in n.targets:
                        if isinstance(t, ast.Name) and t.id not in self.aliases:
                            self.aliases.add(t.id)
                            changed = True

    def add(self, node, attr):
        self.sites.append((self.rel, int(getattr(node, 'lineno', 0)), attr))

    def target(self, t, node):
        for leaf in _target_leaves(t):
            if isinstance(leaf, ast.Attribute) and self.is_state_mod(leaf.value):
                self.add(node, leaf.attr)
            elif isinstance(leaf, ast.Subscript):
                v = leaf.value
                # state.__dict__[..] = / vars(state)[..] =
                if isinstance(v, ast.Attribute) and v.attr == '__dict__' and self.is_state_mod(v.value):
                    self.add(node, '__dict__')
                if (isinstance(v, ast.Call) and _is_name(v.func, 'vars') and v.args
                        and self.is_state_mod(v.args[0])):
                    self.add(node, '__dict__')

    def visit_Assign(self, n):
        for t in n.targets:
            self.target(t, n)
        self.generic_visit(n)

    def visit_AugAssign(self, n):
        self.target(n.target, n)
        self.generic_visit(n)

    def visit_AnnAssign(self, n):
        if n.value is not None:
            self.target(n.target, n)
        self.generic_visit(n)

    def visit_For(self, n):
        self.target(n.target, n)
        self.generic_visit(n)

    visit_AsyncFor = visit_For

    def visit_With(self, n):
        for it in n.items:
            if it.optional_vars is not None:
                self.target(it.optional_vars, n)
        self.generic_visit(n)

    visit_AsyncWith = visit_With

    def visit_Delete(self, n):
        for t in n.targets:
            self.target(t, n)
        self.generic_visit(n)

    def visit_comprehension(self, n):
        self.target(n.target, n.iter)
        self.generic_visit(n)

    def visit_Call(self, n):
        f = n.func
        if _is_name(f) and f.id in ('setattr', 'delattr') and n.args:
            a0 = n.args[0]
            if self.is_state_mod(a0) or (self.is_state and isinstance(a0, ast.Name)):
                attr = '*'
                if len(n.args) > 1 and isinstance(n.args[1], ast.Constant) and isinstance(n.args[1].value, str):
                    attr = n.args[1].value
                self.add(n, attr)
        # <state>.__dict__.update(...) / vars(<state>).update(...), __setattr__
        if isinstance(f, ast.Attribute):
            v = f.value
            if f.attr in ('update', 'setdefault', 'pop', 'clear', '__setitem__'):
                if isinstance(v, ast.Attribute) and v.attr == '__dict__' and self.is_state_mod(v.value):
                    self.add(n, '__dict__')
                if isinstance(v, ast.Call) and _is_name(v.func, 'vars') and v.args and self.is_state_mod(v.args[0]):
                    self.add(n, '__dict__')
            if f.attr in ('__setattr__', '__delattr__') and self.is_state_mod(v):
                self.add(n, '*')
        # dynamic ways of getting hold of the module, outside state.py: fail closed
        if not self.is_state:
            txt = None
            if isinstance(f, ast.Attribute) and f.attr == 'import_module':
                txt = 'importlib.import_module'
            if _is_name(f, '__import__'):
                txt = '__import__'
            if txt is not None:
                arg = n.args[0] if n.args else None
                if not (isinstance(arg, ast.Constant) and isinstance(arg.value, str) and 'state' not in arg.value):
                    self.add(n, '?dynamic-import:' + txt)
        self.generic_visit(n)

    def visit_Subscript(self, n):
        # sys.modules[<something that may be the state module>] outside state.py
        if (not self.is_state and isinstance(n.value, ast.Attribute) and n.value.attr == 'modules'
                and _is_name(n.value.value, 'sys')):
            s = n.slice
            if not (isinstance(s, ast.Constant) and isinstance(s.value, str) and not s.value.endswith('state')):
                if not _is_name(s, '__name__'):
                    self.add(n, '?sys.modules')
        self.generic_visit(n)

    def visit_Global(self, n):
        if self.is_state:
            for name in n.names:
                self.add(n, name)


_PYX_WRITE = re.compile(r'\bstate\s*\.\s*(\w+)\s*(?:[-+*/|&^%]|//|\*\*|<<|>>)?=(?!=)')


def find_write_sites(pkg_root):
    """All write sites under pkg_root (= the `splipy` directory).  Returns (sites, files_scanned)."""
    sites = []
    nfiles = 0
    for root, dirs, files in os.walk(pkg_root):
        dirs[:] = sorted(d for d in dirs if d != '__pycache__')
        for f in sorted(files):
            full = os.path.join(root, f)
            rel = os.path.relpath(full, pkg_root).replace(os.sep, '/')
            if f.endswith('.py'):
                nfiles += 1
                src = open(full, encoding='utf-8').read()
                try:
                    tree = ast.parse(src)
                except SyntaxError as e:
                    sites.append((rel, int(e.lineno or 0), '?unparsable'))
                    continue
                w = _Writes(rel)
                w.collect_imports(tree)
                w.visit(tree)
                sites.extend(w.sites)
            elif f.endswith(('.pyx', '.pxd', '.pxi')):
                nfiles += 1
                src = open(full, encoding='utf-8').read()
                if re.search(r'^\s*(from\s+\S*\s+import\s+.*\bstate\b|import\s+.*\bstate\b)', src, flags=re.M):
                    for i, ln in enumerate(src.splitlines(), 1):
                        code = ln.split('#', 1)[0]
                        for m in _PYX_WRITE.finditer(code):
                            sites.append((rel, i, m.group(1)))
                        if re.search(r'\b(setattr|delattr)\s*\(\s*state\b', code):
                            sites.append((rel, i, '*'))
    return sorted(set(sites)), nfiles


# ---------------------------------------------------------------------------------------------
# rendering

def _lstr(s):
    s = ''.join(c if 32 <= ord(c) < 127 else '?' for c in s)
    return '"' + s.replace('\\', '\\\\').replace('"', '\\"') + '"'


def _llist(xs):
    return '[' + ', '.join(xs) + ']'


def prog_to_lean(p):
    k = p[0]
    if k == 'skip':
        return 'Stmt.skip'
    if k == 'saveAll':
        return '(Stmt.saveAll %s)' % _llist(_lstr(x) for x in p[1])
    if k == 'setFrom':
        return 'Stmt.setFrom'
    if k == 'yield':
        return 'Stmt.yield'
    if k == 'restoreAll':
        return 'Stmt.restoreAll'
    if k == 'seq':
        return '(Stmt.seq %s %s)' % (prog_to_lean(p[1]), prog_to_lean(p[2]))
    if k == 'tryFinally':
        return '(Stmt.tryFinally %s %s)' % (prog_to_lean(p[1]), prog_to_lean(p[2]))
    if k == 'unknown':
        return '(Stmt.unknown %s)' % _lstr(p[1])
    raise ValueError(p)


def prog_to_val(p):
    """Protocol encoding of a program for the driver op `state_nest` (bare words and lists)."""
    from vlib.val import Word
    k = p[0]
    if k in ('skip', 'setFrom', 'yield', 'restoreAll'):
        return [Word(k)]
    if k == 'saveAll':
        return [Word(k), [Word(x) for x in p[1]]]
    if k in ('seq', 'tryFinally'):
        return [Word(k), prog_to_val(p[1]), prog_to_val(p[2])]
    if k == 'unknown':
        return [Word(k)]
    raise ValueError(p)


def prog_from_json(p):
    """JSON round trip turns tuples into lists."""
    if p[0] in ('seq', 'tryFinally'):
        return (p[0], prog_from_json(p[1]), prog_from_json(p[2]))
    if p[0] == 'saveAll':
        return ('saveAll', list(p[1]))
    return tuple(p)


def render(info, sites, digest):
    lines = [
        'import Splipy.Model.StateLang',
        '',
        '/-! GENERATED at every run by harness/translate/state_translate.py from the current',
        '    source of splipy/ (sha256 of the scanned files: %s).  Never edit, never commit. -/' % digest,
        '',
        'namespace Generated.C20',
        'open Splipy.StateLang',
        '',
        '/-- the list the snapshot in `state()` iterates over -/',
        'def stateNames : List String := %s' % _llist(_lstr(x) for x in info['state_names']),
        '',
        '/-- every module-level variable assigned in state.py -/',
        'def moduleSettings : List String := %s' % _llist(_lstr(x) for x in info['module_settings']),
        '',
        '/-- body of `state.py::state` -/',
        'def stateProg : Stmt :=',
        '  ' + prog_to_lean(info['prog']),
        '',
        '/-- (file, line, attribute) of every assignment to an attribute of the `state` module -/',
        'def writeSites : List (String × Nat × String) :=',
        '  ' + _llist('(%s, %d, %s)' % (_lstr(f), ln, _lstr(a)) for f, ln, a in sites),
        '',
        'end Generated.C20',
        '',
    ]
    return '\n'.join(lines)


OBLIGATIONS_LEAN = r'''import Splipy.Generated.C20
import Splipy.Lemmas.C20State

/-!
# Source-derived obligations of property C20

GENERATED (verbatim from the template `OBLIGATIONS_LEAN` in harness/translate/state_translate.py;
never edit, never commit).  `Splipy/Generated/C20.lean` is rewritten by the harness at every run from
the *current* source of `splipy/`.  This module is built separately
(`lake build Splipy.Generated.C20Obligations`) and is **not** imported by the library root: a theorem
below that stops checking is reported by `./check C20` as a broken obligation of the code as it is now.

On the pinned tree `C20_state_restores` and `C20_no_other_writes` are expected to FAIL
(`state()` has no `try/finally`; `io/g2.py::bounded_surface` assigns
`state.parametric_absolute_tolerance`).
-/

open Splipy.StateLang

/-- The whole body of `state()` was inside the translated subset. -/
theorem C20_state_translated : Generated.C20.stateProg.hasUnknown = false := by decide

/-- There are settings, and the snapshot taken by `state()` covers every one of them. -/
theorem C20_state_settings_listed :
    Generated.C20.moduleSettings ≠ [] ∧
      ∀ k ∈ Generated.C20.moduleSettings, k ∈ Generated.C20.stateNames := by decide

/-- `state()` restores every module-level setting on every exit path (for every keyword
    argument list, every behaviour of the managed block, normal or raising). -/
theorem C20_state_restores :
    RestoresOnEveryExit Generated.C20.moduleSettings Generated.C20.stateProg :=
  restoresB_sound _ _ (by decide)

/-- No module other than `state.py` assigns an attribute of the `state` module. -/
theorem C20_no_other_writes : ∀ w ∈ Generated.C20.writeSites, w.1 = "state.py" := by decide
'''


def _write_if_changed(path, txt):
    old = open(path, encoding='utf-8').read() if os.path.exists(path) else None
    if old != txt:
        tmp = path + '.tmp%d' % os.getpid()
        with open(tmp, 'w', encoding='utf-8') as f:
            f.write(txt)
        os.replace(tmp, path)


def source_digest(pkg_root):
    h = hashlib.sha256()
    for root, dirs, files in os.walk(pkg_root):
        dirs[:] = sorted(d for d in dirs if d != '__pycache__')
        for f in sorted(files):
            if f.endswith(('.py', '.pyx', '.pxd', '.pxi')):
                h.update(f.encode())
                with open(os.path.join(root, f), 'rb') as fh:
                    h.update(fh.read())
    return h.hexdigest()[:16]


def regenerate(pkg_root, lean_dir):
    """Write lean/Splipy/Generated/C20.lean (from the sources under pkg_root) and the fixed text of
    lean/Splipy/Generated/C20Obligations.lean.  Returns a summary."""
    spath = os.path.join(pkg_root, STATE_FILE)
    if os.path.exists(spath):
        try:
            info = translate_state(open(spath, encoding='utf-8').read())
        except SyntaxError as e:
            info = {'prog': ('unknown', 'state.py does not parse: %s' % e), 'state_names': [],
                    'module_settings': [], 'notes': []}
    else:
        info = {'prog': ('unknown', 'splipy/state.py not found'), 'state_names': [], 'module_settings': [],
                'notes': []}
    sites, nfiles = find_write_sites(pkg_root)
    digest = source_digest(pkg_root)
    txt = render(info, sites, digest)
    gdir = os.path.join(lean_dir, 'Splipy', 'Generated')
    os.makedirs(gdir, exist_ok=True)
    path = os.path.join(gdir, 'C20.lean')
    _write_if_changed(path, txt)
    _write_if_changed(os.path.join(gdir, 'C20Obligations.lean'), OBLIGATIONS_LEAN)
    return {'prog': info['prog'], 'state_names': info['state_names'], 'module_settings': info['module_settings'],
            'notes': info['notes'], 'write_sites': [list(s) for s in sites], 'files_scanned': nfiles,
            'digest': digest, 'path': path}


if __name__ == '__main__':  # manual use: python state_translate.py /repo/splipy
    import json
    import sys
    info = translate_state(open(os.path.join(sys.argv[1], STATE_FILE)).read())
    sites, n = find_write_sites(sys.argv[1])
    print(json.dumps({'info': info, 'sites': sites, 'files': n}, indent=1))
    print(render(info, sites, source_digest(sys.argv[1])))
