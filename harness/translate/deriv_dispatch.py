"""Translator for property C03 (DESIGN §4.5): `Curve.derivative` and `Surface.derivative` ->

  * a decision table `Splipy.Dispatch.Table` (how `d` is normalised, the guard that delegates to
    `SplineObject.derivative`, every `result[..., i] = <expr>` with its full path condition and the
    multi-index named by the literal of its guard, the `from_right` argument of every basis evaluation),
  * one Lean definition per assigned closed-form expression (symbolic substitution of the local
    assignments down to the jets of numerator / weight),

written to lean/Splipy/Generated/C03.lean, and the obligations about them
(lean/Splipy/Generated/C03Obligations.lean): the table takes the decisions of the hand-written model,
every accepted spelling of every multi-index reaches the closed form proved correct for it (or the
generic method, which refuses unsupported rational orders), every basis evaluation uses the side selected
by `above` for its direction, every assigned expression IS the closed form the theorems are about.

The translator accepts a small fixed subset of Python and FAILS CLOSED: any statement or expression
outside the subset is recorded in `translationErrors`, whose emptiness is itself an obligation, and the
table of that class degenerates to one that is sound for nothing.
"""
import ast
import hashlib
import os

FILES = {'curve': ('curve.py', 'Curve', 1), 'surface': ('surface.py', 'Surface', 2)}


class TranslateError(Exception):
    pass


def _src(node):
    try:
        return ' '.join(ast.unparse(node).split())[:140]
    except Exception:  # pragma: no cover
        return type(node).__name__


def _fail(node, why):
    raise TranslateError('%s: `%s` (line %s)' % (why, _src(node), getattr(node, 'lineno', '?')))


def _is_name(n, ident=None):
    return isinstance(n, ast.Name) and (ident is None or n.id == ident)


def _is_self_attr(n, attr):
    return isinstance(n, ast.Attribute) and n.attr == attr and _is_name(n.value, 'self')


def _const_int(n):
    if isinstance(n, ast.Constant) and isinstance(n.value, int) and not isinstance(n.value, bool):
        return n.value
    return None


def _is_minus_one(n):
    return isinstance(n, ast.UnaryOp) and isinstance(n.op, ast.USub) and _const_int(n.operand) == 1


def _all_points(idx, pardim):
    """`[:, ..., :, c]` (one full slice per point axis; `tensor=True` grid) or `[..., c]`."""
    if len(idx) == 2 and isinstance(idx[0], ast.Constant) and idx[0].value is Ellipsis:
        return True
    return (len(idx) == pardim + 1
            and all(isinstance(s, ast.Slice) and s.lower is None and s.upper is None and s.step is None for s in idx[:-1]))


def _names_in(n):
    """Free names of an expression (comprehension targets are local to the comprehension)."""
    if isinstance(n, (ast.ListComp, ast.SetComp, ast.GeneratorExp, ast.DictComp)):
        bound, free = set(), set()
        for g in n.generators:
            free |= _names_in(g.iter) - bound
            bound |= {x.id for x in ast.walk(g.target) if isinstance(x, ast.Name)}
            for c in g.ifs:
                free |= _names_in(c) - bound
        elts = [n.key, n.value] if isinstance(n, ast.DictComp) else [n.elt]
        for e in elts:
            free |= _names_in(e) - bound
        return free
    if isinstance(n, ast.Name):
        return {n.id}
    out = set()
    for c in ast.iter_child_nodes(n):
        out |= _names_in(c)
    return out


# ---------------------------------------------------------------------------------------------
# conditions (python tuples):  ('tt',) ('notRational',) ('isRational',) ('lt',a,b) ... ('eqTuple',[..]) ('or',a,b) ('and',a,b) ('not',a)
# integer expressions: ('dInt',) ('dSum',) ('lit', n)

def lean_iexpr(e):
    if e[0] == 'lit':
        return '(.lit %d)' % e[1]
    return '.' + e[0]


def lean_cond(c):
    k = c[0]
    if k in ('tt', 'notRational', 'isRational'):
        return '.' + k
    if k in ('lt', 'gt', 'le', 'ge', 'eqI'):
        return '(.%s %s %s)' % (k, lean_iexpr(c[1]), lean_iexpr(c[2]))
    if k in ('eqTuple', 'eqList'):
        return '(.%s [%s])' % (k, ', '.join(str(x) for x in c[1]))
    if k in ('or', 'and'):
        return '(.%s %s %s)' % (k, lean_cond(c[1]), lean_cond(c[2]))
    if k == 'not':
        return '(.not %s)' % lean_cond(c[1])
    raise AssertionError(c)


def lean_side(s):
    if s[0] in ('default', 'raw'):
        return '.' + s[0]
    return '(.%s %d)' % (s[0], s[1])


class _Fn:
    """Translation of one `derivative` method."""

    def __init__(self, fn, cls, pardim):
        self.fn = fn
        self.cls = cls
        self.pardim = pardim
        a = fn.args
        names = [x.arg for x in a.args]
        if a.vararg or a.kwarg or a.kwonlyargs or names[:1] != ['self']:
            _fail(fn, 'unsupported signature')
        self.params = names[1:1 + pardim]
        rest = names[1 + pardim:]
        if rest != ['d', 'above', 'tensor']:
            _fail(fn, 'unexpected parameters %r' % (rest,))
        self.dvar = 'd'               # name currently holding the derivative orders
        self.dead_dnames = set()      # earlier names of it (must not be read any more)
        self.norm = []
        self.guard = None
        self.above_normalised = False
        self.above_scalar = None      # `above = ensure_listlike(above, pardim)[k]` was executed (after the guard)
        self.above_scalar_kind = 'normIdx'   # or 'selfOrIdx' for `if not is_singleton(above): above = above[k]`
        self.result_init = False
        self.returned = False
        self.env = {}                 # name -> ('jet', key) | ('blist', dir, side) | ('expr', leanstr)
        self.branches = []            # (path conjuncts, lean expr string)
        self.sides = []               # (dir, order|None, side)
        self.loopvar = None

    # -- pieces -------------------------------------------------------------------------------
    def side_of(self, node):
        if node is None:
            return ('default',)
        if _is_name(node, 'above'):
            if self.above_scalar is not None:
                return (self.above_scalar_kind, self.above_scalar)
            return ('raw',)
        if isinstance(node, ast.Constant) and node.value is True:
            return ('default',)
        if isinstance(node, ast.Subscript) and _is_name(node.value, 'above') and _const_int(node.slice) is not None:
            return ('normIdx' if self.above_normalised else 'rawIdx', _const_int(node.slice))
        _fail(node, 'unsupported from_right argument')

    def basis_eval(self, call):
        """`self.bases[k].evaluate(param, order, side)` -> (dir, order node or None, side)."""
        if not (isinstance(call, ast.Call) and isinstance(call.func, ast.Attribute) and call.func.attr == 'evaluate'):
            return None
        b = call.func.value
        if not (isinstance(b, ast.Subscript) and _is_self_attr(b.value, 'bases') and _const_int(b.slice) is not None):
            return None
        k = _const_int(b.slice)
        if not (0 <= k < self.pardim):
            _fail(call, 'basis index out of range')
        args = list(call.args)
        kw = {x.arg: x.value for x in call.keywords}
        if set(kw) - {'d', 'from_right'} or len(args) > 3 or not args:
            _fail(call, 'unsupported basis.evaluate call')
        if not _is_name(args[0], self.params[k]):
            _fail(call, 'basis %d is not evaluated in parameter `%s`' % (k, self.params[k]))
        order = args[1] if len(args) > 1 else kw.get('d')
        side = args[2] if len(args) > 2 else kw.get('from_right')
        return k, order, self.side_of(side)

    def iexpr(self, n):
        c = _const_int(n)
        if c is not None and c >= 0:
            return ('lit', c)
        if _is_name(n, self.dvar):
            return ('dInt',)
        if (isinstance(n, ast.Call) and len(n.args) == 1 and not n.keywords and _is_name(n.args[0], self.dvar)
                and (_is_name(n.func, 'sum') or (isinstance(n.func, ast.Attribute) and n.func.attr == 'sum' and _is_name(n.func.value, 'np')))):
            return ('dSum',)
        _fail(n, 'unsupported integer expression in a guard')

    def cond(self, n):
        if isinstance(n, ast.BoolOp):
            op = 'or' if isinstance(n.op, ast.Or) else 'and'
            out = self.cond(n.values[-1])
            for v in reversed(n.values[:-1]):
                out = (op, self.cond(v), out)
            return out
        if isinstance(n, ast.UnaryOp) and isinstance(n.op, ast.Not):
            if _is_self_attr(n.operand, 'rational'):
                return ('notRational',)
            return ('not', self.cond(n.operand))
        if _is_self_attr(n, 'rational'):
            return ('isRational',)
        if isinstance(n, ast.Compare) and len(n.ops) == 1:
            op, l, r = n.ops[0], n.left, n.comparators[0]
            if isinstance(op, ast.Eq) and _is_name(l, self.dvar) and isinstance(r, (ast.Tuple, ast.List)):
                lits = [_const_int(e) for e in r.elts]
                if any(x is None or x < 0 for x in lits):
                    _fail(n, 'non-literal sequence in comparison')
                return ('eqTuple' if isinstance(r, ast.Tuple) else 'eqList', lits)
            tab = {ast.Lt: 'lt', ast.Gt: 'gt', ast.LtE: 'le', ast.GtE: 'ge', ast.Eq: 'eqI'}
            if type(op) in tab:
                return (tab[type(op)], self.iexpr(l), self.iexpr(r))
        _fail(n, 'unsupported guard')

    def sym(self, n):
        """Scalar (per point, per component) expression -> Lean term string."""
        if isinstance(n, ast.BinOp) and type(n.op) in (ast.Add, ast.Sub, ast.Mult, ast.Div):
            op = {ast.Add: '+', ast.Sub: '-', ast.Mult: '*', ast.Div: '/'}[type(n.op)]
            return '(%s %s %s)' % (self.sym(n.left), op, self.sym(n.right))
        if isinstance(n, ast.UnaryOp) and isinstance(n.op, ast.USub):
            return '(-%s)' % self.sym(n.operand)
        c = _const_int(n)
        if c is not None:
            return '(%d : K)' % c
        if isinstance(n, ast.Name):
            v = self.env.get(n.id)
            if v is None or v[0] != 'expr':
                _fail(n, 'name is not a known scalar quantity')
            return v[1]
        if isinstance(n, ast.Subscript) and isinstance(n.value, ast.Name):
            v = self.env.get(n.value.id)
            if v is not None and v[0] == 'jet':
                idx = n.slice.elts if isinstance(n.slice, ast.Tuple) else [n.slice]
                if not _all_points(idx, self.pardim):
                    _fail(n, 'unsupported indexing of a jet array')
                last = idx[-1]
                if _is_minus_one(last):
                    return self.jetvar('W', v[1])
                if self.loopvar is not None and _is_name(last, self.loopvar):
                    return self.jetvar('n', v[1])
                _fail(n, 'component index is neither the loop variable nor -1')
        _fail(n, 'unsupported arithmetic')

    def jetvar(self, which, key):
        if self.pardim == 1:
            if not 0 <= key[0] <= 3:
                raise TranslateError('curve jet of order %r' % (key,))
            return '%s%d' % (which, key[0])
        a, b = key
        if a + b > 3:
            raise TranslateError('surface jet of order %r' % (key,))
        return '%s.f%d%d' % (which, a, b)

    # -- statements ---------------------------------------------------------------------------
    def check_no_dead(self, node):
        bad = _names_in(node) & self.dead_dnames
        if bad:
            _fail(node, 'reads %s after it was re-bound' % sorted(bad))

    def assign_name(self, st, name, rhs, path, in_loop):
        top = not path and not in_loop
        # derivs = tuple(<ensure_listlike(d, self.pardim) | d>)   /   list(...)
        wrap = None
        if (isinstance(rhs, ast.Call) and isinstance(rhs.func, ast.Name) and rhs.func.id in ('tuple', 'list')
                and len(rhs.args) == 1 and not rhs.keywords):
            inner = rhs.args[0]
            is_ell = (isinstance(inner, ast.Call) and _is_name(inner.func, 'ensure_listlike') and inner.args
                      and _is_name(inner.args[0], self.dvar))
            if is_ell or _is_name(inner, self.dvar):
                wrap = 'toTuple' if rhs.func.id == 'tuple' else 'toList'
                if not top or self.guard is not None:
                    _fail(st, 're-normalisation of d after the guard')
                if _is_name(inner, self.dvar):
                    self.norm.append((wrap,))
                    if name != self.dvar:
                        self.dead_dnames.add(self.dvar)
                        self.dvar = name
                    return
                rhs = inner
        # derivs = ensure_listlike(d, self.pardim)
        if (isinstance(rhs, ast.Call) and _is_name(rhs.func, 'ensure_listlike') and not rhs.keywords
                and rhs.args and _is_name(rhs.args[0], self.dvar)):
            if not top or self.guard is not None:
                _fail(st, 're-normalisation of d after the guard')
            dups = 1
            if len(rhs.args) == 2:
                if _is_self_attr(rhs.args[1], 'pardim'):
                    dups = self.pardim
                elif _const_int(rhs.args[1]) is not None:
                    dups = _const_int(rhs.args[1])
                else:
                    _fail(st, 'unsupported dups argument')
            elif len(rhs.args) != 1:
                _fail(st, 'unsupported ensure_listlike call')
            self.norm.append(('ensureListlike', dups))
            if wrap:
                self.norm.append((wrap,))
            if name != self.dvar:
                self.dead_dnames.add(self.dvar)
                self.dvar = name
            return
        if name in (self.dvar, 'tensor') or name in self.dead_dnames:
            _fail(st, 'unsupported assignment to `%s`' % name)
        # above = ensure_listlike(above, self.pardim)
        if name == 'above':
            def is_norm(call):
                if not (isinstance(call, ast.Call) and _is_name(call.func, 'ensure_listlike') and not call.keywords
                        and call.args and _is_name(call.args[0], 'above')):
                    return False
                if len(call.args) == 1:
                    return self.pardim == 1
                return len(call.args) == 2 and (_is_self_attr(call.args[1], 'pardim') or _const_int(call.args[1]) == self.pardim)
            if top and not self.sides and not self.above_normalised and self.above_scalar is None:
                if is_norm(rhs):
                    self.above_normalised = True
                    return
                # above = ensure_listlike(above)[0]   (curves: the one direction's side as a bool)
                if (self.guard is not None and isinstance(rhs, ast.Subscript) and is_norm(rhs.value)
                        and _const_int(rhs.slice) is not None and 0 <= _const_int(rhs.slice) < self.pardim):
                    self.above_scalar = _const_int(rhs.slice)
                    return
            _fail(st, 'unsupported assignment to `above`')
        # u = ensure_listlike(u)
        if name in self.params:
            if (isinstance(rhs, ast.Call) and _is_name(rhs.func, 'ensure_listlike') and len(rhs.args) == 1
                    and not rhs.keywords and _is_name(rhs.args[0], name)):
                return
            _fail(st, 'unsupported assignment to a parameter')
        if name == 'squeeze':
            if _names_in(rhs) & ({'d', 'above', 'result', self.dvar} | self.dead_dnames):
                _fail(st, '`squeeze` depends on d/above/result')
            return
        if name == 'result':
            if (top and isinstance(rhs, ast.Call) and isinstance(rhs.func, ast.Attribute) and rhs.func.attr == 'zeros'
                    and _is_name(rhs.func.value, 'np') and not self.result_init and not self.branches):
                self.result_init = True
                return
            _fail(st, 'unsupported assignment to `result`')
        if name in self.env:
            _fail(st, 'second assignment to `%s`' % name)
        self.check_no_dead(rhs)
        # curve jets: np.array(self.bases[0].evaluate(t, K, above) @ self.controlpoints)
        inner = rhs
        if (isinstance(inner, ast.Call) and isinstance(inner.func, ast.Attribute) and inner.func.attr == 'array'
                and _is_name(inner.func.value, 'np') and len(inner.args) == 1 and not inner.keywords):
            inner = inner.args[0]
        if isinstance(inner, ast.BinOp) and isinstance(inner.op, ast.MatMult) and _is_self_attr(inner.right, 'controlpoints'):
            be = self.basis_eval(inner.left)
            if be is None or self.pardim != 1:
                _fail(st, 'unsupported matrix product')
            k, order, side = be
            o = 0 if order is None else _const_int(order)
            if o is None:
                _fail(st, 'non-literal derivative order')
            self.env[name] = ('jet', (o,))
            self.sides.append((k, o, side))
            return
        # surface basis lists: [self.bases[k].evaluate(u, d, above) for d in range(np.sum(derivs)+1)]
        if isinstance(rhs, ast.ListComp) and len(rhs.generators) == 1:
            g = rhs.generators[0]
            be = self.basis_eval(rhs.elt)
            if (be is not None and _is_name(g.target) and not g.ifs and not g.is_async and isinstance(g.iter, ast.Call)
                    and _is_name(g.iter.func, 'range') and len(g.iter.args) == 1 and be[1] is not None
                    and _is_name(be[1], g.target.id)):
                ub = g.iter.args[0]
                # the list must cover every order the section reads: sum(derivs)+1 entries
                ok = (isinstance(ub, ast.BinOp) and isinstance(ub.op, ast.Add) and _const_int(ub.right) == 1)
                if ok:
                    saved = self.dvar
                    try:
                        ok = self.iexpr(ub.left) == ('dSum',)
                    except TranslateError:
                        ok = False
                    self.dvar = saved
                if not ok:
                    _fail(st, 'basis list does not have sum(d)+1 entries')
                self.env[name] = ('blist', be[0], be[2])
                self.sides.append((be[0], None, be[2]))
                return
            _fail(st, 'unsupported list comprehension')
        # surface jets: evaluate([dNus[a], dNvs[b]], self.controlpoints, tensor)
        if isinstance(rhs, ast.Call) and _is_name(rhs.func, 'evaluate'):
            if (len(rhs.args) == 3 and not rhs.keywords and isinstance(rhs.args[0], ast.List)
                    and len(rhs.args[0].elts) == self.pardim and _is_self_attr(rhs.args[1], 'controlpoints')
                    and _is_name(rhs.args[2], 'tensor')):
                key = []
                for k, e in enumerate(rhs.args[0].elts):
                    if not (isinstance(e, ast.Subscript) and isinstance(e.value, ast.Name) and _const_int(e.slice) is not None):
                        _fail(st, 'unsupported basis matrix')
                    bl = self.env.get(e.value.id)
                    if bl is None or bl[0] != 'blist' or bl[1] != k:
                        _fail(st, 'basis matrix %d is not from direction %d' % (k, k))
                    key.append(_const_int(e.slice))
                self.env[name] = ('jet', tuple(key))
                return
            _fail(st, 'unsupported evaluate(...) call')
        # scalar quantity
        self.env[name] = ('expr', self.sym(rhs))

    def label_of(self, path):
        for c, pos in reversed(path):
            if pos and c[0] == 'eqTuple':
                return list(c[1])
            if pos and c[0] == 'eqI' and c[1] == ('dInt',) and c[2][0] == 'lit':
                return [c[2][1]]
        return None

    def is_generic_return(self, st):
        if not (isinstance(st, ast.Return) and isinstance(st.value, ast.Call)):
            return False
        c = st.value
        f = c.func
        if not (isinstance(f, ast.Attribute) and f.attr == 'derivative' and isinstance(f.value, ast.Call) and _is_name(f.value.func, 'super')):
            return False
        sa = f.value.args
        if sa and not (len(sa) == 2 and _is_name(sa[0], self.cls) and _is_name(sa[1], 'self')):
            _fail(st, 'unsupported super() call')
        if [a.id if isinstance(a, ast.Name) else None for a in c.args] != self.params:
            _fail(st, 'parameters are not forwarded unchanged')
        kw = {k.arg: k.value for k in c.keywords}
        if set(kw) != {'d', 'above', 'tensor'} or not (_is_name(kw['d'], self.dvar) and _is_name(kw['above'], 'above') and _is_name(kw['tensor'], 'tensor')):
            _fail(st, 'd/above/tensor are not forwarded unchanged')
        return True

    def proc(self, stmts, path, in_loop):
        for st in stmts:
            if self.returned:
                _fail(st, 'statement after return')
            top = not path and not in_loop
            if isinstance(st, ast.Expr) and isinstance(st.value, ast.Constant) and isinstance(st.value.value, str):
                continue
            if isinstance(st, ast.Pass):
                continue
            if isinstance(st, ast.Assign) and len(st.targets) == 1:
                t = st.targets[0]
                if isinstance(t, ast.Name):
                    self.assign_name(st, t.id, st.value, path, in_loop)
                    continue
                if isinstance(t, ast.Subscript) and _is_name(t.value, 'result'):
                    idx = t.slice.elts if isinstance(t.slice, ast.Tuple) else [t.slice]
                    if not (in_loop and self.result_init and self.guard is not None and _all_points(idx, self.pardim)
                            and _is_name(idx[-1], self.loopvar)):
                        _fail(st, 'unsupported store into `result`')
                    self.check_no_dead(st.value)
                    lab = self.label_of(path)
                    if lab is None:
                        _fail(st, 'store into `result` is not guarded by an equality on d')
                    self.branches.append((list(path), lab, self.sym(st.value)))
                    continue
                _fail(st, 'unsupported assignment target')
            if isinstance(st, ast.If):
                # if not is_singleton(d): d = d[0]
                t = st.test
                if (top and self.guard is None and isinstance(t, ast.UnaryOp) and isinstance(t.op, ast.Not)
                        and isinstance(t.operand, ast.Call) and _is_name(t.operand.func, 'is_singleton')
                        and len(t.operand.args) == 1 and _is_name(t.operand.args[0], self.dvar)):
                    b = st.body
                    if (len(b) == 1 and not st.orelse and isinstance(b[0], ast.Assign) and len(b[0].targets) == 1
                            and _is_name(b[0].targets[0], self.dvar) and isinstance(b[0].value, ast.Subscript)
                            and _is_name(b[0].value.value, self.dvar) and _const_int(b[0].value.slice) == 0):
                        self.norm.append(('indexZeroUnlessSingleton',))
                        continue
                    _fail(st, 'unsupported is_singleton block')
                # if not is_singleton(above): above = above[k]     (after the guard, before any basis evaluation)
                if (top and isinstance(t, ast.UnaryOp) and isinstance(t.op, ast.Not) and isinstance(t.operand, ast.Call)
                        and _is_name(t.operand.func, 'is_singleton') and len(t.operand.args) == 1
                        and _is_name(t.operand.args[0], 'above')):
                    b = st.body
                    if (self.guard is not None and not self.sides and not self.above_normalised and self.above_scalar is None
                            and len(b) == 1 and not st.orelse and isinstance(b[0], ast.Assign) and len(b[0].targets) == 1
                            and _is_name(b[0].targets[0], 'above') and isinstance(b[0].value, ast.Subscript)
                            and _is_name(b[0].value.value, 'above') and _const_int(b[0].value.slice) is not None
                            and 0 <= _const_int(b[0].value.slice) < self.pardim):
                        self.above_scalar = _const_int(b[0].value.slice)
                        self.above_scalar_kind = 'selfOrIdx'
                        continue
                    _fail(st, 'unsupported is_singleton(above) block')
                # generic guard
                if len(st.body) == 1 and isinstance(st.body[0], ast.Return) and not st.orelse and self.is_generic_return(st.body[0]):
                    if not top or self.guard is not None or self.sides or self.result_init:
                        _fail(st, 'delegation to the generic method in an unexpected place')
                    self.guard = self.cond(t)
                    continue
                # squeeze blocks: only re-shape `result`
                if (len(st.body) == 1 and not st.orelse and isinstance(st.body[0], ast.Assign)
                        and len(st.body[0].targets) == 1 and _is_name(st.body[0].targets[0], 'result') and top):
                    v = st.body[0].value
                    if (isinstance(v, ast.Call) and isinstance(v.func, ast.Attribute) and v.func.attr == 'reshape'
                            and not (_names_in(t) & ({'d', 'above', self.dvar} | self.dead_dnames))
                            and not (_names_in(v) - {'result', 'self', 'np'})):
                        continue
                    _fail(st, 'unsupported re-assignment of `result`')
                if self.guard is None:
                    _fail(st, 'conditional before the delegation guard')
                self.check_no_dead(t)
                c = self.cond(t)
                self.proc(st.body, path + [(c, True)], in_loop)
                self.proc(st.orelse, path + [(c, False)], in_loop)
                continue
            if isinstance(st, ast.For):
                if (in_loop or st.orelse or not _is_name(st.target) or not isinstance(st.iter, ast.Call)
                        or not _is_name(st.iter.func, 'range') or len(st.iter.args) != 1
                        or not _is_self_attr(st.iter.args[0], 'dimension') or self.guard is None):
                    _fail(st, 'unsupported loop')
                if self.loopvar is not None and self.loopvar != st.target.id:
                    _fail(st, 'two different loop variables')
                self.loopvar = st.target.id
                self.proc(st.body, path, True)
                # scalar quantities defined inside the loop depend on the component: forget them afterwards
                continue
            if isinstance(st, ast.Return):
                if top and _is_name(st.value, 'result') and self.result_init:
                    self.returned = True
                    continue
                _fail(st, 'unsupported return')
            _fail(st, 'unsupported statement')

    def run(self):
        self.proc(self.fn.body, [], False)
        if not self.returned:
            _fail(self.fn, 'no `return result`')
        if self.guard is None:
            _fail(self.fn, 'no delegation to the generic method')
        return {'pardim': self.pardim, 'norm': self.norm, 'guard': self.guard,
                'branches': [{'path': p, 'label': lab, 'expr': e} for p, lab, e in self.branches],
                'sides': self.sides}


def _path_cond(path):
    cs = [(c if pos else ('not', c)) for c, pos in path]
    if not cs:
        return ('tt',)
    out = cs[-1]
    for c in reversed(cs[:-1]):
        out = ('and', c, out)
    return out


def translate_source(src, cls, pardim):
    tree = ast.parse(src)
    for node in tree.body:
        if isinstance(node, ast.ClassDef) and node.name == cls:
            fns = [f for f in node.body if isinstance(f, ast.FunctionDef) and f.name == 'derivative']
            if len(fns) != 1:
                raise TranslateError('%s has %d methods named derivative' % (cls, len(fns)))
            return _Fn(fns[0], cls, pardim).run()
    raise TranslateError('class %s not found' % cls)


def translate(pkg_dir):
    """Returns {'curve': table|None, 'surface': table|None, 'errors': [...], 'digest': ..}."""
    out = {'errors': [], 'files': []}
    h = hashlib.sha256()
    for key, (fname, cls, pardim) in FILES.items():
        path = os.path.join(pkg_dir, fname)
        try:
            src = open(path, encoding='utf-8').read()
            h.update(src.encode())
            out['files'].append(fname)
            out[key] = translate_source(src, cls, pardim)
        except (TranslateError, OSError, SyntaxError) as e:
            out[key] = None
            out['errors'].append('%s.derivative: %s' % (cls, e))
    out['digest'] = h.hexdigest()[:16]
    return out


# ---------------------------------------------------------------------------------------------
# Lean emission

CURVE_FORMS = {(2,): 'RatDeriv.curveD2 n0 n1 n2 W0 W1 W2', (3,): 'RatDeriv.curveD3 n0 n1 n2 n3 W0 W1 W2 W3'}
SURF_FORMS = {(1, 0): 'surfD10', (0, 1): 'surfD01', (1, 1): 'surfD11', (2, 0): 'surfD20', (0, 2): 'surfD02',
              (3, 0): 'surfD30', (0, 3): 'surfD03', (2, 1): 'surfD21', (1, 2): 'surfD12'}
SURF_UNFOLD = ('RatDeriv.surfD10, RatDeriv.surfD01, RatDeriv.surfD11, RatDeriv.surfD20, RatDeriv.surfD02, RatDeriv.surfD30, '
               'RatDeriv.surfD03, RatDeriv.surfD21, RatDeriv.surfD12, RatDeriv.Surf.H1, RatDeriv.Surf.H2, RatDeriv.Surf.dH1du, '
               'RatDeriv.Surf.dH1dv, RatDeriv.Surf.dH2du, RatDeriv.Surf.dH2dv, RatDeriv.Surf.G1, RatDeriv.Surf.G2, '
               'RatDeriv.Surf.d2H1du, RatDeriv.Surf.d2H1duv, RatDeriv.Surf.d2H2dv, RatDeriv.Surf.d2H2duv, RatDeriv.Surf.dG1du, '
               'RatDeriv.Surf.dG1dv, RatDeriv.Surf.dG2du, RatDeriv.Surf.dG2dv')

# the sides the hand-written model (Obj.curveDerivativeRational / surfaceDerivativeRational) uses
PINNED_SIDES = {'curve': [(0, 2, ('selfOrIdx', 0)), (0, 1, ('selfOrIdx', 0)), (0, 0, ('selfOrIdx', 0)), (0, 3, ('selfOrIdx', 0))],
                'surface': [(0, None, ('normIdx', 0)), (1, None, ('normIdx', 1))]}

# obligation -> known-finding class of the defect that makes it fail on the pinned tree
K_LIST = 'rational-surface-d-not-tuple-returns-zeros'
K_ABOVE = 'rational-closed-form-ignores-above-list'
K_LEFT = 'rational-left-limit-at-discontinuity'
CLASS_OF = {'C03_dispatch_surface_sound_list': K_LIST, 'C03_dispatch_surface_sound_int': K_LIST,
            'C03_dispatch_curve_sides_seq': K_ABOVE, 'C03_dispatch_surface_sides_seq': K_ABOVE,
            'C03_dispatch_curve_sides_bool': K_LEFT}


def _lean_table(t):
    if t is None:   # fail closed: a table that is sound for nothing (everything falls through to zeros)
        return '{ pardim := 0, norm := [], genericGuard := .not .tt, branches := [], jetSides := [(0, none, .rawIdx 0)] }'
    norm = ', '.join('.ensureListlike %d' % n[1] if n[0] == 'ensureListlike' else '.' + n[0] for n in t['norm'])
    br = ',\n      '.join('(%s, [%s])' % (lean_cond(_path_cond(b['path'])), ', '.join(map(str, b['label']))) for b in t['branches'])
    sides = ', '.join('(%d, %s, %s)' % (d, 'none' if o is None else 'some %d' % o, lean_side(s)) for d, o, s in t['sides'])
    return ('{ pardim := %d,\n    norm := [%s],\n    genericGuard := %s,\n    branches := [\n      %s],\n    jetSides := [%s] }'
            % (t['pardim'], norm, lean_cond(t['guard']), br, sides))


def _lean_str(s):
    return '"' + s.replace('\\', '\\\\').replace('"', '\\"') + '"'


def emit(info):
    g = []
    g.append('import Splipy.Lemmas.C03Dispatch\nimport Splipy.Model.RationalDeriv\n')
    g.append('/-! GENERATED by harness/translate/deriv_dispatch.py from %s (digest %s). Do not edit. -/\n'
             % (', '.join(info['files']), info['digest']))
    g.append('namespace Splipy.Generated.C03\nopen Splipy Splipy.Dispatch\n')
    g.append('def translationErrors : List String := [%s]\n' % ', '.join(_lean_str(e) for e in info['errors']))
    g.append('def curveTable : Table :=\n  %s\n' % _lean_table(info['curve']))
    g.append('def surfaceTable : Table :=\n  %s\n' % _lean_table(info['surface']))
    g.append('section\nvariable {K : Type} [Field K]\n')
    cf, sf = [], []
    if info['curve']:
        for i, b in enumerate(info['curve']['branches']):
            g.append('/-- `Curve.derivative`, assignment %d, guard literal %r -/\ndef curveForm%d (n0 n1 n2 n3 W0 W1 W2 W3 : K) : K :=\n  %s\n'
                     % (i, b['label'], i, b['expr']))
            cf.append((i, tuple(b['label'])))
    if info['surface']:
        for i, b in enumerate(info['surface']['branches']):
            g.append('/-- `Surface.derivative`, assignment %d, guard literal %r -/\ndef surfaceForm%d (n W : RatDeriv.SurfJet K) : K :=\n  %s\n'
                     % (i, b['label'], i, b['expr']))
            sf.append((i, tuple(b['label'])))
    g.append('end\n')
    g.append('end Splipy.Generated.C03\n')

    def pinned(key):
        return ', '.join('(%d, %s, %s)' % (d, 'none' if o is None else 'some %d' % o, lean_side(s)) for d, o, s in PINNED_SIDES[key])

    o = []
    o.append('import Mathlib.Tactic.Ring\nimport Splipy.Generated.C03\n')
    o.append('/-! GENERATED obligations for C03_dispatch (harness/translate/deriv_dispatch.py). Each theorem is one obligation;\n'
             '    the harness reports which of them fail on the current source. -/\n')
    o.append('namespace Splipy.Generated.C03\nopen Splipy Splipy.Dispatch\n')
    o.append('/-- the translator understood every statement of both methods -/\n'
             'theorem C03_dispatch_translated : translationErrors = [] := by decide\n')
    o.append('/-- the source takes exactly the decisions of the hand-written model (`curveOutcome`) -/\n'
             'theorem C03_dispatch_curve_model :\n    agree curveTable.outcome curveOutcome (ints 5 ++ tuples 1 5 ++ lists 1 5 ++ oddCurve) = true := by decide\n')
    o.append('theorem C03_dispatch_surface_model :\n    agree surfaceTable.outcome surfaceOutcome (ints 4 ++ tuples 2 4 ++ lists 2 4 ++ oddSurface) = true := by decide\n')
    o.append('/-- the basis evaluations of the closed-form sections use the sides the hand-written model uses -/\n'
             'theorem C03_dispatch_sides_model :\n    curveTable.jetSides = [%s] ∧ surfaceTable.jetSides = [%s] := by decide\n' % (pinned('curve'), pinned('surface')))
    for nm, tab, pd, dom in [('curve_sound_int', 'curveTable', 1, 'ints 5'), ('curve_sound_tuple', 'curveTable', 1, 'tuples 1 5'),
                             ('curve_sound_list', 'curveTable', 1, 'lists 1 5'), ('surface_sound_tuple', 'surfaceTable', 2, 'tuples 2 4'),
                             ('surface_sound_list', 'surfaceTable', 2, 'lists 2 4'), ('surface_sound_int', 'surfaceTable', 2, 'ints 4')]:
        o.append('theorem C03_dispatch_%s : soundOn %s.outcome %d (%s) = true := by decide\n' % (nm, tab, pd, dom))
    for nm, tab, dom in [('curve_sides_bool', 'curveTable', 'aboveBools'), ('curve_sides_seq', 'curveTable', 'aboveSeqs 1'),
                         ('surface_sides_bool', 'surfaceTable', 'aboveBools'), ('surface_sides_seq', 'surfaceTable', 'aboveSeqs 2')]:
        o.append('theorem C03_dispatch_%s : sidesOn %s (%s) = true := by decide\n' % (nm, tab, dom))
    # forms
    stm, prf = [], []
    for i, lab in cf:
        rhs = CURVE_FORMS.get(lab)
        stm.append('curveForm%d n0 n1 n2 n3 W0 W1 W2 W3 = %s' % (i, rhs) if rhs else 'False')
    o.append('/-- every expression `Curve.derivative` stores is the closed form proved correct for the literal of its guard -/\n'
             'theorem C03_dispatch_forms_curve {K : Type} [Field K] (n0 n1 n2 n3 W0 W1 W2 W3 : K) :\n    %s := by\n'
             '  refine ⟨%s⟩ <;> simp only [%s RatDeriv.curveD2, RatDeriv.curveD3] <;> try ring\n'
             % (' ∧\n    '.join(stm + ['True']), ', '.join(['?_'] * len(stm) + ['trivial']), ''.join('curveForm%d, ' % i for i, _ in cf)))
    stm = []
    for i, lab in sf:
        rhs = SURF_FORMS.get(lab)
        stm.append('surfaceForm%d n W = RatDeriv.%s n W' % (i, rhs) if rhs else 'False')
    o.append('/-- every expression `Surface.derivative` stores is the closed form proved correct for the literal of its guard -/\n'
             'theorem C03_dispatch_forms_surface {K : Type} [Field K] (n W : RatDeriv.SurfJet K) :\n    %s := by\n'
             '  refine ⟨%s⟩ <;> simp only [%s %s] <;> try ring\n'
             % (' ∧\n    '.join(stm + ['True']), ', '.join(['?_'] * len(stm) + ['trivial']), ''.join('surfaceForm%d, ' % i for i, _ in sf), SURF_UNFOLD))
    o.append('end Splipy.Generated.C03\n')
    return '\n'.join(g), '\n'.join(o)


REPORT = r'''import Splipy.Generated.C03
open Splipy Splipy.Dispatch Splipy.Generated.C03
#eval IO.println ("curve_model " ++ repr (disagree curveTable.outcome curveOutcome (ints 5 ++ tuples 1 5 ++ lists 1 5 ++ oddCurve)))
#eval IO.println ("surface_model " ++ repr (disagree surfaceTable.outcome surfaceOutcome (ints 4 ++ tuples 2 4 ++ lists 2 4 ++ oddSurface)))
#eval IO.println ("curve_sound_int " ++ repr (unsound curveTable.outcome 1 (ints 5)))
#eval IO.println ("curve_sound_tuple " ++ repr (unsound curveTable.outcome 1 (tuples 1 5)))
#eval IO.println ("curve_sound_list " ++ repr (unsound curveTable.outcome 1 (lists 1 5)))
#eval IO.println ("surface_sound_tuple " ++ repr (unsound surfaceTable.outcome 2 (tuples 2 4)))
#eval IO.println ("surface_sound_list " ++ repr (unsound surfaceTable.outcome 2 (lists 2 4)))
#eval IO.println ("surface_sound_int " ++ repr (unsound surfaceTable.outcome 2 (ints 4)))
#eval IO.println ("curve_sides_bool " ++ repr (badSides curveTable aboveBools))
#eval IO.println ("curve_sides_seq " ++ repr (badSides curveTable (aboveSeqs 1)))
#eval IO.println ("surface_sides_bool " ++ repr (badSides surfaceTable aboveBools))
#eval IO.println ("surface_sides_seq " ++ repr (badSides surfaceTable (aboveSeqs 2)))
#eval IO.println ("sides_model " ++ repr (curveTable.jetSides, surfaceTable.jetSides))
#eval IO.println ("translated " ++ repr translationErrors)
'''


def write_if_changed(path, src):
    old = open(path, encoding='utf-8').read() if os.path.exists(path) else None
    if old != src:
        os.makedirs(os.path.dirname(path), exist_ok=True)
        with open(path, 'w', encoding='utf-8') as f:
            f.write(src)
        return True
    return False


def regenerate(pkg_dir, lean_dir):
    """Translate the current source and (re)write the two generated Lean files."""
    info = translate(pkg_dir)
    gen_src, obl_src = emit(info)
    gdir = os.path.join(lean_dir, 'Splipy', 'Generated')
    info['changed'] = [write_if_changed(os.path.join(gdir, 'C03.lean'), gen_src),
                       write_if_changed(os.path.join(gdir, 'C03Obligations.lean'), obl_src)]
    return info
