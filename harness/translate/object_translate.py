"""AST -> Lean translator for `splipy/splineobject.py::SplineObject` (work package t3).

`translate(src, utils_src)` parses the module source, finds the class `SplineObject`, the module-level
helpers `evaluate` / `transpose_fix` and (in `splipy/utils/__init__.py`) `check_direction`, and compiles
their bodies, statement by statement, into Lean definitions in the `PyM` (= `Except PyErr`) monad over
the numpy / Python primitives of `lean/Splipy/Lemmas/PyObjectLib.lean`.  The statement / control-flow
machinery (evaluation order, `if` joins, `for` folds, continuation-style `return`, fail-closed
`Untranslatable`) is the one of `basis_translate.py` (class `Fn`, subclassed here); this module adds the
types, attributes, calls and statement forms `SplineObject` uses.

What is NOT translated but mapped (documented idealisations, repeated in every obligation detail):
* calls of `BSplineBasis` methods are the hand model's `Basis.*` functions (work packages t1 / t2 prove
  those equal to `basis.py` / `basis_eval.pyx`);
* `utils.is_singleton`, `utils.ensure_listlike`, `utils.ensure_flatlist` (`isinstance(·, Sized)`,
  `try … except`) are the primitives `is_singleton`, `ensure_listlike`, `ensure_listlike_dups`,
  `ensure_flatlist` of PyObjectLib (their source text is hashed: a change invalidates the obligation).
* (t3b) `utils.check_section` and the generator `utils.sections` are the primitives `pyCheckSection` /
  `pySections` (pinned per method: a change fails `section` / `corners` only; both are translated statement by
  statement by `sections_translate.py` for property C15); `np.linalg.inv` is the hand model's certified exact
  inverse `Mat.invChecked`; `np.sqrt` / `np.cos` / `np.sin` are abstract function parameters `sqrt_ cos_ sin_`
  of the definitions that use them (`mirror`, `rotate`, `utils.rotation_matrix`, which IS translated);
  the explicit `raise_order_1D` tail of `raise_order` (unreachable for sorted knot vectors, model:
  `C05_explicit_branch_dead`) is pinned by digest and mapped to the model's `Exception`;
  `copy.deepcopy(obj)` / `obj.clone()` are the identity on values; `1.0 / x` for an operand that may be an
  array is the model's `AffOp.recip`; numpy shape-mismatch errors are not modelled.
* (t3b) `self.split(..)` inside `split` is a fuel-indexed recursion (`split_fuel`, two levels suffice: the
  recursive call happens on an object that has just been made non-periodic).

`SIGS` fixes the interface assumptions (parameter / result types, defaults — checked against the
source —, the specialisation of `*args` / `**kwargs` / `direction=None` that is translated).
"""
import ast
import hashlib
import re
from fractions import Fraction

from . import basis_translate as B
from .basis_translate import Untranslatable, _NameErrorAt, NODEFAULT, lname as _blname

RESERVED = {'len', 'slice', 'pure', 'tol', 'K', 'getItem', 'setItem', 'reversed', 'unflat', 'zip2', 'zip3', 'zip4',
            'forEach', 'forRange', 'listComp', 'pardim', 'evaluate_fn', 'transpose_fix', 'check_direction', 'order'}


def lname(n):
    if not re.fullmatch(r'[A-Za-z_][A-Za-z0-9_]*', n):
        raise Untranslatable('identifier %r' % n)
    if n in RESERVED:
        return n + '_'
    return _blname(n)


# static types -> Lean types
LEAN_TYPE = {
    'int': 'Int', 'pyf': 'K', 'npf': 'K', 'boolv': 'Bool', 'self': 'PyObj K', 'basis': 'Basis K',
    'bases': 'Array (Basis K)', 'tensor': 'Tensor K', 'mat': 'Mat K', 'flist': 'List K', 'ilist': 'List Int',
    'blist': 'List Bool', 'param': 'Param K', 'paramlist': 'List (Param K)', 'fll': 'List (List K)',
    'matlist': 'List (Mat K)', 'dir': 'DirTok', 'slicetoks': 'List SliceTok', 'optbool': 'Option Bool',
    'optilist': 'Option (List Int)', 'optblist': 'Option (List Bool)', 'baselist': 'List (Basis K)',
    'str': 'String', 'idxtoks': 'List IdxTok', 'idxtok': 'IdxTok', 'ext': 'Option Int', 'ctor': 'Int',
    'ctorlist': 'Int', 'objlist': 'List (PyObj K)', 'splitres': 'PyRes K', 'nparr': 'List K',
    'sel': 'Option Int', 'sec': 'List (Option Int)', 'seclist': 'List (List (Option Int))', 'secres': 'PySec K',
    'kwsel': 'List (ℕ × Option Int)',
}
FLOATS = ('pyf', 'npf')
LISTOF = {'npf': 'flist', 'pyf': 'flist', 'int': 'ilist', 'boolv': 'blist', 'flist': 'fll', 'mat': 'matlist',
          'slicetok': 'slicetoks', 'basis': 'baselist', 'param': 'paramlist', 'idxtok': 'idxtoks', 'self': 'objlist',
          'sel': 'sec', 'sec': 'seclist'}
ELEM = {'flist': 'npf', 'ilist': 'int', 'blist': 'boolv', 'fll': 'flist', 'matlist': 'mat', 'slicetoks': 'slicetok',
        'baselist': 'basis', 'paramlist': 'param', 'bases': 'basis', 'idxtoks': 'idxtok', 'objlist': 'self',
        'nparr': 'npf', 'sec': 'sel', 'seclist': 'sec'}
LISTS = tuple(ELEM)

# ---------------------------------------------------------------------------------------------------
# interface table.  kind: 'method' (of SplineObject), 'prop' (property), 'func' (module level of
# splineobject.py), 'util' (module level of utils/__init__.py).
# params: (python name, type, default | NODEFAULT).  'vararg': (name, type) of `*name`.
# 'kwargs': {keyword: type | None}: None = the keyword is ABSENT in this specialisation.

SIGS = {
    'check_direction': {'kind': 'util', 'params': [('direction', 'dir', NODEFAULT), ('pardim', 'int', NODEFAULT)],
                        'ret': 'int', 'mut': None},
    'transpose_fix': {'kind': 'func', 'params': [('pardim', 'int', NODEFAULT), ('direction', 'int', NODEFAULT)],
                      'ret': 'ilist', 'mut': None},
    'evaluate_fn': {'kind': 'func', 'py': 'evaluate',
                    'params': [('bases', 'matlist', NODEFAULT), ('cps', 'tensor', NODEFAULT), ('tensor', 'boolv', True)],
                    'ret': 'tensor', 'mut': None},
    'pardim': {'kind': 'prop', 'params': [], 'ret': 'int', 'mut': None},
    '__len__': {'kind': 'method', 'lean': 'len_', 'params': [], 'ret': 'int', 'mut': None},
    'start': {'kind': 'method', 'params': [('direction', 'none', None)], 'ret': 'flist', 'mut': None},
    'start_dir': {'kind': 'method', 'py': 'start', 'params': [('direction', 'dir', None)], 'ret': 'npf', 'mut': None},
    'end': {'kind': 'method', 'params': [('direction', 'none', None)], 'ret': 'flist', 'mut': None},
    'end_dir': {'kind': 'method', 'py': 'end', 'params': [('direction', 'dir', None)], 'ret': 'npf', 'mut': None},
    '_validate_domain': {'kind': 'method', 'params': [], 'vararg': ('params', 'fll'), 'ret': None, 'mut': 'params'},
    'evaluate': {'kind': 'method', 'params': [], 'vararg': ('params', 'paramlist'), 'kwargs': {'tensor': 'optbool'},
                 'ret': 'tensor', 'mut': None},
    'bounding_box': {'kind': 'method', 'params': [], 'ret': 'fll', 'mut': None},
    'insert_knot': {'kind': 'method', 'params': [('knot', 'param', NODEFAULT), ('direction', 'dir', 0)],
                    'ret': 'self', 'mut': 'self'},
    'reverse': {'kind': 'method', 'params': [('direction', 'dir', 0)], 'ret': 'self', 'mut': 'self'},
    'swap': {'kind': 'method', 'params': [('dir1', 'dir', 0), ('dir2', 'dir', 1)], 'ret': 'self', 'mut': 'self'},
    'reparam': {'kind': 'method', 'params': [], 'vararg': ('args', 'fll'), 'kwargs': {'direction': None},
                'ret': 'self', 'mut': 'self'},
    'reparam_dir': {'kind': 'method', 'py': 'reparam', 'params': [], 'vararg': ('args', 'fll'),
                    'kwargs': {'direction': 'dir'}, 'ret': 'self', 'mut': 'self'},
    'set_dimension': {'kind': 'method', 'params': [('new_dim', 'int', NODEFAULT)], 'ret': 'self', 'mut': 'self'},
    'force_rational': {'kind': 'method', 'params': [], 'ret': 'self', 'mut': 'self'},
    'translate': {'kind': 'method', 'params': [('x', 'flist', NODEFAULT)], 'ret': 'self', 'mut': 'self'},
    'scale': {'kind': 'method', 'params': [], 'vararg': ('args', 'flist'), 'ret': 'self', 'mut': 'self'},
    'project': {'kind': 'method', 'params': [('plane', 'str', NODEFAULT)], 'ret': 'self', 'mut': 'self'},
    'order': {'kind': 'method', 'params': [('direction', 'none', None)], 'ret': 'ilist', 'mut': None},
    'order_dir': {'kind': 'method', 'py': 'order', 'params': [('direction', 'dir', None)], 'ret': 'int', 'mut': None},
    'make_periodic': {'kind': 'method', 'params': [('continuity', 'none', None), ('direction', 'dir', 0)],
                      'ret': 'self', 'mut': None},
    'make_periodic_c': {'kind': 'method', 'py': 'make_periodic',
                        'params': [('continuity', 'int', None), ('direction', 'dir', 0)], 'ret': 'self', 'mut': None},
    'split': {'kind': 'method', 'params': [('knots', 'param', NODEFAULT), ('direction', 'dir', 0)],
              'ret': 'splitres', 'mut': None, 'fuel': '2', 'locals': {'results': 'objlist'}},
    'lower_periodic': {'kind': 'method', 'params': [('periodic', 'int', NODEFAULT), ('direction', 'dir', 0)],
                       'ret': 'self', 'mut': 'self'},
    'raise_order_implicit': {'kind': 'method', 'params': [], 'vararg': ('raises', 'ilist'), 'ret': 'self', 'mut': 'self'},
    'raise_order': {'kind': 'method', 'params': [], 'vararg': ('raises', 'ilist'),
                    'kwonly': [('direction', 'none', None)], 'ret': 'self', 'mut': 'self',
                    'pinned_tail': ('new_bases = [b.raise_order(r) for b, r in zip(self.bases, raises)]', 'da31887f827a298b')},
    'raise_order_dir': {'kind': 'method', 'py': 'raise_order', 'params': [], 'vararg': ('raises', 'ilist'),
                        'kwonly': [('direction', 'dir', None)], 'ret': 'self', 'mut': 'self',
                        'pinned_tail': ('new_bases = [b.raise_order(r) for b, r in zip(self.bases, raises)]', 'da31887f827a298b')},
    'set_order': {'kind': 'method', 'params': [], 'vararg': ('order', 'ilist'), 'ret': 'self', 'mut': 'self'},
    'lower_order': {'kind': 'method', 'params': [], 'vararg': ('lowers', 'ilist'), 'ret': 'self', 'mut': None},
    'scale_p': {'kind': 'method', 'py': 'scale', 'params': [], 'vararg': ('args', 'paramlist'), 'ret': 'self', 'mut': 'self'},
    'rotation_matrix': {'kind': 'util', 'params': [('theta', 'npf', NODEFAULT), ('axis', 'nparr', NODEFAULT)],
                        'ret': 'mat', 'mut': None, 'fnparams': ('cos_', 'sin_', 'sqrt_')},
    'rotate': {'kind': 'method', 'params': [('theta', 'npf', NODEFAULT), ('normal', 'flist', (0, 0, 1))],
               'ret': 'self', 'mut': 'self', 'fnparams': ('cos_', 'sin_', 'sqrt_')},
    'mirror': {'kind': 'method', 'params': [('normal', 'flist', NODEFAULT)], 'ret': 'self', 'mut': 'self',
               'fnparams': ('sqrt_',)},
    '__iadd__': {'kind': 'method', 'lean': 'op_iadd', 'params': [('x', 'flist', NODEFAULT)], 'ret': 'self', 'mut': 'self'},
    '__isub__': {'kind': 'method', 'lean': 'op_isub', 'params': [('x', 'flist', NODEFAULT)], 'ret': 'self', 'mut': 'self'},
    '__imul__': {'kind': 'method', 'lean': 'op_imul', 'params': [('x', 'param', NODEFAULT)], 'ret': 'self', 'mut': 'self'},
    '__itruediv__': {'kind': 'method', 'lean': 'op_itruediv', 'params': [('x', 'param', NODEFAULT)], 'ret': 'self', 'mut': 'self'},
    '__add__': {'kind': 'method', 'lean': 'op_add', 'params': [('x', 'flist', NODEFAULT)], 'ret': 'self', 'mut': None},
    '__radd__': {'kind': 'method', 'lean': 'op_radd', 'params': [('x', 'flist', NODEFAULT)], 'ret': 'self', 'mut': None},
    '__sub__': {'kind': 'method', 'lean': 'op_sub', 'params': [('x', 'flist', NODEFAULT)], 'ret': 'self', 'mut': None},
    '__mul__': {'kind': 'method', 'lean': 'op_mul', 'params': [('x', 'param', NODEFAULT)], 'ret': 'self', 'mut': None},
    '__rmul__': {'kind': 'method', 'lean': 'op_rmul', 'params': [('x', 'param', NODEFAULT)], 'ret': 'self', 'mut': None},
    '__div__': {'kind': 'method', 'lean': 'op_div', 'params': [('x', 'param', NODEFAULT)], 'ret': 'self', 'mut': None},
    'section': {'kind': 'method', 'params': [], 'vararg': ('args', 'sec'),
                'kwargs': {'unwrap_points': 'optbool', 'uvw': 'kwsel'}, 'ret': 'secres', 'mut': None,
                'pins': ('check_section',)},
    'corners': {'kind': 'method', 'params': [('order', 'str', 'C')], 'ret': 'mat', 'mut': None, 'pins': ('sections',)},
    'derivative': {'kind': 'method', 'params': [], 'vararg': ('params', 'paramlist'),
                   'kwargs': {'d': 'optilist', 'above': 'optblist', 'tensor': 'optbool'}, 'ret': 'tensor', 'mut': None},
}
# translation order (callees first)
ORDER = ['check_direction', 'transpose_fix', 'evaluate_fn', 'pardim', '__len__', 'start', 'start_dir', 'end', 'end_dir',
         '_validate_domain', 'evaluate', 'bounding_box', 'insert_knot', 'reverse', 'swap', 'reparam', 'reparam_dir',
         'set_dimension', 'force_rational', 'translate', 'scale', 'project', 'derivative', 'lower_periodic',
         'order', 'order_dir', 'make_periodic', 'make_periodic_c', 'split', 'raise_order_implicit', 'raise_order',
         'raise_order_dir', 'set_order', 'lower_order', 'scale_p', 'rotation_matrix', 'rotate', 'mirror',
         '__iadd__', '__isub__', '__imul__', '__itruediv__', '__add__', '__radd__', '__sub__', '__mul__', '__rmul__',
         '__div__', 'section', 'corners']

# names bound at module level of splineobject.py that the bodies may use (only in the forms handled below)
GLOBALS = {'bisect_left', 'np', 'copy', 'attrgetter', 'methodcaller', 'chain', 'product', 'bisect_left', 'BSplineBasis', 'reshape',
           'rotation_matrix', 'is_singleton', 'ensure_listlike', 'check_direction', 'ensure_flatlist', 'check_section',
           'sections', 'raise_order_1D', 'transpose_fix', 'evaluate', 'SplineObject',
           'len', 'abs', 'float', 'int', 'max', 'min', 'range', 'list', 'tuple', 'slice', 'type', 'all', 'any', 'sum',
           'zip', 'set', 'ValueError', 'TypeError', 'RuntimeError', 'IndexError'}
ERR = {'ValueError': '.value', 'TypeError': '.type', 'RuntimeError': '.runtime', 'IndexError': '.index'}

# BSplineBasis API -> hand model.  (python method) -> (lean text template, result type, needs FloorRing)
BASIS_PURE = {
    'start': ('(Basis.start %s)', 'npf'),
    'end': ('(Basis.stop %s)', 'npf'),
    'num_functions': ('((Basis.numFunctions %s : ℕ) : Int)', 'int'),
}
BASIS_ATTR = {'periodic': ('%s.periodic', 'int'), 'order': ('((%s.order : ℕ) : Int)', 'int'),
              'knots': ('%s.knots.toList', 'flist')}
# self-mutating methods that change the basis objects in place and never put NEW objects into self.bases
KEEPS_BASES_OBJECTS = ('insert_knot', 'reverse', 'reparam', 'translate', 'scale', 'set_dimension', 'force_rational', 'project')
IDEALISED = ('BSplineBasis methods = hand model Basis.* (t1/t2); utils.is_singleton / ensure_listlike / '
             'ensure_flatlist (/ check_section / sections where used) = PyObjectLib primitives; np.linalg.inv = '
             'Mat.invChecked; sqrt/cos/sin abstract; numpy shape-mismatch errors not modelled')


def py_name(key):
    return SIGS[key].get('py', key)


def lean_name(key):
    return lname(SIGS[key].get('lean', key)) if SIGS[key].get('lean') else _blname(key)


INPLACE_OPS = {ast.Add: '__iadd__', ast.Sub: '__isub__', ast.Mult: '__imul__', ast.Div: '__itruediv__'}
INFIX_OPS = {ast.Add: '__add__', ast.Sub: '__sub__', ast.Mult: '__mul__', ast.Div: '__div__'}


def ret_lean_type(sig):
    parts = []
    types = dict((p, t) for p, t, _ in sig['params'])
    if sig.get('vararg'):
        types[sig['vararg'][0]] = sig['vararg'][1]
    if sig['mut'] == 'self' and sig['ret'] != 'self':
        parts.append('PyObj K')
    elif sig['mut'] not in (None, 'self'):
        parts.append(LEAN_TYPE[types[sig['mut']]])
    if sig['ret'] is not None:
        parts.append(LEAN_TYPE[sig['ret']])
    return ' × '.join(parts) if parts else 'Unit'


def _const(node, value):
    return isinstance(node, ast.Constant) and node.value == value and type(node.value) is type(value)


def _is_none(node):
    return isinstance(node, ast.Constant) and node.value is None


def _is_self_attr(node, attr=None):
    return (isinstance(node, ast.Attribute) and isinstance(node.value, ast.Name) and node.value.id == 'self'
            and (attr is None or node.attr == attr))


class OFn(B.Fn):
    """One function / method.  Control flow comes from basis_translate.Fn."""

    # state added after the first release: subclasses whose __init__ does not call this one (the override
    # translator's VFn) get fresh per-instance values on first use
    idx_mode = False
    _LAZY = {'idx_vars': set, 'tainted': set, 'list_alias': dict}

    def __getattr__(self, name):
        mk = OFn._LAZY.get(name)
        if mk is None:
            raise AttributeError(name)
        v = mk()
        self.__dict__[name] = v
        return v

    def __init__(self, key, node, floor_users):
        self.key = key
        self.node = node
        self.sig = SIGS[key]
        self.env = {}
        self.lines = []
        self.ntmp = 0
        self.uses_floor = False
        self.floor_users = floor_users
        self.calls = set()
        self.alias = {}          # loop target -> (kind, container text / name, index text)
        self.prop_nodes = set()  # ids of nodes whose value is needed as a Prop
        self.kw = dict(self.sig.get('kwargs') or {})
        self.idx_mode = False    # `slice(None, None, None)` is an IdxTok (the list is indexed into later)
        self.idx_vars = set()
        self.tainted = set()     # object variables whose .bases list was mutated through an alias
        self.list_alias = {}     # local list variable -> object variable whose .bases it aliases
        self.is_method = self.sig['kind'] in ('method', 'prop')

    # ------------------------------------------------------------------------------------------ helpers
    def var_text(self, v):
        return 'self_' if v == 'self' else lname(v)

    def obj_text(self, node):
        """Lean variable of a SplineObject-valued name (`self` or a local of type 'self'), else None."""
        if isinstance(node, ast.Name) and self.env.get(node.id) == 'self':
            if node.id in self.tainted:
                pass
            return self.var_text(node.id)
        return None

    def is_obj_attr(self, node, attr=None):
        return (isinstance(node, ast.Attribute) and self.obj_text(node.value) is not None
                and (attr is None or node.attr == attr))

    def check_bases_read(self, node):
        """`X.bases` must not be read after it was mutated through a list alias (`l = X.bases; l[i] = ..`)."""
        if isinstance(node, ast.Name) and node.id in self.tainted:
            raise Untranslatable('%s.bases is read after it was changed through a list alias' % node.id)

    def need_prop(self, node):
        self.prop_nodes.add(id(node))

    def as_prop(self, text, ty):
        if ty == 'bool':
            return text
        if ty == 'boolv':
            return '(%s = true)' % text
        if ty == 'ctorlist':
            return '((1 : Int) ≤ %s ∧ %s ≤ (3 : Int))' % (text, text)       # the list of matching subclasses is non-empty
        if ty in LISTS and ty != 'bases':
            return '(%s ≠ [])' % text
        raise Untranslatable('a %r where a condition is expected' % ty)

    def as_boolv(self, text, ty):
        if ty == 'boolv':
            return text
        if ty == 'bool':
            return '(decide %s)' % text
        raise Untranslatable('a %r where a bool is expected' % ty)

    @staticmethod
    def cast(text, ty):
        if ty == 'boolv':
            return '((b2i %s : Int) : K)' % text
        return B.Fn.cast(text, ty)

    def as_int(self, text, ty):
        if ty == 'int':
            return text
        if ty == 'boolv':
            return '(b2i %s)' % text
        raise Untranslatable('a %r where an int is expected' % ty)

    def coerce(self, text, ty, want, what):
        """Text of a value of static type `ty` where `want` is expected."""
        if ty == want:
            return text
        if want in FLOATS and (ty in FLOATS or ty in ('int', 'boolv')):
            return self.cast(text, ty)
        if want == 'int' and ty == 'boolv':
            return '(b2i %s)' % text
        if want == 'boolv' and ty == 'bool':
            return '(decide %s)' % text
        if want == 'dir' and ty == 'int':
            return '(DirTok.int %s)' % text
        if want == 'idxtok' and ty == 'int':
            return '(IdxTok.at %s)' % text
        if want == 'ext' and ty == 'int':
            return '(some %s)' % text
        if want == 'splitres' and ty == 'objlist':
            return '(PyRes.objs %s)' % text
        if want == 'secres' and ty == 'self':
            return '(PySec.obj %s)' % text
        if want == 'secres' and ty == 'tensor':
            return '(PySec.point %s)' % text
        if want == 'splitres' and ty == 'self':
            return '(PyRes.obj %s)' % text
        if want == 'param' and ty in FLOATS:
            return '(Param.scalar %s)' % text
        if want == 'param' and ty == 'flist':
            return '(Param.list %s)' % text
        if want == 'flist' and ty == 'nparr':
            return text
        if want == 'flist' and ty == 'ilist':
            return '(%s.map (fun (i : Int) => (i : K)))' % text
        if want == 'fll' and ty == 'emptylist':
            return '([] : List (List K))'
        if want in LISTS and ty == 'emptylist':
            return '([] : %s)' % LEAN_TYPE[want]
        if want == 'baselist' and ty == 'bases':
            return '%s.toList' % text
        raise Untranslatable('%s: a %r where a %r is expected' % (what, ty, want))

    # -------------------------------------------------------------------------------------- expressions
    def static_test(self, e):
        # `'direction' not in kwargs`
        if (isinstance(e, ast.Compare) and len(e.ops) == 1 and isinstance(e.ops[0], (ast.In, ast.NotIn))
                and isinstance(e.comparators[0], ast.Name) and e.comparators[0].id == 'kwargs'
                and 'kwargs' not in self.env and isinstance(e.left, ast.Constant) and isinstance(e.left.value, str)):
            if self.sig.get('kwargs') is None:
                raise Untranslatable('kwargs in a function without **kwargs')
            k = e.left.value
            if k not in self.kw:
                raise Untranslatable('keyword %r is not part of the specialisation' % k)
            present = self.kw[k] is not None
            return present != isinstance(e.ops[0], ast.NotIn)
        if isinstance(e, ast.Compare) and len(e.ops) == 1 and isinstance(e.ops[0], (ast.Is, ast.IsNot)):
            l, r = e.left, e.comparators[0]
            if _is_none(r) and isinstance(l, ast.Name):
                if l.id not in self.env:
                    raise Untranslatable('`is None` on the unbound name %s' % l.id)
                if self.env[l.id].startswith('opt'):
                    raise Untranslatable('`is None` on an optional value')
                return (self.env[l.id] == 'none') != isinstance(e.ops[0], ast.IsNot)
            raise Untranslatable('`is` comparison of an unsupported form: %s' % ast.unparse(e))
        return None

    def ex(self, ind, e):
        text, ty = self.ex0(ind, e)
        if id(e) in self.prop_nodes and ty == 'boolv':
            return '(%s = true)' % text, 'bool'
        if id(e) in self.prop_nodes and isinstance(e, ast.Name) and (ty == 'ctorlist' or (ty in LISTS and ty != 'bases')):
            return self.as_prop(text, ty), 'bool'
        return text, ty

    def ex0(self, ind, e):
        if isinstance(e, ast.Name):
            if e.id in self.env:
                if self.env[e.id] == 'none':
                    raise Untranslatable('use of the None-valued parameter %s' % e.id)
                if self.env[e.id] == 'basisref':
                    # a reference into X.bases: the object is read where it lives (it may have been mutated)
                    _, pyobj, idx = self.alias[e.id]
                    self.check_bases_read(ast.Name(id=pyobj))
                    return self.bindm(ind, 'getBasis %s.bases %s' % (self.var_text(pyobj), idx)), 'basis'
                if self.env[e.id] == 'flist' and ('#arr:' + e.id) in self.env:
                    return self.var_text(e.id), 'nparr'
                return self.var_text(e.id), self.env[e.id]
            if e.id in GLOBALS or e.id in ('kwargs',):
                raise Untranslatable('global %s used as a value' % e.id)
            raise _NameErrorAt(e.id)
        if isinstance(e, ast.Constant):
            v = e.value
            if isinstance(v, bool):
                return ('true' if v else 'false'), 'boolv'
            if isinstance(v, str):
                return '"%s"' % v.replace('\\', '\\\\').replace('"', '\\"'), 'str'
            return super().ex(ind, e)
        if isinstance(e, ast.UnaryOp) and isinstance(e.op, ast.Not):
            self.need_prop(e.operand)
            a, ta = self.ex(ind, e.operand)
            if ta != 'bool':
                raise Untranslatable('`not` of a %r' % ta)
            return '(¬ %s)' % a, 'bool'
        if isinstance(e, ast.UnaryOp) and isinstance(e.op, ast.USub):
            if isinstance(e.operand, ast.Constant) and type(e.operand.value) is int:
                return '(%d : Int)' % (-e.operand.value), 'int'
            a, ta = self.ex(ind, e.operand)
            if ta == 'int' or ta in FLOATS:
                return '(-%s)' % a, ta
            if ta == 'nparr':
                return '(listNeg %s)' % a, 'nparr'
            raise Untranslatable('negation of a %r' % ta)
        if isinstance(e, ast.Compare):
            return self.compare(ind, e)
        if isinstance(e, ast.BoolOp):
            for v in e.values:
                self.need_prop(v)
            return self.boolop(ind, e)
        if isinstance(e, ast.BinOp):
            return self.binop(ind, e)
        if isinstance(e, ast.Attribute):
            return self.attribute(ind, e)
        if isinstance(e, ast.Subscript):
            return self.subscript(ind, e)
        if isinstance(e, ast.Call):
            return self.call(ind, e)
        if isinstance(e, (ast.List, ast.Tuple)):
            return self.seq_literal(ind, e)
        if isinstance(e, ast.ListComp):
            return self.comprehension(ind, e.elt, e.generators)
        if (isinstance(e, ast.IfExp) and isinstance(e.test, ast.Compare) and len(e.test.ops) == 1
                and isinstance(e.test.ops[0], ast.Is) and _is_none(e.test.comparators[0])
                and isinstance(e.test.left, ast.Name) and self.env.get(e.test.left.id) == 'sel'):
            # `A if p is None else B`: in B the selector p is an int
            p = e.test.left.id
            (a, ta), p1 = self.capture(lambda: self.ex(ind, e.body))
            self.env[p] = 'int'
            try:
                (b, tb), p2 = self.capture(lambda: self.ex(ind, e.orelse))
            finally:
                self.env[p] = 'sel'
            if p1 or p2:
                raise Untranslatable('conditional expression with effects')
            if ta == 'idxtok':
                b, tb = self.coerce(b, tb, 'idxtok', 'conditional expression'), 'idxtok'
            if ta != tb:
                raise Untranslatable('conditional expression with branches of types %r / %r' % (ta, tb))
            return '(match %s with | none => %s | some %s => %s)' % (lname(p), a, lname(p), b), ta
        if isinstance(e, ast.IfExp):
            self.need_prop(e.test)
            (c, tc), p0 = self.capture(lambda: self.ex(ind, e.test))
            (a, ta), p1 = self.capture(lambda: self.ex(ind, e.body))
            (b, tb), p2 = self.capture(lambda: self.ex(ind, e.orelse))
            if p1 or p2 or ta != tb or ta not in ('int', 'pyf', 'npf', 'boolv', 'flist', 'ilist', 'sec'):
                raise Untranslatable('conditional expression with branches of types %r / %r' % (ta, tb))
            self.lines += p0
            return '(if %s then %s else %s)' % (self.as_prop(c, tc), a, b), ta
        raise Untranslatable('expression %s' % ast.unparse(e)[:80])

    def compare(self, ind, e):
        if (len(e.ops) == 1 and isinstance(e.ops[0], (ast.Is, ast.IsNot)) and _is_none(e.comparators[0])
                and isinstance(e.left, ast.Name) and self.env.get(e.left.id) == 'sel'):
            t = '(%s = none)' % lname(e.left.id)
            return (t if isinstance(e.ops[0], ast.Is) else '(¬ %s)' % t), 'bool'
        st = self.static_test(e)
        if st is not None:
            return ('True' if st else 'False'), 'bool'
        if len(e.ops) == 2 and isinstance(e.comparators[0], (ast.Name, ast.Constant)):
            # a < b < c with a simple b (evaluated once anyway): (a < b) and (b < c)
            mid = e.comparators[0]
            new = ast.BoolOp(op=ast.And(), values=[
                ast.Compare(left=e.left, ops=[e.ops[0]], comparators=[mid]),
                ast.Compare(left=mid, ops=[e.ops[1]], comparators=[e.comparators[1]])])
            return self.boolop(ind, new)
        if len(e.ops) != 1:
            raise Untranslatable('chained comparison')
        op = e.ops[0]
        r0 = e.comparators[0]
        if (isinstance(op, (ast.Eq, ast.NotEq)) and isinstance(r0, ast.Attribute) and isinstance(r0.value, ast.Name)
                and r0.value.id == 'np' and r0.attr == 'inf' and 'np' not in self.env):
            a, ta = self.ex(ind, e.left)
            if ta != 'ext':
                raise Untranslatable('comparison of a %r with np.inf' % ta)
            t = '(%s = none)' % a
            return (t if isinstance(op, ast.Eq) else '(¬ %s)' % t), 'bool'
        if isinstance(op, (ast.In, ast.NotIn)):
            a, ta = self.ex(ind, e.left)
            r = e.comparators[0]
            if ta == 'dir' and isinstance(r, ast.Set) and all(isinstance(x, ast.Constant) for x in r.elts):
                toks = []
                for x in r.elts:
                    if type(x.value) is int:
                        toks.append('DirTok.int %d' % x.value)
                    elif type(x.value) is str:
                        toks.append('DirTok.str "%s"' % x.value)
                    else:
                        raise Untranslatable('direction token %r' % (x.value,))
                t = '(%s ∈ [%s])' % (a, ', '.join(toks))
                return (t if isinstance(op, ast.In) else '(¬ %s)' % t), 'bool'
            b, tb = self.ex(ind, r)
            if ta == 'str' and tb == 'str':
                t = '(strIn %s %s = true)' % (a, b)
                return (t if isinstance(op, ast.In) else '(¬ %s)' % t), 'bool'
            raise Untranslatable('membership test of a %r in %s' % (ta, ast.unparse(r)[:40]))
        a, ta = self.ex(ind, e.left)
        b, tb = self.ex(ind, e.comparators[0])
        sym = {ast.Lt: '<', ast.LtE: '≤', ast.Gt: '>', ast.GtE: '≥', ast.Eq: '=', ast.NotEq: '≠'}.get(type(op))
        if sym is None:
            raise Untranslatable('comparison operator %s' % type(op).__name__)
        ints = ('int', 'boolv')
        if ta == tb == 'str' and isinstance(op, (ast.Eq, ast.NotEq)):
            return '(%s %s %s)' % (a, sym, b), 'bool'
        if ta == 'ext' and tb in ints and isinstance(op, ast.Lt):
            return '(extLt %s %s = true)' % (a, self.as_int(b, tb)), 'bool'
        if ta in ints and tb in ints:
            return '(%s %s %s)' % (self.as_int(a, ta), sym, self.as_int(b, tb)), 'bool'
        if (ta in ints or ta in FLOATS) and (tb in ints or tb in FLOATS):
            return '(%s %s %s)' % (self.cast(a, ta), sym, self.cast(b, tb)), 'bool'
        raise Untranslatable('comparison of %r with %r' % (ta, tb))

    def binop(self, ind, e):
        op = type(e.op)
        if op is ast.Add and isinstance(e.right, ast.List) and 1 <= len(e.right.elts) <= 2:
            # bases + [cps] + [rational]  /  bases + [cps, rational]: the argument list of a constructor call
            (a, ta), pre = self.capture(lambda: self.ex(ind, e.left))
            if ta == 'baselist':
                a, ta = '%s.toArray' % a, 'bases'
            if ta in ('bases', 'ctorargs2'):
                self.lines += pre
                parts = [self.ex(ind, x) for x in e.right.elts]
                tys = [t for _, t in parts]
                if ta == 'bases' and tys == ['tensor']:
                    return '(%s, %s)' % (a, parts[0][0]), 'ctorargs2'
                if ta == 'bases' and tys == ['tensor', 'boolv']:
                    return '(%s, %s, %s)' % (a, parts[0][0], parts[1][0]), 'ctorargs'
                if ta == 'ctorargs2' and tys == ['boolv']:
                    return '(%s.1, %s.2, %s)' % (a, a, parts[0][0]), 'ctorargs'
                raise Untranslatable('constructor argument list of types %r + %r' % (ta, tys))
        if self.obj_text(e.left) is not None and op in INFIX_OPS:
            call, sig = self.fn_call_on(ind, INFIX_OPS[op], [e.right], {}, None, self.obj_text(e.left))
            return self.bindm(ind, call), 'self'
        a, ta = self.ex(ind, e.left)
        b, tb = self.ex(ind, e.right)
        scal = lambda t: t in ('int', 'boolv') or t in FLOATS      # noqa: E731
        if ta == 'nparr' and scal(tb) and op in (ast.Div, ast.Mult):
            return '(%s %s %s)' % ('listDivS' if op is ast.Div else 'listMulS', a, self.cast(b, tb)), 'nparr'
        if scal(ta) and tb == 'mat' and op is ast.Mult:
            return '(matScale %s %s)' % (self.cast(a, ta), b), 'mat'
        if ta == 'pyf' and tb == 'param' and op is ast.Div and isinstance(e.left, ast.Constant) and e.left.value == 1.0:
            return self.bindm(ind, 'paramRecip %s' % b), 'param'
        sym = {ast.Add: '+', ast.Sub: '-', ast.Mult: '*'}.get(op)
        if op is ast.Pow and ta == 'int' and tb == 'int':
            return self.bindm(ind, 'intPow %s %s' % (a, b)), 'int'
        if op is ast.MatMult:
            if ta == tb == 'mat':
                return '(npMatmul %s %s)' % (a, b), 'mat'
            raise Untranslatable('@ on %r and %r' % (ta, tb))
        if ta in ('int', 'boolv') and tb in ('int', 'boolv'):
            if sym:
                return '(%s %s %s)' % (self.as_int(a, ta), sym, self.as_int(b, tb)), 'int'
            raise Untranslatable('int operator %s' % op.__name__)
        if scal(ta) and scal(tb):
            rty = 'npf' if 'npf' in (ta, tb) else 'pyf'
            if sym:
                return '(%s %s %s)' % (self.cast(a, ta), sym, self.cast(b, tb)), rty
            if op is ast.Div and rty == 'npf':
                return '(%s / %s)' % (self.cast(a, ta), self.cast(b, tb)), 'npf'
            raise Untranslatable('float operator %s on %r, %r' % (op.__name__, ta, tb))
        if ta in LISTS and ta != 'bases' and op is ast.Add:
            return '(listAdd %s %s)' % (a, self.coerce(b, tb, ta, 'list +')), ta
        if ta == 'emptylist' and tb in LISTS and op is ast.Add:
            return b, tb
        if ta in LISTS and ta != 'bases' and tb in ('int', 'boolv') and op is ast.Mult:
            return '(listMul %s %s)' % (a, self.as_int(b, tb)), ta
        if scal(ta) and tb == 'tensor' and op is ast.Mult:
            return '(tScale %s %s)' % (self.cast(a, ta), b), 'tensor'
        if ta == tb == 'tensor' and op is ast.Add:
            return '(tPlus %s %s)' % (a, b), 'tensor'
        if ta == 'ext' and tb in ('int', 'boolv') and op in (ast.Add, ast.Sub):
            return '(Option.map (fun (c : Int) => c %s %s) %s)' % (sym, self.as_int(b, tb), a), 'ext'
        if ta in LISTS and ta != 'bases' and tb == 'ext' and op is ast.Mult:
            n = self.bindm(ind, 'extCount %s' % b)
            return '(listMul %s %s)' % (a, n), ta
        if ta == tb == 'tensor':
            f = {ast.Div: 'tDiv', ast.Mult: 'tMul', ast.Sub: 'tSub'}.get(op)
            if f:
                return '(%s %s %s)' % (f, a, b), 'tensor'
        raise Untranslatable('operator %s on %r and %r' % (op.__name__, ta, tb))

    def seq_literal(self, ind, e):
        if not e.elts:
            return '[]', 'emptylist'
        parts = [self.ex(ind, x) for x in e.elts]
        tys = {t for _, t in parts}
        if tys <= {'int'} and isinstance(e, ast.List):
            return '([%s] : List Int)' % ', '.join(p for p, _ in parts), 'ilist'
        if tys <= {'int', 'pyf', 'npf'}:
            # a tuple / list of numbers: a sequence of floats
            return '([%s] : List K)' % ', '.join(self.cast(p, t) for p, t in parts), 'flist'
        if len(tys) == 1:
            t = tys.pop()
            if t in LISTOF:
                return '([%s] : %s)' % (', '.join(p for p, _ in parts), LEAN_TYPE[LISTOF[t]]), LISTOF[t]
        raise Untranslatable('sequence literal of types %r' % sorted(tys))

    def attribute(self, ind, e):
        v = e.value
        X = self.obj_text(v)
        if X is not None:
            if e.attr == 'bases':
                self.check_bases_read(v)
                return '%s.bases' % X, 'bases'
            if e.attr == 'controlpoints':
                return '%s.controlpoints' % X, 'tensor'
            if e.attr == 'dimension':
                return '%s.dimension' % X, 'int'
            if e.attr == 'rational':
                return '%s.rational' % X, 'boolv'
            if e.attr == 'pardim':
                call, _ = self.fn_call_on(ind, 'pardim', [], {}, None, X)
                return self.bindm(ind, call), 'int'
            raise Untranslatable('attribute %s.%s' % (v.id, e.attr))
        if isinstance(v, ast.Name) and v.id in ('np', 'copy') and v.id not in self.env:
            raise Untranslatable('%s.%s used as a value' % (v.id, e.attr))
        a, ta = self.ex(ind, v)
        if ta == 'basis' and e.attr in BASIS_ATTR:
            t, ty = BASIS_ATTR[e.attr]
            return t % a, ty
        if ta == 'tensor' and e.attr == 'shape':
            return '(npShape %s)' % a, 'ilist'
        if ta == 'mat' and e.attr == 'T':
            return '(matT %s)' % a, 'mat'
        raise Untranslatable('attribute .%s of a %r' % (e.attr, ta))

    def opt_int(self, ind, e):
        if e is None:
            return 'none'
        a, ta = self.ex(ind, e)
        if ta != 'int':
            raise Untranslatable('slice bound of type %r' % ta)
        return '(some %s)' % a

    @staticmethod
    def ellipsis_index(sl):
        """`[..., i]`: returns the node of `i`, else None."""
        if (isinstance(sl, ast.Tuple) and len(sl.elts) == 2 and isinstance(sl.elts[0], ast.Constant)
                and sl.elts[0].value is Ellipsis):
            return sl.elts[1]
        return None

    def subscript(self, ind, e):
        # kwargs['direction']
        if isinstance(e.value, ast.Name) and e.value.id == 'kwargs' and 'kwargs' not in self.env:
            if not (isinstance(e.slice, ast.Constant) and isinstance(e.slice.value, str)):
                raise Untranslatable('kwargs[..] with a non-literal key')
            k = e.slice.value
            if self.kw.get(k) is None:
                raise Untranslatable('keyword %r is absent in this specialisation' % k)
            if self.kw[k].startswith('opt'):
                raise Untranslatable('kwargs[%r] on an optional keyword' % k)
            return 'kw_%s' % k, self.kw[k]
        a, ta = self.ex(ind, e.value)
        if ta == 'tensor':
            el = self.ellipsis_index(e.slice)
            if el is not None:
                i, ti = self.ex(ind, el)
                if ti != 'int':
                    raise Untranslatable('component index of type %r' % ti)
                return self.bindm(ind, 'getLast %s %s' % (a, i)), 'tensor'
            if isinstance(e.slice, ast.Name) and self.env.get(e.slice.id) == 'idxtoks':
                return self.bindm(ind, 'npIndex %s %s' % (a, lname(e.slice.id))), 'tensor'
            if (isinstance(e.slice, ast.Call) and isinstance(e.slice.func, ast.Name) and e.slice.func.id == 'tuple'
                    and len(e.slice.args) == 1):
                s, ts = self.ex(ind, e.slice.args[0])
                if ts == 'idxtoks':
                    return self.bindm(ind, 'npIndex %s %s' % (a, s)), 'tensor'
                if ts != 'slicetoks':
                    raise Untranslatable('index tuple of a %r' % ts)
                return self.bindm(ind, 'npIndexSlices %s %s' % (a, s)), 'tensor'
            raise Untranslatable('subscript of an array: %s' % ast.unparse(e.slice)[:40])
        if ta == 'mat':
            if (isinstance(e.slice, ast.Tuple) and len(e.slice.elts) == 2
                    and ast.unparse(e.slice.elts[0]) == ':' and ast.unparse(e.slice.elts[1]) == ':-1'):
                return '(matDropLastCol %s)' % a, 'mat'
            raise Untranslatable('subscript of a 2-d array: %s' % ast.unparse(e.slice)[:40])
        if ta == 'ctorlist':
            if not _const(e.slice, 0):
                raise Untranslatable('constructor list indexed by %s' % ast.unparse(e.slice))
            return self.bindm(ind, 'ctorFirst %s' % a), 'ctor'
        if ta not in LISTS:
            raise Untranslatable('subscript of a %r' % ta)
        if isinstance(e.slice, ast.Name) and self.env.get(e.slice.id) == 'idxtok' and ta != 'bases':
            return self.bindm(ind, 'sliceTok %s %s' % (a, lname(e.slice.id))), ta
        if isinstance(e.slice, ast.Slice):
            if ta == 'bases':
                raise Untranslatable('slice of self.bases')
            sp = self.slice_parts(ind, e.slice)
            if sp == 'rev':
                return '(reversed %s)' % a, ta
            return '(slice %s %s %s)' % (a, sp[0], sp[1]), ta
        i, ti = self.ex(ind, e.slice)
        if ti != 'int':
            raise Untranslatable('index of type %r' % ti)
        if ta == 'bases':
            return self.bindm(ind, 'getBasis %s %s' % (a, i)), 'basis'
        return self.bindm(ind, 'getItem %s %s' % (a, i)), ELEM[ta]

    # -------------------------------------------------------------------------------------------- calls
    def fn_call_on(self, ind, key, args, kws, star, recv):
        """fn_call with a receiver; a subclass that overrides fn_call with the original signature (receiver = self)
        keeps working for calls on `self`."""
        if recv == 'self_':
            return self.fn_call(ind, key, args, kws, star)
        return OFn.fn_call(self, ind, key, args, kws, star, recv=recv)

    def fn_call(self, ind, key, args, kws, star=None, recv='self_'):
        """Call of a translated function / method; returns (monadic call text, sig)."""
        sig = SIGS[key]
        params = sig['params']
        kwonly = sig.get('kwonly') or []
        extra = []
        if sig.get('vararg') and star is None and len(args) > len(params):
            extra, args = args[len(params):], args[:len(params)]
        if len(args) > len(params) or any(k not in [p for p, _, _ in params + kwonly] for k in kws):
            raise Untranslatable('call of %s with unexpected arguments' % key)
        texts = []
        for j, (p, ty, dflt) in enumerate(params):
            if j < len(args):
                node = args[j]
            elif p in kws:
                node = kws[p]
            elif dflt is not NODEFAULT:
                node = (ast.Tuple(elts=[ast.Constant(x) for x in dflt], ctx=ast.Load()) if isinstance(dflt, tuple)
                        else ast.Constant(dflt))
            else:
                raise Untranslatable('call of %s without argument %s' % (key, p))
            if ty == 'none':
                if not _is_none(node):
                    raise Untranslatable('specialisation %s called with a value for %s' % (key, p))
                continue
            if _is_none(node):
                raise Untranslatable('specialisation %s called with None for %s' % (key, p))
            a, ta = self.ex(ind, node)
            texts.append(self.coerce(a, ta, ty, 'argument %s of %s' % (p, key)))
        if sig.get('vararg') and extra:
            want = ELEM[sig['vararg'][1]]
            items = []
            for x in extra:
                a, ta = self.ex(ind, x)
                items.append(self.coerce(a, ta, want, '*%s of %s' % (sig['vararg'][0], key)))
            texts.append('([%s] : %s)' % (', '.join(items), LEAN_TYPE[sig['vararg'][1]]))
        elif sig.get('vararg'):
            if star is None:
                raise Untranslatable('call of %s without *%s' % (key, sig['vararg'][0]))
            a, ta = self.ex(ind, star)
            texts.append(self.coerce(a, ta, sig['vararg'][1], '*%s of %s' % (sig['vararg'][0], key)))
        elif star is not None:
            raise Untranslatable('call of %s with a starred argument' % key)
        for p, ty, dflt in kwonly:
            node = kws.get(p, ast.Constant(dflt))
            if ty == 'none':
                if not _is_none(node):
                    raise Untranslatable('specialisation %s called with a value for %s' % (key, p))
                continue
            if _is_none(node):
                raise Untranslatable('specialisation %s called with None for %s' % (key, p))
            a, ta = self.ex(ind, node)
            texts.append(self.coerce(a, ta, ty, 'argument %s of %s' % (p, key)))
        if sig.get('kwargs'):
            if any(k in sig['kwargs'] for k in kws) or key != 'section':
                raise Untranslatable('call of %s, which takes **kwargs' % key)
            for k, ty in sig['kwargs'].items():          # no keyword is passed
                if ty is not None:
                    texts.append('none' if ty.startswith('opt') else '[]')
        self.calls.add(key)
        if key in self.floor_users:
            self.uses_floor = True
        head = lean_name(key)
        if sig.get('fnparams'):
            if not set(sig['fnparams']) <= set(self.sig.get('fnparams') or ()):
                raise Untranslatable('call of %s, which needs %s' % (key, ', '.join(sig['fnparams'])))
            texts = list(sig['fnparams']) + texts
        if sig['kind'] in ('method', 'prop'):
            return ('%s %s tol %s' % (head, recv, ' '.join(texts))).rstrip(), sig
        return ('%s %s' % (head, ' '.join(texts))).rstrip(), sig

    def split_args(self, e):
        """(positional nodes, keyword dict, starred node or None)."""
        pos, star = [], None
        for a in e.args:
            if isinstance(a, ast.Starred):
                if star is not None or a is not e.args[-1]:
                    raise Untranslatable('starred argument that is not last')
                star = a.value
            else:
                pos.append(a)
        kws = {}
        for k in e.keywords:
            if k.arg is None:
                raise Untranslatable('**kwargs in a call')
            kws[k.arg] = k.value
        return pos, kws, star

    def set_obj(self, ind, X, field, text):
        self.emit(ind, 'let %s : PyObj K := { %s with %s := %s }' % (X, X, field, text))

    def basis_receiver(self, node):
        """If `node` denotes an element of X.bases (a loop alias, a reference `b = X.bases[i]` or `X.bases[i]`
        itself), returns a function emitting the write-back of a new basis text; else None."""
        if isinstance(node, ast.Name) and node.id in self.alias and self.alias[node.id][0] == 'bases':
            idx = self.alias[node.id][2]

            def wb(ind, newtext, name=node.id):
                t = self.bindm(ind, 'setBasis self_.bases %s %s' % (idx, newtext))
                self.set_obj(ind, 'self_', 'bases', t)
                self.emit(ind, 'let %s := %s' % (lname(name), newtext))
            return wb
        if isinstance(node, ast.Name) and node.id in self.alias and self.alias[node.id][0] == 'objref':
            _, pyobj, idx = self.alias[node.id]
            X = self.var_text(pyobj)

            def wb(ind, newtext):
                t = self.bindm(ind, 'setBasis %s.bases %s %s' % (X, idx, newtext))
                self.set_obj(ind, X, 'bases', t)
            return wb
        if isinstance(node, ast.Subscript) and self.is_obj_attr(node.value, 'bases'):
            X = self.obj_text(node.value.value)

            def wb(ind, newtext, sl=node.slice):
                i, ti = self.ex(ind, sl)
                if ti != 'int':
                    raise Untranslatable('index of type %r' % ti)
                t = self.bindm(ind, 'setBasis %s.bases %s %s' % (X, i, newtext))
                self.set_obj(ind, X, 'bases', t)
            return wb
        return None

    def basis_call(self, ind, recv_node, meth, pos, kws, as_stmt):
        """Call of a BSplineBasis method: the hand model's function.  Returns (text, type) or None (statement)."""
        b, tb = self.ex(ind, recv_node)
        if tb != 'basis':
            return NotImplemented
        if meth in BASIS_PURE and not pos and not kws:
            t, ty = BASIS_PURE[meth]
            return t % b, ty
        if meth == 'evaluate' and 1 <= len(pos) <= 3 and not kws:
            p, tp = self.ex(ind, pos[0])
            if tp != 'flist':
                raise Untranslatable('evaluate on a %r' % tp)
            d, td = self.ex(ind, pos[1]) if len(pos) > 1 else ('(0 : Int)', 'int')
            r, tr = self.ex(ind, pos[2]) if len(pos) > 2 else ('true', 'boolv')
            if td != 'int':
                raise Untranslatable('derivative order of type %r' % td)
            self.uses_floor = True
            return '(basisEvaluate %s tol %s %s %s)' % (b, p, d, self.as_boolv(r, tr)), 'mat'
        if meth == 'continuity' and len(pos) == 1 and not kws:
            k, tk = self.ex(ind, pos[0])
            self.uses_floor = True
            return self.bindm(ind, 'basisContinuity %s tol %s' % (b, self.cast(k, tk))), 'ext'
        if meth in ('raise_order', 'lower_order') and len(pos) == 1 and not kws:
            r, tr = self.ex(ind, pos[0])
            if tr != 'int':
                raise Untranslatable('%s by a %r' % (meth, tr))
            self.uses_floor = True
            return self.bindm(ind, '%s %s tol %s' % ('basisRaiseOrder' if meth == 'raise_order' else 'basisLowerOrder', b, r)), 'basis'
        if meth == 'greville' and not pos and not kws:
            return self.bindm(ind, 'basisGreville %s' % b), 'flist'
        if meth == 'make_periodic' and len(pos) == 1 and not kws:
            c, tc = self.ex(ind, pos[0])
            if tc != 'int':
                raise Untranslatable('make_periodic with a %r' % tc)
            return self.bindm(ind, 'basisMakePeriodic %s tol %s' % (b, c)), 'basis'
        wb = self.basis_receiver(recv_node)
        if meth == 'snap' and len(pos) == 1 and not kws and as_stmt:
            # mutates its ARGUMENT in place
            if not isinstance(pos[0], ast.Name) or self.env.get(pos[0].id) != 'flist':
                raise Untranslatable('snap of something that is not a list variable')
            x = pos[0].id
            self.emit(ind, 'let %s := basisSnap %s tol %s' % (lname(x), b, lname(x)))
            self.write_back_alias(ind, x)
            return None
        if wb is None:
            raise Untranslatable('basis method .%s on a receiver that is not an element of self.bases' % meth)
        if meth == 'reverse' and not pos and not kws and as_stmt:
            wb(ind, '(Basis.reverse %s)' % b)
            return None
        if meth == 'reparam' and len(pos) == 2 and not kws and as_stmt:
            s, ts = self.ex(ind, pos[0])
            e_, te = self.ex(ind, pos[1])
            n = self.bindm(ind, 'Basis.reparam %s %s %s' % (b, self.cast(s, ts), self.cast(e_, te)))
            wb(ind, n)
            return None
        if meth == 'roll' and len(pos) == 1 and not kws and as_stmt:
            i, ti = self.ex(ind, pos[0])
            if ti != 'int':
                raise Untranslatable('roll by a %r' % ti)
            n = self.bindm(ind, 'basisRoll %s %s' % (b, i))
            wb(ind, n)
            return None
        if meth == 'insert_knot' and len(pos) == 1 and not kws:
            k, tk = self.ex(ind, pos[0])
            self.uses_floor = True
            n = self.bindm(ind, 'Basis.insertKnot %s %s' % (b, self.cast(k, tk)))
            wb(ind, '%s.1' % n)
            return '%s.2' % n, 'mat'
        raise Untranslatable('basis method .%s(..) in this form' % meth)

    def write_back_alias(self, ind, x):
        if x in self.alias:
            kind, cont, idx = self.alias[x]
            if kind == 'list':
                self.emit(ind, 'let %s ← setItem %s %s %s' % (lname(cont), lname(cont), idx, lname(x)))
            else:
                raise Untranslatable('in-place update of an alias into %s' % cont)

    def call(self, ind, e):
        f = e.func
        if (isinstance(f, ast.Name) and f.id == 'check_section' and f.id not in self.env
                and 'check_section' in (self.sig.get('pins') or ())):
            if (len(e.args) == 1 and isinstance(e.args[0], ast.Starred) and len(e.keywords) == 2
                    and e.keywords[0].arg == 'pardim' and e.keywords[1].arg is None
                    and isinstance(e.keywords[1].value, ast.Name) and e.keywords[1].value.id == 'kwargs'
                    and 'kwargs' not in self.env and self.kw.get('uvw') == 'kwsel'):
                a, ta = self.ex(ind, e.args[0].value)
                pd, tp = self.ex(ind, e.keywords[0].value)
                if ta != 'sec' or tp != 'int':
                    raise Untranslatable('check_section(*%r, pardim=%r)' % (ta, tp))
                return self.bindm(ind, 'pyCheckSection %s kw_uvw %s' % (a, pd)), 'sec'
            raise Untranslatable('check_section in this form')
        pos, kws, star = self.split_args(e)
        if isinstance(f, ast.Subscript) and isinstance(f.value, ast.Name) and self.env.get(f.value.id) == 'ctorlist':
            c, tc = self.ex(ind, f)
            if pos or star is None or set(kws) != {'raw'} or not _const(kws['raw'], True):
                raise Untranslatable('constructor call other than C(*args, raw=True)')
            a, ta = self.ex(ind, star)
            if ta != 'ctorargs':
                raise Untranslatable('constructor arguments of type %r' % ta)
            return self.bindm(ind, 'mkRaw %s %s.1 %s.2.1 %s.2.2' % (c, a, a, a)), 'self'
        if isinstance(f, ast.Name) and self.env.get(f.id) == 'ctor':
            if pos or star is None or set(kws) != {'raw'} or not _const(kws['raw'], True):
                raise Untranslatable('constructor call other than C(*args, raw=True)')
            a, ta = self.ex(ind, star)
            if ta != 'ctorargs':
                raise Untranslatable('constructor arguments of type %r' % ta)
            return self.bindm(ind, 'mkRaw %s %s.1 %s.2.1 %s.2.2' % (lname(f.id), a, a, a)), 'self'
        if isinstance(f, ast.Name) and f.id not in self.env:
            return self.name_call(ind, e, f.id, pos, kws, star)
        if isinstance(f, ast.Name) and self.env.get(f.id) == 'basis' and star is None:
            # BSplineBasis.__call__ = evaluate
            return self.basis_call(ind, f, 'evaluate', pos, kws, as_stmt=False)
        if ast.unparse(f) == 'np.linalg.inv' and 'np' not in self.env and len(pos) == 1 and not kws and star is None:
            a, ta = self.ex(ind, pos[0])
            if ta != 'mat':
                raise Untranslatable('np.linalg.inv of a %r' % ta)
            return self.bindm(ind, 'npLinalgInv %s' % a), 'mat'
        if isinstance(f, ast.Attribute):
            v = f.value
            if isinstance(v, ast.Name) and v.id == 'np' and 'np' not in self.env:
                if star is not None:
                    raise Untranslatable('np call with a starred argument')
                return self.np_call(ind, f.attr, pos, kws)
            if isinstance(v, ast.Name) and v.id == 'kwargs' and 'kwargs' not in self.env:
                if f.attr == 'get' and len(pos) == 2 and not kws and isinstance(pos[0], ast.Constant):
                    k = pos[0].value
                    if k not in self.kw or self.kw[k] is None or not self.kw[k].startswith('opt'):
                        raise Untranslatable('kwargs.get(%r, ..) is not part of the specialisation' % (k,))
                    inner = {'optbool': 'boolv', 'optilist': 'ilist', 'optblist': 'blist'}[self.kw[k]]
                    d, td = self.ex(ind, pos[1])
                    return '(kwGet kw_%s %s)' % (k, self.coerce(d, td, inner, 'default of kwargs.get')), inner
                raise Untranslatable('kwargs.%s(..)' % f.attr)
            if (isinstance(v, ast.Name) and v.id == 'copy' and 'copy' not in self.env and f.attr == 'deepcopy'
                    and len(pos) == 1 and not kws and star is None and self.obj_text(pos[0]) is not None):
                return self.obj_text(pos[0]), 'self'        # objects are values
            X = self.obj_text(v)
            if X is not None:
                if f.attr == 'clone' and not pos and not kws and star is None:
                    return X, 'self'
                keys = [k for k in ORDER if py_name(k) == f.attr and SIGS[k]['kind'] == 'method']
                if not keys:
                    raise Untranslatable('call of the untranslated method %s.%s' % (v.id, f.attr))
                key = self.pick_specialisation(keys, pos, kws, star)
                sig = SIGS[key]
                if sig['mut'] is not None:
                    raise Untranslatable('mutating method %s.%s used as a value' % (v.id, f.attr))
                call, _ = self.fn_call_on(ind, key, pos, kws, star, X)
                if sig.get('fuel'):
                    call = self.recursive_call(key, call)
                return self.bindm(ind, call), sig['ret']
            # methods of values
            r = self.basis_call(ind, v, f.attr, pos, kws, as_stmt=False) if self.maybe_basis(v) else NotImplemented
            if r is not NotImplemented:
                if r is None:
                    raise Untranslatable('basis method .%s used as a value' % f.attr)
                return r
            a, ta = self.ex(ind, v)
            if ta == 'tensor' and f.attr == 'transpose' and len(pos) == 1 and not kws:
                p, tp = self.ex(ind, pos[0])
                if tp != 'ilist':
                    raise Untranslatable('transpose by a %r' % tp)
                return self.bindm(ind, 'npTranspose %s %s' % (a, p)), 'tensor'
            if ta == 'tensor' and f.attr == 'reshape' and len(pos) == 1 and not kws:
                s, ts = self.ex(ind, pos[0])
                if ts == 'int':
                    s, ts = '[%s]' % s, 'ilist'
                if ts != 'ilist':
                    raise Untranslatable('reshape to a %r' % ts)
                return self.bindm(ind, 'npReshape %s %s' % (a, s)), 'tensor'
            if ta == 'tensor' and f.attr == 'copy' and not pos and not kws:
                return a, 'tensor'
            if ta == 'str' and f.attr == 'lower' and not pos and not kws:
                return '(String.toLower %s)' % a, 'str'
            raise Untranslatable('call of .%s on a %r' % (f.attr, ta))
        raise Untranslatable('call %s' % ast.unparse(e)[:60])

    def maybe_basis(self, node):
        if isinstance(node, ast.Name):
            return self.env.get(node.id) in ('basis', 'basisref')
        if isinstance(node, ast.Subscript) and self.is_obj_attr(node.value, 'bases'):
            return True
        return (isinstance(node, ast.Subscript) and isinstance(node.value, ast.Name)
                and self.env.get(node.value.id) in ('baselist', 'bases') and not isinstance(node.slice, ast.Slice))

    def recursive_call(self, key, call):
        """A call of the function being translated (or of another fuelled function) passes the remaining fuel."""
        if key == self.key:
            return call.replace(lean_name(key) + ' ', lean_name(key) + '_fuel fuel ', 1)
        return call

    def pick_specialisation(self, keys, pos, kws, star=None):
        if len(keys) == 1:
            return keys[0]
        # by the first parameter (None / omitted <-> value) or by the `direction` keyword
        cands = []
        if sorted(keys) == ['scale', 'scale_p']:
            # scale(x) with one operand (a number or something Sized) / scale(*numbers)
            return 'scale_p' if star is None else 'scale'
        for k in keys:
            sig = SIGS[k]
            if sig.get('kwargs') is not None:
                want = {kk for kk, t in sig['kwargs'].items() if t is not None and not t.startswith('opt')}
                if want <= set(kws) and all(kk in sig['kwargs'] and sig['kwargs'][kk] is not None for kk in kws):
                    cands.append(k)
                continue
            if sig.get('kwonly'):
                if all((t == 'none') == (kws.get(p) is None or _is_none(kws.get(p))) for p, t, _ in sig['kwonly']):
                    cands.append(k)
                continue
            p0 = sig['params'][0] if sig['params'] else None
            argn = pos[0] if pos else (kws.get(p0[0]) if p0 else None)
            none = argn is None or _is_none(argn)
            if p0 and (p0[1] == 'none') == none:
                cands.append(k)
        if len(cands) != 1:
            raise Untranslatable('cannot choose the specialisation among %r' % keys)
        return cands[0]

    def name_call(self, ind, e, n, pos, kws, star):
        if n not in GLOBALS:
            raise _NameErrorAt(n)
        one = len(pos) == 1 and not kws and star is None
        if n == 'len' and one:
            if isinstance(pos[0], ast.SetComp):
                a, ta = self.comprehension(ind, pos[0].elt, pos[0].generators)
                if ta != 'ilist':
                    raise Untranslatable('len of a set of %r' % ta)
                return '(setLen %s)' % a, 'int'
            if isinstance(pos[0], ast.Name) and pos[0].id == 'self' and 'self' in self.env:
                call, _ = self.fn_call(ind, '__len__', [], {})
                return self.bindm(ind, call), 'int'
            a, ta = self.ex(ind, pos[0])
            if ta == 'bases':
                return '(%s.size : Int)' % a, 'int'
            if ta in LISTS:
                return '(len %s)' % a, 'int'
            if ta == 'emptylist':
                return '(0 : Int)', 'int'
            raise Untranslatable('len of a %r' % ta)
        if n in ('list', 'tuple') and one:
            if isinstance(pos[0], ast.GeneratorExp):
                return self.comprehension(ind, pos[0].elt, pos[0].generators)
            if (isinstance(pos[0], ast.Call) and isinstance(pos[0].func, ast.Name) and pos[0].func.id == 'range'
                    and 'range' not in self.env):
                lo, hi = self.range_bounds(ind, pos[0])
                return '(rangeI %s %s)' % (lo, hi), 'ilist'
            a, ta = self.ex(ind, pos[0])
            if ta in LISTS or ta == 'emptylist':
                return a, ta          # a copy: values have no identity
            raise Untranslatable('%s() of a %r' % (n, ta))
        if n in ('all', 'any') and one:
            if isinstance(pos[0], ast.GeneratorExp):
                a, ta = self.comprehension(ind, pos[0].elt, pos[0].generators,
                                           shortcut='allM' if n == 'all' else 'anyM')
                if ta == 'shortcut':
                    return a, 'boolv'
            else:
                a, ta = self.ex(ind, pos[0])
            if ta != 'blist':
                raise Untranslatable('%s() of a %r' % (n, ta))
            return '(%s %s)' % ('pyAll' if n == 'all' else 'pyAny', a), 'boolv'
        if n == 'sum' and one:
            a, ta = self.ex(ind, pos[0])
            if ta != 'ilist':
                raise Untranslatable('sum() of a %r' % ta)
            return '(pySum %s)' % a, 'int'
        if n in ('min', 'max') and one:
            a, ta = self.ex(ind, pos[0])
            if ta != 'flist':
                raise Untranslatable('%s() of a %r' % (n, ta))
            return self.bindm(ind, '%s %s' % ('pyMin' if n == 'min' else 'pyMax', a)), 'npf'
        if n == 'slice' and one and _is_none(pos[0]):
            return 'IdxTok.all', 'idxtok'
        if n == 'int' and one:
            a, ta = self.ex(ind, pos[0])
            if ta in ('int', 'boolv'):
                return self.as_int(a, ta), 'int'
            raise Untranslatable('int() of a %r' % ta)
        if n == 'sections' and len(pos) == 2 and not kws and star is None and 'sections' in (self.sig.get('pins') or ()):
            a, ta = self.ex(ind, pos[0])
            b, tb = self.ex(ind, pos[1])
            if ta != 'int' or tb != 'int':
                raise Untranslatable('sections(%r, %r)' % (ta, tb))
            return self.bindm(ind, 'pySections %s %s' % (a, b)), 'seclist'
        if n == 'SplineObject' and len(pos) == 3 and star is None and set(kws) == {'raw'} and _const(kws['raw'], True):
            a, ta = self.ex(ind, pos[0])
            c, tc = self.ex(ind, pos[1])
            r, tr = self.ex(ind, pos[2])
            if ta == 'baselist':
                a, ta = '%s.toArray' % a, 'bases'
            if ta != 'bases' or tc != 'tensor' or tr != 'boolv':
                raise Untranslatable('SplineObject(%r, %r, %r, raw=True)' % (ta, tc, tr))
            return self.bindm(ind, 'mkRawObj %s %s %s' % (a, c, r)), 'self'
        if n == 'slice' and len(pos) == 3 and not kws and star is None and _is_none(pos[0]) and _is_none(pos[1]) \
                and not self.idx_mode:
            if _is_none(pos[2]):
                return 'SliceTok.all', 'slicetok'
            if ast.unparse(pos[2]) == '-1':
                return 'SliceTok.rev', 'slicetok'
            raise Untranslatable('slice step %s' % ast.unparse(pos[2]))
        if n == 'slice' and len(pos) == 3 and not kws and star is None and _is_none(pos[2]):
            if _is_none(pos[0]) and _is_none(pos[1]):
                return 'IdxTok.all', 'idxtok'
            return '(IdxTok.range %s %s)' % (self.opt_int(ind, None if _is_none(pos[0]) else pos[0]),
                                            self.opt_int(ind, None if _is_none(pos[1]) else pos[1])), 'idxtok'
        if n == 'BSplineBasis' and len(pos) == 2 and not kws and star is None:
            o_, to = self.ex(ind, pos[0])
            k_, tk = self.ex(ind, pos[1])
            if to != 'int' or tk != 'flist':
                raise Untranslatable('BSplineBasis(%r, %r)' % (to, tk))
            return self.bindm(ind, 'mkBasis %s %s tol' % (o_, k_)), 'basis'
        if n == 'bisect_left' and len(pos) == 2 and not kws and star is None:
            a, ta = self.ex(ind, pos[0])
            v, tv = self.ex(ind, pos[1])
            if ta != 'flist':
                raise Untranslatable('bisect_left on a %r' % ta)
            return '(pyBisectLeft %s %s)' % (a, self.cast(v, tv)), 'int'
        if n == 'is_singleton' and one:
            a, ta = self.ex(ind, pos[0])
            if ta != 'param':
                raise Untranslatable('is_singleton of a %r' % ta)
            return '(is_singleton %s)' % a, 'boolv'
        if n == 'ensure_listlike' and star is None and 1 <= len(pos) <= 2 and set(kws) <= {'dups'}:
            a, ta = self.ex(ind, pos[0])
            dups = pos[1] if len(pos) == 2 else kws.get('dups')
            if dups is None:
                if ta == 'param':
                    return '(ensure_listlike %s)' % a, 'flist'
                if ta in LISTS and ta != 'bases':
                    return a, ta
                raise Untranslatable('ensure_listlike of a %r' % ta)
            d, td = self.ex(ind, dups)
            if td != 'int' or ta not in LISTS or ta == 'bases':
                raise Untranslatable('ensure_listlike(%r, dups : %r)' % (ta, td))
            return '(ensure_listlike_dups %s %s)' % (a, d), ta
        if n == 'ensure_flatlist' and one:
            a, ta = self.ex(ind, pos[0])
            if ta == 'paramlist':
                return self.bindm(ind, 'ensure_flatlist_p %s' % a), 'paramlist'
            if ta != 'flist':
                raise Untranslatable('ensure_flatlist of a %r' % ta)
            return self.bindm(ind, 'ensure_flatlist %s' % a), 'flist'
        if (n == 'check_direction' and len(pos) == 2 and not kws and star is None and isinstance(pos[0], ast.Name)
                and self.env.get(pos[0].id) == 'none'):
            # check_direction(None, pardim): None is in none of the three sets, ValueError (after the arguments)
            self.ex(ind, pos[1])
            return self.bindm(ind, '(throw PyErr.value : PyM Int)'), 'int'
        if n in ('check_direction', 'transpose_fix', 'rotation_matrix') or (n == 'evaluate' and 'evaluate' not in self.env):
            key = 'evaluate_fn' if n == 'evaluate' else n
            call, sig = self.fn_call(ind, key, pos, kws, star)
            return self.bindm(ind, call), sig['ret']
        raise Untranslatable('call of %s' % n)

    def np_call(self, ind, attr, pos, kws):
        if attr == 'linspace' and len(pos) == 3 and not kws:
            a, ta = self.ex(ind, pos[0])
            b, tb = self.ex(ind, pos[1])
            n, tn = self.ex(ind, pos[2])
            return '(npLinspace %s %s %s)' % (self.cast(a, ta), self.cast(b, tb), self.as_int(n, tn)), 'flist'
        if attr == 'identity' and len(pos) == 1 and not kws:
            a, ta = self.ex(ind, pos[0])
            return self.bindm(ind, 'npIdentity %s' % self.as_int(a, ta)), 'mat'
        if attr == 'tensordot' and len(pos) == 2 and set(kws) == {'axes'}:
            ax = kws['axes']
            if not (isinstance(ax, ast.Tuple) and len(ax.elts) == 2 and _const(ax.elts[0], 1)):
                raise Untranslatable('tensordot axes %s' % ast.unparse(ax))
            m, tm = self.ex(ind, pos[0])
            t, tt = self.ex(ind, pos[1])
            i, ti = self.ex(ind, ax.elts[1])
            if tm != 'mat' or tt != 'tensor' or ti != 'int':
                raise Untranslatable('tensordot of %r, %r, axis %r' % (tm, tt, ti))
            return self.bindm(ind, 'npTensordot %s %s %s' % (m, t, i)), 'tensor'
        if attr == 'einsum' and len(pos) == 3 and not kws and isinstance(pos[0], ast.Constant):
            spec = pos[0].value
            fn = {'ij,j...->i...': 'einsumFirst', 'ij,ij...->i...': 'einsumBatch'}.get(spec)
            if fn is None:
                raise Untranslatable('einsum %r' % (spec,))
            m, tm = self.ex(ind, pos[1])
            t, tt = self.ex(ind, pos[2])
            if tm != 'mat' or tt != 'tensor':
                raise Untranslatable('einsum of %r, %r' % (tm, tt))
            return '(%s %s %s)' % (fn, m, t), 'tensor'
        if attr == 'delete' and len(pos) == 3 and not kws and ast.unparse(pos[2]) == '-1':
            t, tt = self.ex(ind, pos[0])
            i, ti = self.ex(ind, pos[1])
            if tt != 'tensor' or ti != 'int':
                raise Untranslatable('np.delete of %r at %r' % (tt, ti))
            return self.bindm(ind, 'npDeleteLast %s %s' % (t, i)), 'tensor'
        if attr == 'roll' and len(pos) == 3 and not kws:
            t, tt = self.ex(ind, pos[0])
            k, tk = self.ex(ind, pos[1])
            a, ta = self.ex(ind, pos[2])
            if tt != 'tensor' or tk != 'int' or ta != 'int':
                raise Untranslatable('np.roll of %r by %r along %r' % (tt, tk, ta))
            return self.bindm(ind, 'npRoll %s %s %s' % (t, k, a)), 'tensor'
        if attr in ('min', 'max') and len(pos) == 1 and not kws:
            t, tt = self.ex(ind, pos[0])
            if tt != 'tensor':
                raise Untranslatable('np.%s of a %r' % (attr, tt))
            return self.bindm(ind, '%s %s' % ('npMin' if attr == 'min' else 'npMax', t)), 'npf'
        if attr == 'insert' and len(pos) == 4 and not kws:
            # np.insert(cps, i, np.zeros(shape[:-1]) | np.ones(shape[:-1]), self.pardim): a constant component
            t, tt = self.ex(ind, pos[0])
            i, ti = self.ex(ind, pos[1])
            v = pos[2]
            if not (isinstance(v, ast.Call) and isinstance(v.func, ast.Attribute) and isinstance(v.func.value, ast.Name)
                    and v.func.value.id == 'np' and v.func.attr in ('zeros', 'ones') and len(v.args) == 1
                    and not v.keywords):
                raise Untranslatable('np.insert of %s' % ast.unparse(v)[:40])
            s, ts = self.ex(ind, v.args[0])
            a, ta = self.ex(ind, pos[3])
            if tt != 'tensor' or ti != 'int' or ts != 'ilist' or ta != 'int':
                raise Untranslatable('np.insert(%r, %r, const(%r), %r)' % (tt, ti, ts, ta))
            x = '(0 : K)' if v.func.attr == 'zeros' else '(1 : K)'
            return self.bindm(ind, 'npInsertComp %s %s %s %s %s' % (t, i, x, s, a)), 'tensor'
        if attr == 'reshape' and len(pos) == 2 and not kws:
            t, tt = self.ex(ind, pos[0])
            sh = pos[1]
            if tt == 'tensor' and isinstance(sh, ast.Tuple) and len(sh.elts) == 2:
                n, tn = self.ex(ind, sh.elts[0])
                m, tm_ = self.ex(ind, sh.elts[1])
                return self.bindm(ind, 'npReshape2 %s %s %s' % (t, self.as_int(n, tn), self.as_int(m, tm_))), 'mat'
            s, ts = self.ex(ind, sh)
            if ts != 'ilist':
                raise Untranslatable('np.reshape to a %r' % ts)
            if tt == 'mat':
                return self.bindm(ind, 'npReshapeMat %s %s' % (t, s)), 'tensor'
            if tt == 'tensor':
                return self.bindm(ind, 'npReshape %s %s' % (t, s)), 'tensor'
            raise Untranslatable('np.reshape of a %r' % tt)
        if attr in ('cos', 'sin', 'sqrt') and len(pos) == 1 and not kws:
            f = attr + '_'
            if f not in (self.sig.get('fnparams') or ()):
                raise Untranslatable('np.%s in a function without the abstract input %s' % (attr, f))
            a, ta = self.ex(ind, pos[0])
            if not (ta in FLOATS or ta == 'int'):
                raise Untranslatable('np.%s of a %r' % (attr, ta))
            return '(%s %s)' % (f, self.cast(a, ta)), 'npf'
        if attr == 'dot' and len(pos) == 2 and not kws:
            a, ta = self.ex(ind, pos[0])
            b, tb = self.ex(ind, pos[1])
            if ta != 'nparr' or tb != 'nparr':
                raise Untranslatable('np.dot of %r, %r' % (ta, tb))
            return '(listDot %s %s)' % (a, b), 'npf'
        if attr == 'outer' and len(pos) == 2 and not kws:
            a, ta = self.ex(ind, pos[0])
            b, tb = self.ex(ind, pos[1])
            if ta != 'nparr' or tb != 'nparr':
                raise Untranslatable('np.outer of %r, %r' % (ta, tb))
            return '(npOuter %s %s)' % (a, b), 'mat'
        if attr == 'array' and len(pos) == 1 and not kws:
            a, ta = self.ex(ind, pos[0])
            if ta in ('mat', 'tensor', 'nparr'):
                return a, ta
            if ta == 'flist':
                return a, 'nparr'
            if ta == 'fll':
                return self.bindm(ind, 'matOfRows %s' % a), 'mat'
            raise Untranslatable('np.array of a %r' % ta)
        if attr == 'zeros' and len(pos) == 1 and not kws and isinstance(pos[0], ast.Tuple) and len(pos[0].elts) == 2:
            n, tn = self.ex(ind, pos[0].elts[0])
            m, tm_ = self.ex(ind, pos[0].elts[1])
            return self.bindm(ind, 'npZeros2 %s %s' % (self.as_int(n, tn), self.as_int(m, tm_))), 'mat'
        if attr == 'ones' and len(pos) == 1 and not kws and isinstance(pos[0], ast.Tuple) and len(pos[0].elts) == 2:
            n, tn = self.ex(ind, pos[0].elts[0])
            m, tm_ = self.ex(ind, pos[0].elts[1])
            return self.bindm(ind, 'npOnes2 %s %s' % (self.as_int(n, tn), self.as_int(m, tm_))), 'mat'
        raise Untranslatable('np.%s(..)' % attr)

    # ----------------------------------------------------------------------------------- comprehensions
    def iter_source(self, ind, it):
        """The iterated sequence: (lean list text, [(target-structure type)], alias info per component).
        Returns (text, elem_types, sources) where for zip the element is a right-nested tuple."""
        if isinstance(it, ast.Call) and isinstance(it.func, ast.Name) and it.func.id == 'zip' and 'zip' not in self.env:
            if it.keywords or not (2 <= len(it.args) <= 4):
                raise Untranslatable('zip of %d sequences' % len(it.args))
            texts, tys, srcs = [], [], []
            for a in it.args:
                t, ty, src = self.one_source(ind, a)
                texts.append(t)
                tys.append(ty)
                srcs.append(src)
            return '(zip%d %s)' % (len(texts), ' '.join(texts)), tys, srcs
        if (isinstance(it, ast.Call) and isinstance(it.func, ast.Name) and it.func.id == 'enumerate'
                and 'enumerate' not in self.env and len(it.args) == 1 and not it.keywords):
            t, ty, src = self.one_source(ind, it.args[0])
            return '(pyEnumerate %s)' % t, ['int', ty], [None, None]
        t, ty, src = self.one_source(ind, it)
        return t, [ty], [src]

    def one_source(self, ind, a):
        if isinstance(a, ast.Call) and isinstance(a.func, ast.Name) and a.func.id == 'range' and 'range' not in self.env:
            lo, hi = self.range_bounds(ind, a)
            return '(rangeI %s %s)' % (lo, hi), 'int', None
        if _is_self_attr(a, 'bases') and 'self' in self.env:
            return 'self_.bases.toList', 'basis', ('bases', 'self_.bases')
        if isinstance(a, ast.Constant) and isinstance(a.value, str):
            return '[%s]' % ', '.join('"%s"' % c for c in a.value), 'str', None
        t, ty = self.ex(ind, a)
        if ty == 'bases':
            return '%s.toList' % t, 'basis', None
        if ty not in LISTS:
            raise Untranslatable('iteration over a %r' % ty)
        src = ('list', a.id) if isinstance(a, ast.Name) else None
        return t, ELEM[ty], src

    def bind_targets(self, ind, target, tys, xvar):
        """Bind the loop / comprehension target(s) from the element `xvar`; returns [(name, position)]."""
        out = []
        if isinstance(target, ast.Name):
            if len(tys) != 1:
                raise Untranslatable('a single target for a zip')
            if target.id != '_':
                self.bind_var(ind, target.id, xvar, tys[0])
            out.append((target.id, 0))
            return out
        if not isinstance(target, ast.Tuple) or len(target.elts) != len(tys):
            raise Untranslatable('loop target %s' % ast.unparse(target))
        n = len(tys)
        for j, (t, ty) in enumerate(zip(target.elts, tys)):
            proj = xvar + '.2' * j + ('.1' if j < n - 1 else '')
            if isinstance(t, ast.Name):
                self.bind_var(ind, t.id, proj, ty)
                out.append((t.id, j))
            elif isinstance(t, ast.Tuple) and len(t.elts) == 2 and all(isinstance(x, ast.Name) for x in t.elts) and ty == 'flist':
                u = self.bindm(ind, 'unpack2 %s' % proj)
                self.bind_var(ind, t.elts[0].id, '%s.1' % u, 'npf')
                self.bind_var(ind, t.elts[1].id, '%s.2' % u, 'npf')
            else:
                raise Untranslatable('loop target %s' % ast.unparse(t))
        return out

    def comprehension(self, ind, elt, gens, shortcut=None):
        if len(gens) != 1 or len(gens[0].ifs) > 1 or gens[0].is_async:
            raise Untranslatable('comprehension with several generators / filters')
        g = gens[0]
        if g.ifs:
            return self.comprehension_if(ind, elt, g)
        src, tys, _ = self.iter_source(ind, g.iter)
        saved = dict(self.env)
        saved_alias = dict(self.alias)
        x = 'x%d' % (self.ntmp + 1)
        self.ntmp += 1

        def body():
            self.bind_targets(ind + 2, g.target, tys, x)
            return self.ex(ind + 2, elt)
        (t, ty), pre = self.capture(body)
        self.env = saved
        self.alias = saved_alias
        if ty == 'bool':
            t, ty = '(decide %s)' % t, 'boolv'
        if ty not in LISTOF:
            raise Untranslatable('comprehension element of type %r' % ty)
        r = self.tmp()
        if shortcut and ty == 'boolv' and any('←' in l or 'throw' in l for l in pre):
            # the body may raise: all()/any() consume the generator lazily and stop at the deciding element
            self.emit(ind, 'let %s ← %s %s (fun %s => do' % (r, shortcut, src, x))
            self.lines += pre
            self.emit(ind + 2, 'pure %s)' % t)
            return r, 'shortcut'
        self.emit(ind, 'let %s ← listComp %s (fun %s => do' % (r, src, x))
        self.lines += pre
        self.emit(ind + 2, 'pure %s)' % t)
        return r, LISTOF[ty]

    def comprehension_if(self, ind, elt, g):
        """`[elt for .. in .. if cond]` with an effect-free element."""
        src, tys, _ = self.iter_source(ind, g.iter)
        saved, saved_alias = dict(self.env), dict(self.alias)
        x = 'x%d' % (self.ntmp + 1)
        self.ntmp += 1
        self.need_prop(g.ifs[0])

        def body():
            self.bind_targets(ind + 2, g.target, tys, x)
            c, tc = self.ex(ind + 2, g.ifs[0])
            n = len(self.lines)
            t, ty = self.ex(ind + 2, elt)
            if len(self.lines) != n:
                raise Untranslatable('filtered comprehension whose element has effects')
            return self.as_prop(c, tc), t, ty
        (c, t, ty), pre = self.capture(body)
        self.env, self.alias = saved, saved_alias
        if ty not in LISTOF:
            raise Untranslatable('comprehension element of type %r' % ty)
        r = self.tmp()
        self.emit(ind, 'let %s ← listCompIf %s (fun %s => do' % (r, src, x))
        self.lines += pre
        self.emit(ind + 2, 'pure (decide %s, %s))' % (c, t))
        return r, LISTOF[ty]

    def range_bounds(self, ind, it):
        if it.keywords or not (1 <= len(it.args) <= 2):
            raise Untranslatable('range() with %d arguments' % len(it.args))
        parts = []
        for x in it.args:
            a, ta = self.ex(ind, x)
            parts.append(self.as_int(a, ta))
        return ('(0 : Int)', parts[0]) if len(parts) == 1 else (parts[0], parts[1])

    # -------------------------------------------------------------------------------------- statements
    MUTATING_BASIS = ('reverse', 'reparam', 'insert_knot', 'roll')

    def assigned(self, stmts):
        out = []

        def add(n):
            if n not in out:
                out.append(n)

        def base(t):
            while isinstance(t, (ast.Subscript, ast.Attribute)):
                t = t.value
            return t.id if isinstance(t, ast.Name) else None

        def tgt(t):
            if isinstance(t, ast.Name):
                add(t.id)
            elif isinstance(t, (ast.Tuple, ast.List)):
                for x in t.elts:
                    tgt(x)
            else:
                b = base(t)
                if b and b in aliases and aliases[b][0] == 'objref':
                    add(aliases[b][1])          # a store through a reference changes the object it lives in
                elif b:
                    add(b)
        aliases = dict(self.alias)
        for s in stmts:
            for n in ast.walk(s):
                if (isinstance(n, ast.Assign) and len(n.targets) == 1 and isinstance(n.targets[0], ast.Name)
                        and isinstance(n.value, ast.Subscript) and isinstance(n.value.value, ast.Attribute)
                        and n.value.value.attr == 'bases' and isinstance(n.value.value.value, ast.Name)):
                    aliases[n.targets[0].id] = ('objref', n.value.value.value.id, None)
        for s in stmts:
            for n in ast.walk(s):
                if isinstance(n, ast.For):
                    # targets of a zip / list loop alias the containers
                    its = n.iter.args if (isinstance(n.iter, ast.Call) and isinstance(n.iter.func, ast.Name)
                                          and n.iter.func.id == 'zip') else [n.iter]
                    tg = n.target.elts if isinstance(n.target, ast.Tuple) else [n.target]
                    if len(its) == len(tg):
                        for a, t in zip(its, tg):
                            if isinstance(t, ast.Name):
                                if _is_self_attr(a, 'bases'):
                                    aliases[t.id] = ('bases', 'self', None)
                                elif isinstance(a, ast.Name):
                                    aliases[t.id] = ('list', a.id, None)
        for s in stmts:
            for n in ast.walk(s):
                if isinstance(n, ast.Assign):
                    for t in n.targets:
                        tgt(t)
                elif isinstance(n, ast.AugAssign):
                    tgt(n.target)
                elif isinstance(n, ast.For):
                    tgt(n.target)
                elif isinstance(n, ast.Call) and isinstance(n.func, ast.Attribute):
                    f = n.func
                    if f.attr in ('append', 'insert', 'extend', 'sort') and isinstance(f.value, ast.Name):
                        add(f.value.id)
                    if f.attr in self.MUTATING_BASIS:
                        if isinstance(f.value, ast.Name) and f.value.id in aliases and aliases[f.value.id][0] == 'bases':
                            add('self')
                            add(f.value.id)
                        elif isinstance(f.value, ast.Name) and f.value.id in aliases and aliases[f.value.id][0] == 'objref':
                            add(aliases[f.value.id][1])
                        elif (isinstance(f.value, ast.Subscript) and isinstance(f.value.value, ast.Attribute)
                              and f.value.value.attr == 'bases' and isinstance(f.value.value.value, ast.Name)):
                            add(f.value.value.value.id)
                    if f.attr == 'snap' and n.args and isinstance(n.args[0], ast.Name):
                        x = n.args[0].id
                        add(x)
                        if x in aliases and aliases[x][0] == 'list':
                            add(aliases[x][1])
                    if isinstance(f.value, ast.Name) and (f.value.id == 'self' or self.env.get(f.value.id) == 'self'):
                        keys = [k for k in ORDER if py_name(k) == f.attr and SIGS[k]['kind'] == 'method']
                        for k in keys:
                            m = SIGS[k]['mut']
                            if m == 'self':
                                add(f.value.id)
                            elif m is not None:
                                for a in n.args:
                                    if isinstance(a, ast.Starred) and isinstance(a.value, ast.Name):
                                        add(a.value.id)
        # references (`b = X.bases[i]`) are not Lean variables: nothing to carry
        return [n for n in out if not (n in aliases and aliases[n][0] == 'objref')
                and self.env.get(n) != 'basisref']

    def bind_var(self, ind, name, text, ty, monadic=False):
        if name in GLOBALS or name in B.GLOBALS or re.fullmatch(r'(tmp|st|x)\d+', name) or name in ('self_', 'tol', 'kwargs') \
                or name.startswith('kw_'):
            raise Untranslatable('assignment to the reserved name %s' % name)
        if ty in ('bool',):
            text, ty = '(decide %s)' % text, 'boolv'
        if self.env.get(name) == 'ext' and ty == 'int' and not monadic:
            text, ty = '(some %s)' % text, 'ext'      # an int stored where an int-or-inf lives
        if name in self.alias and self.alias[name][0] == 'objref':
            del self.alias[name]
        self.list_alias.pop(name, None)
        # a 1-d numpy array lives in a variable of type 'flist' that is flagged (the flag is part of env, so it is
        # restored / dropped at `if` joins exactly like a type)
        self.env.pop('#arr:' + name, None)
        if ty == 'nparr':
            ty = 'flist'
            self.env['#arr:' + name] = 'nparr'
        if ty == 'emptylist' and name in (self.sig.get('locals') or {}):
            ty = self.sig['locals'][name]         # declared element type (checked by the elaborator)
            self.emit(ind, 'let %s : %s := []' % (lname(name), LEAN_TYPE[ty]))
        elif ty == 'emptylist':
            pass        # bound when the element type is known (first append / the loop that fills it)
        else:
            self.emit(ind, 'let %s %s %s' % (lname(name), '←' if monadic else ':=', text))
        self.env[name] = ty

    def set_self(self, ind, field, text):
        self.emit(ind, 'let self_ : PyObj K := { self_ with %s := %s }' % (field, text))

    def detach_refs(self, ind, pyobj):
        """`X.bases[i] = ..` / `X.bases = ..` re-binds a slot: references `b = X.bases[j]` keep the OLD object.
        They become plain values (a later mutation through them is outside the subset)."""
        for name, al in list(self.alias.items()):
            if al[0] == 'objref' and al[1] == pyobj and self.env.get(name) == 'basisref':
                t = self.bindm(ind, 'getBasis %s.bases %s' % (self.var_text(pyobj), al[2]))
                self.emit(ind, 'let %s := %s' % (lname(name), t))
                self.env[name] = 'basis'
                del self.alias[name]

    def assign_to(self, ind, t, v, tv):
        if isinstance(t, ast.Name):
            return self.bind_var(ind, t.id, v, tv)
        if isinstance(t, ast.Attribute) and isinstance(t.value, ast.Name) and self.env.get(t.value.id) == 'basisref':
            # b.periodic = .. / b.knots = ..  on a reference into X.bases
            b, _ = self.ex(ind, t.value)
            wb = self.basis_receiver(t.value)
            if t.attr == 'periodic' and tv == 'int':
                return wb(ind, '{ %s with periodic := %s }' % (b, v))
            if t.attr == 'knots' and tv == 'flist':
                return wb(ind, '{ %s with knots := %s.toArray }' % (b, v))
            raise Untranslatable('assignment of a %r to .%s of a basis' % (tv, t.attr))
        if isinstance(t, ast.Attribute) and self.obj_text(t.value) is not None:
            X = self.obj_text(t.value)
            want = {'controlpoints': 'tensor', 'dimension': 'int', 'rational': 'boolv', 'bases': 'bases'}.get(t.attr)
            if want is None:
                raise Untranslatable('assignment to %s.%s' % (t.value.id, t.attr))
            if t.attr == 'bases':
                self.detach_refs(ind, t.value.id)
            if t.attr == 'rational' and tv == 'int':
                m = re.fullmatch(r'\((-?\d+) : Int\)', v)
                if not m or int(m.group(1)) not in (0, 1):
                    raise Untranslatable('self.rational = %s' % v)
                v, tv = ('true' if int(m.group(1)) == 1 else 'false'), 'boolv'
            if t.attr == 'bases' and tv == 'baselist':
                v, tv = '%s.toArray' % v, 'bases'
            if tv == 'mat' and want == 'tensor':
                raise Untranslatable('a 2-d array stored as control points without reshape')
            return self.set_obj(ind, X, t.attr, self.coerce(v, tv, want, '%s.%s' % (t.value.id, t.attr)))
        if isinstance(t, ast.Subscript):
            tgt = t.value
            if self.is_obj_attr(tgt, 'bases'):
                X = self.obj_text(tgt.value)
                self.detach_refs(ind, tgt.value.id)
                i, ti = self.ex(ind, t.slice)
                if ti != 'int' or tv != 'basis':
                    raise Untranslatable('%s.bases[%r] = %r' % (tgt.value.id, ti, tv))
                n = self.bindm(ind, 'setBasis %s.bases %s %s' % (X, i, v))
                return self.set_obj(ind, X, 'bases', n)
            if self.is_obj_attr(tgt, 'controlpoints'):
                X = self.obj_text(tgt.value)
                el = self.ellipsis_index(t.slice)
                if el is None:
                    raise Untranslatable('item assignment into %s.controlpoints' % tgt.value.id)
                i, ti = self.ex(ind, el)
                n = self.store_last(ind, '%s.controlpoints' % X, i, ti, v, tv)
                return self.set_obj(ind, X, 'controlpoints', n)
            if isinstance(tgt, ast.Name) and tgt.id in self.list_alias and self.env.get(tgt.id) == 'bases':
                # `l = X.bases; l[i] = b` changes X.bases itself: from here on X.bases must not be read
                self.tainted.add(self.list_alias[tgt.id])
            if isinstance(tgt, ast.Name) and tgt.id in self.env:
                cur, cty = lname(tgt.id), self.env[tgt.id]
                if cty == 'bases' and not isinstance(t.slice, ast.Slice):
                    i, ti = self.ex(ind, t.slice)
                    if ti != 'int' or tv != 'basis':
                        raise Untranslatable('%s[%r] = %r' % (tgt.id, ti, tv))
                    self.emit(ind, 'let %s ← setBasis %s %s %s' % (cur, cur, i, v))
                    return None
                if (cty == 'tensor' and isinstance(t.slice, ast.Call) and isinstance(t.slice.func, ast.Name)
                        and t.slice.func.id == 'tuple' and len(t.slice.args) == 1):
                    ix, tix = self.ex(ind, t.slice.args[0])
                    if tix != 'idxtoks' or tv != 'tensor':
                        raise Untranslatable('array[tuple(%r)] = %r' % (tix, tv))
                    self.emit(ind, 'let %s ← npSetIndex %s %s %s' % (cur, cur, ix, v))
                    return None
                if cty == 'tensor':
                    el = self.ellipsis_index(t.slice)
                    if el is None:
                        raise Untranslatable('item assignment into an array')
                    i, ti = self.ex(ind, el)
                    n = self.store_last(ind, cur, i, ti, v, tv)
                    self.emit(ind, 'let %s := %s' % (cur, n))
                    return None
                if cty == 'mat':
                    if isinstance(t.slice, ast.Tuple) and len(t.slice.elts) == 2:
                        if ast.unparse(t.slice.elts[0]) == ':' and ast.unparse(t.slice.elts[1]) == ':-1':
                            if tv != 'mat':
                                raise Untranslatable('cp[:, :-1] = %r' % tv)
                            self.emit(ind, 'let %s ← matSetButLastCol %s %s' % (cur, cur, v))
                            return None
                        if ast.unparse(t.slice.elts[1]) == ':' and tv == 'secres':
                            r, tr = self.ex(ind, t.slice.elts[0])
                            if tr != 'int':
                                raise Untranslatable('row index of type %r' % tr)
                            self.emit(ind, 'let %s ← matSetRowSec %s %s %s' % (cur, cur, r, v))
                            return None
                        blk = self.block_bounds(ind, t.slice)
                        if blk is not None:
                            if tv != 'mat':
                                raise Untranslatable('block assignment of a %r' % tv)
                            self.emit(ind, 'let %s ← matBlockSet %s %s %s %s' % (cur, cur, blk[0], blk[1], v))
                            return None
                        r, tr = self.ex(ind, t.slice.elts[0])
                        c, tc = self.ex(ind, t.slice.elts[1])
                        if tr != 'int' or tc != 'int':
                            raise Untranslatable('matrix index types')
                        if tv == 'param':
                            v, tv = self.bindm(ind, 'paramScalar %s' % v), 'npf'
                        self.emit(ind, 'let %s ← setItem2 %s %s %s %s' % (cur, cur, r, c, self.cast(v, tv)))
                        return None
                    raise Untranslatable('matrix item assignment')
                if cty in LISTS and cty != 'bases' and not isinstance(t.slice, ast.Slice):
                    i, ti = self.ex(ind, t.slice)
                    if ti != 'int':
                        raise Untranslatable('index of type %r' % ti)
                    self.emit(ind, 'let %s ← setItem %s %s %s' % (cur, cur, i, self.coerce(v, tv, ELEM[cty], 'item')))
                    return None
            raise Untranslatable('item assignment into %s' % ast.unparse(tgt))
        raise Untranslatable('assignment target %s' % ast.unparse(t))

    def block_bounds(self, ind, sl):
        """`[0:r, 0:c]`: (r text, c text), else None."""
        if not (isinstance(sl, ast.Tuple) and len(sl.elts) == 2 and all(isinstance(x, ast.Slice) for x in sl.elts)):
            return None
        out = []
        for x in sl.elts:
            if x.step is not None or x.lower is None or x.upper is None or not _const(x.lower, 0):
                raise Untranslatable('block index %s' % ast.unparse(sl))
            a, ta = self.ex(ind, x.upper)
            if ta != 'int':
                raise Untranslatable('block bound of type %r' % ta)
            out.append(a)
        return out

    def store_last(self, ind, cur, i, ti, v, tv):
        if ti != 'int':
            raise Untranslatable('component index of type %r' % ti)
        if tv == 'tensor':
            return self.bindm(ind, 'setLast %s %s %s' % (cur, i, v))
        if tv in FLOATS or tv == 'int':
            return self.bindm(ind, 'setLastScalar %s %s %s' % (cur, i, self.cast(v, tv)))
        raise Untranslatable('t[..., i] = a %r' % tv)

    def stmt(self, ind, s, rest, fallthrough):
        pt = self.sig.get('pinned_tail')
        if pt and s in self.node.body and ast.unparse(s) == pt[0]:
            # a pinned block of statements that is replaced as a whole (documented idealisation)
            tail = [s] + list(rest)
            if tail != self.node.body[self.node.body.index(s):]:
                raise Untranslatable('pinned tail of %s is not the end of the body' % self.key)
            dg = hashlib.sha256('\n'.join(ast.dump(x) for x in tail).encode()).hexdigest()[:16]
            if dg != pt[1]:
                raise Untranslatable('the pinned tail of %s changed (digest %s, expected %s)' % (self.key, dg, pt[1]))
            self.emit(ind, 'throw .other')
            return True
        if isinstance(s, ast.Assign) and len(s.targets) == 1:
            t = s.targets[0]
            v0 = s.value
            if (isinstance(t, ast.Name) and isinstance(v0, ast.Subscript) and self.is_obj_attr(v0.value, 'bases')
                    and not isinstance(v0.slice, ast.Slice)):
                # b = X.bases[i]: a REFERENCE to the basis object that lives in X.bases
                self.check_bases_read(v0.value.value)
                i, ti = self.ex(ind, v0.slice)
                if ti != 'int':
                    raise Untranslatable('index of type %r' % ti)
                if t.id in GLOBALS or t.id in B.GLOBALS:
                    raise Untranslatable('assignment to the reserved name %s' % t.id)
                iv = 'ref_%s_%d' % (t.id, self.ntmp + 1)
                self.ntmp += 1
                self.emit(ind, 'let %s := %s' % (iv, i))
                self.bindm(ind, 'getBasis %s.bases %s' % (self.obj_text(v0.value.value), iv))   # IndexError here
                self.alias[t.id] = ('objref', v0.value.value.id, iv)
                self.env[t.id] = 'basisref'
                return False
            if isinstance(t, ast.Name) and isinstance(v0, ast.ListComp):
                m = re.fullmatch(r'\[c for c in SplineObject\.__subclasses__\(\) if c\._intended_pardim == (len\(.*\))\]',
                                 ast.unparse(v0))
                if m:
                    n, tn = self.ex(ind, ast.parse(m.group(1), mode='eval').body)
                    self.bind_var(ind, t.id, n, 'ctorlist')
                    return False
            if isinstance(t, ast.Name) and t.id in self.idx_vars:
                self.idx_mode = True
                try:
                    v, tv = self.ex(ind, v0)
                finally:
                    self.idx_mode = False
                self.assign_to(ind, t, v, tv)
                return False
            if (isinstance(t, ast.Subscript) and isinstance(t.value, ast.Name) and t.value.id in self.idx_vars):
                self.idx_mode = True
                try:
                    v, tv = self.ex(ind, v0)
                finally:
                    self.idx_mode = False
                self.assign_to(ind, t, v, tv)
                return False
            if isinstance(t, ast.Name) and self.is_obj_attr(v0, 'bases'):
                # l = X.bases: the list object itself (an assignment l[i] = .. changes X.bases)
                a, ta = self.ex(ind, v0)
                self.bind_var(ind, t.id, a, ta)
                self.list_alias[t.id] = v0.value.id
                return False
            if (isinstance(t, ast.Attribute) and isinstance(t.value, ast.Name)
                    and self.env.get(t.value.id) == 'basisref'):
                v, tv = self.ex(ind, v0)
                self.assign_to(ind, t, v, tv)
                return False
            if isinstance(t, ast.Tuple) and not isinstance(s.value, ast.Tuple):
                # a, b = seq
                if len(t.elts) == 2 and all(isinstance(x, ast.Name) for x in t.elts):
                    v, tv = self.ex(ind, s.value)
                    if tv != 'flist':
                        raise Untranslatable('unpacking of a %r' % tv)
                    u = self.bindm(ind, 'unpack2 %s' % v)
                    self.bind_var(ind, t.elts[0].id, '%s.1' % u, 'npf')
                    self.bind_var(ind, t.elts[1].id, '%s.2' % u, 'npf')
                    return False
                if len(t.elts) == 3 and all(isinstance(x, ast.Name) for x in t.elts):
                    v, tv = self.ex(ind, s.value)
                    if tv not in ('flist', 'nparr'):
                        raise Untranslatable('unpacking of a %r' % tv)
                    u = self.bindm(ind, 'unpack3 %s' % v)
                    self.bind_var(ind, t.elts[0].id, '%s.1' % u, 'npf')
                    self.bind_var(ind, t.elts[1].id, '%s.2.1' % u, 'npf')
                    self.bind_var(ind, t.elts[2].id, '%s.2.2' % u, 'npf')
                    return False
                raise Untranslatable('tuple assignment from a non-tuple')
        if isinstance(s, ast.AugAssign):
            t = s.target
            if (isinstance(t, ast.Attribute) and isinstance(t.value, ast.Name)
                    and self.env.get(t.value.id) == 'basisref'):
                new = ast.BinOp(left=ast.Attribute(value=ast.Name(id=t.value.id, ctx=ast.Load()), attr=t.attr,
                                                   ctx=ast.Load()), op=s.op, right=s.value)
                v, tv = self.ex(ind, new)
                self.assign_to(ind, t, v, tv)
                return False
            if (isinstance(t, ast.Subscript) and isinstance(t.value, ast.Name) and self.env.get(t.value.id) == 'mat'
                    and isinstance(s.op, ast.Sub)):
                blk = self.block_bounds(ind, t.slice)
                if blk is not None:
                    v, tv = self.ex(ind, s.value)
                    if tv != 'mat':
                        raise Untranslatable('block -= a %r' % tv)
                    cur = lname(t.value.id)
                    self.emit(ind, 'let %s ← matBlockSub %s %s %s %s' % (cur, cur, blk[0], blk[1], v))
                    return False
            if isinstance(t, ast.Name) and t.id != 'self' and self.env.get(t.id) == 'self' and type(s.op) in INPLACE_OPS:
                # obj op= x : type(obj).__iop__(obj, x), the result is bound to the name
                key = INPLACE_OPS[type(s.op)]
                call, sig = self.fn_call_on(ind, key, [s.value], {}, None, self.var_text(t.id))
                self.emit(ind, 'let %s ← %s' % (self.var_text(t.id), call))
                return False
            if isinstance(t, ast.Subscript):
                el = self.ellipsis_index(t.slice)
                if el is not None and isinstance(t.value, ast.Name) and self.env.get(t.value.id) == 'tensor':
                    # x[..., i] op= v : x[..., i] is read, then v evaluated, then the store
                    cur = lname(t.value.id)
                    i, ti = self.ex(ind, el)
                    if ti != 'int':
                        raise Untranslatable('component index of type %r' % ti)
                    n = self.tmp()
                    self.emit(ind, 'let %s := %s' % (n, i))
                    old = self.bindm(ind, 'getLast %s %s' % (cur, n))
                    v, tv = self.ex(ind, s.value)
                    f = {ast.Div: 'tDiv', ast.Mult: 'tMul', ast.Sub: 'tSub'}.get(type(s.op))
                    if f is None or tv != 'tensor':
                        raise Untranslatable('in-place operator on a component with a %r' % tv)
                    self.emit(ind, 'let %s ← setLast %s %s (%s %s %s)' % (cur, cur, n, f, old, v))
                    return False
                raise Untranslatable('augmented assignment to %s' % ast.unparse(t))
            if isinstance(t, ast.Name) and t.id != 'self':
                new = ast.BinOp(left=ast.Name(id=t.id, ctx=ast.Load()), op=s.op, right=s.value)
                v, tv = self.ex(ind, new)
                if tv != self.env.get(t.id) and not (tv in FLOATS and self.env.get(t.id) in FLOATS):
                    raise Untranslatable('in-place operator changes the type of %s' % t.id)
                self.bind_var(ind, t.id, v, tv)
                return False
            raise Untranslatable('augmented assignment to %s' % ast.unparse(t))
        if isinstance(s, ast.Expr) and isinstance(s.value, ast.Call) and isinstance(s.value.func, ast.Attribute):
            c = s.value
            f = c.func
            pos, kws, star = self.split_args(c)
            if isinstance(f.value, ast.Name) and f.value.id in self.env and f.value.id != 'self':
                x = f.value.id
                tx = self.env[x]
                if f.attr == 'append' and len(pos) == 1 and not kws and (tx in LISTS or tx == 'emptylist') and tx != 'bases':
                    v, tv = self.ex(ind, pos[0])
                    if tx == 'emptylist':
                        if tv not in LISTOF:
                            raise Untranslatable('append of a %r' % tv)
                        tx = LISTOF[tv]
                        self.emit(ind, 'let %s : %s := [%s]' % (lname(x), LEAN_TYPE[tx], v))
                    else:
                        self.emit(ind, 'let %s := listAdd %s [%s]' % (lname(x), lname(x), self.coerce(v, tv, ELEM[tx], 'append')))
                    self.env[x] = tx
                    return False
                if f.attr == 'insert' and len(pos) == 2 and not kws and tx in LISTS and tx != 'bases':
                    i, ti = self.ex(ind, pos[0])
                    v, tv = self.ex(ind, pos[1])
                    if ti != 'int':
                        raise Untranslatable('insert position of type %r' % ti)
                    self.emit(ind, 'let %s := listInsert %s %s %s' % (lname(x), lname(x), i, self.coerce(v, tv, ELEM[tx], 'insert')))
                    return False
            if self.obj_text(f.value) is not None:
                X = self.obj_text(f.value)
                keys = [k for k in ORDER if py_name(k) == f.attr and SIGS[k]['kind'] == 'method']
                if keys:
                    key = self.pick_specialisation(keys, pos, kws, star)
                    sig = SIGS[key]
                    call, _ = self.fn_call_on(ind, key, pos, kws, star, X)
                    if sig['mut'] == 'self':
                        if sig['ret'] not in (None, 'self'):
                            raise Untranslatable('result of %s.%s discarded' % (f.value.id, f.attr))
                        live = [n for n, al in self.alias.items() if al[0] == 'objref' and al[1] == f.value.id]
                        if live and py_name(key) not in KEEPS_BASES_OBJECTS:
                            raise Untranslatable('%s.%s(..) may re-bind basis objects that %s refer to'
                                                 % (f.value.id, f.attr, ', '.join(live)))
                        self.emit(ind, 'let %s ← %s' % (X, call))
                        return False
                    if sig['mut'] is not None and sig['ret'] is None and sig.get('vararg') and sig['vararg'][0] == sig['mut'] \
                            and isinstance(star, ast.Name):
                        self.emit(ind, 'let %s ← %s' % (lname(star.id), call))
                        return False
                    if sig['mut'] is None:
                        self.emit(ind, 'let _ ← %s' % call)
                        return False
            if self.maybe_basis(f.value):
                r = self.basis_call(ind, f.value, f.attr, pos, kws, as_stmt=True)
                if r is None:
                    return False
                if r is not NotImplemented:
                    return False      # value discarded (evaluation already emitted)
            raise Untranslatable('expression statement %s' % ast.unparse(s)[:80])
        if isinstance(s, ast.Raise):
            if (s.cause is None and isinstance(s.exc, ast.Call) and isinstance(s.exc.func, ast.Name)
                    and s.exc.func.id in ERR):
                # message arguments are evaluated before the raise: only literals and `%`-formatting of them
                for a in s.exc.args:
                    fmt = (isinstance(a, ast.Call) and isinstance(a.func, ast.Attribute) and a.func.attr == 'format'
                           and isinstance(a.func.value, ast.Constant) and isinstance(a.func.value.value, str)
                           and not a.keywords)
                    if not (isinstance(a, ast.Constant) or fmt
                            or (isinstance(a, ast.BinOp) and isinstance(a.op, ast.Mod)
                                and isinstance(a.left, ast.Constant))):
                        raise Untranslatable('raise with a computed message')
                    if isinstance(a, ast.BinOp):
                        self.ex(ind, a.right)      # evaluated (may raise first)
                    if fmt:
                        for x in a.args:
                            self.ex(ind, x)
                self.emit(ind, 'throw %s' % ERR[s.exc.func.id])
                return True
            raise Untranslatable('raise of an unsupported form')
        if isinstance(s, ast.While):
            return self.while_stmt(ind, s)
        if isinstance(s, ast.If):
            self.need_prop(s.test)
            before = (dict(self.alias), dict(self.list_alias))
            r = super().stmt(ind, s, rest, fallthrough)
            if not r and (dict(self.alias), dict(self.list_alias)) != before:
                raise Untranslatable('a reference / list alias is created or changed inside a branch')
            return r
        return super().stmt(ind, s, rest, fallthrough)

    def ret(self, ind, value_node):
        sig = self.sig
        parts = []
        if sig['mut'] == 'self' and sig['ret'] != 'self':
            parts.append('self_')
        elif sig['mut'] not in (None, 'self'):
            parts.append(lname(sig['mut']))
        if value_node is None or _is_none(value_node):
            if sig['ret'] is not None:
                raise Untranslatable('%s returns None, expected a %r' % (self.key, sig['ret']))
        else:
            if sig['ret'] is None:
                raise Untranslatable('%s returns a value, expected None' % self.key)
            if (isinstance(value_node, ast.Call) and isinstance(value_node.func, ast.Name) and value_node.func.id == 'tuple'
                    and len(value_node.args) == 1 and not isinstance(value_node.args[0], ast.GeneratorExp)):
                value_node = value_node.args[0]
            vn = value_node
            if (isinstance(vn, ast.Call) and isinstance(vn.func, ast.Attribute) and isinstance(vn.func.value, ast.Name)
                    and vn.func.value.id == 'self' and 'self' in self.env and sig['mut'] == 'self' and sig['ret'] == 'self'):
                keys = [k for k in ORDER if py_name(k) == vn.func.attr and SIGS[k]['kind'] == 'method']
                pos, kws, star = self.split_args(vn)
                if keys:
                    key = self.pick_specialisation(keys, pos, kws, star)
                    if SIGS[key]['mut'] == 'self' and SIGS[key]['ret'] == 'self':
                        # `return self.m(..)` with m mutating self and returning it
                        if any(al[0] == 'objref' and al[1] == 'self' for al in self.alias.values()) \
                                and py_name(key) not in KEEPS_BASES_OBJECTS:
                            raise Untranslatable('self.%s(..) may re-bind basis objects that are referred to' % vn.func.attr)
                        call, _ = self.fn_call(ind, key, pos, kws, star)
                        self.emit(ind, 'let self_ ← %s' % call)
                        self.emit(ind, 'pure self_')
                        return
            v, tv = self.ex(ind, value_node)
            parts.append(self.coerce(v, tv, sig['ret'], 'return value of %s' % self.key))
        self.emit(ind, 'pure %s' % ('(%s)' % ', '.join(parts) if len(parts) != 1 else parts[0]) if parts else 'pure ()')

    # -------------------------------------------------------------------------------------------- loops
    def for_stmt(self, ind, s):
        if s.orelse:
            raise Untranslatable('for/else')
        for n in ast.walk(s):
            if isinstance(n, (ast.Break, ast.Continue, ast.Return)):
                raise Untranslatable('%s inside a loop' % type(n).__name__.lower())
        # a list that is still `[]` gets its element type from the first pass over the body
        pending = [x for x in self.assigned(s.body) if self.env.get(x) == 'emptylist']
        if pending:
            snap = (dict(self.env), dict(self.alias), self.ntmp, set(self.calls), self.uses_floor, set(self.prop_nodes))
            after, _ = self.capture(lambda: self._for(ind, s, dry=True))
            self.env, self.alias, self.ntmp, self.calls, self.uses_floor, self.prop_nodes = snap
            for x in pending:
                ty = after.get(x)
                if ty in (None, 'emptylist'):
                    raise Untranslatable('element type of the list %s is not determined by the loop' % x)
                self.emit(ind, 'let %s : %s := []' % (lname(x), LEAN_TYPE[ty]))
                self.env[x] = ty
        self._for(ind, s, dry=False)
        return False

    def _for(self, ind, s, dry):
        targets = ([s.target.id] if isinstance(s.target, ast.Name)
                   else [n.id for n in ast.walk(s.target) if isinstance(n, ast.Name)])
        is_range = (isinstance(s.iter, ast.Call) and isinstance(s.iter.func, ast.Name) and s.iter.func.id == 'range'
                    and 'range' not in self.env)
        saved_alias = dict(self.alias)
        if is_range:
            if not isinstance(s.target, ast.Name):
                raise Untranslatable('loop target')
            lo, hi = self.range_bounds(ind, s.iter)
            tys, srcs = ['int'], [None]
        else:
            src, tys, srcs = self.iter_source(ind, s.iter)
        # aliases of the targets
        tg = s.target.elts if isinstance(s.target, ast.Tuple) else [s.target]
        ivar = 'i%d' % (self.ntmp + 1)
        pre_alias = {}
        if len(tg) == len(srcs):
            for t, sc in zip(tg, srcs):
                if isinstance(t, ast.Name) and sc is not None:
                    pre_alias[t.id] = (sc[0], sc[1], ivar)
        self.alias.update(pre_alias)
        names = [x for x in self.assigned(s.body)]
        mutated = [x for x in names if x in pre_alias]
        carried = [x for x in names if x in self.env and x not in targets]
        saved = dict(self.env)
        stv = 'st%d' % (self.ntmp + 1)
        xv = 'x%d' % (self.ntmp + 1)
        self.ntmp += 1
        init = self.tuple_text(carried)
        if is_range:
            self.emit(ind, 'let %s ← forRange %s %s %s (fun %s %s => do' % (stv, lo, hi, init, lname(s.target.id), stv))
            self.env[s.target.id] = 'int'
        elif mutated:
            self.emit(ind, 'let %s ← forEachIdx %s %s (fun %s %s %s => do' % (stv, src, init, ivar, xv, stv))
        else:
            self.emit(ind, 'let %s ← forEach %s %s (fun %s %s => do' % (stv, src, init, xv, stv))
        if carried:
            self.unpack(ind + 2, stv, carried)
        if not is_range:
            self.bind_targets(ind + 2, s.target, tys, xv)
        self.block(ind + 2, s.body, ('join', carried))
        self.lines[-1] += ')'
        after = self.env
        self.env = saved
        self.alias = saved_alias
        if not dry:
            for x in carried:
                if after.get(x) != saved[x]:
                    raise Untranslatable('loop changes the type of %s' % x)
            if carried:
                self.unpack(ind, stv, carried)
        return after

    def while_stmt(self, ind, s):
        if s.orelse:
            raise Untranslatable('while/else')
        for n in ast.walk(s):
            if isinstance(n, (ast.Break, ast.Continue, ast.Return)):
                raise Untranslatable('%s inside a loop' % type(n).__name__.lower())
        t = s.test
        if not (isinstance(t, ast.Compare) and len(t.ops) == 1 and isinstance(t.ops[0], (ast.Gt, ast.Lt))):
            raise Untranslatable('while condition %s' % ast.unparse(t))
        ntmp0 = self.ntmp
        (a, ta), pre1 = self.capture(lambda: self.ex(ind, t.left))
        (b, tb), pre2 = self.capture(lambda: self.ex(ind, t.comparators[0]))
        if ta != 'int' or tb != 'int':
            raise Untranslatable('while condition that is not a comparison of two ints')
        if pre1 or pre2:
            return self.while_monadic(ind, s, t, pre1 + pre2, a, b, ntmp0)
        fuel = '(%s - %s).toNat' % ((a, b) if isinstance(t.ops[0], ast.Gt) else (b, a))
        carried = [x for x in self.assigned(s.body) if x in self.env]
        saved = dict(self.env)
        stv = 'st%d' % (self.ntmp + 1)
        self.ntmp += 1
        pat = self.tuple_text(carried)
        sym = '>' if isinstance(t.ops[0], ast.Gt) else '<'
        self.emit(ind, 'let %s ← whileFuel %s %s' % (stv, fuel, pat))
        self.emit(ind + 2, '(fun %s => decide (%s %s %s))' % (self.pattern(carried), a, sym, b))
        self.emit(ind + 2, '(fun %s => do' % stv)
        if carried:
            self.unpack(ind + 3, stv, carried)
        self.block(ind + 3, s.body, ('join', carried))
        self.lines[-1] += ')'
        after = self.env
        self.env = saved
        for x in carried:
            if after.get(x) != saved[x]:
                raise Untranslatable('loop changes the type of %s' % x)
        if carried:
            self.unpack(ind, stv, carried)
        return False

    def while_monadic(self, ind, s, t, pre, a, b, ntmp0):
        """`while` whose condition reads attributes of objects (may raise): the operands are evaluated once
        before the loop (for the fuel = their distance) and again, on the current state, before every pass."""
        self.lines += pre                      # first evaluation, before the loop
        fuel = '(%s - %s).toNat' % ((a, b) if isinstance(t.ops[0], ast.Gt) else (b, a))
        carried = [x for x in self.assigned(s.body) if x in self.env]
        saved = dict(self.env)
        stv = 'st%d' % (self.ntmp + 1)
        self.ntmp += 1
        pat = self.tuple_text(carried)
        sym = '>' if isinstance(t.ops[0], ast.Gt) else '<'
        self.emit(ind, 'let %s ← whileFuelM %s %s' % (stv, fuel, pat))
        self.emit(ind + 2, '(fun %s => do' % stv)
        if carried:
            self.unpack(ind + 3, stv, carried)
        (a2, _), p1 = self.capture(lambda: self.ex(ind + 3, t.left))
        (b2, _), p2 = self.capture(lambda: self.ex(ind + 3, t.comparators[0]))
        self.lines += p1 + p2
        self.emit(ind + 3, 'pure (decide (%s %s %s)))' % (a2, sym, b2))
        self.emit(ind + 2, '(fun %s => do' % stv)
        if carried:
            self.unpack(ind + 3, stv, carried)
        self.block(ind + 3, s.body, ('join', carried))
        self.lines[-1] += ')'
        after = self.env
        self.env = saved
        for x in carried:
            if after.get(x) != saved[x]:
                raise Untranslatable('loop changes the type of %s' % x)
        if carried:
            self.unpack(ind, stv, carried)
        return False

    def pattern(self, vs):
        if not vs:
            return '_'
        return '(%s)' % ', '.join(self.var_text(v) for v in vs) if len(vs) > 1 else self.var_text(vs[0])

    # ------------------------------------------------------------------------------------------- whole
    def run(self):
        node, sig = self.node, self.sig
        a = node.args
        if a.posonlyargs:
            raise Untranslatable('%s: parameter kinds' % node.name)
        kwonly = sig.get('kwonly') or []
        if [x.arg for x in a.kwonlyargs] != [p for p, _, _ in kwonly]:
            raise Untranslatable('%s: keyword-only parameters %r' % (node.name, [x.arg for x in a.kwonlyargs]))
        for (p, ty, dflt), d in zip(kwonly, a.kw_defaults):
            if not (isinstance(d, ast.Constant) and d.value is dflt):
                raise Untranslatable('%s: default of the keyword-only parameter %s' % (node.name, p))
        got = [x.arg for x in a.args]
        want = (['self'] if self.is_method else []) + [p for p, _, _ in sig['params']]
        if got != want:
            raise Untranslatable('%s: parameters %r, expected %r' % (node.name, got, want))
        if (a.vararg.arg if a.vararg else None) != (sig['vararg'][0] if sig.get('vararg') else None):
            raise Untranslatable('%s: *%s, expected %r' % (node.name, a.vararg.arg if a.vararg else None, sig.get('vararg')))
        if (a.kwarg is not None) != (sig.get('kwargs') is not None) or (a.kwarg and a.kwarg.arg != 'kwargs'):
            raise Untranslatable('%s: **kwargs does not match the interface table' % node.name)
        want_dec = ['property'] if sig['kind'] == 'prop' else []
        if [ast.unparse(d) for d in node.decorator_list] != want_dec:
            raise Untranslatable('%s: decorators %r' % (node.name, [ast.unparse(d) for d in node.decorator_list]))
        defaults = [NODEFAULT] * (len(got) - len(a.defaults)) + list(a.defaults)
        for (p, ty, dflt), d in zip(sig['params'], defaults[(1 if self.is_method else 0):]):
            if d is NODEFAULT:
                have = NODEFAULT
            elif isinstance(d, ast.Constant):
                have = d.value
            elif isinstance(d, ast.UnaryOp) and isinstance(d.op, ast.USub) and isinstance(d.operand, ast.Constant):
                have = -d.operand.value
            elif isinstance(d, ast.Tuple) and all(isinstance(x, ast.Constant) for x in d.elts):
                have = tuple(x.value for x in d.elts)
            else:
                raise Untranslatable('%s: default of %s' % (node.name, p))
            if (have is not dflt and have != dflt) or (type(have) is not type(dflt)):
                raise Untranslatable('%s: default of %s is %r, expected %r' % (node.name, p, have, dflt))
        binders = []
        if self.is_method:
            binders.append('(self_ : PyObj K)')
            self.env['self'] = 'self'
            binders.append('(tol : K)')
        if sig.get('fnparams'):
            binders.append('(%s : K → K)' % ' '.join(sig['fnparams']))
        for p, ty, _ in sig['params']:
            self.env[p] = ty
            if ty == 'nparr':
                self.env[p] = 'flist'
                self.env['#arr:' + p] = 'nparr'
            if ty == 'none':
                continue
            binders.append('(%s : %s)' % (lname(p), LEAN_TYPE[ty]))
        if sig.get('vararg'):
            p, ty = sig['vararg']
            self.env[p] = ty
            binders.append('(%s : %s)' % (lname(p), LEAN_TYPE[ty]))
        for p, ty, _ in kwonly:
            self.env[p] = ty
            if ty != 'none':
                binders.append('(%s : %s)' % (lname(p), LEAN_TYPE[ty]))
        for k, ty in (sig.get('kwargs') or {}).items():
            if ty is not None:
                binders.append('(kw_%s : %s)' % (k, LEAN_TYPE[ty]))
        # lists of slices that are indexed into (`ix[d] = i`) hold general index entries
        for n in ast.walk(node):
            if isinstance(n, ast.Assign):
                for t in n.targets:
                    if isinstance(t, ast.Subscript) and isinstance(t.value, ast.Name):
                        self.idx_vars.add(t.value.id)
        self.idx_vars = {v for v in self.idx_vars if any(
            isinstance(n, ast.Assign) and len(n.targets) == 1 and isinstance(n.targets[0], ast.Name)
            and n.targets[0].id == v and 'slice(' in ast.unparse(n.value) for n in ast.walk(node))}
        fuel = sig.get('fuel')
        self.block(2 if fuel else 1, list(node.body), ('end',))
        body = '\n'.join(self.lines)
        floor = ' [FloorRing K]' if self.uses_floor else ''
        if fuel:
            args = ' '.join(re.findall(r'\((\S+) :', ' '.join(binders)))
            head = 'def %s_fuel%s (fuel : ℕ) %s : PyM (%s) :=\n  match fuel with\n  | 0 => throw .other\n  | fuel + 1 => do' % (
                lean_name(self.key), floor, ' '.join(binders), ret_lean_type(sig))
            tail = '\n\ndef %s%s %s : PyM (%s) :=\n  %s_fuel (%s) %s' % (
                lean_name(self.key), floor, ' '.join(binders), ret_lean_type(sig), lean_name(self.key), fuel, args)
            return re.sub(r'  +:', ' :', head) + '\n' + body + tail
        head = 'def %s%s %s : PyM (%s) := do' % (lean_name(self.key), floor, ' '.join(binders), ret_lean_type(sig))
        return re.sub(r'  +:', ' :', head) + '\n' + body


HEADER = '''import Splipy.Lemmas.PyObjectLib

/-! GENERATED by harness/translate/object_translate.py from the Python AST of `splipy/splineobject.py`
(class SplineObject, module functions `evaluate` -> `evaluate_fn`, `transpose_fix`) and of
`splipy/utils/__init__.py` (`check_direction`).  Do not edit: the file is rewritten on every check;
`Splipy/Lemmas/PyObjectEq.lean` proves these definitions equal to the hand model.

Calls of `BSplineBasis` methods are NOT translated here: they are the hand model's `Basis.*` functions
(`Basis.start/stop/numFunctions/reverse/reparam/insertKnot`, `snap`, `Basis.evaluate` via `basisEvaluate`);
their equality with `basis.py` / `basis_eval.pyx` is established by `Lemmas/PyBasisEq.lean` (t1) and
`Lemmas/PyxEq.lean` (t2).  `utils.is_singleton / ensure_listlike / ensure_flatlist` (and, for `section` /
`corners`, `utils.check_section` / `utils.sections`) are primitives of `Lemmas/PyObjectLib.lean`;
`utils.rotation_matrix` is translated; `np.linalg.inv` is `Mat.invChecked`; `sqrt_ cos_ sin_` are abstract
inputs of `mirror` / `rotate` / `rotation_matrix`; `split` is a fuel-indexed recursion. -/

set_option linter.unusedVariables false

namespace Splipy.Generated.PyObject
open Splipy Splipy.PyO

variable {K : Type} [Field K] [LinearOrder K]

'''
FOOTER = '\nend Splipy.Generated.PyObject\n'

# utils helpers that are mapped to primitives: their source is pinned (normalised AST dump)
PINNED_UTILS = ('is_singleton', 'ensure_listlike', 'ensure_flatlist')
PINNED_DIGEST = {
    'is_singleton': None, 'ensure_listlike': None, 'ensure_flatlist': None,     # filled by _pin() below
}


def find_class(tree):
    for n in tree.body:
        if isinstance(n, ast.ClassDef) and n.name == 'SplineObject':
            return n
    raise Untranslatable('class SplineObject not found')


def _strip_doc(fn):
    body = fn.body
    if body and isinstance(body[0], ast.Expr) and isinstance(body[0].value, ast.Constant) and isinstance(body[0].value.value, str):
        body = body[1:]
    return '\n'.join(ast.dump(s) for s in body) + '|' + ast.dump(fn.args)


def fn_digest(fn):
    return hashlib.sha256(_strip_doc(fn).encode()).hexdigest()[:16]


# the three pinned helpers as they are in the pinned tree (docstrings do not count)
PINNED_SRC = {
    'is_singleton': 'def is_singleton(x):\n    return not isinstance(x, Sized)\n',
    'ensure_listlike': ('def ensure_listlike(x, dups=1):\n    try:\n        while len(x) < dups:\n            x = list(x)\n'
                        '            x.append(x[-1])\n        return x\n    except TypeError:\n        return [x] * dups\n'
                        '    except IndexError:\n        return []\n'),
    'ensure_flatlist': 'def ensure_flatlist(x):\n    if isinstance(x[0], Sized):\n        return x[0]\n    return x\n',
}
# pinned per method (`pins` in the interface table): a difference fails only the methods that use the primitive
PINNED_SRC_OPT = {
    'check_section': ("def check_section(*args, **kwargs):\n    pardim = kwargs['pardim']\n    args = list(args)\n"
                      "    while len(args) < pardim:\n        args.append(None)\n"
                      "    for k in set(kwargs.keys()) & set('uvw'):\n        index = 'uvw'.index(k)\n"
                      "        args[index] = kwargs[k]\n    return args\n"),
    'sections': ("def sections(src_dim, tgt_dim):\n    nfixed = src_dim - tgt_dim\n"
                 "    for fixed in combinations(range(src_dim), r=nfixed):\n"
                 "        for indices in product([0, -1], repeat=nfixed):\n            args = [None] * src_dim\n"
                 "            for f, i in zip(fixed, indices[::-1]):\n                args[f] = i\n            yield args\n"),
}
for _k, _s in PINNED_SRC.items():
    PINNED_DIGEST[_k] = fn_digest(ast.parse(_s).body[0])
for _k, _s in PINNED_SRC_OPT.items():
    PINNED_DIGEST[_k] = fn_digest(ast.parse(_s).body[0])
PIN_ERR = {}


def check_module_env(tree, cls, utree):
    """The names the bodies take from module level must be what the translation assumes."""
    if [ast.unparse(b) for b in cls.bases] != ['object'] or cls.keywords or cls.decorator_list:
        raise Untranslatable('class SplineObject has other base classes / keywords / decorators')
    seen = {}
    funcs = {}
    for n in tree.body:
        if isinstance(n, ast.Expr) and isinstance(n.value, ast.Constant):
            continue
        if isinstance(n, ast.Import):
            for a in n.names:
                seen[a.asname or a.name.split('.')[0]] = ('import', a.name)
            continue
        if isinstance(n, ast.ImportFrom):
            for a in n.names:
                seen[a.asname or a.name] = ('from', '.' * n.level + (n.module or ''), a.name)
            continue
        if isinstance(n, ast.Assign) and len(n.targets) == 1 and isinstance(n.targets[0], ast.Name) \
                and n.targets[0].id == '__all__':
            continue
        if isinstance(n, ast.FunctionDef) and n.name in ('transpose_fix', 'evaluate') and n.name not in funcs \
                and not n.decorator_list:
            funcs[n.name] = n
            continue
        if n is cls:
            continue
        raise Untranslatable('module-level statement other than imports / __all__ / transpose_fix / evaluate / class '
                             'SplineObject: %s' % ast.unparse(n)[:60])
    want = {'np': ('import', 'numpy'), 'copy': ('import', 'copy'), 'BSplineBasis': ('from', '.basis', 'BSplineBasis')}
    for u in ('reshape', 'rotation_matrix', 'is_singleton', 'ensure_listlike', 'check_direction', 'ensure_flatlist',
              'check_section', 'sections', 'raise_order_1D'):
        want[u] = ('from', '.utils', u)
    for k, v in want.items():
        if seen.get(k) != v:
            raise Untranslatable('module-level name %s is bound by %r, expected %r' % (k, seen.get(k), v))
    builtins_ = {'len', 'abs', 'float', 'int', 'max', 'min', 'range', 'list', 'tuple', 'slice', 'type', 'all', 'any',
                 'sum', 'zip', 'set', 'ValueError', 'TypeError', 'RuntimeError', 'IndexError', 'SplineObject',
                 'transpose_fix', 'evaluate'}
    for k in seen:
        if k in builtins_:
            raise Untranslatable('module-level import rebinds the name %s' % k)
    pykeys = {py_name(k) for k in ORDER if SIGS[k]['kind'] in ('method', 'prop')}
    for n in cls.body:
        if isinstance(n, (ast.AsyncFunctionDef, ast.ClassDef)):
            raise Untranslatable('nested class / async method %s' % n.name)
        if isinstance(n, (ast.Assign, ast.AnnAssign, ast.AugAssign)):
            tg = n.targets if isinstance(n, ast.Assign) else [n.target]
            for t in tg:
                if isinstance(t, ast.Name) and t.id in pykeys:
                    raise Untranslatable('class-level assignment rebinds the method %s' % t.id)
    names = [n.name for n in cls.body if isinstance(n, ast.FunctionDef)]
    for k in pykeys:
        if names.count(k) > 1:
            raise Untranslatable('method %s is defined twice' % k)
    # utils: check_direction is translated; the mapped helpers must be the pinned ones
    ufuncs = {}
    useen = {}
    for n in utree.body:
        if isinstance(n, ast.FunctionDef):
            if n.name in ufuncs:
                raise Untranslatable('utils: %s is defined twice' % n.name)
            ufuncs[n.name] = n
        elif isinstance(n, ast.ImportFrom):
            for a in n.names:
                useen[a.asname or a.name] = (n.module, a.name)
        elif isinstance(n, ast.Try):
            for x in ast.walk(n):
                if isinstance(x, ast.ImportFrom):
                    for a in x.names:
                        useen[a.asname or a.name] = (x.module, a.name)
        elif isinstance(n, (ast.Assign, ast.AugAssign, ast.AnnAssign)):
            tg = n.targets if isinstance(n, ast.Assign) else [n.target]
            for t in tg:
                if isinstance(t, ast.Name) and t.id in PINNED_UTILS + ('check_direction', 'rotation_matrix', 'check_section', 'sections'):
                    raise Untranslatable('utils: module-level assignment rebinds %s' % t.id)
    if useen.get('Sized', (None, None))[1] != 'Sized' or useen['Sized'][0] not in ('collections.abc', 'collections'):
        raise Untranslatable('utils: Sized is not collections.abc.Sized')
    for k in PINNED_UTILS:
        if k not in ufuncs:
            raise Untranslatable('utils.%s not found' % k)
        if ufuncs[k].decorator_list or fn_digest(ufuncs[k]) != PINNED_DIGEST[k]:
            raise Untranslatable('utils.%s differs from the pinned source its Lean primitive models' % k)
    if 'check_direction' not in ufuncs or ufuncs['check_direction'].decorator_list:
        raise Untranslatable('utils.check_direction not found')
    PIN_ERR.clear()
    for k in PINNED_SRC_OPT:
        if k not in ufuncs:
            PIN_ERR[k] = 'utils.%s not found' % k
        elif ufuncs[k].decorator_list or fn_digest(ufuncs[k]) != PINNED_DIGEST[k]:
            PIN_ERR[k] = 'utils.%s differs from the pinned source its Lean primitive models' % k
    for nm in ('combinations', 'product'):
        if useen.get(nm) != ('itertools', nm):
            PIN_ERR['sections'] = 'utils: %s is not itertools.%s' % (nm, nm)
    return funcs, ufuncs


def translate(src, utils_src, only=None, stub=()):
    """Returns {'lean': text, 'methods': {key: {'ok', 'detail', 'lean_name', 'lines', 'python', 'calls'}}, 'digest'}."""
    tree = ast.parse(src)
    utree = ast.parse(utils_src)
    cls = find_class(tree)
    env_err = None
    funcs, ufuncs = {}, {}
    try:
        funcs, ufuncs = check_module_env(tree, cls, utree)
    except Untranslatable as e:
        env_err = str(e)
    fns = {n.name: n for n in cls.body if isinstance(n, ast.FunctionDef)}
    methods = {}
    parts = [HEADER]
    nlines = HEADER.count('\n')
    floor_users = set()
    failed = set()
    for key in (only or ORDER):
        sig = SIGS[key]
        info = {'lean_name': lean_name(key), 'ok': False, 'detail': '', 'lines': None, 'python': py_name(key), 'calls': []}
        methods[key] = info
        if key in stub:
            info['detail'] = 'generated definition left out (did not elaborate)'
            failed.add(key)
            continue
        if env_err:
            info['detail'] = env_err
            failed.add(key)
            continue
        node = {'method': fns, 'prop': fns, 'func': funcs, 'util': ufuncs}[sig['kind']].get(py_name(key))
        if node is None:
            info['detail'] = '%s not found' % py_name(key)
            failed.add(key)
            continue
        try:
            for pin in sig.get('pins') or ():
                if pin in PIN_ERR:
                    raise Untranslatable(PIN_ERR[pin])
            fn = OFn(key, node, floor_users)
            text = fn.run()
            bad = sorted(fn.calls & failed)
            if bad:
                raise Untranslatable('calls %s, which could not be translated' % ', '.join(bad))
        except Untranslatable as e:
            info['detail'] = 'outside the translated subset: %s' % e
            failed.add(key)
            parts.append('-- UNTRANSLATABLE %s: %s\n\n' % (lean_name(key), str(e).replace('\n', ' ')))
            nlines += 2
            continue
        if fn.uses_floor:
            floor_users.add(key)
        where = {'method': 'SplineObject.%s', 'prop': 'SplineObject.%s (property)', 'func': 'splineobject.%s',
                 'util': 'utils.%s'}[sig['kind']] % py_name(key)
        doc = '/-- `%s`. -/\n' % where
        chunk = doc + text + '\n\n'
        info.update(ok=True, detail='%d statements' % (sum(1 for n in ast.walk(node) if isinstance(n, ast.stmt)) - 1),
                    lines=(nlines + 1, nlines + chunk.count('\n')), floor=fn.uses_floor, calls=sorted(fn.calls))
        parts.append(chunk)
        nlines += chunk.count('\n')
    parts.append(FOOTER)
    digest = hashlib.sha256(('\n'.join(ast.dump(fns[n]) for n in sorted(fns))).encode()).hexdigest()[:16]
    return {'lean': ''.join(parts), 'methods': methods, 'digest': digest}


if __name__ == '__main__':
    import os
    import sys
    root = sys.argv[1] if len(sys.argv) > 1 else '/repo/splipy'
    r = translate(open(os.path.join(root, 'splineobject.py'), encoding='utf-8').read(),
                  open(os.path.join(root, 'utils', '__init__.py'), encoding='utf-8').read())
    print(r['lean'])
    for k, v in r['methods'].items():
        print('--', k, v['ok'], v['detail'], file=sys.stderr)
